package main

// Helpers of the C09 rule set: gates that are computed by module helpers or written as values of
// short-circuit expressions, nested abstract interpretation, field invariants.

import (
	"fmt"
	"go/ast"
	"go/constant"
	"go/token"
	"go/types"
	"regexp"
	"strings"

	"golang.org/x/tools/go/ssa"
)

// orAll lifts an edge selection to disjunctive edge labels: an edge labelled OR(a,b,…) — the value of a
// short-circuit expression that was materialised (`case x && y:`, `ok := x || y; if ok`) — is selected when every
// alternative is selected.
// Soundness: a cut set stands for "one of the accepted facts holds on this edge"; the edge OR(a,b) is passed only
// when a or b holds, so if both are accepted facts, one accepted fact holds on it.
func orAll(sel EdgeSel) EdgeSel {
	var rec func(l string, iff *ssa.If, truth bool, depth int) bool
	rec = func(l string, iff *ssa.If, truth bool, depth int) bool {
		if sel(l, iff, truth) {
			return true
		}
		if tw, ok := labelTwin(l); ok && sel(tw, iff, truth) {
			return true
		}
		if depth > 3 || !strings.HasPrefix(l, "OR(") {
			return false
		}
		op, alts := splitTopArgs(l)
		if op != "OR" || len(alts) < 2 {
			return false
		}
		for _, a := range alts {
			if !rec(a, iff, truth, depth+1) {
				return false
			}
		}
		return true
	}
	return func(l string, iff *ssa.If, truth bool) bool { return rec(l, iff, truth, 0) }
}

// ---- gates computed by module helpers ---------------------------------------------------------------------------

// gateCut is the result of c09GateCut.
type gateCut struct {
	cut   map[edgeKey]bool   // edges of the function on which one of the accepted facts holds
	n     int                // elementary gate edges found (in the function and in the helpers it relies on)
	tails map[*ssa.Call]bool // calls whose result the function forwards and whose own success needs an accepted fact
	sel   EdgeSel            // the selection (disjunctive labels included) in the frame of the function
}

// exitClass names the outcomes of a helper that an edge of the caller stands for.
type exitClass struct {
	errNil bool // the error result is nil (when the helper has one)
	k      int  // >= 0: boolean result k equals want
	want   bool
}

// edgeCall: the branch edge (cond == truth) is decided by the result of a call of a module function: which call, and
// which outcomes of the callee take this edge.
func edgeCall(w *World, cond ssa.Value, truth bool) (*ssa.Call, exitClass, bool) {
	for {
		u, ok := cond.(*ssa.UnOp)
		if !ok || u.Op != token.NOT {
			break
		}
		cond, truth = u.X, !truth
	}
	usable := func(c *ssa.Call) bool {
		g := staticCallee(c)
		return g != nil && g.Blocks != nil && w.IsProductFn(g) && len(c.Call.Args) == len(g.Params)
	}
	hasErr := func(c *ssa.Call) bool {
		r := c.Call.Signature().Results()
		return r.Len() > 0 && isErrorType(r.At(r.Len()-1).Type())
	}
	switch x := cond.(type) {
	case *ssa.BinOp:
		var o ssa.Value
		if isNilConst(x.Y) {
			o = x.X
		} else if isNilConst(x.X) {
			o = x.Y
		} else {
			return nil, exitClass{}, false
		}
		isNil := (x.Op == token.EQL && truth) || (x.Op == token.NEQ && !truth)
		if !isNil || !isErrorType(o.Type()) {
			return nil, exitClass{}, false
		}
		if c := callOf(o); c != nil && usable(c) {
			return c, exitClass{errNil: true, k: -1}, true
		}
	case *ssa.Call:
		if b, ok := x.Type().Underlying().(*types.Basic); ok && b.Kind() == types.Bool && usable(x) {
			return x, exitClass{k: 0, want: truth}, true
		}
	case *ssa.Extract:
		if b, ok := x.Type().Underlying().(*types.Basic); ok && b.Kind() == types.Bool {
			if c, ok := x.Tuple.(*ssa.Call); ok && usable(c) {
				return c, exitClass{errNil: hasErr(c), k: x.Index, want: truth}, true
			}
		}
	}
	return nil, exitClass{}, false
}

// frameSel rewrites the labels of the callee into the caller's frame before they are handed to the selection.
func frameSel(c *ssa.Call, sel EdgeSel) EdgeSel {
	g := staticCallee(c)
	names := make([]string, len(g.Params))
	descs := make([]string, len(g.Params))
	for i, p := range g.Params {
		names[i] = p.Name()
		descs[i] = desc(c.Call.Args[i])
	}
	return func(l string, iff *ssa.If, truth bool) bool { return sel(substParams(l, names, descs), iff, truth) }
}

// c09GateCut selects the edges of fn on which one of the accepted facts (sel, on canonical edge labels, disjunctive
// labels included) holds. Besides the edges labelled with such a fact, an edge that is decided by the result of a
// module helper is selected when, in the helper (labels rewritten into the caller's frame: parameters replaced by the
// arguments), the outcomes that take this edge are reachable only through selected edges.
// Soundness: if the helper can produce the outcome "error == nil" (or "result k == b") only along paths on which an
// accepted fact holds, then passing the caller's edge that tests for that outcome implies an accepted fact: the
// decision of the gate was moved into the helper, not dropped. A helper without any gate edge never qualifies (n > 0).
func c09GateCut(w *World, fn *ssa.Function, sel EdgeSel, depth int) gateCut {
	return c09GateCutQ(w, fn, sel, nil, depth)
}

// c09GateCutQ is c09GateCut with, besides the accepted facts on edges, accepted facts about every element of a list
// (q, see c09Quant): the edges on which such a universal fact is established are selected as well, in the function and
// in the helpers it relies on.
func c09GateCutQ(w *World, fn *ssa.Function, sel EdgeSel, q *c09Quant, depth int) gateCut {
	fi := w.Info(fn)
	osel := orAll(sel)
	gc := gateCut{cut: map[edgeKey]bool{}, tails: map[*ssa.Call]bool{}, sel: osel}
	memo := map[*ssa.Call]map[exitClass]int{} // -1: not blocked, else number of gate edges
	blockedIn := func(c *ssa.Call, cl exitClass) int {
		if m, ok := memo[c]; ok {
			if r, ok := m[cl]; ok {
				return r
			}
		} else {
			memo[c] = map[exitClass]int{}
		}
		g := staticCallee(c)
		sub := c09GateCutQ(w, g, frameSelQ(c, sel, q), q.enter(c), depth-1)
		r := -1
		if sub.n > 0 && !c09ExitReachable(w, g, sub, cl) {
			r = sub.n
		}
		memo[c][cl] = r
		return r
	}
	for _, b := range fn.Blocks {
		iff, ok := blockTerm(b).(*ssa.If)
		if !ok || len(b.Succs) != 2 {
			continue
		}
		for j := 0; j < 2; j++ {
			if osel(condLabel(iff.Cond, j == 0), iff, j == 0) {
				gc.cut[edgeKey{b.Index, j}] = true
				gc.n++
				continue
			}
			if depth <= 0 {
				continue
			}
			if c, cl, ok := edgeCall(w, iff.Cond, j == 0); ok {
				if n := blockedIn(c, cl); n > 0 {
					gc.cut[edgeKey{b.Index, j}] = true
					gc.n += n
				}
			}
		}
	}
	// `return a || b`: the answer handed back is itself an accepted fact (or its negation)
	for _, b := range fn.Blocks {
		if r, ok := blockTerm(b).(*ssa.Return); ok {
			for _, v := range r.Results {
				if bt, isB := v.Type().Underlying().(*types.Basic); !isB || bt.Kind() != types.Bool {
					continue
				}
				if _, isConst := v.(*ssa.Const); !isConst && (osel(condLabel(v, true), nil, true) || osel(condLabel(v, false), nil, false)) {
					gc.n++
				}
			}
		}
	}
	if depth > 0 {
		// `return helper(…)`: the exit succeeds iff the helper does
		for _, b := range fn.Blocks {
			r, ok := blockTerm(b).(*ssa.Return)
			if !ok || len(r.Results) == 0 {
				continue
			}
			last := r.Results[len(r.Results)-1]
			var cands []ssa.Value
			if p, ok := last.(*ssa.Phi); ok && p.Block() == b {
				cands = p.Edges
			} else {
				cands = []ssa.Value{last}
			}
			for _, v := range cands {
				if !isErrorType(v.Type()) {
					continue
				}
				c := callOf(v)
				if c == nil {
					continue
				}
				// the forwarded call's own "no error" is an accepted fact: the exit succeeds only if that fact holds
				if osel("EQ("+descTailErr(c)+",nil)", nil, true) {
					gc.tails[c] = true
					gc.n++
					continue
				}
				g := staticCallee(c)
				if g == nil || g.Blocks == nil || !w.IsProductFn(g) || len(c.Call.Args) != len(g.Params) {
					continue
				}
				if n := blockedIn(c, exitClass{errNil: true, k: -1}); n > 0 {
					gc.tails[c] = true
					gc.n += n
				}
			}
		}
	}
	c09Universal(w, fn, sel, q, depth, &gc)
	_ = fi
	return gc
}

// c09ExitReachable: with the edges of gc removed, can fn still leave with an outcome of the class?
func c09ExitReachable(w *World, fn *ssa.Function, gc gateCut, cl exitClass) bool {
	fi := w.Info(fn)
	if cl.k < 0 {
		return c09Witness(fi, Mode{Kind: mErr}, entryState(), gc) != nil
	}
	for st := range fi.reach(entryState(), gc.cut) {
		b := fn.Blocks[st.b]
		r, ok := blockTerm(b).(*ssa.Return)
		if !ok || cl.k >= len(r.Results) {
			continue
		}
		if cl.errNil {
			c, tail, _, _ := fi.classify(r, state{st.b, fi.through(b, st.m), st.p}, Mode{Kind: mErr})
			if c == clFail || (tail != nil && gc.tails[tail]) {
				continue
			}
		}
		v := r.Results[cl.k]
		if p, ok := v.(*ssa.Phi); ok && p.Block() == b && st.p >= 0 && st.p < len(p.Edges) {
			v = p.Edges[st.p]
		}
		if k, ok := v.(*ssa.Const); ok && k.Value != nil && k.Value.Kind() == constant.Bool && constant.BoolVal(k.Value) != cl.want {
			continue // this exit delivers the other answer
		}
		if _, isConst := v.(*ssa.Const); !isConst && gc.sel != nil && gc.sel(condLabel(v, cl.want), nil, cl.want) {
			continue // the value handed back is itself the accepted fact (`return a || b`): it is `want` only if the fact holds
		}
		return true
	}
	return false
}

// c09Witness is successWitness with the forwarded calls of gc not counted as success exits.
func c09Witness(fi *FnInfo, mode Mode, starts []state, gc gateCut, more ...map[edgeKey]bool) []string {
	cut := map[edgeKey]bool{}
	for e := range gc.cut {
		cut[e] = true
	}
	for _, m := range more {
		for e := range m {
			cut[e] = true
		}
	}
	saved := fi.ignoreTail
	if len(gc.tails) > 0 {
		fi.ignoreTail = gc.tails
	}
	wit := fi.successWitness(mode, starts, cut)
	fi.ignoreTail = saved
	return wit
}

const c09Depth = 3

// exitsBlockedDeep is exitsBlocked with gates that may sit in module helpers (see c09GateCut).
func exitsBlockedDeep(w *World, fn *ssa.Function, mode Mode, sel EdgeSel) (bool, int, []string) {
	gc := c09GateCut(w, fn, sel, c09Depth)
	wit := c09Witness(w.Info(fn), mode, entryState(), gc)
	return wit == nil, gc.n, wit
}

// iterBlockedDeep is iterBlocked with gates that may sit in module helpers.
func iterBlockedDeep(w *World, fn *ssa.Function, l *loopRef, mode Mode, sel EdgeSel) (bool, int) {
	fi := w.Info(fn)
	gc := c09GateCut(w, fn, sel, c09Depth)
	if fi.reachHit([]state{{l.Body.Index, 0, -1}}, gc.cut, map[int]bool{l.Header.Index: true}) {
		return false, gc.n
	}
	if c09Witness(fi, mode, []state{{l.Body.Index, 0, -1}}, gc, backEdges(l.Header)) != nil {
		return false, gc.n
	}
	return true, gc.n
}

// fnByFullName resolves the printed name of a module function (as it appears in a label) to the function.
func fnByFullName(w *World, name string) *ssa.Function {
	for _, f := range w.Funcs {
		if f.Blocks != nil && fnName(f) == name {
			return f
		}
	}
	return nil
}

// ---- an effect that every successful run performs ------------------------------------------------------------

// c09Frame relates a function frame reached through calls of module helpers to the outermost frame under analysis.
type c09Frame struct {
	sub func(string) string       // renderings / labels rewritten into the outermost frame (parameters replaced by arguments)
	top func(ssa.Value) ssa.Value // the value of the outermost frame a value stands for (a parameter: the argument); nil for a helper's local
}

func c09TopFrame() c09Frame {
	return c09Frame{sub: func(s string) string { return s }, top: func(v ssa.Value) ssa.Value { return v }}
}

// enter: the frame of the static callee of call (which must have as many arguments as the callee has parameters).
func (fr c09Frame) enter(call *ssa.Call) c09Frame {
	g := staticCallee(call)
	names := make([]string, len(g.Params))
	descs := make([]string, len(g.Params))
	tops := map[ssa.Value]ssa.Value{}
	for i, p := range g.Params {
		names[i] = p.Name()
		descs[i] = fr.sub(desc(call.Call.Args[i]))
		tops[p] = fr.top(call.Call.Args[i])
	}
	return c09Frame{
		sub: func(s string) string { return substParams(s, names, descs) },
		top: func(v ssa.Value) ssa.Value { return tops[v] },
	}
}

func c09Helper(w *World, call *ssa.Call) *ssa.Function {
	g := staticCallee(call)
	if g == nil || g.Blocks == nil || !w.IsProductFn(g) || len(call.Call.Args) != len(g.Params) {
		return nil
	}
	return g
}

// c09VisitCalls visits the calls of fn and, through calls of module helpers, theirs (with their frames).
func c09VisitCalls(w *World, fn *ssa.Function, fr c09Frame, depth int, visit func(call *ssa.Call, fr c09Frame)) {
	for _, ci := range allCalls(fn) {
		call, ok := ci.(*ssa.Call)
		if !ok {
			continue
		}
		visit(call, fr)
		if g := c09Helper(w, call); g != nil && depth > 0 {
			c09VisitCalls(w, g, fr.enter(call), depth-1, visit)
		}
	}
}

// c09EffectBlocks returns the blocks of fn in which the effect described by pred certainly happens: a call satisfying
// pred, or a call of a module helper whose every success exit lies behind such a block, provided the helper's success
// is required afterwards (need reports whether the fact "this call returned no error", in the frame of fn, is among
// the must-pass facts of the region under analysis).
func c09EffectBlocks(w *World, fn *ssa.Function, fr c09Frame, pred func(call *ssa.Call, fr c09Frame) bool, need func(label string) bool, depth int) map[*ssa.BasicBlock]bool {
	return c09EffectBlocksI(w, fn, fr, func(in ssa.Instruction, fr c09Frame) bool {
		call, ok := in.(*ssa.Call)
		return ok && pred(call, fr)
	}, need, depth)
}

// c09EffectBlocksI is c09EffectBlocks for an effect that may be any instruction (a call, a map update).
func c09EffectBlocksI(w *World, fn *ssa.Function, fr c09Frame, pred func(in ssa.Instruction, fr c09Frame) bool, need func(label string) bool, depth int) map[*ssa.BasicBlock]bool {
	out := map[*ssa.BasicBlock]bool{}
	for _, blk := range fn.Blocks {
		for _, in := range blk.Instrs {
			if pred(in, fr) {
				out[blk] = true
				continue
			}
			call, ok := in.(*ssa.Call)
			if !ok {
				continue
			}
			g := c09Helper(w, call)
			if depth <= 0 || g == nil {
				continue
			}
			r := g.Signature.Results()
			if r.Len() == 0 || !isErrorType(r.At(r.Len()-1).Type()) {
				continue
			}
			if need != nil && !need("EQ("+descTailErr(call)+",nil)") {
				continue
			}
			// inside the helper every success exit must lie behind the effect; its own helpers are on the way to its
			// success exits only if their success edge is must-pass there
			gs := w.Summarize(g, Mode{Kind: mErr})
			gneed := func(l string) bool {
				if len(gs.Exits) == 0 {
					return false
				}
				for _, ex := range gs.Exits {
					if !labelHas(ex.Checked, l) {
						return false
					}
				}
				return true
			}
			inner := c09EffectBlocksI(w, g, fr.enter(call), pred, gneed, depth-1)
			if len(inner) == 0 {
				continue
			}
			gi := w.Info(g)
			cut := map[edgeKey]bool{}
			entryHas := false
			for b := range inner {
				if b.Index == 0 {
					entryHas = true
				}
				cutInto(gi, b, cut)
			}
			if entryHas || gi.successWitness(Mode{Kind: mErr}, entryState(), cut) == nil {
				out[blk] = true
			}
		}
	}
	return out
}

// c09VisitFrames visits fn and, through calls of module helpers, their callees, each with its frame.
func c09VisitFrames(w *World, fn *ssa.Function, fr c09Frame, depth int, visit func(f *ssa.Function, fr c09Frame)) {
	visit(fn, fr)
	if depth <= 0 {
		return
	}
	for _, ci := range allCalls(fn) {
		if call, ok := ci.(*ssa.Call); ok {
			if g := c09Helper(w, call); g != nil {
				c09VisitFrames(w, g, fr.enter(call), depth-1, visit)
			}
		}
	}
}

// c09ListSources walks a slice value back through phis and appends: the appends that feed it, and whether nothing
// else does (it starts empty — nil or make(_, 0, _) — and only grows: no re-slicing, no other origin).
func c09ListSources(L ssa.Value) (appends []*ssa.Call, grownOnly bool) {
	seen := map[ssa.Value]bool{}
	grownOnly = true
	var walk func(v ssa.Value)
	walk = func(v ssa.Value) {
		if seen[v] {
			return
		}
		seen[v] = true
		switch x := v.(type) {
		case *ssa.Phi:
			for _, e := range x.Edges {
				walk(e)
			}
		case *ssa.Const:
			if !x.IsNil() {
				grownOnly = false
			}
		case *ssa.MakeSlice:
			if k, ok := x.Len.(*ssa.Const); !ok || k.Value == nil || k.Value.ExactString() != "0" {
				grownOnly = false
			}
		case *ssa.Call:
			if bi, ok := x.Call.Value.(*ssa.Builtin); ok && bi.Name() == "append" && len(x.Call.Args) == 2 {
				appends = append(appends, x)
				walk(x.Call.Args[0])
				return
			}
			grownOnly = false
		default:
			grownOnly = false
		}
	}
	walk(L)
	return appends, grownOnly
}

// ---- override rules (GetVerificationLevel) -------------------------------------------------------------------

// c09Custom: the override rules are decided by the rule of C02 (c02Custom); the disjunctive one — an override to
// skip is stored only for revocation — is decided here, with the same cut-set argument, on a cut set that also
// understands a materialised short-circuit value (`case a == skip && t != revocation:`) and a helper that resolves
// the override entry (`t, a, err := resolve(k, v); if err != nil { return }; m[t] = a`).
func c09Custom(c *Ctx) {
	const key = "custom/skip-only-revocation"
	sub := NewCtx(c.W, c.Prop, c.Tier)
	c02Custom(sub)
	c.Evals += sub.Evals
	for f := range sub.FnSeen {
		c.FnSeen[f] = true
	}
	found := false
	for _, o := range sub.Obls {
		k := strings.TrimPrefix(o.Key, c.Prop+"/")
		if k == key {
			found = true
			continue
		}
		c.add(&Obligation{Key: k, Rule: o.Rule, Status: o.Status, Site: o.Site, Detail: o.Detail, Path: o.Path})
	}
	if !found {
		return // the anchors were not found: reported by the rule of C02 above
	}
	w := c.W
	fn := w.Method("verifier/trustpolicy", "SignatureVerification", "GetVerificationLevel")
	fi := w.Info(fn)
	tr, _ := w.constString("verifier/trustpolicy", "TypeRevocation")
	as, _ := w.constString("verifier/trustpolicy", "ActionSkip")
	var ov *ssa.MapUpdate
	for _, b := range fn.Blocks {
		for _, in := range b.Instrs {
			if mu, ok := in.(*ssa.MapUpdate); ok {
				kd, vd := desc(mu.Key), desc(mu.Value)
				if strings.Contains(kd, ".Enforcement)") && strings.Contains(vd, ".Enforcement)") {
					continue
				}
				ov = mu
			}
		}
	}
	rule := "effect-site gate (disjunctive): the override store is reachable only if type == revocation or action != skip"
	if ov == nil {
		c.Unk(key, rule, w.FnPos(fn), "override store not found")
		return
	}
	// The stored key/value are rendered in the frame of this function; when they are results of a resolving helper
	// that hands back one expression on every value-delivering exit, the rendering is that expression, and the
	// helper's edges on it are compared in the same terms (c09GateCut rewrites its parameters to the arguments).
	kd, vd := desc(ov.Key), desc(ov.Value)
	gc := c09GateCut(w, fn, anyOf("EQ("+kd+fmt.Sprintf(",const:%q)", tr), "NE("+vd+fmt.Sprintf(",const:%q)", as)), c09Depth)
	reach := fi.reachHit(entryState(), gc.cut, blocksOf(ov))
	c.Evals++
	c.Check(gc.n > 0 && !reach, key, rule, w.InstrPos(ov), "an override to skip can be stored for a type other than revocation")
}

// ---- compiled constant patterns ---------------------------------------------------------------------------------

// c09RegexpPattern: v is a *regexp.Regexp that is the compilation of a constant pattern:
//   - regexp.MustCompile(const) in place;
//   - a load of a struct field F of a module type T (invariant of the field: every store to T.F anywhere in the module
//     stores such a compilation of one and the same constant, and the address of the field is only loaded from or
//     stored to directly — so any T.F read anywhere is that compiled pattern, or nil in a zero T, on which MatchString
//     panics instead of answering true);
//   - a load of a package-level variable under the same invariant.
func c09RegexpPattern(w *World, v ssa.Value, depth int) (string, bool) {
	if depth > 2 {
		return "", false
	}
	switch x := v.(type) {
	case *ssa.Call:
		if calleeName(x) == "regexp.MustCompile" && len(x.Call.Args) == 1 {
			if k, ok := x.Call.Args[0].(*ssa.Const); ok && k.Value != nil && k.Value.Kind() == constant.String {
				return constant.StringVal(k.Value), true
			}
		}
	case *ssa.UnOp:
		if x.Op != token.MUL {
			return "", false
		}
		var same func(addr ssa.Value) bool
		switch a := x.X.(type) {
		case *ssa.FieldAddr:
			tn := namedOf(a.X.Type())
			// only the module can write the field: module type, and the type or the field is unexported
			if !strings.HasPrefix(tn, "ngo/") || (token.IsExported(tn[strings.LastIndex(tn, ".")+1:]) && token.IsExported(fieldName(a.X.Type(), a.Field))) {
				return "", false
			}
			same = func(addr ssa.Value) bool {
				fa, ok := addr.(*ssa.FieldAddr)
				return ok && fa.Field == a.Field && namedOf(fa.X.Type()) == tn
			}
		case *ssa.Global:
			if a.Pkg == nil || !w.IsProductPkg(a.Pkg.Pkg.Path()) || token.IsExported(a.Name()) {
				return "", false
			}
			same = func(addr ssa.Value) bool { return addr == ssa.Value(a) }
		default:
			return "", false
		}
		pat, n := "", 0
		for _, f := range w.Funcs {
			for _, b := range f.Blocks {
				for _, in := range b.Instrs {
					if st, ok := in.(*ssa.Store); ok && same(st.Addr) {
						p, ok := c09RegexpPattern(w, st.Val, depth+1)
						if !ok || (n > 0 && p != pat) {
							return "", false
						}
						pat = p
						n++
						continue
					}
					if _, isLoad := in.(*ssa.UnOp); isLoad {
						continue
					}
					if _, isDbg := in.(*ssa.DebugRef); isDbg {
						continue
					}
					// any other use of the address (taken, passed on, stored) breaks the invariant
					for _, op := range in.Operands(nil) {
						if *op != nil && same(*op) {
							return "", false
						}
					}
				}
			}
		}
		return pat, n > 0
	}
	return "", false
}

// ---- decision table of the blob statement loop: abstract inputs, helpers interpreted ---------------------------

// c09GlobalHook supplies the abstract inputs of the global-statement rules to the interpreter of one function frame:
//   - loads whose access path (rewritten into the frame of the document validator by `frame`) is one of the inputs
//     yield the input's abstract value; LevelSkip.Name yields "skip";
//   - the other rules are stubbed to pass (name set lookup false, error results nil), errors.New / fmt.Errorf are non-nil;
//   - a module helper (single error or boolean result) that is handed the flag or (a part of) the statement the inputs
//     are read from is interpreted in a nested frame with the same hook: its answer is "non-nil error" only if every
//     abstract path through it ends in a non-nil error — otherwise it is treated like any stubbed rule (passes).
//
// Soundness: stubbing to "pass" and answering "pass" for a helper whose abstract paths disagree can only add accepted
// iterations; the table demands a rejection for every input that violates the rule, so an acceptance that the real
// code does not have costs a false alarm, never a missed one. A helper is answered "fails" only when all its abstract
// paths (a superset of the concrete ones for these inputs) fail.
func c09GlobalHook(c *Ctx, ip *Interp, frame func(string) string, inputs []string, input func(d string) (AVal, bool), depth int) func(in ssa.Instruction, env map[ssa.Value]AVal) (AVal, bool) {
	return func(in ssa.Instruction, env map[ssa.Value]AVal) (AVal, bool) {
		v, ok := in.(ssa.Value)
		if !ok {
			return AVal{}, false
		}
		switch x := in.(type) {
		case *ssa.UnOp, *ssa.Field:
			d := frame(desc(v))
			if a, ok := input(d); ok {
				return a, true
			}
			if strings.HasSuffix(d, "global:ngo/verifier/trustpolicy.LevelSkip.Name") {
				return AVal{Kind: aStr, Str: "skip"}, true
			}
		case *ssa.Call:
			n := calleeName(x)
			if strings.HasSuffix(n, "container.Set[T]).Contains") {
				return AVal{Kind: aBool, B: false}, true
			}
			if n == "errors.New" || n == "fmt.Errorf" {
				return AVal{Kind: aNonNil}, true
			}
			if n == "reflect.DeepEqual" {
				// comparable only if both operands have the same static type; a string against *VerificationLevel is never equal
				a, b := unwrap(x.Call.Args[0]), unwrap(x.Call.Args[1])
				if !types.Identical(a.Type(), b.Type()) {
					return AVal{Kind: aBool, B: false}, true
				}
			}
			if a, ok := c09Nested(c, ip, x, env, frame, inputs, input, depth); ok {
				return a, true
			}
		case *ssa.Extract:
			if isErrorType(x.Type()) {
				return AVal{Kind: aNil}, true
			}
		}
		if call, ok := in.(*ssa.Call); ok && isErrorType(call.Type()) {
			return AVal{Kind: aNil}, true
		}
		return AVal{}, false
	}
}

func c09Nested(c *Ctx, ip *Interp, call *ssa.Call, env map[ssa.Value]AVal, frame func(string) string, inputs []string, input func(d string) (AVal, bool), depth int) (AVal, bool) {
	w := c.W
	g := staticCallee(call)
	if depth >= 3 || g == nil || g.Blocks == nil || !w.IsProductFn(g) || len(call.Call.Args) != len(g.Params) {
		return AVal{}, false
	}
	res := g.Signature.Results()
	if res.Len() != 1 {
		return AVal{}, false
	}
	isErr := isErrorType(res.At(0).Type())
	if b, ok := res.At(0).Type().Underlying().(*types.Basic); !isErr && !(ok && b.Kind() == types.Bool) {
		return AVal{}, false
	}
	names := make([]string, len(g.Params))
	descs := make([]string, len(g.Params))
	env2 := map[ssa.Value]AVal{}
	relevant := false
	for i, p := range g.Params {
		a := call.Call.Args[i]
		names[i], descs[i] = p.Name(), frame(desc(a))
		if av := ip.val(a, env); av.Kind != aTop {
			env2[p] = av
			if _, isConst := a.(*ssa.Const); !isConst && av.Kind == aBool {
				relevant = true // the flag, or a value computed from the inputs
			}
		}
		for _, t := range inputs {
			if t == descs[i] || (strings.HasPrefix(t, descs[i]) && strings.ContainsAny(t[len(descs[i]):len(descs[i])+1], ".[")) {
				relevant = true // (a part of) the statement the inputs are read from
			}
		}
	}
	if !relevant {
		return AVal{}, false
	}
	ip2 := &Interp{Fn: g, TrackStrings: true, IntTypes: map[string]bool{}, MaxPaths: 2000}
	ip2.Hook = c09GlobalHook(c, ip2, func(s string) string { return substParams(s, names, descs) }, inputs, input, depth+1)
	outs := ip2.Run(g.Blocks[0], nil, env2, nil, nil)
	ip.Steps += ip2.Steps
	if ip2.Overflow || len(outs) == 0 {
		return AVal{}, false
	}
	if isErr {
		for _, o := range outs {
			if o.Panic {
				continue
			}
			if o.Ret == nil || len(o.Ret.Results) != 1 || ip2.val(o.Ret.Results[0], o.Env).Kind != aNonNil {
				return AVal{Kind: aNil}, true
			}
		}
		return AVal{Kind: aNonNil}, true
	}
	var ans *bool
	for _, o := range outs {
		if o.Panic {
			continue
		}
		if o.Ret == nil || len(o.Ret.Results) != 1 {
			return top, true
		}
		a := ip2.val(o.Ret.Results[0], o.Env)
		if a.Kind != aBool || (ans != nil && *ans != a.B) {
			return top, true
		}
		b := a.B
		ans = &b
	}
	if ans == nil {
		return top, true
	}
	return AVal{Kind: aBool, B: *ans}, true
}

// ---- file-name validator written as a loop over the bytes ----------------------------------------------------------

// c09ByteLoopValidator certifies one true-exit of a string validator that does not use a pattern:
//   - the exit lies behind the facts name != "", name != ".", name != ".." (ex.Checked);
//   - the exit is reachable only through the exit edge of an index loop over all bytes of the name
//     (i starts at 0, is only ever incremented by 1, the loop runs while i < len(name));
//   - for each forbidden byte ('/', '\\', NUL): with name[i] being that byte, every abstract path through the loop body
//     (helpers with one integer parameter and a boolean result interpreted) ends in `return false` — the iteration
//     neither completes nor leaves with another answer.
//
// Hence an accepted name is non-empty, not dot-only, and each of its bytes passed an iteration, so none is forbidden:
// the same language property the pattern walk establishes.
func c09ByteLoopValidator(w *World, fn *ssa.Function, ex *ExitSum) (bool, string) {
	if len(fn.Params) != 1 {
		return false, "not a function of the name alone"
	}
	prm := fn.Params[0]
	p := "param:" + prm.Name()
	for _, word := range []string{"", ".", ".."} {
		if !labelHas(ex.Checked, fmt.Sprintf("NE(%s,const:%q)", p, word)) {
			return false, fmt.Sprintf("the name %q is not excluded by an explicit comparison", word)
		}
	}
	fi := w.Info(fn)
	why := "no loop over all bytes of the name stands before this exit"
	for _, h := range fn.Blocks {
		iff, ok := blockTerm(h).(*ssa.If)
		if !ok || len(h.Succs) != 2 {
			continue
		}
		bo, ok := iff.Cond.(*ssa.BinOp)
		if !ok || bo.Op != token.LSS || desc(bo.Y) != "len("+p+")" {
			continue
		}
		idx, ok := bo.X.(*ssa.Phi)
		if !ok || idx.Block() != h {
			continue
		}
		inLoop := loopBlocks(h)
		okIdx := len(idx.Edges) >= 2
		for i, e := range idx.Edges {
			if inLoop[h.Preds[i].Index] && h.Preds[i] != h {
				inc, isInc := e.(*ssa.BinOp)
				k, isK := (ssa.Value)(nil), false
				if isInc {
					k, isK = inc.Y, true
				}
				if !isInc || inc.Op != token.ADD || inc.X != ssa.Value(idx) || !isK || desc(k) != "const:1" {
					okIdx = false
				}
			} else if desc(e) != "const:0" {
				okIdx = false
			}
		}
		if !okIdx {
			why = "the loop index does not run over every position (start 0, step 1)"
			continue
		}
		// the exit lies behind the loop's exit edge
		cut := map[edgeKey]bool{{h.Index, 1}: true}
		behind := true
		for st := range fi.reach(entryState(), cut) {
			if st.b == ex.Ret.Block().Index && (ex.Pred < 0 || st.p == ex.Pred) {
				behind = false
			}
		}
		if !behind {
			why = "the exit can be reached without leaving the byte loop through its end"
			continue
		}
		// forbidden bytes end the function with false
		bad := ""
		for _, k := range []int64{'/', '\\', 0} {
			ip := &Interp{Fn: fn, IntTypes: map[string]bool{"*": true}, TrackStrings: false, MaxPaths: 5000}
			ip.Hook = c09ByteHook(w, ip, prm, idx, k, 0)
			outs := ip.Run(h.Succs[0], h, map[ssa.Value]AVal{}, map[*ssa.BasicBlock]bool{h: true}, nil)
			if ip.Overflow || len(outs) == 0 {
				bad = "undecided"
			}
			for _, o := range outs {
				if o.Panic {
					continue
				}
				if o.Ret == nil || len(o.Ret.Results) != 1 {
					bad = fmt.Sprintf("%q", rune(k))
					continue
				}
				if a := ip.val(o.Ret.Results[0], o.Env); a.Kind != aBool || a.B {
					bad = fmt.Sprintf("%q", rune(k))
				}
			}
		}
		if bad != "" {
			why = "the byte loop admits " + bad
			continue
		}
		return true, ""
	}
	return false, why
}

// c09ByteHook: name[i] is the byte k; helpers of one integer argument with a boolean result are interpreted.
func c09ByteHook(w *World, ip *Interp, name ssa.Value, idx ssa.Value, k int64, depth int) func(in ssa.Instruction, env map[ssa.Value]AVal) (AVal, bool) {
	return func(in ssa.Instruction, env map[ssa.Value]AVal) (AVal, bool) {
		switch x := in.(type) {
		case *ssa.Lookup:
			if name != nil && x.X == name && x.Index == idx {
				return AVal{Kind: aInt, Int: k}, true
			}
		case *ssa.Index:
			if name != nil && x.X == name && x.Index == idx {
				return AVal{Kind: aInt, Int: k}, true
			}
		case *ssa.Call:
			g := c09Helper(w, x)
			if g == nil || depth >= 2 || len(g.Params) != 1 || g.Signature.Results().Len() != 1 {
				return AVal{}, false
			}
			if b, ok := g.Signature.Results().At(0).Type().Underlying().(*types.Basic); !ok || b.Kind() != types.Bool {
				return AVal{}, false
			}
			a := ip.val(x.Call.Args[0], env)
			if a.Kind != aInt {
				return AVal{}, false
			}
			ip2 := &Interp{Fn: g, IntTypes: map[string]bool{"*": true}, MaxPaths: 2000}
			ip2.Hook = c09ByteHook(w, ip2, nil, nil, 0, depth+1)
			outs := ip2.Run(g.Blocks[0], nil, map[ssa.Value]AVal{g.Params[0]: a}, nil, nil)
			ip.Steps += ip2.Steps
			if ip2.Overflow || len(outs) == 0 {
				return top, true
			}
			var ans *bool
			for _, o := range outs {
				if o.Ret == nil || len(o.Ret.Results) != 1 {
					return top, true
				}
				r := ip2.val(o.Ret.Results[0], o.Env)
				if r.Kind != aBool || (ans != nil && *ans != r.B) {
					return top, true
				}
				b := r.B
				ans = &b
			}
			return AVal{Kind: aBool, B: *ans}, true
		}
		return AVal{}, false
	}
}

// ---- the element of the current iteration, held directly or in a read-only local copy ------------------------------

// c09OnlyRead: the address (or pointer) v is only ever read through: loaded, its fields / elements addressed and read in
// turn, or handed to module functions that in turn only read through the corresponding parameter. Any store through it,
// any store of it, any capture, any other use answers false.
// (A cycle of mutually recursive readers is read-only if none of them writes: the assumption made for a function under
// analysis is only ever discharged by finding no write.)
func c09OnlyRead(w *World, v ssa.Value, whole *ssa.Store, depth int, busy map[ssa.Value]bool) bool {
	if depth > 6 {
		return false
	}
	if busy[v] {
		return true
	}
	busy[v] = true
	refs := v.Referrers()
	if refs == nil {
		return true
	}
	for _, r := range *refs {
		switch x := r.(type) {
		case *ssa.DebugRef:
		case *ssa.UnOp:
			if x.Op != token.MUL {
				return false
			}
		case *ssa.FieldAddr:
			if !c09OnlyRead(w, x, nil, depth+1, busy) {
				return false
			}
		case *ssa.IndexAddr:
			if x.X != v || !c09OnlyRead(w, x, nil, depth+1, busy) {
				return false
			}
		case *ssa.Store:
			if x != whole {
				return false
			}
		case *ssa.Call:
			g := c09Helper(w, x)
			if g == nil || x.Call.Value == v {
				return false
			}
			for i, a := range x.Call.Args {
				if a == v && !c09OnlyRead(w, g.Params[i], nil, depth+1, busy) {
					return false
				}
			}
		default:
			// rendered into a log line or an error text: not a use (rules_util.go: onlyFormatted)
			if !onlyFormatted(r, 0) {
				return false
			}
		}
	}
	return true
}

// c09ReadOnlyCopy: the local variable a holds one value for its whole life — it is written by exactly one Store of a whole
// value and is otherwise only read (c09OnlyRead), also by the module functions its address is handed to (a method with
// a pointer receiver called on a loop variable makes the variable addressable; that does not make it mutable).
// Returns the store. Every read of (a field of) the variable that the store dominates yields (that field of) the value stored.
func c09ReadOnlyCopy(w *World, a *ssa.Alloc) *ssa.Store {
	refs := a.Referrers()
	if refs == nil {
		return nil
	}
	var st *ssa.Store
	for _, r := range *refs {
		if s, ok := r.(*ssa.Store); ok {
			if s.Addr != ssa.Value(a) || s.Val == ssa.Value(a) || st != nil {
				return nil
			}
			st = s
		}
	}
	if st == nil || !c09OnlyRead(w, a, st, 0, map[ssa.Value]bool{}) {
		return nil
	}
	// no read before the store
	for _, r := range *refs {
		if r == ssa.Instruction(st) || r.Block() == nil {
			continue
		}
		if _, isDbg := r.(*ssa.DebugRef); isDbg {
			continue
		}
		if r.Block() == st.Block() {
			if instrIndex(r) < instrIndex(st) {
				return nil
			}
		} else if !st.Block().Dominates(r.Block()) {
			return nil
		}
	}
	return st
}

// c09ElemPath: v is (a field path into) the element of the current iteration of the loop l — the list element at the
// loop's own index, read in place (value or pointer to the element) or through a read-only local copy of it that is
// made in the loop (c09ReadOnlyCopy), whose rendering no other local of the functions in reach shares. Returns the
// field path (".RegistryScopes").
// Soundness: the facts the rules state about "the scopes of the statement" are stated on renderings; a rendering that
// goes through a local stands for the element only if the local holds the element whenever it is read.
func c09ElemPath(w *World, fn *ssa.Function, v ssa.Value, l *loopRef) (string, bool) {
	if l == nil || l.Idx == nil {
		return "", false
	}
	in := loopBlocks(l.Header)
	var walk func(v ssa.Value, depth int) (string, bool)
	walk = func(v ssa.Value, depth int) (string, bool) {
		if depth > 8 {
			return "", false
		}
		switch x := v.(type) {
		case *ssa.UnOp:
			if x.Op == token.MUL {
				return walk(x.X, depth+1)
			}
		case *ssa.FieldAddr:
			p, ok := walk(x.X, depth+1)
			return p + "." + fieldName(x.X.Type(), x.Field), ok
		case *ssa.Field:
			p, ok := walk(x.X, depth+1)
			return p + "." + fieldName(x.X.Type(), x.Field), ok
		case *ssa.IndexAddr:
			return "", x.Index == l.Idx && (x.X == l.X || desc(x.X) == desc(l.X))
		case *ssa.Index:
			return "", x.Index == l.Idx && (x.X == l.X || desc(x.X) == desc(l.X))
		case *ssa.Alloc:
			st := c09ReadOnlyCopy(w, x)
			if st == nil || st.Block() == nil || !in[st.Block().Index] || c09SameRendering(w, fn, x) != 1 {
				return "", false
			}
			return walk(st.Val, depth+1)
		case *ssa.Call:
			// an accessor: a module function that hands back, on every exit, one and the same field path of one parameter
			if g := c09Helper(w, x); g != nil {
				if k, p, ok := c09Accessor(g); ok {
					q, ok := walk(x.Call.Args[k], depth+1)
					return q + p, ok
				}
			}
		}
		return "", false
	}
	return walk(v, 0)
}

// c09Accessor: g has one result and every return hands back the same field path of the same parameter (read through
// loads and field selections only): g(…, x, …) is x<path>.
func c09Accessor(g *ssa.Function) (int, string, bool) {
	if g.Signature.Results().Len() != 1 {
		return 0, "", false
	}
	var walk func(v ssa.Value, depth int) (int, string, bool)
	walk = func(v ssa.Value, depth int) (int, string, bool) {
		if depth > 6 {
			return 0, "", false
		}
		switch x := v.(type) {
		case *ssa.Parameter:
			for i, p := range g.Params {
				if p == x {
					return i, "", true
				}
			}
		case *ssa.UnOp:
			if x.Op == token.MUL {
				return walk(x.X, depth+1)
			}
		case *ssa.FieldAddr:
			k, p, ok := walk(x.X, depth+1)
			return k, p + "." + fieldName(x.X.Type(), x.Field), ok
		case *ssa.Field:
			k, p, ok := walk(x.X, depth+1)
			return k, p + "." + fieldName(x.X.Type(), x.Field), ok
		}
		return 0, "", false
	}
	K, P, n := -1, "", 0
	for _, b := range g.Blocks {
		r, ok := blockTerm(b).(*ssa.Return)
		if !ok {
			continue
		}
		if len(r.Results) != 1 {
			return 0, "", false
		}
		k, p, ok := walk(r.Results[0], 0)
		if !ok || (n > 0 && (k != K || p != P)) {
			return 0, "", false
		}
		K, P = k, p
		n++
	}
	return K, P, n > 0
}

// c09SameRendering counts the locals of fn and of the module helpers in its reach that are rendered like a.
func c09SameRendering(w *World, fn *ssa.Function, a *ssa.Alloc) int {
	d := desc(a)
	n := 0
	seen := map[*ssa.Function]bool{}
	var visit func(f *ssa.Function, depth int)
	visit = func(f *ssa.Function, depth int) {
		if seen[f] {
			return
		}
		seen[f] = true
		for _, b := range f.Blocks {
			for _, in := range b.Instrs {
				switch x := in.(type) {
				case *ssa.Alloc:
					if desc(x) == d {
						n++
					}
				case *ssa.Call:
					if g := c09Helper(w, x); g != nil && depth > 0 {
						visit(g, depth-1)
					}
				}
			}
		}
	}
	visit(fn, c09Depth)
	return n
}

// c09StoreTypeConstants: the string constants the exported list truststore.Types is initialised with (a composite literal
// of constants). A comparison of the type prefix with one of them is a membership test at least as strict as the list.
func c09StoreTypeConstants(w *World) []string {
	e, p := w.pkgVarInit("verifier/truststore", "Types")
	cl, ok := e.(*ast.CompositeLit)
	if !ok || p == nil {
		return nil
	}
	var out []string
	for _, el := range cl.Elts {
		k, ok := constOfExpr(p, el)
		if !ok {
			return nil
		}
		out = append(out, k)
	}
	return out
}

// c09ParseCall splits the rendering "call:<function>(<args>)" of a call into the function's printed name (which may
// itself start with a parenthesised receiver type) and the top-level arguments.
func c09ParseCall(s string) (string, []string, bool) {
	if !strings.HasPrefix(s, "call:") || !strings.HasSuffix(s, ")") {
		return "", nil, false
	}
	s = strings.TrimPrefix(s, "call:")
	i := 0
	if strings.HasPrefix(s, "(") {
		// receiver type
		depth := 0
		for k := 0; k < len(s); k++ {
			if s[k] == '(' {
				depth++
			} else if s[k] == ')' {
				depth--
				if depth == 0 {
					i = k + 1
					break
				}
			}
		}
		if i == 0 {
			return "", nil, false
		}
	}
	j := strings.IndexByte(s[i:], '(')
	if j < 0 {
		return "", nil, false
	}
	name := s[:i+j]
	_, args := splitTopArgs("X" + s[i+j:])
	return name, args, true
}

// c09IterStatement: the rendering st designates the statement of the current iteration of the statement loop l of fn:
// the list element at the loop's own index, or a local of fn that is a read-only copy of that element (c09ElemPath).
func c09IterStatement(w *World, fn *ssa.Function, l *loopRef, st string) bool {
	if l == nil || l.Idx == nil {
		return false
	}
	if st == desc(l.X)+"["+descIndex(l.Idx)+"]" {
		return true
	}
	in := loopBlocks(l.Header)
	for bi := range in {
		for _, ins := range fn.Blocks[bi].Instrs {
			if al, ok := ins.(*ssa.Alloc); ok && desc(al) == st {
				if p, ok := c09ElemPath(w, fn, al, l); ok && p == "" {
					return true
				}
			}
		}
	}
	return false
}

// c09SameMaps counts the maps made in fn and in the module helpers in its reach that are rendered like m.
func c09SameMaps(w *World, fn *ssa.Function, m ssa.Value) int {
	d := desc(m)
	n := 0
	seen := map[*ssa.Function]bool{}
	c09VisitFrames(w, fn, c09TopFrame(), c09Depth, func(f *ssa.Function, _ c09Frame) {
		if seen[f] {
			return
		}
		seen[f] = true
		for _, b := range f.Blocks {
			for _, in := range b.Instrs {
				if mm, ok := in.(*ssa.MakeMap); ok && desc(mm) == d {
					n++
				}
			}
		}
	})
	return n
}

// ---- facts about every element of a list --------------------------------------------------------------------------

// c09ForAll is an accepted fact of the form "every element of the list satisfies one of the element facts".
type c09ForAll struct {
	list string                  // the list, rendered in the outermost frame
	elem func(el string) EdgeSel // the facts accepted for the element rendered el (labels in the outermost frame)
}

// c09Quant carries the universal facts through the frames of the helpers.
type c09Quant struct {
	sub   func(string) string // renderings / labels of the current frame rewritten into the outermost frame
	rules []c09ForAll
	// own: the rendering of the index of the loop whose iteration is being decided ("[@t7]"). Indices are rendered by the
	// name of the SSA value in its function, so a value of a helper may bear the same name: a label of a helper frame
	// that mentions it speaks of the helper's own value, not of the loop's index, and is not an element fact.
	own string
}

func c09NewQuant(rules ...c09ForAll) *c09Quant {
	if len(rules) == 0 {
		return nil
	}
	return &c09Quant{sub: func(s string) string { return s }, rules: rules}
}

// enter: the universal facts in the frame of the static callee of call (parameters stand for the arguments).
func (q *c09Quant) enter(call *ssa.Call) *c09Quant {
	if q == nil {
		return nil
	}
	g := staticCallee(call)
	names := make([]string, len(g.Params))
	descs := make([]string, len(g.Params))
	for i, p := range g.Params {
		names[i] = p.Name()
		descs[i] = q.sub(desc(call.Call.Args[i]))
	}
	return &c09Quant{sub: func(s string) string { return substParams(s, names, descs) }, rules: q.rules, own: q.own}
}

// frameSelQ is frameSel for a helper frame entered while an iteration of a loop is decided (see c09Quant.own).
func frameSelQ(c *ssa.Call, sel EdgeSel, q *c09Quant) EdgeSel {
	fs := frameSel(c, sel)
	if q == nil || q.own == "" {
		return fs
	}
	return func(l string, iff *ssa.If, truth bool) bool { return !strings.Contains(l, q.own) && fs(l, iff, truth) }
}

// c09FullLoop: the loop visits every index of its list once, in order: a `range` over the list (the index is generated
// by the compiler), or a `for` loop whose index starts at 0, is only ever incremented by 1 and runs while i < len(list).
func c09FullLoop(l *loopRef) bool {
	if l == nil || l.Idx == nil || l.Header == nil {
		return false
	}
	h := l.Header
	if strings.HasPrefix(h.Comment, "rangeindex.loop") {
		return true
	}
	idx, ok := l.Idx.(*ssa.Phi)
	if !ok || idx.Block() != h || len(idx.Edges) < 2 {
		return false
	}
	in := loopBlocks(h)
	for i, e := range idx.Edges {
		if in[h.Preds[i].Index] {
			inc, isInc := e.(*ssa.BinOp)
			if !isInc || inc.Op != token.ADD || inc.X != ssa.Value(idx) || desc(inc.Y) != "const:1" {
				return false
			}
		} else if desc(e) != "const:0" {
			return false
		}
	}
	return true
}

// c09Universal adds to gc the edges of fn on which a universal fact of q is established:
//
//   - the exit edge of a loop over the whole list (c09FullLoop) whose iteration cannot return to the loop header unless
//     it passes an edge on which an element fact holds for the element at the loop's own index — or one of the plain
//     accepted facts (sel). The element facts may be tested in the loop body or in a helper it relies on (c09GateCutQ).
//     Soundness: the exit edge is taken when the index has run from 0 to len(list); every index was the subject of one
//     iteration that came back to the header, and each of those passed an element fact (for its element) or a plain
//     accepted fact: so a plain fact holds, or the element fact holds for every element. Ways out of the loop other
//     than the exit edge (break, return in the body) are not selected: they stay open to the enclosing search.
//   - the empty list: len(list) == 0 (nothing to satisfy);
//   - the singleton list: an element fact about list[0] on an edge that lies behind the fact len(list) <= 1 (the
//     list has exactly that element: the read of list[0] did not panic).
func c09Universal(w *World, fn *ssa.Function, sel EdgeSel, q *c09Quant, depth int, gc *gateCut) {
	if q == nil || len(q.rules) == 0 {
		return
	}
	fi := w.Info(fn)
	loops := allLoops(fn)
	for _, r := range q.rules {
		r := r
		for i := range loops {
			l := &loops[i]
			if !c09FullLoop(l) || q.sub(desc(l.X)) != r.list {
				continue
			}
			exit := edgeKey{l.Header.Index, 1}
			if gc.cut[exit] || len(l.Header.Succs) != 2 || l.Header.Succs[1] != l.Exit {
				continue
			}
			esel := r.elem(r.list + "[" + descIndex(l.Idx) + "]")
			iter := func(lb string, iff *ssa.If, truth bool) bool {
				return sel(lb, iff, truth) || esel(q.sub(lb), iff, truth)
			}
			ge := c09GateCutQ(w, fn, iter, &c09Quant{sub: q.sub, own: "[" + descIndex(l.Idx) + "]"}, depth)
			// (a forwarded call in the body is an exit of the function, not a completed iteration: nothing to add)
			if ge.n == 0 || fi.reachHit([]state{{l.Body.Index, 0, -1}}, ge.cut, map[int]bool{l.Header.Index: true}) {
				continue
			}
			gc.cut[exit] = true
			gc.n += 1 + ge.n
		}
		// the empty and the singleton list
		first := orAll(r.elem(r.list + "[const:0]"))
		ln := "len(" + r.list + ")"
		atMostOne := func(b *ssa.BasicBlock) bool {
			before, ok := fi.mustPassBetween([]int{0}, map[int]bool{b.Index: true})
			if !ok {
				return false
			}
			for m := range before {
				if m = q.sub(m); m == "EQ("+ln+",const:1)" || m == "LE("+ln+",const:1)" || m == "LT("+ln+",const:2)" {
					return true
				}
			}
			return false
		}
		// (the element fact may be the success of a call the function forwards: `return check(list[0])` behind len(list) <= 1)
		for _, b := range fn.Blocks {
			ret, ok := blockTerm(b).(*ssa.Return)
			if !ok || len(ret.Results) == 0 {
				continue
			}
			last := ret.Results[len(ret.Results)-1]
			if call := callOf(last); call != nil && isErrorType(last.Type()) && !gc.tails[call] && call.Block() != nil {
				if first(q.sub("EQ("+descTailErr(call)+",nil)"), nil, true) && atMostOne(call.Block()) {
					gc.tails[call] = true
					gc.n++
				}
			}
		}
		for _, b := range fn.Blocks {
			iff, ok := blockTerm(b).(*ssa.If)
			if !ok || len(b.Succs) != 2 {
				continue
			}
			for j := 0; j < 2; j++ {
				e := edgeKey{b.Index, j}
				if gc.cut[e] {
					continue
				}
				lb := q.sub(condLabel(iff.Cond, j == 0))
				if lb == "EQ("+ln+",const:0)" {
					gc.cut[e] = true
					gc.n++
					continue
				}
				if !first(lb, iff, j == 0) {
					continue
				}
				if atMostOne(b) {
					gc.cut[e] = true
					gc.n++
				}
			}
		}
	}
}

// exitsBlockedQ is exitsBlockedDeep with universal facts among the accepted ones.
func exitsBlockedQ(w *World, fn *ssa.Function, mode Mode, sel EdgeSel, rules ...c09ForAll) (bool, int, []string) {
	gc := c09GateCutQ(w, fn, sel, c09NewQuant(rules...), c09Depth)
	wit := c09Witness(w.Info(fn), mode, entryState(), gc)
	return wit == nil, gc.n, wit
}

// iterBlockedQ is iterBlockedDeep with universal facts among the accepted ones.
func iterBlockedQ(w *World, fn *ssa.Function, l *loopRef, mode Mode, sel EdgeSel, rules ...c09ForAll) (bool, int) {
	fi := w.Info(fn)
	gc := c09GateCutQ(w, fn, sel, c09NewQuant(rules...), c09Depth)
	if fi.reachHit([]state{{l.Body.Index, 0, -1}}, gc.cut, map[int]bool{l.Header.Index: true}) {
		return false, gc.n
	}
	if c09Witness(fi, mode, []state{{l.Body.Index, 0, -1}}, gc, backEdges(l.Header)) != nil {
		return false, gc.n
	}
	return true, gc.n
}

// c09NoFact is the empty selection of plain facts.
func c09NoFact(string, *ssa.If, bool) bool { return false }

// c09AtMostOneOrNot: the plain facts of "the wildcard stands alone" in a list: the list has at most one element (however
// the comparison is spelled: len <= 1, len < 2, len == 1), or slices.Contains(list, wildcard) answered false.
func c09AtMostOneOrNot(list, wildcard string) EdgeSel {
	ln := "len(" + list + ")"
	return anyOf("LE("+ln+",const:1)", "LT("+ln+",const:2)", "EQ("+ln+",const:1)", fmt.Sprintf("F(call:slices.Contains(%s,const:%q))", list, wildcard))
}

// c09NoneIs: "no element of the list is the wildcard", element by element — what slices.Contains(list, wildcard) == false
// says, established by a loop over the whole list (c09Universal).
func c09NoneIs(list, wildcard string) c09ForAll {
	return c09ForAll{list: list, elem: func(el string) EdgeSel { return anyOf(fmt.Sprintf("NE(%s,const:%q)", el, wildcard)) }}
}

// c09BestLoop decides the rules of the elements of a list (run) on each loop of fn that ranges over the list and keeps
// the verdicts of the loop on which the fewest rules fail (the first one on a tie). Several loops may range over the
// same list — a rule about the list as a whole spelled as a loop of its own next to the loop that validates the elements.
// The rules are about "a loop that visits every element": they hold if they all hold for one and the same loop.
// Answers false when no loop ranges over the list.
func c09BestLoop(c *Ctx, fn *ssa.Function, list string, run func(c *Ctx, loop *loopRef)) bool {
	var best *Ctx
	bestBad := 0
	for _, l := range allLoops(fn) {
		l := l
		if desc(l.X) != list {
			continue
		}
		sub := NewCtx(c.W, c.Prop, c.Tier)
		run(sub, &l)
		bad := 0
		for _, o := range sub.Obls {
			if o.Status != Discharged {
				bad++
			}
		}
		if best == nil || bad < bestBad {
			best, bestBad = sub, bad
		}
	}
	if best == nil {
		return false
	}
	c.Evals += best.Evals
	for f := range best.FnSeen {
		c.FnSeen[f] = true
	}
	for _, o := range best.Obls {
		c.add(&Obligation{Key: strings.TrimPrefix(o.Key, c.Prop+"/"), Rule: o.Rule, Status: o.Status, Site: o.Site, Detail: o.Detail, Path: o.Path})
	}
	return true
}

// ---- what the must-pass facts about the halves of a string entail -----------------------------------------------------

// cutFact names a fact about the string s and the constant separator sep.
type cutFact int

const (
	cfFound  cutFact = iota // sep occurs in s
	cfBefore                // the part of s before the first sep is not empty
	cfAfter                 // the part of s after the first sep is not empty
)

// c09CutFacts holds, for each of the three facts, the edge labels (canonical, exact) that entail it.
type c09CutFacts struct {
	labels [3]map[string]bool
}

// c09RejectsEmpty: the constant pattern does not match the empty string. (Decided by compiling the pattern with the
// regexp package itself — MatchString is a pure function of the pattern and the subject.)
func c09RejectsEmpty(pat string) bool {
	re, err := regexp.Compile(pat)
	return err == nil && !re.MatchString("")
}

// c09NewCutFacts collects the labels of fn that entail the facts about s (a rendering) and sep (`const:"/"`).
// With before, after, found = strings.Cut(s, sep) (the halves may also be written as slices of s at strings.Index: desc
// renders them alike) and i = strings.Index(s, sep):
//
//   - found: `found` itself (also spelled i >= 0: condLabel), strings.Contains(s, sep) and its spellings
//     (ContainsRune / ContainsAny for a separator of one character, Count != 0);
//     after != "" — contract of strings.Cut: "if sep does not appear in s, cut returns s, "", false", so a non-empty
//     second half was cut off behind a separator; i > 0 (then i >= 0);
//   - before != "": the comparison itself (or len(before) != 0); i > 0 — before is s[:i], of length i;
//   - after != "": the comparison itself (or len(after) != 0);
//   - for either half: MatchString(half) answered true on a compiled constant pattern (c09RegexpPattern) that does not
//     match the empty string (c09RejectsEmpty) — the half is in the language of the pattern, "" is not.
//
// Soundness: each label is a sufficient condition of its fact by the documented contract of the library function (or
// by the language of a constant pattern, evaluated, not assumed), so an exit that lies behind the label lies behind
// the fact: the rule that demands the fact on every success exit is decided on the closure of the must-pass set
// instead of on one spelling of it. Nothing is entailed by before != "" alone (without separator, before is s).
func c09NewCutFacts(w *World, fn *ssa.Function, s, sep string) *c09CutFacts {
	cf := &c09CutFacts{}
	for i := range cf.labels {
		cf.labels[i] = map[string]bool{}
	}
	add := func(k cutFact, ls ...string) {
		for _, l := range ls {
			cf.labels[k][l] = true
		}
	}
	cut := "call:strings.Cut(" + s + "," + sep + ")"
	half := [2]string{cut + "#0", cut + "#1"}
	add(cfFound, "T("+cut+"#2)", "T(call:strings.Contains("+s+","+sep+"))")
	for _, n := range []string{"call:strings.Count(" + s + "," + sep + ")"} {
		add(cfFound, "NE("+n+",const:0)", "GT("+n+",const:0)", "GE("+n+",const:1)")
	}
	if sv, err := unquote(strings.TrimPrefix(sep, "const:")); err == nil && len(sv) == 1 && sv[0] < 128 {
		add(cfFound, fmt.Sprintf("T(call:strings.ContainsRune(%s,const:%d))", s, sv[0]), "T(call:strings.ContainsAny("+s+","+sep+"))")
	}
	for k, fact := range []cutFact{cfBefore, cfAfter} {
		add(fact, "NE("+half[k]+`,const:"")`, "NE(len("+half[k]+"),const:0)")
	}
	for _, ci := range allCalls(fn) {
		call, ok := ci.(*ssa.Call)
		if !ok {
			continue
		}
		// i > 0 for i = strings.Index(s, sep)
		if sd, sp, ok := indexCall(call); ok && sd == s && sp == sep {
			d := desc(call)
			add(cfBefore, "GT("+d+",const:0)", "GE("+d+",const:1)")
			add(cfFound, "GT("+d+",const:0)", "GE("+d+",const:1)")
		}
		// a half matched by a constant pattern that rejects ""
		if calleeName(call) == "(*regexp.Regexp).MatchString" && len(call.Call.Args) == 2 {
			for k, fact := range []cutFact{cfBefore, cfAfter} {
				if desc(call.Call.Args[1]) != half[k] {
					continue
				}
				if pat, isConst := c09RegexpPattern(w, call.Call.Args[0], 0); isConst && c09RejectsEmpty(pat) {
					add(fact, "T("+desc(call)+")")
				}
			}
		}
	}
	// a non-empty second half was cut off behind a separator
	for l := range cf.labels[cfAfter] {
		add(cfFound, l)
	}
	return cf
}

// onAll: every success exit of the summary lies behind a label that entails the fact.
func (cf *c09CutFacts) onAll(fs *Summary, k cutFact) bool {
	if len(fs.Exits) == 0 {
		return false
	}
	for _, ex := range fs.Exits {
		ok := false
		for l := range cf.labels[k] {
			if labelHas(ex.Checked, l) {
				ok = true
				break
			}
		}
		if !ok {
			return false
		}
	}
	return true
}
