package main

// Helpers of the C10 rule set (rules_c10.go):
//   - the frame of one registry verification: the outer function, the listing callback, the function that does the
//     per-page work, and the state the two share (captured locals or fields of a state object);
//   - value origins decided on SSA values through read-only state cells;
//   - cut-set reachability followed into module helpers (a gate that lives in a helper the outer function calls).

import (
	"fmt"
	"go/constant"
	"go/token"
	"go/types"
	"sort"
	"strings"

	"golang.org/x/tools/go/ssa"
)

// c10cell identifies one piece of per-verification state shared by the outer function and the callback:
// a local of some function (base = its Alloc, field = -1; the callback reaches it through a free variable), or a
// field of the state object the outer function allocates and the page worker receives (base = that Alloc).
type c10cell struct {
	base  *ssa.Alloc
	field int
}

type c10stores struct {
	sts []*ssa.Store
	ok  bool // false: the address escapes (stored, passed on, captured by a nested closure, written through a part)
}

type c10frame struct {
	w  *World
	W  *ssa.Function    // the function that lists the signatures (notation.Verify)
	mc *ssa.MakeClosure // the callback handed to ListSignatures
	A  *ssa.Function    // mc's function
	CB *ssa.Function    // the function that fetches and verifies the signatures of one page: A, or the module function A forwards to
	fc *ssa.Call        // A != CB: the forwarding call in A

	bind map[*ssa.FreeVar]ssa.Value // free variables of A -> bindings in W

	page *ssa.Parameter // the parameter of CB that holds the listed page

	// state object form (A forwards to CB and hands it a pointer to an object allocated in W)
	obj      *ssa.Alloc     // the object
	objPtr   *ssa.Alloc     // the local of W that holds its address, if any
	objParam *ssa.Parameter // the parameter of CB that receives the address

	// per-signature worker form (the loop body of CB hands each listed manifest to one module function or closure)
	H         *ssa.Function    // the worker
	hc        *ssa.Call        // its one call site, inside the loop of CB
	hmc       *ssa.MakeClosure // H is a closure: where it is made
	objParams []*ssa.Parameter // further parameters that receive the address of the state object (of H)

	resolved map[ssa.Value]bool // SSA values that are the descriptor Repository.Resolve returned

	memo map[c10cell]c10stores
}

func c10IsLoad(v ssa.Value) (*ssa.UnOp, bool) {
	u, ok := v.(*ssa.UnOp)
	return u, ok && u.Op == token.MUL
}

// isObj: v is the address of the state object (in W, in the adapter or in the page worker).
func (x *c10frame) isObj(v ssa.Value) bool {
	if x.obj == nil {
		return false
	}
	if v == ssa.Value(x.obj) || (x.objParam != nil && v == ssa.Value(x.objParam)) {
		return true
	}
	for _, p := range x.objParams {
		if v == ssa.Value(p) {
			return true
		}
	}
	if fv, ok := v.(*ssa.FreeVar); ok && x.bind[fv] == ssa.Value(x.obj) {
		return true
	}
	if u, ok := c10IsLoad(v); ok && x.objPtr != nil {
		if u.X == ssa.Value(x.objPtr) {
			return true
		}
		if fv, ok := u.X.(*ssa.FreeVar); ok && x.bind[fv] == ssa.Value(x.objPtr) {
			return true
		}
	}
	return false
}

// cellOf: the state cell an address denotes.
func (x *c10frame) cellOf(addr ssa.Value) (c10cell, bool) {
	switch a := addr.(type) {
	case *ssa.FreeVar:
		if al, ok := x.bind[a].(*ssa.Alloc); ok {
			return c10cell{al, -1}, true
		}
	case *ssa.Alloc:
		return c10cell{a, -1}, true
	case *ssa.FieldAddr:
		if x.isObj(a.X) {
			return c10cell{x.obj, a.Field}, true
		}
	}
	return c10cell{}, false
}

func (x *c10frame) cellOfLoad(v ssa.Value) (c10cell, bool) {
	if u, ok := c10IsLoad(v); ok {
		return x.cellOf(u.X)
	}
	return c10cell{}, false
}

func (x *c10frame) cellType(c c10cell) types.Type {
	pt, ok := c.base.Type().Underlying().(*types.Pointer)
	if !ok {
		return nil
	}
	if c.field < 0 {
		return pt.Elem()
	}
	if f := fieldOf(c.base.Type(), c.field); f != nil {
		return f.Type()
	}
	return nil
}

func (x *c10frame) cellName(c c10cell) string {
	if c.field < 0 {
		return "local " + c.base.Comment
	}
	return "field " + fieldName(c.base.Type(), c.field)
}

// addrUses sorts the uses of an address value: whole-value stores through it are collected, loads are ignored, anything
// else (the address stored or passed on, a part of it written, a nested capture) makes it escape.
func c10AddrUses(addr ssa.Value, out *c10stores) {
	refs := addr.Referrers()
	if refs == nil {
		return
	}
	for _, r := range *refs {
		switch u := r.(type) {
		case *ssa.Store:
			if u.Addr == addr {
				out.sts = append(out.sts, u)
			} else {
				out.ok = false
			}
		case *ssa.UnOp, *ssa.DebugRef:
		case *ssa.FieldAddr:
			if addrWritten(u, 0) {
				out.ok = false
			}
		case *ssa.IndexAddr:
			if addrWritten(u, 0) {
				out.ok = false
			}
		case *ssa.MakeClosure:
			// the cell is captured once more by a closure nested in this one: its uses there count the same way
			fn, _ := u.Fn.(*ssa.Function)
			if fn == nil {
				out.ok = false
				continue
			}
			for i, b := range u.Bindings {
				if b == addr && i < len(fn.FreeVars) {
					c10AddrUses(fn.FreeVars[i], out)
				}
			}
		default:
			out.ok = false
		}
	}
}

// stores returns every store to the cell — in the function that owns it, in every closure that captures it, in the
// outer function and the page worker for a field of the state object — and whether that list is complete.
func (x *c10frame) stores(c c10cell) c10stores {
	if s, ok := x.memo[c]; ok {
		return s
	}
	out := c10stores{ok: true}
	if c.field < 0 {
		refs := c.base.Referrers()
		if refs != nil {
			for _, r := range *refs {
				switch u := r.(type) {
				case *ssa.Store:
					if u.Addr == ssa.Value(c.base) {
						out.sts = append(out.sts, u)
					} else {
						out.ok = false
					}
				case *ssa.UnOp, *ssa.DebugRef:
				case *ssa.FieldAddr:
					if !(c.base == x.obj) && addrWritten(u, 0) {
						out.ok = false
					}
				case *ssa.IndexAddr:
					if addrWritten(u, 0) {
						out.ok = false
					}
				case *ssa.MakeClosure:
					fn, _ := u.Fn.(*ssa.Function)
					if fn == nil {
						out.ok = false
						continue
					}
					for i, b := range u.Bindings {
						if b == ssa.Value(c.base) && i < len(fn.FreeVars) {
							c10AddrUses(fn.FreeVars[i], &out)
						}
					}
				default:
					out.ok = false
				}
			}
		}
	} else {
		done := map[*ssa.Function]bool{}
		for _, fn := range []*ssa.Function{x.W, x.A, x.CB, x.H} {
			if fn == nil || done[fn] {
				continue
			}
			done[fn] = true
			for _, b := range fn.Blocks {
				for _, in := range b.Instrs {
					if fa, ok := in.(*ssa.FieldAddr); ok && fa.Field == c.field && x.isObj(fa.X) {
						c10AddrUses(fa, &out)
					}
				}
			}
		}
	}
	x.memo[c] = out
	return out
}

// origin follows a value back through loads of state cells that are written exactly once (read-only after their
// initialisation): the load yields the value that one store put there. Sound because the list of stores is complete
// (no escape) and a cell with a single store holds either its zero value (before the store) or that value.
func (x *c10frame) origin(v ssa.Value) ssa.Value {
	for i := 0; i < 8; i++ {
		// a parameter of the per-signature worker or of the page worker holds the argument of its one call site
		if a := x.up(v); a != nil {
			v = a
			continue
		}
		c, ok := x.cellOfLoad(v)
		if !ok {
			return v
		}
		s := x.stores(c)
		if !s.ok || len(s.sts) != 1 {
			return v
		}
		v = s.sts[0].Val
	}
	return v
}

func c10StripConv(v ssa.Value) ssa.Value {
	for {
		switch c := v.(type) {
		case *ssa.ChangeType:
			v = c.X
		case *ssa.Convert:
			v = c.X
		default:
			return v
		}
	}
}

// isResolved: the value is the descriptor Repository.Resolve returned.
func (x *c10frame) isResolved(v ssa.Value) bool { return x.resolved[x.origin(v)] }

// isResolvedDigest: the value is the Digest field of the resolved descriptor, as a digest or as its string.
func (x *c10frame) isResolvedDigest(v ssa.Value) bool {
	v = c10StripConv(v)
	if call, ok := v.(*ssa.Call); ok && calleeName(call) == "(digest.Digest).String" && len(call.Call.Args) == 1 {
		v = c10StripConv(call.Call.Args[0])
	}
	switch o := x.origin(v).(type) {
	case *ssa.UnOp:
		if o.Op != token.MUL {
			return false
		}
		fa, ok := o.X.(*ssa.FieldAddr)
		if !ok || fieldName(fa.X.Type(), fa.Field) != "Digest" {
			return false
		}
		c, ok := x.cellOf(fa.X)
		if !ok {
			return false
		}
		s := x.stores(c)
		return s.ok && len(s.sts) == 1 && x.isResolved(s.sts[0].Val)
	case *ssa.Field:
		return fieldName(o.X.Type(), o.Field) == "Digest" && x.isResolved(o.X)
	}
	return false
}

// isParsedReference: the value is the Reference part of what registry.ParseReference returned.
func isParsedReference(v ssa.Value) bool {
	d := desc(c10StripConv(v))
	return strings.HasPrefix(d, "call:oras/registry.ParseReference(") && strings.HasSuffix(d, "#0.Reference")
}

// isLimit: the value is MaxSignatureAttempts of the options the outer function was called with.
func (x *c10frame) isLimit(v ssa.Value) bool {
	switch o := x.origin(c10StripConv(v)).(type) {
	case *ssa.UnOp:
		if o.Op != token.MUL {
			return false
		}
		fa, ok := o.X.(*ssa.FieldAddr)
		if !ok || fieldName(fa.X.Type(), fa.Field) != "MaxSignatureAttempts" {
			return false
		}
		if x.isOptsParam(fa.X) {
			return true
		}
		c, ok := x.cellOf(fa.X)
		if !ok {
			return false
		}
		s := x.stores(c)
		return s.ok && len(s.sts) == 1 && x.isOptsParam(s.sts[0].Val)
	case *ssa.Field:
		return fieldName(o.X.Type(), o.Field) == "MaxSignatureAttempts" && x.isOptsParam(x.origin(o.X))
	}
	return false
}

func (x *c10frame) isOptsParam(v ssa.Value) bool {
	p, ok := v.(*ssa.Parameter)
	return ok && p.Parent() == x.W && namedOf(p.Type()) == "ngo.VerifyOptions"
}

// c10Cmp: the comparison that holds when cond evaluates to truth, constants on the right.
func c10Cmp(cond ssa.Value, truth bool) (token.Token, ssa.Value, ssa.Value, bool) {
	for {
		u, ok := cond.(*ssa.UnOp)
		if !ok || u.Op != token.NOT {
			break
		}
		cond, truth = u.X, !truth
	}
	bo, ok := cond.(*ssa.BinOp)
	if !ok {
		return 0, nil, nil, false
	}
	op := bo.Op
	switch op {
	case token.EQL, token.NEQ, token.LSS, token.GEQ, token.GTR, token.LEQ:
	default:
		return 0, nil, nil, false
	}
	if !truth {
		op = negOp(op)
	}
	a, b := bo.X, bo.Y
	if _, ak := a.(*ssa.Const); ak {
		if _, bk := b.(*ssa.Const); !bk {
			a, b = b, a
			op = c10Mirror(op)
		}
	}
	return op, a, b, true
}

func c10Mirror(op token.Token) token.Token {
	switch op {
	case token.LSS:
		return token.GTR
	case token.GTR:
		return token.LSS
	case token.LEQ:
		return token.GEQ
	case token.GEQ:
		return token.LEQ
	}
	return op
}

func c10IntConst(v ssa.Value, n int64) bool {
	k, ok := v.(*ssa.Const)
	if !ok || k.Value == nil || k.Value.Kind() != constant.Int {
		return false
	}
	m, exact := constant.Int64Val(k.Value)
	return exact && m == n
}

func c10BoolConst(v ssa.Value) (bool, bool) {
	k, ok := v.(*ssa.Const)
	if !ok || k.Value == nil || k.Value.Kind() != constant.Bool {
		return false, false
	}
	return constant.BoolVal(k.Value), true
}

// c10Edge is one branch edge: the If and the outcome of its condition.
type c10Edge struct {
	iff   *ssa.If
	truth bool
}

// mustPassEdges: the branch edges every path from the start block to one of the target blocks takes.
func c10MustPassEdges(fi *FnInfo, start *ssa.BasicBlock, targets map[int]bool) []c10Edge {
	ss := []state{{start.Index, 0, -1}}
	if !fi.reachHit(ss, nil, targets) {
		return nil
	}
	var out []c10Edge
	for _, b := range fi.Fn.Blocks {
		iff, isIf := blockTerm(b).(*ssa.If)
		if !isIf || len(b.Succs) != 2 {
			continue
		}
		for j := 0; j < 2; j++ {
			if !fi.reachHit(ss, map[edgeKey]bool{{b.Index, j}: true}, targets) {
				out = append(out, c10Edge{iff, j == 0})
			}
		}
	}
	return out
}

// ---------- cut sets followed into helpers -----------------------------------
//
// A rule of the form "the target is reachable only through one of the selected edges" (a disjunctive, fail-closed gate)
// is decided by removing the selected edges and asking whether the target is still reachable. When the outer function
// delegates the test to a module helper (`skipped, out, err := probe(v); if err != nil {…}; if skipped {…}`), the selected
// edges are in the helper. The helper then returns only through the exits that remain reachable in *its* graph without
// its selected edges, and what the caller does next is decided by the tests it applies to the helper's results. So, for
// every such remaining exit, the caller's edges whose condition contradicts the results returned at that exit are
// removed as well; the target must be unreachable for every remaining exit (a case split on how the helper returned).
//
// Soundness: take an execution that reaches the target without taking a selected edge anywhere. Its last call of the
// helper returned through an exit e that is reachable without the helper's selected edges; the caller's path after the
// call is consistent with the values returned at e, hence it uses no edge contradicted by e and no selected edge of the
// caller: the target is reachable in the caller's graph cut for e — which the rule refutes.

type c10exit struct {
	ret *ssa.Return
	st  state
}

func c10ResultIdx(call *ssa.Call, v ssa.Value) int {
	if v == ssa.Value(call) {
		if _, tup := call.Type().(*types.Tuple); !tup {
			return 0
		}
		return -1
	}
	if e, ok := v.(*ssa.Extract); ok && e.Tuple == ssa.Value(call) {
		return e.Index
	}
	return -1
}

// c10Contradicts: the helper returned through exit e; can the caller's condition cond (a test of a result of that call)
// evaluate to truth? true = it cannot.
func c10Contradicts(hi *FnInfo, e c10exit, call *ssa.Call, cond ssa.Value, truth bool) bool {
	for {
		u, ok := cond.(*ssa.UnOp)
		if !ok || u.Op != token.NOT {
			break
		}
		cond, truth = u.X, !truth
	}
	result := func(k int) (ssa.Value, *ssa.BasicBlock) {
		if k >= len(e.ret.Results) {
			return nil, nil
		}
		v := e.ret.Results[k]
		at := e.ret.Block()
		if p, ok := v.(*ssa.Phi); ok && p.Block() == at && e.st.p >= 0 && e.st.p < len(p.Edges) {
			v, at = p.Edges[e.st.p], at.Preds[e.st.p]
		}
		return v, at
	}
	if k := c10ResultIdx(call, cond); k >= 0 {
		rv, _ := result(k)
		if rv == nil {
			return false
		}
		if bv, ok := c10BoolConst(rv); ok {
			return bv != truth
		}
		return false
	}
	bo, ok := cond.(*ssa.BinOp)
	if !ok || (bo.Op != token.EQL && bo.Op != token.NEQ) {
		return false
	}
	var o ssa.Value
	switch {
	case isNilConst(bo.Y):
		o = bo.X
	case isNilConst(bo.X):
		o = bo.Y
	default:
		return false
	}
	k := c10ResultIdx(call, o)
	if k < 0 {
		return false
	}
	saysNil := (bo.Op == token.EQL) == truth
	rv, at := result(k)
	if rv == nil {
		return false
	}
	if isErrorType(o.Type()) && k == len(e.ret.Results)-1 {
		cl, _, _, _ := hi.classify(e.ret, state{e.st.b, hi.through(e.ret.Block(), e.st.m), e.st.p}, Mode{Kind: mErr})
		if saysNil {
			return cl == clFail
		}
		return cl == clSuccess
	}
	if saysNil {
		return hi.nonNil(rv, at)
	}
	return isNilConst(rv)
}

func c10EdgeSetKey(m map[edgeKey]bool) string {
	var ks []string
	for e := range m {
		ks = append(ks, fmt.Sprintf("%d.%d", e.b, e.succ))
	}
	sort.Strings(ks)
	return strings.Join(ks, ",")
}

// c10DeepCuts returns the alternative cut sets of fi for the selection (one per combination of remaining helper exits)
// and the number of selected edges found in fi and in the helpers it calls. subst rewrites a label of fi into the frame
// of the function the selection was written for.
func c10DeepCuts(w *World, fi *FnInfo, sel EdgeSel, subst func(string) string, depth int, busy map[*ssa.Function]bool) ([]map[edgeKey]bool, int) {
	own := fi.edgesMatching(func(l string, iff *ssa.If, truth bool) bool { return sel(subst(l), iff, truth) })
	n := len(own)
	alts := []map[edgeKey]bool{own}
	if depth >= 2 {
		return alts, n
	}
	busy[fi.Fn] = true
	defer delete(busy, fi.Fn)
	for _, ci := range allCalls(fi.Fn) {
		call, ok := ci.(*ssa.Call)
		if !ok {
			continue
		}
		h := staticCallee(call)
		if h == nil || h.Blocks == nil || !w.IsProductFn(h) || busy[h] || h.Parent() != nil || len(call.Call.Args) != len(h.Params) {
			continue
		}
		names := make([]string, len(h.Params))
		descs := make([]string, len(h.Params))
		for i, p := range h.Params {
			names[i] = p.Name()
			descs[i] = subst(desc(call.Call.Args[i]))
		}
		hi := w.Info(h)
		hAlts, hn := c10DeepCuts(w, hi, sel, func(l string) string { return substParams(l, names, descs) }, depth+1, busy)
		if hn == 0 {
			continue
		}
		n += hn
		// the exits of the helper that remain reachable without its selected edges
		var exits []c10exit
		seen := map[c10exit]bool{}
		for _, a := range hAlts {
			for st := range hi.reach(entryState(), a) {
				if r, ok := blockTerm(h.Blocks[st.b]).(*ssa.Return); ok {
					e := c10exit{r, st}
					if !seen[e] {
						seen[e] = true
						exits = append(exits, e)
					}
				}
			}
		}
		var per []map[edgeKey]bool
		perSeen := map[string]bool{}
		if len(exits) == 0 {
			// the helper does not return at all without a selected edge: nothing after the call is reachable
			m := map[edgeKey]bool{}
			for j := range call.Block().Succs {
				m[edgeKey{call.Block().Index, j}] = true
			}
			per = append(per, m)
		}
		for _, e := range exits {
			m := map[edgeKey]bool{}
			for _, b := range fi.Fn.Blocks {
				iff, isIf := blockTerm(b).(*ssa.If)
				if !isIf || len(b.Succs) != 2 {
					continue
				}
				for j := 0; j < 2; j++ {
					if c10Contradicts(hi, e, call, iff.Cond, j == 0) {
						m[edgeKey{b.Index, j}] = true
					}
				}
			}
			if k := c10EdgeSetKey(m); !perSeen[k] {
				perSeen[k] = true
				per = append(per, m)
			}
		}
		if len(alts)*len(per) > 256 {
			continue // too many combinations: do without this helper's case split (fewer edges removed: conservative)
		}
		var next []map[edgeKey]bool
		for _, a := range alts {
			for _, p := range per {
				m := map[edgeKey]bool{}
				for e := range a {
					m[e] = true
				}
				for e := range p {
					m[e] = true
				}
				next = append(next, m)
			}
		}
		alts = next
	}
	return alts, n
}

func c10Ident(l string) string { return l }

// c10DeepBlocked: no target block is reachable from the entry of fi once the selected edges (own and in helpers) are removed.
func c10DeepBlocked(w *World, fi *FnInfo, sel EdgeSel, targets map[int]bool) (bool, int) {
	alts, n := c10DeepCuts(w, fi, sel, c10Ident, 0, map[*ssa.Function]bool{})
	for _, a := range alts {
		if fi.reachHit(entryState(), a, targets) {
			return false, n
		}
	}
	return true, n
}

// c10DeepExitsBlocked: none of the exits can report success once the selected edges (own and in helpers) are removed.
func c10DeepExitsBlocked(w *World, fi *FnInfo, exits []*ExitSum, sel EdgeSel) (bool, int, []string) {
	alts, n := c10DeepCuts(w, fi, sel, c10Ident, 0, map[*ssa.Function]bool{})
	for _, a := range alts {
		r := fi.reach(entryState(), a)
		for _, ex := range exits {
			for st := range r {
				if st.b == ex.Ret.Block().Index {
					cl, _, _, _ := fi.classify(ex.Ret, state{st.b, fi.through(fi.Fn.Blocks[st.b], st.m), st.p}, Mode{Kind: mErr})
					if cl != clFail {
						return false, n, []string{fmt.Sprintf("exit b%d %s", st.b, fi.W.InstrPos(ex.Ret))}
					}
				}
			}
		}
	}
	return true, n, nil
}

// c10Helpers: the module functions the outer function calls directly or through one of them (not closures), with the
// chain of call sites that leads to each (outermost first).
type c10helper struct {
	fn    *ssa.Function
	chain []*ssa.Call
}

func c10Helpers(w *World, W *ssa.Function) []c10helper {
	var out []c10helper
	seen := map[*ssa.Function]bool{W: true}
	var rec func(f *ssa.Function, chain []*ssa.Call, depth int)
	rec = func(f *ssa.Function, chain []*ssa.Call, depth int) {
		for _, ci := range allCalls(f) {
			call, ok := ci.(*ssa.Call)
			if !ok {
				continue
			}
			h := staticCallee(call)
			if h == nil || h.Blocks == nil || !w.IsProductFn(h) || h.Parent() != nil || seen[h] || fnPkg(h) != fnPkg(W) {
				continue
			}
			seen[h] = true
			ch := append(append([]*ssa.Call{}, chain...), call)
			out = append(out, c10helper{h, ch})
			if depth < 1 {
				rec(h, ch, depth+1)
			}
		}
	}
	rec(W, nil, 0)
	return out
}

// c10ToOuter rewrites a label of the function at the end of the chain into the frame of the outer function.
func c10ToOuter(chain []*ssa.Call, l string) string {
	for i := len(chain) - 1; i >= 0; i-- {
		call := chain[i]
		h := staticCallee(call)
		if h == nil || len(call.Call.Args) != len(h.Params) {
			return l
		}
		names := make([]string, len(h.Params))
		descs := make([]string, len(h.Params))
		for k, p := range h.Params {
			names[k] = p.Name()
			descs[k] = desc(call.Call.Args[k])
		}
		l = substParams(l, names, descs)
	}
	return l
}

// ---------- the per-signature worker -------------------------------------------
//
// The body of the loop over the listed manifests may hand each manifest to one module function, method or closure
// ("per-signature worker": `ok, err := st.verifyOne(ctx, m)`), which does the fetch, the verification or both, and keeps
// or returns what it found. The rules about one iteration are then rules about the loop body *with the worker's body in
// the place of its call*: the worker is entered only from that call (checked), its parameters are the arguments of that
// call, and it returns into the loop body through one of its exits. Path rules are decided by a case split on that exit:
//   - "X happens before Y in every iteration" is decided in the function both live in, or across the call (X before the
//     call / on every path through the worker);
//   - "after event E (a call returned nil / non-nil) nothing of kind K is reachable" is decided from E's block with the
//     edges that contradict E removed, first inside the worker, then — for every exit of the worker that is still
//     reachable — in the loop body from the call site, with the edges removed that contradict the values returned at that
//     exit (c10Contradicts) or the assumption about E when the exit hands E's result back as it is.
// Soundness of the case split is the one given for c10DeepCuts: an execution that continues after the worker returned
// through exit e takes no edge of the caller that is contradicted by the values returned at e.

// c10assume: result idx of call is nil (isNil) or is not nil.
type c10assume struct {
	call  *ssa.Call
	idx   int
	isNil bool
}

func c10IsResult(v ssa.Value, call *ssa.Call, idx int) bool {
	if e, ok := v.(*ssa.Extract); ok {
		return e.Tuple == ssa.Value(call) && e.Index == idx
	}
	if v == ssa.Value(call) && idx == 0 {
		_, tup := call.Type().(*types.Tuple)
		return !tup
	}
	return false
}

// c10NilTest: cond evaluating to truth says that o is nil (saysNil) or that it is not.
func c10NilTest(cond ssa.Value, truth bool) (o ssa.Value, saysNil bool, ok bool) {
	for {
		u, isNot := cond.(*ssa.UnOp)
		if !isNot || u.Op != token.NOT {
			break
		}
		cond, truth = u.X, !truth
	}
	bo, isBin := cond.(*ssa.BinOp)
	if !isBin || (bo.Op != token.EQL && bo.Op != token.NEQ) {
		return nil, false, false
	}
	switch {
	case isNilConst(bo.Y):
		o = bo.X
	case isNilConst(bo.X):
		o = bo.Y
	default:
		return nil, false, false
	}
	return o, (bo.Op == token.EQL) == truth, true
}

// c10AssumeCut: the branch edges of fn that cannot be taken under the assumptions (a nil test of an assumed result
// with the opposite outcome).
func c10AssumeCut(fn *ssa.Function, as []c10assume) map[edgeKey]bool {
	cut := map[edgeKey]bool{}
	for _, b := range fn.Blocks {
		iff, isIf := blockTerm(b).(*ssa.If)
		if !isIf || len(b.Succs) != 2 {
			continue
		}
		for j := 0; j < 2; j++ {
			o, saysNil, ok := c10NilTest(iff.Cond, j == 0)
			if !ok {
				continue
			}
			for _, a := range as {
				if c10IsResult(o, a.call, a.idx) && saysNil != a.isNil {
					cut[edgeKey{b.Index, j}] = true
				}
			}
		}
	}
	return cut
}

// callee: the module function a call of the callback runs — a static callee (function, method, closure called where
// it is made), or a closure held in a local that is written exactly once.
func (x *c10frame) callee(call *ssa.Call) (*ssa.Function, *ssa.MakeClosure) {
	if call.Call.IsInvoke() {
		return nil, nil
	}
	v := call.Call.Value
	if fn, ok := v.(*ssa.Function); ok {
		return fn, nil
	}
	if mc, ok := x.origin(v).(*ssa.MakeClosure); ok {
		fn, _ := mc.Fn.(*ssa.Function)
		return fn, mc
	}
	return nil, nil
}

// up: v is a parameter of the per-signature worker (or of the page worker the callback forwards to): the argument it
// receives at the one call site; nil otherwise.
func (x *c10frame) up(v ssa.Value) ssa.Value {
	p, ok := v.(*ssa.Parameter)
	if !ok {
		return nil
	}
	var call *ssa.Call
	switch {
	case x.H != nil && x.hc != nil && p.Parent() == x.H:
		call = x.hc
	case x.fc != nil && x.CB != x.A && p.Parent() == x.CB:
		call = x.fc
	default:
		return nil
	}
	fn := p.Parent()
	if len(call.Call.Args) != len(fn.Params) {
		return nil
	}
	for i, q := range fn.Params {
		if q == p {
			return call.Call.Args[i]
		}
	}
	return nil
}

// toCB rewrites a printed form of the worker's frame into the frame of the function that calls it.
func (x *c10frame) toCB(l string) string {
	if x.H == nil || x.hc == nil || len(x.hc.Call.Args) != len(x.H.Params) {
		return l
	}
	names := make([]string, len(x.H.Params))
	descs := make([]string, len(x.H.Params))
	for k, p := range x.H.Params {
		names[k] = p.Name()
		descs[k] = desc(x.hc.Call.Args[k])
	}
	return substParams(l, names, descs)
}

// inCallback: fn runs as part of the callback (the page worker or the per-signature worker).
func (x *c10frame) inCallback(fn *ssa.Function) bool {
	return fn != nil && (fn == x.CB || (x.H != nil && fn == x.H))
}

// cbBlocks: the blocks of the callback's code.
func (x *c10frame) cbBlocks() []*ssa.BasicBlock {
	out := append([]*ssa.BasicBlock{}, x.CB.Blocks...)
	if x.H != nil {
		out = append(out, x.H.Blocks...)
	}
	return out
}

// c10Loads collects the loads of a cell through its address value, followed into the closures that capture it;
// ok=false when the address is used in a way that is neither a load, a store, a debug reference nor a capture.
func c10Loads(addr ssa.Value, out *[]*ssa.UnOp) bool {
	refs := addr.Referrers()
	if refs == nil {
		return true
	}
	ok := true
	for _, r := range *refs {
		switch u := r.(type) {
		case *ssa.UnOp:
			*out = append(*out, u)
		case *ssa.Store, *ssa.DebugRef:
		case *ssa.MakeClosure:
			fn, _ := u.Fn.(*ssa.Function)
			if fn == nil {
				ok = false
				continue
			}
			for i, b := range u.Bindings {
				if b == addr && i < len(fn.FreeVars) && !c10Loads(fn.FreeVars[i], out) {
					ok = false
				}
			}
		default:
			ok = false
		}
	}
	return ok
}

// workerOnlyCalledInLoop: the per-signature worker is entered only through its call in the loop body. A function or
// method: that call is the only reference to it in the package. A closure: it is made once and either called where it
// is made, or kept in a local that is written once and whose every load is the callee of that call.
func (x *c10frame) workerOnlyCalledInLoop() (bool, string) {
	if x.hmc == nil {
		n := 0
		for _, fn := range x.w.FuncsOfPkg("") {
			for _, b := range fn.Blocks {
				for _, in := range b.Instrs {
					for _, op := range in.Operands(nil) {
						if *op == ssa.Value(x.H) {
							n++
						}
					}
				}
			}
		}
		return n == 1, fmt.Sprintf("%d references to %s (expected: its call in the loop only)", n, fnName(x.H))
	}
	for _, r := range *x.hmc.Referrers() {
		switch u := r.(type) {
		case *ssa.DebugRef:
		case *ssa.Call:
			if u != x.hc || u.Call.Value != ssa.Value(x.hmc) {
				return false, "the closure is used other than by its call in the loop"
			}
			for _, a := range u.Call.Args {
				if a == ssa.Value(x.hmc) {
					return false, "the closure is passed on"
				}
			}
		case *ssa.Store:
			al, isAl := u.Addr.(*ssa.Alloc)
			if !isAl || u.Val != ssa.Value(x.hmc) {
				return false, "the closure is stored somewhere"
			}
			if s := x.stores(c10cell{al, -1}); !s.ok || len(s.sts) != 1 {
				return false, "the variable holding the closure is reassigned or escapes"
			}
			var loads []*ssa.UnOp
			if !c10Loads(al, &loads) {
				return false, "the variable holding the closure escapes"
			}
			for _, l := range loads {
				for _, rr := range *l.Referrers() {
					if _, dbg := rr.(*ssa.DebugRef); dbg {
						continue
					}
					call, isCall := rr.(*ssa.Call)
					if !isCall || call != x.hc || call.Call.Value != ssa.Value(l) {
						return false, "the closure is used other than by its call in the loop (" + x.w.InstrPos(rr) + ")"
					}
					for _, a := range call.Call.Args {
						if a == ssa.Value(l) {
							return false, "the closure is passed on"
						}
					}
				}
			}
		default:
			return false, "the closure is used other than by its call in the loop (" + x.w.InstrPos(r) + ")"
		}
	}
	return true, ""
}

// inIter: the instruction runs inside the loop over the listed manifests (in its body, or in the worker called there).
func (x *c10frame) inIter(in ssa.Instruction, inLoop map[int]bool) bool {
	switch {
	case in.Parent() == x.CB:
		return inLoop[in.Block().Index]
	case x.H != nil && in.Parent() == x.H:
		return inLoop[x.hc.Block().Index]
	}
	return false
}

// iterEdges: the branch edges every path of one iteration takes before it reaches the instruction — from the first
// block of the loop body to the instruction; for an instruction of the worker: to the worker's call, and from the
// worker's entry to the instruction.
func (x *c10frame) iterEdges(body *ssa.BasicBlock, in ssa.Instruction) []c10Edge {
	cfi := x.w.Info(x.CB)
	switch {
	case in.Parent() == x.CB:
		if in.Block() == body {
			return nil
		}
		return c10MustPassEdges(cfi, body, blocksOf(in))
	case x.H != nil && in.Parent() == x.H:
		var out []c10Edge
		if x.hc.Block() != body {
			out = c10MustPassEdges(cfi, body, blocksOf(x.hc))
		}
		if in.Block().Index != 0 {
			out = append(out, c10MustPassEdges(x.w.Info(x.H), x.H.Blocks[0], blocksOf(in))...)
		}
		return out
	}
	return nil
}

// c10Precedes: in fn, every path from the start block to b runs a first.
func c10Precedes(fi *FnInfo, start *ssa.BasicBlock, a, b ssa.Instruction) bool {
	if a.Block() == b.Block() {
		return instrIndex(a) < instrIndex(b)
	}
	if b.Block() == start {
		return false
	}
	if a.Block() == start {
		return true
	}
	cut := map[edgeKey]bool{}
	cutInto(fi, a.Block(), cut)
	return !fi.reachHit([]state{{start.Index, 0, -1}}, cut, blocksOf(b))
}

// precedesInIter: on every path of one iteration that reaches b, a ran before (a, b in the loop body or in the worker).
func (x *c10frame) precedesInIter(body *ssa.BasicBlock, a, b ssa.Instruction) bool {
	cfi := x.w.Info(x.CB)
	fa, fb := a.Parent(), b.Parent()
	switch {
	case fa == fb && fa == x.CB:
		return c10Precedes(cfi, body, a, b)
	case fa == fb && x.H != nil && fa == x.H:
		// b runs only inside an invocation of the worker, and in that invocation a came first
		return c10Precedes(x.w.Info(x.H), x.H.Blocks[0], a, b)
	case fa == x.CB && x.H != nil && fb == x.H:
		// a precedes the worker's call
		return c10Precedes(cfi, body, a, x.hc)
	case x.H != nil && fa == x.H && fb == x.CB:
		// the worker's call precedes b and the worker cannot return without running a
		if !c10Precedes(cfi, body, x.hc, b) {
			return false
		}
		if a.Block().Index == 0 {
			return true
		}
		hfi := x.w.Info(x.H)
		cut := map[edgeKey]bool{}
		cutInto(hfi, a.Block(), cut)
		for st := range hfi.reach(entryState(), cut) {
			if _, isRet := blockTerm(x.H.Blocks[st.b]).(*ssa.Return); isRet {
				return false
			}
		}
		return true
	}
	return false
}

// c10Exits: the exits of the function reachable from the start states without the cut edges.
func c10Exits(fi *FnInfo, starts []state, cut map[edgeKey]bool) []c10exit {
	var out []c10exit
	for st := range fi.reach(starts, cut) {
		if r, ok := blockTerm(fi.Fn.Blocks[st.b]).(*ssa.Return); ok {
			out = append(out, c10exit{r, st})
		}
	}
	sort.Slice(out, func(i, j int) bool {
		if out[i].st.b != out[j].st.b {
			return out[i].st.b < out[j].st.b
		}
		if out[i].st.p != out[j].st.p {
			return out[i].st.p < out[j].st.p
		}
		return out[i].st.m < out[j].st.m
	})
	return out
}

// c10ExitResult: the k-th value returned at the exit (a phi of the return block resolved by the edge taken).
func c10ExitResult(e c10exit, k int) ssa.Value {
	if k < 0 || k >= len(e.ret.Results) {
		return nil
	}
	v := e.ret.Results[k]
	if p, ok := v.(*ssa.Phi); ok && p.Block() == e.ret.Block() && e.st.p >= 0 && e.st.p < len(p.Edges) {
		v = p.Edges[e.st.p]
	}
	return v
}

// callerCut: the worker returned through exit e, under the assumptions: the branch edges of the calling function that
// cannot be taken then.
func (x *c10frame) callerCut(e c10exit, as []c10assume) map[edgeKey]bool {
	hfi := x.w.Info(x.H)
	m := map[edgeKey]bool{}
	for _, b := range x.CB.Blocks {
		iff, isIf := blockTerm(b).(*ssa.If)
		if !isIf || len(b.Succs) != 2 {
			continue
		}
		for j := 0; j < 2; j++ {
			truth := j == 0
			hit := false
			// the exit hands an assumed result back as it is
			if o, saysNil, ok := c10NilTest(iff.Cond, truth); ok {
				if k := c10ResultIdx(x.hc, o); k >= 0 {
					if rv := c10ExitResult(e, k); rv != nil {
						for _, a := range as {
							if c10IsResult(rv, a.call, a.idx) && saysNil != a.isNil {
								hit = true
							}
						}
					}
				}
			}
			if hit || c10Contradicts(hfi, e, x.hc, iff.Cond, truth) {
				m[edgeKey{b.Index, j}] = true
			}
		}
	}
	return m
}

// c10cont: one part of "what can run after the event": a graph, where to start, which edges are removed.
type c10cont struct {
	fi     *FnInfo
	starts []state
	cut    map[edgeKey]bool
}

// forward: what can run in this invocation of the callback after `call` returned as assumed — the rest of the function
// the call is in and, if that is the worker, the loop body from the worker's call site for every way the worker can
// still return.
func (x *c10frame) forward(call *ssa.Call, as ...c10assume) []c10cont {
	F := call.Parent()
	fi := x.w.Info(F)
	cut := c10AssumeCut(F, as)
	starts := []state{{call.Block().Index, 0, -1}}
	out := []c10cont{{fi, starts, cut}}
	if x.H != nil && F == x.H {
		seen := map[string]bool{}
		for _, e := range c10Exits(fi, starts, cut) {
			m := x.callerCut(e, as)
			if k := c10EdgeSetKey(m); !seen[k] {
				seen[k] = true
				out = append(out, c10cont{x.w.Info(x.CB), []state{{x.hc.Block().Index, 0, -1}}, m})
			}
		}
	}
	return out
}

// yields: v is result idx of `call` — the extracted result itself, or (call made in the worker) the k-th result of the
// worker's call where every exit the worker can still take after `call` returned as assumed hands that result back at k.
func (x *c10frame) yields(v ssa.Value, call *ssa.Call, idx int, as ...c10assume) bool {
	for i := 0; i < 4; i++ {
		a := x.up(v)
		if a == nil {
			break
		}
		v = a
	}
	if c10IsResult(v, call, idx) {
		return true
	}
	if x.H == nil || call.Parent() != x.H {
		return false
	}
	k := c10ResultIdx(x.hc, v)
	if k < 0 {
		return false
	}
	hfi := x.w.Info(x.H)
	exits := c10Exits(hfi, []state{{call.Block().Index, 0, -1}}, c10AssumeCut(x.H, as))
	if len(exits) == 0 {
		return false
	}
	for _, e := range exits {
		rv := c10ExitResult(e, k)
		if rv == nil || !c10IsResult(rv, call, idx) {
			// an exit that cannot be followed by a use of v (every use of v is behind edges this exit contradicts)
			// does not matter; without that knowledge: no
			return false
		}
	}
	return true
}

// onlyAfterWorkerSuccess: the instruction of the calling function runs only after the worker's call returned from an
// invocation in which `call` (made in the worker) returned a nil error (result errIdx): the worker's call dominates it,
// and it is unreachable from that call for every exit the worker takes without running `call` or after `call` failed.
func (x *c10frame) onlyAfterWorkerSuccess(in ssa.Instruction, call *ssa.Call, errIdx int) bool {
	if x.H == nil || call.Parent() != x.H || in.Parent() != x.CB {
		return false
	}
	if in.Block() == x.hc.Block() || !x.hc.Block().Dominates(in.Block()) {
		return false
	}
	hfi, cfi := x.w.Info(x.H), x.w.Info(x.CB)
	type alt struct {
		e  c10exit
		as []c10assume
	}
	var alts []alt
	if call.Block().Index != 0 {
		cut := map[edgeKey]bool{}
		cutInto(hfi, call.Block(), cut)
		for _, e := range c10Exits(hfi, entryState(), cut) {
			alts = append(alts, alt{e, nil})
		}
	}
	failed := []c10assume{{call, errIdx, false}}
	for _, e := range c10Exits(hfi, []state{{call.Block().Index, 0, -1}}, c10AssumeCut(x.H, failed)) {
		alts = append(alts, alt{e, failed})
	}
	for _, a := range alts {
		if cfi.reachHit([]state{{x.hc.Block().Index, 0, -1}}, x.callerCut(a.e, a.as), blocksOf(in)) {
			return false
		}
	}
	return true
}

// findStateObject: the callback does its work itself (no forwarding with an object argument) and keeps its books in
// fields of a struct that the outer function allocates: the object whose int field the callback's code stores to. It is
// reached through a captured variable (the struct itself, or the one local holding its address, written once) or through
// a parameter of the per-signature worker that receives one of those. Recognised only if it is one object; everything
// that is then concluded from "these are all the stores to the field" rests on objectDiscipline, as in the forwarding form.
func (x *c10frame) findStateObject() {
	var obj, ptr *ssa.Alloc
	n := 0
	resolve := func(v ssa.Value) (*ssa.Alloc, *ssa.Alloc) {
		for i := 0; i < 4; i++ {
			a := x.up(v)
			if a == nil {
				break
			}
			v = a
		}
		if fv, ok := v.(*ssa.FreeVar); ok {
			if al, ok := x.bind[fv].(*ssa.Alloc); ok && al.Parent() == x.W && c10IsStructPtr(al.Type()) {
				return al, nil
			}
			return nil, nil
		}
		if u, ok := c10IsLoad(v); ok {
			if fv, ok := u.X.(*ssa.FreeVar); ok {
				if p, ok := x.bind[fv].(*ssa.Alloc); ok && p.Parent() == x.W {
					if ps := x.stores(c10cell{p, -1}); ps.ok && len(ps.sts) == 1 {
						if al, ok := ps.sts[0].Val.(*ssa.Alloc); ok && al.Parent() == x.W && c10IsStructPtr(al.Type()) {
							return al, p
						}
					}
				}
			}
		}
		return nil, nil
	}
	for _, b := range x.cbBlocks() {
		for _, in := range b.Instrs {
			st, ok := in.(*ssa.Store)
			if !ok || !isPlainIntPtr(st.Addr.Type()) {
				continue
			}
			fa, ok := st.Addr.(*ssa.FieldAddr)
			if !ok {
				continue
			}
			if o, p := resolve(fa.X); o != nil {
				if obj == nil || o != obj {
					n++
				}
				obj, ptr = o, p
			}
		}
	}
	if n == 1 {
		x.obj, x.objPtr = obj, ptr
	}
}
