package main

// Helpers of the C10 rule set (rules_c10.go):
//   - the frame of one registry verification: the outer function, the listing callback, the function that does the
//     per-page work, and the state the two share (captured locals or fields of a state object);
//   - value origins decided on SSA values through read-only state cells;
//   - cut-set reachability followed into module helpers (a gate that lives in a helper the outer function calls).

import (
	"fmt"
	"go/constant"
	"go/token"
	"go/types"
	"sort"
	"strings"

	"golang.org/x/tools/go/ssa"
)

// c10cell identifies one piece of per-verification state shared by the outer function and the callback:
// a local of some function (base = its Alloc, field = -1; the callback reaches it through a free variable), or a
// field of the state object the outer function allocates and the page worker receives (base = that Alloc).
type c10cell struct {
	base  *ssa.Alloc
	field int
}

type c10stores struct {
	sts []*ssa.Store
	ok  bool // false: the address escapes (stored, passed on, captured by a nested closure, written through a part)
}

type c10frame struct {
	w  *World
	W  *ssa.Function    // the function that lists the signatures (notation.Verify)
	mc *ssa.MakeClosure // the callback handed to ListSignatures
	A  *ssa.Function    // mc's function
	CB *ssa.Function    // the function that fetches and verifies the signatures of one page: A, or the module function A forwards to
	fc *ssa.Call        // A != CB: the forwarding call in A

	bind map[*ssa.FreeVar]ssa.Value // free variables of A -> bindings in W

	page *ssa.Parameter // the parameter of CB that holds the listed page

	// state object form (A forwards to CB and hands it a pointer to an object allocated in W)
	obj      *ssa.Alloc     // the object
	objPtr   *ssa.Alloc     // the local of W that holds its address, if any
	objParam *ssa.Parameter // the parameter of CB that receives the address
	// the object is built by a constructor (c10frame.ctorAlloc): obj is the allocation inside that function
	ctor     *ssa.Function // the constructor
	ctorCall *ssa.Call     // its call in W, whose value is the address of the object

	// per-signature worker form (the loop body of CB hands each listed manifest to one module function or closure)
	H         *ssa.Function    // the worker
	hc        *ssa.Call        // its one call site, inside the loop of CB
	hmc       *ssa.MakeClosure // H is a closure: where it is made
	objParams []*ssa.Parameter // further parameters that receive the address of the state object (of H)

	resolved map[ssa.Value]bool // SSA values that are the descriptor Repository.Resolve returned

	memo map[c10cell]c10stores

	extLoop map[*ssa.BasicBlock]bool // headers of loops recognised by their induction variable only (c10frame.loops)

	// read-only accessors of the state object (c10frame.findAccessors)
	accCalls  map[*ssa.Call]bool      // their calls in the outer function, the page worker and the per-signature worker
	accParams map[*ssa.Parameter]bool // their parameters that receive the address of the state object
}

func c10IsLoad(v ssa.Value) (*ssa.UnOp, bool) {
	u, ok := v.(*ssa.UnOp)
	return u, ok && u.Op == token.MUL
}

// isObj: v is the address of the state object (in W, in the adapter or in the page worker).
func (x *c10frame) isObj(v ssa.Value) bool {
	if x.obj == nil {
		return false
	}
	if v == ssa.Value(x.obj) || (x.objParam != nil && v == ssa.Value(x.objParam)) {
		return true
	}
	if x.ctorCall != nil && v == ssa.Value(x.ctorCall) {
		return true
	}
	for _, p := range x.objParams {
		if v == ssa.Value(p) {
			return true
		}
	}
	if p, ok := v.(*ssa.Parameter); ok && x.accParams[p] {
		return true
	}
	if fv, ok := v.(*ssa.FreeVar); ok && x.bind[fv] == ssa.Value(x.obj) {
		return true
	}
	if u, ok := c10IsLoad(v); ok && x.objPtr != nil {
		if u.X == ssa.Value(x.objPtr) {
			return true
		}
		if fv, ok := u.X.(*ssa.FreeVar); ok && x.bind[fv] == ssa.Value(x.objPtr) {
			return true
		}
	}
	return false
}

// cellOf: the state cell an address denotes.
func (x *c10frame) cellOf(addr ssa.Value) (c10cell, bool) {
	switch a := addr.(type) {
	case *ssa.FreeVar:
		if al, ok := x.bind[a].(*ssa.Alloc); ok {
			return c10cell{al, -1}, true
		}
	case *ssa.Alloc:
		return c10cell{a, -1}, true
	case *ssa.FieldAddr:
		if x.isObj(a.X) {
			return c10cell{x.obj, a.Field}, true
		}
	}
	return c10cell{}, false
}

func (x *c10frame) cellOfLoad(v ssa.Value) (c10cell, bool) {
	if u, ok := c10IsLoad(v); ok {
		return x.cellOf(u.X)
	}
	return c10cell{}, false
}

func (x *c10frame) cellType(c c10cell) types.Type {
	pt, ok := c.base.Type().Underlying().(*types.Pointer)
	if !ok {
		return nil
	}
	if c.field < 0 {
		return pt.Elem()
	}
	if f := fieldOf(c.base.Type(), c.field); f != nil {
		return f.Type()
	}
	return nil
}

func (x *c10frame) cellName(c c10cell) string {
	if c.field < 0 {
		return "local " + c.base.Comment
	}
	return "field " + fieldName(c.base.Type(), c.field)
}

// addrUses sorts the uses of an address value: whole-value stores through it are collected, loads are ignored, anything
// else (the address stored or passed on, a part of it written, a nested capture) makes it escape.
func c10AddrUses(addr ssa.Value, out *c10stores) {
	refs := addr.Referrers()
	if refs == nil {
		return
	}
	for _, r := range *refs {
		switch u := r.(type) {
		case *ssa.Store:
			if u.Addr == addr {
				out.sts = append(out.sts, u)
			} else {
				out.ok = false
			}
		case *ssa.UnOp, *ssa.DebugRef:
		case *ssa.FieldAddr:
			if addrWritten(u, 0) {
				out.ok = false
			}
		case *ssa.IndexAddr:
			if addrWritten(u, 0) {
				out.ok = false
			}
		case *ssa.MakeClosure:
			// the cell is captured once more by a closure nested in this one: its uses there count the same way
			fn, _ := u.Fn.(*ssa.Function)
			if fn == nil {
				out.ok = false
				continue
			}
			for i, b := range u.Bindings {
				if b == addr && i < len(fn.FreeVars) {
					c10AddrUses(fn.FreeVars[i], out)
				}
			}
		default:
			out.ok = false
		}
	}
}

// stores returns every store to the cell — in the function that owns it, in every closure that captures it, in the
// outer function and the page worker for a field of the state object — and whether that list is complete.
func (x *c10frame) stores(c c10cell) c10stores {
	if s, ok := x.memo[c]; ok {
		return s
	}
	out := c10stores{ok: true}
	if c.field < 0 {
		refs := c.base.Referrers()
		if refs != nil {
			for _, r := range *refs {
				switch u := r.(type) {
				case *ssa.Store:
					if u.Addr == ssa.Value(c.base) {
						out.sts = append(out.sts, u)
					} else {
						out.ok = false
					}
				case *ssa.UnOp, *ssa.DebugRef:
				case *ssa.FieldAddr:
					if !(c.base == x.obj) && addrWritten(u, 0) {
						out.ok = false
					}
				case *ssa.IndexAddr:
					if addrWritten(u, 0) {
						out.ok = false
					}
				case *ssa.MakeClosure:
					fn, _ := u.Fn.(*ssa.Function)
					if fn == nil {
						out.ok = false
						continue
					}
					for i, b := range u.Bindings {
						if b == ssa.Value(c.base) && i < len(fn.FreeVars) {
							c10AddrUses(fn.FreeVars[i], &out)
						}
					}
				default:
					out.ok = false
				}
			}
		}
	} else {
		done := map[*ssa.Function]bool{}
		for _, fn := range []*ssa.Function{x.W, x.A, x.CB, x.H, x.ctor} {
			if fn == nil || done[fn] {
				continue
			}
			done[fn] = true
			for _, b := range fn.Blocks {
				for _, in := range b.Instrs {
					if fa, ok := in.(*ssa.FieldAddr); ok && fa.Field == c.field && x.isObj(fa.X) {
						c10AddrUses(fa, &out)
					}
				}
			}
		}
	}
	x.memo[c] = out
	return out
}

// origin follows a value back through loads of state cells that are written exactly once (read-only after their
// initialisation): the load yields the value that one store put there. Sound because the list of stores is complete
// (no escape) and a cell with a single store holds either its zero value (before the store) or that value.
func (x *c10frame) origin(v ssa.Value) ssa.Value {
	for i := 0; i < 8; i++ {
		// a parameter of the per-signature worker or of the page worker holds the argument of its one call site
		if a := x.up(v); a != nil {
			v = a
			continue
		}
		c, ok := x.cellOfLoad(v)
		if !ok {
			return v
		}
		s := x.stores(c)
		if !s.ok || len(s.sts) != 1 {
			return v
		}
		v = s.sts[0].Val
	}
	return v
}

func c10StripConv(v ssa.Value) ssa.Value {
	for {
		switch c := v.(type) {
		case *ssa.ChangeType:
			v = c.X
		case *ssa.Convert:
			v = c.X
		default:
			return v
		}
	}
}

// isResolved: the value is the descriptor Repository.Resolve returned.
func (x *c10frame) isResolved(v ssa.Value) bool { return x.resolved[x.origin(v)] }

// isResolvedDigest: the value is the Digest field of the resolved descriptor, as a digest or as its string.
func (x *c10frame) isResolvedDigest(v ssa.Value) bool {
	v = c10StripConv(v)
	if call, ok := v.(*ssa.Call); ok && calleeName(call) == "(digest.Digest).String" && len(call.Call.Args) == 1 {
		v = c10StripConv(call.Call.Args[0])
	}
	switch o := x.origin(v).(type) {
	case *ssa.UnOp:
		if o.Op != token.MUL {
			return false
		}
		fa, ok := o.X.(*ssa.FieldAddr)
		if !ok || fieldName(fa.X.Type(), fa.Field) != "Digest" {
			return false
		}
		c, ok := x.cellOf(fa.X)
		if !ok {
			return false
		}
		s := x.stores(c)
		return s.ok && len(s.sts) == 1 && x.isResolved(s.sts[0].Val)
	case *ssa.Field:
		return fieldName(o.X.Type(), o.Field) == "Digest" && x.isResolved(o.X)
	}
	return false
}

// isParsedReference: the value is the Reference part of what registry.ParseReference returned.
func isParsedReference(v ssa.Value) bool {
	d := desc(c10StripConv(v))
	return strings.HasPrefix(d, "call:oras/registry.ParseReference(") && strings.HasSuffix(d, "#0.Reference")
}

// isLimit: the value is MaxSignatureAttempts of the options the outer function was called with.
func (x *c10frame) isLimit(v ssa.Value) bool {
	switch o := x.origin(c10StripConv(v)).(type) {
	case *ssa.UnOp:
		if o.Op != token.MUL {
			return false
		}
		fa, ok := o.X.(*ssa.FieldAddr)
		if !ok || fieldName(fa.X.Type(), fa.Field) != "MaxSignatureAttempts" {
			return false
		}
		if x.isOptsParam(fa.X) {
			return true
		}
		c, ok := x.cellOf(fa.X)
		if !ok {
			return false
		}
		s := x.stores(c)
		return s.ok && len(s.sts) == 1 && x.isOptsParam(s.sts[0].Val)
	case *ssa.Field:
		return fieldName(o.X.Type(), o.Field) == "MaxSignatureAttempts" && x.isOptsParam(x.origin(o.X))
	}
	return false
}

func (x *c10frame) isOptsParam(v ssa.Value) bool {
	p, ok := v.(*ssa.Parameter)
	return ok && p.Parent() == x.W && namedOf(p.Type()) == "ngo.VerifyOptions"
}

// c10Cmp: the comparison that holds when cond evaluates to truth, constants on the right.
func c10Cmp(cond ssa.Value, truth bool) (token.Token, ssa.Value, ssa.Value, bool) {
	for {
		u, ok := cond.(*ssa.UnOp)
		if !ok || u.Op != token.NOT {
			break
		}
		cond, truth = u.X, !truth
	}
	bo, ok := cond.(*ssa.BinOp)
	if !ok {
		return 0, nil, nil, false
	}
	op := bo.Op
	switch op {
	case token.EQL, token.NEQ, token.LSS, token.GEQ, token.GTR, token.LEQ:
	default:
		return 0, nil, nil, false
	}
	if !truth {
		op = negOp(op)
	}
	a, b := bo.X, bo.Y
	if _, ak := a.(*ssa.Const); ak {
		if _, bk := b.(*ssa.Const); !bk {
			a, b = b, a
			op = c10Mirror(op)
		}
	}
	return op, a, b, true
}

func c10Mirror(op token.Token) token.Token {
	switch op {
	case token.LSS:
		return token.GTR
	case token.GTR:
		return token.LSS
	case token.LEQ:
		return token.GEQ
	case token.GEQ:
		return token.LEQ
	}
	return op
}

func c10IntConst(v ssa.Value, n int64) bool {
	k, ok := v.(*ssa.Const)
	if !ok || k.Value == nil || k.Value.Kind() != constant.Int {
		return false
	}
	m, exact := constant.Int64Val(k.Value)
	return exact && m == n
}

func c10BoolConst(v ssa.Value) (bool, bool) {
	k, ok := v.(*ssa.Const)
	if !ok || k.Value == nil || k.Value.Kind() != constant.Bool {
		return false, false
	}
	return constant.BoolVal(k.Value), true
}

// c10Edge is one branch edge: the If and the outcome of its condition.
type c10Edge struct {
	iff   *ssa.If
	truth bool
}

// mustPassEdges: the branch edges every path from the start block to one of the target blocks takes.
func c10MustPassEdges(fi *FnInfo, start *ssa.BasicBlock, targets map[int]bool) []c10Edge {
	ss := []state{{start.Index, 0, -1}}
	if !fi.reachHit(ss, nil, targets) {
		return nil
	}
	var out []c10Edge
	for _, b := range fi.Fn.Blocks {
		iff, isIf := blockTerm(b).(*ssa.If)
		if !isIf || len(b.Succs) != 2 {
			continue
		}
		for j := 0; j < 2; j++ {
			if !fi.reachHit(ss, map[edgeKey]bool{{b.Index, j}: true}, targets) {
				out = append(out, c10Edge{iff, j == 0})
			}
		}
	}
	return out
}

// ---------- cut sets followed into helpers -----------------------------------
//
// A rule of the form "the target is reachable only through one of the selected edges" (a disjunctive, fail-closed gate)
// is decided by removing the selected edges and asking whether the target is still reachable. When the outer function
// delegates the test to a module helper (`skipped, out, err := probe(v); if err != nil {…}; if skipped {…}`), the selected
// edges are in the helper. The helper then returns only through the exits that remain reachable in *its* graph without
// its selected edges, and what the caller does next is decided by the tests it applies to the helper's results. So, for
// every such remaining exit, the caller's edges whose condition contradicts the results returned at that exit are
// removed as well; the target must be unreachable for every remaining exit (a case split on how the helper returned).
//
// Soundness: take an execution that reaches the target without taking a selected edge anywhere. Its last call of the
// helper returned through an exit e that is reachable without the helper's selected edges; the caller's path after the
// call is consistent with the values returned at e, hence it uses no edge contradicted by e and no selected edge of the
// caller: the target is reachable in the caller's graph cut for e — which the rule refutes.

type c10exit struct {
	ret *ssa.Return
	st  state
}

func c10ResultIdx(call *ssa.Call, v ssa.Value) int {
	if v == ssa.Value(call) {
		if _, tup := call.Type().(*types.Tuple); !tup {
			return 0
		}
		return -1
	}
	if e, ok := v.(*ssa.Extract); ok && e.Tuple == ssa.Value(call) {
		return e.Index
	}
	return -1
}

// c10Contradicts: the helper returned through exit e; can the caller's condition cond (a test of a result of that call)
// evaluate to truth? true = it cannot.
func c10Contradicts(hi *FnInfo, e c10exit, call *ssa.Call, cond ssa.Value, truth bool) bool {
	for {
		u, ok := cond.(*ssa.UnOp)
		if !ok || u.Op != token.NOT {
			break
		}
		cond, truth = u.X, !truth
	}
	result := func(k int) (ssa.Value, *ssa.BasicBlock) {
		if k >= len(e.ret.Results) {
			return nil, nil
		}
		v := e.ret.Results[k]
		at := e.ret.Block()
		if p, ok := v.(*ssa.Phi); ok && p.Block() == at && e.st.p >= 0 && e.st.p < len(p.Edges) {
			v, at = p.Edges[e.st.p], at.Preds[e.st.p]
		}
		return v, at
	}
	if k := c10ResultIdx(call, cond); k >= 0 {
		rv, _ := result(k)
		if rv == nil {
			return false
		}
		if bv, ok := c10BoolConst(rv); ok {
			return bv != truth
		}
		return false
	}
	bo, ok := cond.(*ssa.BinOp)
	if !ok || (bo.Op != token.EQL && bo.Op != token.NEQ) {
		return false
	}
	var o ssa.Value
	switch {
	case isNilConst(bo.Y):
		o = bo.X
	case isNilConst(bo.X):
		o = bo.Y
	default:
		return false
	}
	k := c10ResultIdx(call, o)
	if k < 0 {
		return false
	}
	saysNil := (bo.Op == token.EQL) == truth
	rv, at := result(k)
	if rv == nil {
		return false
	}
	if isErrorType(o.Type()) && k == len(e.ret.Results)-1 {
		cl, _, _, _ := hi.classify(e.ret, state{e.st.b, hi.through(e.ret.Block(), e.st.m), e.st.p}, Mode{Kind: mErr})
		if saysNil {
			return cl == clFail
		}
		return cl == clSuccess
	}
	if saysNil {
		return hi.nonNil(rv, at)
	}
	return isNilConst(rv)
}

func c10EdgeSetKey(m map[edgeKey]bool) string {
	var ks []string
	for e := range m {
		ks = append(ks, fmt.Sprintf("%d.%d", e.b, e.succ))
	}
	sort.Strings(ks)
	return strings.Join(ks, ",")
}

// c10DeepCuts returns the alternative cut sets of fi for the selection (one per combination of remaining helper exits)
// and the number of selected edges found in fi and in the helpers it calls. subst rewrites a label of fi into the frame
// of the function the selection was written for.
func c10DeepCuts(w *World, fi *FnInfo, sel c10sel, subst func(string) string, depth int, busy map[*ssa.Function]bool) ([]map[edgeKey]bool, int) {
	// (a branch on a computed disjunction is selected when each of its elementary facts is: c10Alts)
	own := fi.edgesMatching(func(_ string, iff *ssa.If, truth bool) bool { return c10AllAlts(sel, subst, iff.Cond, truth) })
	n := len(own)
	alts := []map[edgeKey]bool{own}
	if depth >= 2 {
		return alts, n
	}
	busy[fi.Fn] = true
	defer delete(busy, fi.Fn)
	for _, ci := range allCalls(fi.Fn) {
		call, ok := ci.(*ssa.Call)
		if !ok {
			continue
		}
		h := staticCallee(call)
		if h == nil || h.Blocks == nil || !w.IsProductFn(h) || busy[h] || h.Parent() != nil || len(call.Call.Args) != len(h.Params) {
			continue
		}
		names := make([]string, len(h.Params))
		descs := make([]string, len(h.Params))
		for i, p := range h.Params {
			names[i] = p.Name()
			descs[i] = subst(desc(call.Call.Args[i]))
		}
		hi := w.Info(h)
		hAlts, hn := c10DeepCuts(w, hi, sel, func(l string) string { return substParams(l, names, descs) }, depth+1, busy)
		if hn == 0 {
			continue
		}
		n += hn
		// the exits of the helper that remain reachable without its selected edges
		var exits []c10exit
		seen := map[c10exit]bool{}
		for _, a := range hAlts {
			for st := range hi.reach(entryState(), a) {
				if r, ok := blockTerm(h.Blocks[st.b]).(*ssa.Return); ok {
					e := c10exit{r, st}
					if !seen[e] {
						seen[e] = true
						exits = append(exits, e)
					}
				}
			}
		}
		var per []map[edgeKey]bool
		perSeen := map[string]bool{}
		if len(exits) == 0 {
			// the helper does not return at all without a selected edge: nothing after the call is reachable
			m := map[edgeKey]bool{}
			for j := range call.Block().Succs {
				m[edgeKey{call.Block().Index, j}] = true
			}
			per = append(per, m)
		}
		for _, e := range exits {
			m := map[edgeKey]bool{}
			for _, b := range fi.Fn.Blocks {
				iff, isIf := blockTerm(b).(*ssa.If)
				if !isIf || len(b.Succs) != 2 {
					continue
				}
				for j := 0; j < 2; j++ {
					if c10Contradicts(hi, e, call, iff.Cond, j == 0) {
						m[edgeKey{b.Index, j}] = true
					}
				}
			}
			if k := c10EdgeSetKey(m); !perSeen[k] {
				perSeen[k] = true
				per = append(per, m)
			}
		}
		if len(alts)*len(per) > 256 {
			continue // too many combinations: do without this helper's case split (fewer edges removed: conservative)
		}
		var next []map[edgeKey]bool
		for _, a := range alts {
			for _, p := range per {
				m := map[edgeKey]bool{}
				for e := range a {
					m[e] = true
				}
				for e := range p {
					m[e] = true
				}
				next = append(next, m)
			}
		}
		alts = next
	}
	return alts, n
}

func c10Ident(l string) string { return l }

// c10DeepBlocked: no target block is reachable from the entry of fi once the selected edges (own and in helpers) are removed.
func c10DeepBlocked(w *World, fi *FnInfo, sel c10sel, targets map[int]bool) (bool, int) {
	alts, n := c10DeepCuts(w, fi, sel, c10Ident, 0, map[*ssa.Function]bool{})
	for _, a := range alts {
		if fi.reachHit(entryState(), a, targets) {
			return false, n
		}
	}
	return true, n
}

// c10DeepExitsBlocked: none of the exits can report success once the selected edges (own and in helpers) are removed.
func c10DeepExitsBlocked(w *World, fi *FnInfo, exits []*ExitSum, sel c10sel) (bool, int, []string) {
	alts, n := c10DeepCuts(w, fi, sel, c10Ident, 0, map[*ssa.Function]bool{})
	for _, a := range alts {
		r := fi.reach(entryState(), a)
		for _, ex := range exits {
			for st := range r {
				if st.b == ex.Ret.Block().Index {
					cl, _, _, _ := fi.classify(ex.Ret, state{st.b, fi.through(fi.Fn.Blocks[st.b], st.m), st.p}, Mode{Kind: mErr})
					if cl != clFail {
						return false, n, []string{fmt.Sprintf("exit b%d %s", st.b, fi.W.InstrPos(ex.Ret))}
					}
				}
			}
		}
	}
	return true, n, nil
}

// c10Helpers: the module functions the outer function calls directly or through one of them (not closures), with the
// chain of call sites that leads to each (outermost first).
type c10helper struct {
	fn    *ssa.Function
	chain []*ssa.Call
}

func c10Helpers(w *World, W *ssa.Function) []c10helper {
	var out []c10helper
	seen := map[*ssa.Function]bool{W: true}
	var rec func(f *ssa.Function, chain []*ssa.Call, depth int)
	rec = func(f *ssa.Function, chain []*ssa.Call, depth int) {
		for _, ci := range allCalls(f) {
			call, ok := ci.(*ssa.Call)
			if !ok {
				continue
			}
			h := staticCallee(call)
			if h == nil || h.Blocks == nil || !w.IsProductFn(h) || h.Parent() != nil || seen[h] || fnPkg(h) != fnPkg(W) {
				continue
			}
			seen[h] = true
			ch := append(append([]*ssa.Call{}, chain...), call)
			out = append(out, c10helper{h, ch})
			if depth < 1 {
				rec(h, ch, depth+1)
			}
		}
	}
	rec(W, nil, 0)
	return out
}

// c10ToOuter rewrites a label of the function at the end of the chain into the frame of the outer function.
func c10ToOuter(chain []*ssa.Call, l string) string {
	for i := len(chain) - 1; i >= 0; i-- {
		call := chain[i]
		h := staticCallee(call)
		if h == nil || len(call.Call.Args) != len(h.Params) {
			return l
		}
		names := make([]string, len(h.Params))
		descs := make([]string, len(h.Params))
		for k, p := range h.Params {
			names[k] = p.Name()
			descs[k] = desc(call.Call.Args[k])
		}
		l = substParams(l, names, descs)
	}
	return l
}

// ---------- the per-signature worker -------------------------------------------
//
// The body of the loop over the listed manifests may hand each manifest to one module function, method or closure
// ("per-signature worker": `ok, err := st.verifyOne(ctx, m)`), which does the fetch, the verification or both, and keeps
// or returns what it found. The rules about one iteration are then rules about the loop body *with the worker's body in
// the place of its call*: the worker is entered only from that call (checked), its parameters are the arguments of that
// call, and it returns into the loop body through one of its exits. Path rules are decided by a case split on that exit:
//   - "X happens before Y in every iteration" is decided in the function both live in, or across the call (X before the
//     call / on every path through the worker);
//   - "after event E (a call returned nil / non-nil) nothing of kind K is reachable" is decided from E's block with the
//     edges that contradict E removed, first inside the worker, then — for every exit of the worker that is still
//     reachable — in the loop body from the call site, with the edges removed that contradict the values returned at that
//     exit (c10Contradicts) or the assumption about E when the exit hands E's result back as it is.
// Soundness of the case split is the one given for c10DeepCuts: an execution that continues after the worker returned
// through exit e takes no edge of the caller that is contradicted by the values returned at e.

// c10assume: result idx of call is nil (isNil) or is not nil.
type c10assume struct {
	call  *ssa.Call
	idx   int
	isNil bool
}

func c10IsResult(v ssa.Value, call *ssa.Call, idx int) bool {
	if e, ok := v.(*ssa.Extract); ok {
		return e.Tuple == ssa.Value(call) && e.Index == idx
	}
	if v == ssa.Value(call) && idx == 0 {
		_, tup := call.Type().(*types.Tuple)
		return !tup
	}
	return false
}

// c10NilTest: cond evaluating to truth says that o is nil (saysNil) or that it is not.
func c10NilTest(cond ssa.Value, truth bool) (o ssa.Value, saysNil bool, ok bool) {
	for {
		u, isNot := cond.(*ssa.UnOp)
		if !isNot || u.Op != token.NOT {
			break
		}
		cond, truth = u.X, !truth
	}
	bo, isBin := cond.(*ssa.BinOp)
	if !isBin || (bo.Op != token.EQL && bo.Op != token.NEQ) {
		return nil, false, false
	}
	switch {
	case isNilConst(bo.Y):
		o = bo.X
	case isNilConst(bo.X):
		o = bo.Y
	default:
		return nil, false, false
	}
	return o, (bo.Op == token.EQL) == truth, true
}

// c10AssumeCut: the branch edges of fn that cannot be taken under the assumptions (a nil test of an assumed result
// with the opposite outcome).
func c10AssumeCut(fn *ssa.Function, as []c10assume) map[edgeKey]bool {
	cut := map[edgeKey]bool{}
	for _, b := range fn.Blocks {
		iff, isIf := blockTerm(b).(*ssa.If)
		if !isIf || len(b.Succs) != 2 {
			continue
		}
		for j := 0; j < 2; j++ {
			o, saysNil, ok := c10NilTest(iff.Cond, j == 0)
			if !ok {
				continue
			}
			for _, a := range as {
				if c10IsResult(o, a.call, a.idx) && saysNil != a.isNil {
					cut[edgeKey{b.Index, j}] = true
				}
			}
		}
	}
	return cut
}

// callee: the module function a call of the callback runs — a static callee (function, method, closure called where
// it is made), or a closure held in a local that is written exactly once.
func (x *c10frame) callee(call *ssa.Call) (*ssa.Function, *ssa.MakeClosure) {
	if call.Call.IsInvoke() {
		return nil, nil
	}
	v := call.Call.Value
	if fn, ok := v.(*ssa.Function); ok {
		return fn, nil
	}
	if mc, ok := x.origin(v).(*ssa.MakeClosure); ok {
		fn, _ := mc.Fn.(*ssa.Function)
		return fn, mc
	}
	return nil, nil
}

// up: v is a parameter of the per-signature worker (or of the page worker the callback forwards to): the argument it
// receives at the one call site; nil otherwise.
func (x *c10frame) up(v ssa.Value) ssa.Value {
	p, ok := v.(*ssa.Parameter)
	if !ok {
		return nil
	}
	var call *ssa.Call
	switch {
	case x.H != nil && x.hc != nil && p.Parent() == x.H:
		call = x.hc
	case x.fc != nil && x.CB != x.A && p.Parent() == x.CB:
		call = x.fc
	case x.ctor != nil && x.ctorCall != nil && p.Parent() == x.ctor:
		// a parameter of the constructor of the state object, for the object of this verification: the argument of the
		// constructor's call in the outer function (other calls of the constructor build other objects)
		call = x.ctorCall
	default:
		return nil
	}
	fn := p.Parent()
	if len(call.Call.Args) != len(fn.Params) {
		return nil
	}
	for i, q := range fn.Params {
		if q == p {
			return call.Call.Args[i]
		}
	}
	return nil
}

// toCB rewrites a printed form of the worker's frame into the frame of the function that calls it.
func (x *c10frame) toCB(l string) string {
	if x.H == nil || x.hc == nil || len(x.hc.Call.Args) != len(x.H.Params) {
		return l
	}
	names := make([]string, len(x.H.Params))
	descs := make([]string, len(x.H.Params))
	for k, p := range x.H.Params {
		names[k] = p.Name()
		descs[k] = desc(x.hc.Call.Args[k])
	}
	return substParams(l, names, descs)
}

// inCallback: fn runs as part of the callback (the page worker or the per-signature worker).
func (x *c10frame) inCallback(fn *ssa.Function) bool {
	return fn != nil && (fn == x.CB || (x.H != nil && fn == x.H))
}

// cbBlocks: the blocks of the callback's code.
func (x *c10frame) cbBlocks() []*ssa.BasicBlock {
	out := append([]*ssa.BasicBlock{}, x.CB.Blocks...)
	if x.H != nil {
		out = append(out, x.H.Blocks...)
	}
	return out
}

// c10Loads collects the loads of a cell through its address value, followed into the closures that capture it;
// ok=false when the address is used in a way that is neither a load, a store, a debug reference nor a capture.
func c10Loads(addr ssa.Value, out *[]*ssa.UnOp) bool {
	refs := addr.Referrers()
	if refs == nil {
		return true
	}
	ok := true
	for _, r := range *refs {
		switch u := r.(type) {
		case *ssa.UnOp:
			*out = append(*out, u)
		case *ssa.Store, *ssa.DebugRef:
		case *ssa.MakeClosure:
			fn, _ := u.Fn.(*ssa.Function)
			if fn == nil {
				ok = false
				continue
			}
			for i, b := range u.Bindings {
				if b == addr && i < len(fn.FreeVars) && !c10Loads(fn.FreeVars[i], out) {
					ok = false
				}
			}
		default:
			ok = false
		}
	}
	return ok
}

// workerOnlyCalledInLoop: the per-signature worker is entered only through its call in the loop body. A function or
// method: that call is the only reference to it in the package. A closure: it is made once and either called where it
// is made, or kept in a local that is written once and whose every load is the callee of that call.
func (x *c10frame) workerOnlyCalledInLoop() (bool, string) {
	if x.hmc == nil {
		n := 0
		for _, fn := range x.w.FuncsOfPkg("") {
			for _, b := range fn.Blocks {
				for _, in := range b.Instrs {
					for _, op := range in.Operands(nil) {
						if *op == ssa.Value(x.H) {
							n++
						}
					}
				}
			}
		}
		return n == 1, fmt.Sprintf("%d references to %s (expected: its call in the loop only)", n, fnName(x.H))
	}
	for _, r := range *x.hmc.Referrers() {
		switch u := r.(type) {
		case *ssa.DebugRef:
		case *ssa.Call:
			if u != x.hc || u.Call.Value != ssa.Value(x.hmc) {
				return false, "the closure is used other than by its call in the loop"
			}
			for _, a := range u.Call.Args {
				if a == ssa.Value(x.hmc) {
					return false, "the closure is passed on"
				}
			}
		case *ssa.Store:
			al, isAl := u.Addr.(*ssa.Alloc)
			if !isAl || u.Val != ssa.Value(x.hmc) {
				return false, "the closure is stored somewhere"
			}
			if s := x.stores(c10cell{al, -1}); !s.ok || len(s.sts) != 1 {
				return false, "the variable holding the closure is reassigned or escapes"
			}
			var loads []*ssa.UnOp
			if !c10Loads(al, &loads) {
				return false, "the variable holding the closure escapes"
			}
			for _, l := range loads {
				for _, rr := range *l.Referrers() {
					if _, dbg := rr.(*ssa.DebugRef); dbg {
						continue
					}
					call, isCall := rr.(*ssa.Call)
					if !isCall || call != x.hc || call.Call.Value != ssa.Value(l) {
						return false, "the closure is used other than by its call in the loop (" + x.w.InstrPos(rr) + ")"
					}
					for _, a := range call.Call.Args {
						if a == ssa.Value(l) {
							return false, "the closure is passed on"
						}
					}
				}
			}
		default:
			return false, "the closure is used other than by its call in the loop (" + x.w.InstrPos(r) + ")"
		}
	}
	return true, ""
}

// inIter: the instruction runs inside the loop over the listed manifests (in its body, or in the worker called there).
func (x *c10frame) inIter(in ssa.Instruction, inLoop map[int]bool) bool {
	switch {
	case in.Parent() == x.CB:
		return inLoop[in.Block().Index]
	case x.H != nil && in.Parent() == x.H:
		return inLoop[x.hc.Block().Index]
	}
	return false
}

// iterEdges: the branch edges every path of one iteration takes before it reaches the instruction — from the first
// block of the loop body to the instruction; for an instruction of the worker: to the worker's call, and from the
// worker's entry to the instruction.
func (x *c10frame) iterEdges(body *ssa.BasicBlock, in ssa.Instruction) []c10Edge {
	cfi := x.w.Info(x.CB)
	switch {
	case in.Parent() == x.CB:
		if in.Block() == body {
			return nil
		}
		return c10MustPassEdges(cfi, body, blocksOf(in))
	case x.H != nil && in.Parent() == x.H:
		var out []c10Edge
		if x.hc.Block() != body {
			out = c10MustPassEdges(cfi, body, blocksOf(x.hc))
		}
		if in.Block().Index != 0 {
			out = append(out, c10MustPassEdges(x.w.Info(x.H), x.H.Blocks[0], blocksOf(in))...)
		}
		return out
	}
	return nil
}

// c10Precedes: in fn, every path from the start block to b runs a first.
func c10Precedes(fi *FnInfo, start *ssa.BasicBlock, a, b ssa.Instruction) bool {
	if a.Block() == b.Block() {
		return instrIndex(a) < instrIndex(b)
	}
	if b.Block() == start {
		return false
	}
	if a.Block() == start {
		return true
	}
	cut := map[edgeKey]bool{}
	cutInto(fi, a.Block(), cut)
	return !fi.reachHit([]state{{start.Index, 0, -1}}, cut, blocksOf(b))
}

// precedesInIter: on every path of one iteration that reaches b, a ran before (a, b in the loop body or in the worker).
func (x *c10frame) precedesInIter(body *ssa.BasicBlock, a, b ssa.Instruction) bool {
	cfi := x.w.Info(x.CB)
	fa, fb := a.Parent(), b.Parent()
	switch {
	case fa == fb && fa == x.CB:
		return c10Precedes(cfi, body, a, b)
	case fa == fb && x.H != nil && fa == x.H:
		// b runs only inside an invocation of the worker, and in that invocation a came first
		return c10Precedes(x.w.Info(x.H), x.H.Blocks[0], a, b)
	case fa == x.CB && x.H != nil && fb == x.H:
		// a precedes the worker's call
		return c10Precedes(cfi, body, a, x.hc)
	case x.H != nil && fa == x.H && fb == x.CB:
		// the worker's call precedes b and the worker cannot return without running a
		if !c10Precedes(cfi, body, x.hc, b) {
			return false
		}
		if a.Block().Index == 0 {
			return true
		}
		hfi := x.w.Info(x.H)
		cut := map[edgeKey]bool{}
		cutInto(hfi, a.Block(), cut)
		for st := range hfi.reach(entryState(), cut) {
			if _, isRet := blockTerm(x.H.Blocks[st.b]).(*ssa.Return); isRet {
				return false
			}
		}
		return true
	}
	return false
}

// c10Exits: the exits of the function reachable from the start states without the cut edges.
func c10Exits(fi *FnInfo, starts []state, cut map[edgeKey]bool) []c10exit {
	var out []c10exit
	for st := range fi.reach(starts, cut) {
		if r, ok := blockTerm(fi.Fn.Blocks[st.b]).(*ssa.Return); ok {
			out = append(out, c10exit{r, st})
		}
	}
	sort.Slice(out, func(i, j int) bool {
		if out[i].st.b != out[j].st.b {
			return out[i].st.b < out[j].st.b
		}
		if out[i].st.p != out[j].st.p {
			return out[i].st.p < out[j].st.p
		}
		return out[i].st.m < out[j].st.m
	})
	return out
}

// c10ExitResult: the k-th value returned at the exit (a phi of the return block resolved by the edge taken).
func c10ExitResult(e c10exit, k int) ssa.Value {
	if k < 0 || k >= len(e.ret.Results) {
		return nil
	}
	v := e.ret.Results[k]
	if p, ok := v.(*ssa.Phi); ok && p.Block() == e.ret.Block() && e.st.p >= 0 && e.st.p < len(p.Edges) {
		v = p.Edges[e.st.p]
	}
	return v
}

// callerCut: the worker returned through exit e, under the assumptions: the branch edges of the calling function that
// cannot be taken then.
func (x *c10frame) callerCut(e c10exit, as []c10assume) map[edgeKey]bool {
	hfi := x.w.Info(x.H)
	m := map[edgeKey]bool{}
	for _, b := range x.CB.Blocks {
		iff, isIf := blockTerm(b).(*ssa.If)
		if !isIf || len(b.Succs) != 2 {
			continue
		}
		for j := 0; j < 2; j++ {
			truth := j == 0
			hit := false
			// the exit hands an assumed result back as it is
			if o, saysNil, ok := c10NilTest(iff.Cond, truth); ok {
				if k := c10ResultIdx(x.hc, o); k >= 0 {
					if rv := c10ExitResult(e, k); rv != nil {
						for _, a := range as {
							if c10IsResult(rv, a.call, a.idx) && saysNil != a.isNil {
								hit = true
							}
						}
					}
				}
			}
			if hit || c10Contradicts(hfi, e, x.hc, iff.Cond, truth) {
				m[edgeKey{b.Index, j}] = true
			}
		}
	}
	return m
}

// c10cont: one part of "what can run after the event": a graph, where to start, which edges are removed.
type c10cont struct {
	fi     *FnInfo
	starts []state
	cut    map[edgeKey]bool
}

// forward: what can run in this invocation of the callback after `call` returned as assumed — the rest of the function
// the call is in and, if that is the worker, the loop body from the worker's call site for every way the worker can
// still return.
func (x *c10frame) forward(call *ssa.Call, as ...c10assume) []c10cont {
	F := call.Parent()
	fi := x.w.Info(F)
	cut := c10AssumeCut(F, as)
	starts := []state{{call.Block().Index, 0, -1}}
	out := []c10cont{{fi, starts, cut}}
	if x.H != nil && F == x.H {
		seen := map[string]bool{}
		for _, e := range c10Exits(fi, starts, cut) {
			m := x.callerCut(e, as)
			if k := c10EdgeSetKey(m); !seen[k] {
				seen[k] = true
				out = append(out, c10cont{x.w.Info(x.CB), []state{{x.hc.Block().Index, 0, -1}}, m})
			}
		}
	}
	return out
}

// yields: v is result idx of `call` — the extracted result itself, or (call made in the worker) the k-th result of the
// worker's call where every exit the worker can still take after `call` returned as assumed hands that result back at k.
func (x *c10frame) yields(v ssa.Value, call *ssa.Call, idx int, as ...c10assume) bool {
	for i := 0; i < 4; i++ {
		a := x.up(v)
		if a == nil {
			break
		}
		v = a
	}
	if c10IsResult(v, call, idx) {
		return true
	}
	if x.H == nil || call.Parent() != x.H {
		return false
	}
	k := c10ResultIdx(x.hc, v)
	if k < 0 {
		return false
	}
	hfi := x.w.Info(x.H)
	exits := c10Exits(hfi, []state{{call.Block().Index, 0, -1}}, c10AssumeCut(x.H, as))
	if len(exits) == 0 {
		return false
	}
	for _, e := range exits {
		rv := c10ExitResult(e, k)
		if rv == nil || !c10IsResult(rv, call, idx) {
			// an exit that cannot be followed by a use of v (every use of v is behind edges this exit contradicts)
			// does not matter; without that knowledge: no
			return false
		}
	}
	return true
}

// onlyAfterWorkerSuccess: the instruction of the calling function runs only after the worker's call returned from an
// invocation in which `call` (made in the worker) returned a nil error (result errIdx): the worker's call dominates it,
// and it is unreachable from that call for every exit the worker takes without running `call` or after `call` failed.
func (x *c10frame) onlyAfterWorkerSuccess(in ssa.Instruction, call *ssa.Call, errIdx int) bool {
	if x.H == nil || call.Parent() != x.H || in.Parent() != x.CB {
		return false
	}
	if in.Block() == x.hc.Block() || !x.hc.Block().Dominates(in.Block()) {
		return false
	}
	hfi, cfi := x.w.Info(x.H), x.w.Info(x.CB)
	type alt struct {
		e  c10exit
		as []c10assume
	}
	var alts []alt
	if call.Block().Index != 0 {
		cut := map[edgeKey]bool{}
		cutInto(hfi, call.Block(), cut)
		for _, e := range c10Exits(hfi, entryState(), cut) {
			alts = append(alts, alt{e, nil})
		}
	}
	failed := []c10assume{{call, errIdx, false}}
	for _, e := range c10Exits(hfi, []state{{call.Block().Index, 0, -1}}, c10AssumeCut(x.H, failed)) {
		alts = append(alts, alt{e, failed})
	}
	for _, a := range alts {
		if cfi.reachHit([]state{{x.hc.Block().Index, 0, -1}}, x.callerCut(a.e, a.as), blocksOf(in)) {
			return false
		}
	}
	return true
}

// findStateObject: the callback does its work itself (no forwarding with an object argument) and keeps its books in
// fields of a struct that the outer function allocates: the object whose int field the callback's code stores to. It is
// reached through a captured variable (the struct itself, or the one local holding its address, written once) or through
// a parameter of the per-signature worker that receives one of those. Recognised only if it is one object; everything
// that is then concluded from "these are all the stores to the field" rests on objectDiscipline, as in the forwarding form.
func (x *c10frame) findStateObject() {
	var obj, ptr *ssa.Alloc
	var made *ssa.Call
	n := 0
	resolve := func(v ssa.Value) (*ssa.Alloc, *ssa.Alloc) {
		for i := 0; i < 4; i++ {
			a := x.up(v)
			if a == nil {
				break
			}
			v = a
		}
		if fv, ok := v.(*ssa.FreeVar); ok {
			if al, ok := x.bind[fv].(*ssa.Alloc); ok && al.Parent() == x.W && c10IsStructPtr(al.Type()) {
				return al, nil
			}
			return nil, nil
		}
		if u, ok := c10IsLoad(v); ok {
			if fv, ok := u.X.(*ssa.FreeVar); ok {
				if p, ok := x.bind[fv].(*ssa.Alloc); ok && p.Parent() == x.W {
					if ps := x.stores(c10cell{p, -1}); ps.ok && len(ps.sts) == 1 {
						if al, call := x.objAllocOf(ps.sts[0].Val); al != nil {
							made = call
							return al, p
						}
					}
				}
			}
		}
		return nil, nil
	}
	for _, b := range x.cbBlocks() {
		for _, in := range b.Instrs {
			st, ok := in.(*ssa.Store)
			if !ok || !isPlainIntPtr(st.Addr.Type()) {
				continue
			}
			fa, ok := st.Addr.(*ssa.FieldAddr)
			if !ok {
				continue
			}
			if o, p := resolve(fa.X); o != nil {
				if obj == nil || o != obj {
					n++
				}
				obj, ptr = o, p
			}
		}
	}
	if n == 1 {
		x.obj, x.objPtr = obj, ptr
		if made != nil && obj.Parent() != x.W {
			x.ctor, x.ctorCall = staticCallee(made), made
		}
	}
}

// ---------- the state object built by a constructor ---------------------------------------
//
// `st := newState(a, b, limit)` instead of `st := &state{…}`: the composite literal moved into a module function that
// returns its address. The object of this verification is then the allocation inside that function, for the one call the
// outer function makes: every return of the function returns that allocation itself (so what the outer function holds is
// the address of a fresh object nobody else has — the constructor may use it field by field only and return it:
// objectDiscipline), the stores the constructor makes to its fields are stores made before the outer function holds the
// object, i.e. before the listing — they count as stores of the outer function (initial values; c10frame.inOuter) —, and
// the constructor's parameters stand for the arguments of that call (c10frame.up), so "the limit field holds the caller's
// MaxSignatureAttempts" and "the descriptor field holds what Resolve returned" are still decided on values. Other calls
// of the constructor build other objects and do not matter.

// ctorAlloc: v is the value of a call, made by the outer function, of a module function every return of which hands
// back the address of one struct it allocates itself: that allocation and the call.
func (x *c10frame) ctorAlloc(v ssa.Value) (*ssa.Alloc, *ssa.Call) {
	call, ok := v.(*ssa.Call)
	if !ok || call.Parent() != x.W || call.Call.IsInvoke() {
		return nil, nil
	}
	g := staticCallee(call)
	if g == nil || g.Blocks == nil || g.Parent() != nil || len(g.FreeVars) != 0 || !x.w.IsProductFn(g) || g == x.W || g == x.A ||
		g.Signature.Results().Len() != 1 || len(call.Call.Args) != len(g.Params) {
		return nil, nil
	}
	var al *ssa.Alloc
	for _, b := range g.Blocks {
		ret, ok := blockTerm(b).(*ssa.Return)
		if !ok {
			continue
		}
		a, ok := ret.Results[0].(*ssa.Alloc)
		if !ok || a.Parent() != g || !c10IsStructPtr(a.Type()) || (al != nil && a != al) {
			return nil, nil
		}
		al = a
	}
	if al == nil {
		return nil, nil
	}
	return al, call
}

// objAllocOf: v, a value of the outer function, is the address of a struct the outer function allocates — or has a
// constructor allocate (second result: the constructor's call).
func (x *c10frame) objAllocOf(v ssa.Value) (*ssa.Alloc, *ssa.Call) {
	if al, ok := v.(*ssa.Alloc); ok && al.Parent() == x.W && c10IsStructPtr(al.Type()) {
		return al, nil
	}
	return x.ctorAlloc(v)
}

// inOuter: a store made by fn is a store of the outer function — made by itself, or by the constructor of the state
// object while it builds the object (before the outer function, let alone the listing, can use it).
func (x *c10frame) inOuter(fn *ssa.Function) bool {
	return fn != nil && (fn == x.W || (x.ctor != nil && fn == x.ctor))
}

// ---------- the iteration budget ---------------------------------------------------
//
// Third form of the bound (next to "counter < limit tested in every iteration" and its counting-down twin): the page
// worker does not test the counter per iteration at all; before the loop it cuts the page to the attempts that are left
// and ranges over what remains:
//
//	if left := limit - counter; len(page) > left { page = page[:left] }     (or page[:min(len(page), left)], or an index
//	for _, m := range page { counter++; fetch; verify … }                     loop `for i := 0; i < n; i++`, n that minimum)
//
// What is proved, on SSA values (c10bud):
//  1. budget B: `L - *counter` with L the caller's MaxSignatureAttempts held in cells only the outer function writes
//     (counting down: `*counter`), where the load of the counter runs in the page worker before the loop only (its block
//     is outside the loop and reaches the header) and the loop is entered at most once per invocation (no path leaves it
//     and comes back). The only store to the counter in the callback is the counting store, which is inside the loop
//     (checked by the caller), the stores of the outer function do not run during the listing, so every such load yields
//     the value c0 the counter has when this invocation enters the loop: all budget expressions of one invocation are
//     equal, B = L - c0 (down: c0).
//  2. bound n == min(len(page), B): a builtin min of the two; or a phi / the result of a module helper, where every
//     incoming edge (every return) carries len(page) under a fact `len(page) <= B`, or B under a fact `B <= len(page)`, or
//     again such a minimum. A fact is a branch edge every path from the entry of that function to the phi edge (return)
//     takes, read off the compared SSA values. All quantities compared are constant during the invocation (1.), so a fact
//     that held when the branch was taken holds at the loop. The ranged slice R is page[:n] (low bound absent or 0, no
//     max), or by the same case split `page` under len(page) <= B / page[:B] under B <= len(page); len(R) == n, R[i] is
//     page[i], and B <= len(page) rules out re-slicing beyond the listed elements into the capacity.
//  3. gate: a branch edge `t < n` inside the loop, t an induction value of the loop header (phi that enters with a
//     constant and is advanced by exactly +1 on every back edge; t the phi or phi+1) whose first value is 0, n as in 2. and
//     defined outside the loop. In the j-th pass through the header t == j-1, so the gate lets pass iterations j <= n only.
//     Two gates, one `t < len(page)` and one `t' < B` (t, t' both such induction values), are the same condition.
// Consequence: an iteration that passes the gate has j <= min(len(page), L - c0). With "every attempt is preceded by the
// counting store of its iteration" (bound/counted) attempts <= counter holds throughout; an invocation entered with
// counter c0 (attempts so far A0 <= c0) makes at most L - c0 further attempts: A <= A0 + L - c0 <= L (down form: the
// invariant is attempts <= L - counter). That is the clause the per-iteration guard stands for; exactness (not N-1): the
// j-th listed manifest is passed on exactly when c0 + j - 1 < L, the same condition the guard form tests.
//
// The rule requires the gate among the branch edges every path from the loop header to the call (to the counting store)
// takes, i.e. in the same iteration.

type c10bud struct {
	x       *c10frame
	loop    *loopRef
	inLoop  map[int]bool
	counter c10cell
	down    bool
	why     string // why the form does not apply, if it does not
	before  map[int]bool
}

// kinds of int values / slice values in one invocation of the page worker
const (
	c10kOther  = iota
	c10kLen    // len(page)
	c10kBudget // the attempts left when the loop is entered
	c10kMin    // min(len(page), budget)
	c10sPage   // the listed page
	c10sCut    // page[:budget]
	c10sPrefix // page[:min(len(page), budget)]
)

// c10env: the frame a value is looked at in: the page worker itself (parent == nil), or a module helper it calls, whose
// parameters stand for the arguments of that call.
type c10env struct {
	fn     *ssa.Function
	call   *ssa.Call
	parent *c10env
}

func (e *c10env) depth() int {
	n := 0
	for ; e != nil; e = e.parent {
		n++
	}
	return n
}

func (b *c10bud) resolve(v ssa.Value, env *c10env) (ssa.Value, *c10env) {
	for env.parent != nil {
		p, ok := v.(*ssa.Parameter)
		if !ok || p.Parent() != env.fn {
			break
		}
		found := false
		for i, q := range env.fn.Params {
			if q == p && i < len(env.call.Call.Args) {
				v, env, found = env.call.Call.Args[i], env.parent, true
				break
			}
		}
		if !found {
			break
		}
	}
	return v, env
}

// preLoop: the instruction runs in the page worker and only before the loop is entered: its block is outside the loop and
// the loop header can be reached from it. (It cannot also run after the loop: a block that is reachable from a loop exit and
// reaches the header would be a way back into the loop, which c10LoopOnce excludes.)
func (b *c10bud) preLoop(in ssa.Instruction) bool {
	if in.Parent() != b.x.CB || in.Block() == nil || b.inLoop[in.Block().Index] {
		return false
	}
	if b.before == nil {
		// blocks from which the header is reachable
		b.before = map[int]bool{b.loop.Header.Index: true}
		stack := []*ssa.BasicBlock{b.loop.Header}
		for len(stack) > 0 {
			blk := stack[len(stack)-1]
			stack = stack[:len(stack)-1]
			for _, p := range blk.Preds {
				if !b.before[p.Index] {
					b.before[p.Index] = true
					stack = append(stack, p)
				}
			}
		}
	}
	return b.before[in.Block().Index]
}

// isStableLimit: the caller's MaxSignatureAttempts, read through cells that only the outer function writes (so that two
// reads during the listing agree).
func (x *c10frame) isStableLimit(v ssa.Value) bool {
	if !x.isLimit(v) {
		return false
	}
	v = c10StripConv(v)
	for i := 0; i < 8; i++ {
		if a := x.up(v); a != nil {
			v = a
			continue
		}
		c, ok := x.cellOfLoad(v)
		if !ok {
			break
		}
		s := x.stores(c)
		if !s.ok || len(s.sts) != 1 {
			break
		}
		if !x.inOuter(s.sts[0].Parent()) {
			return false
		}
		v = s.sts[0].Val
	}
	if u, ok := c10IsLoad(v); ok {
		if fa, ok := u.X.(*ssa.FieldAddr); ok {
			if c, ok := x.cellOf(fa.X); ok {
				if s := x.stores(c); !s.ok || len(s.sts) != 1 || !x.inOuter(s.sts[0].Parent()) {
					return false
				}
			}
		}
	}
	return true
}

// isBudget: v (a value of the page worker) is the number of attempts left when the loop is entered.
func (b *c10bud) isBudget(v ssa.Value) bool {
	cnt := func(v ssa.Value) bool {
		u, ok := c10IsLoad(v)
		if !ok || !b.preLoop(u) {
			return false
		}
		c, ok := b.x.cellOf(u.X)
		return ok && c == b.counter
	}
	if b.down {
		return cnt(v)
	}
	bo, ok := v.(*ssa.BinOp)
	return ok && bo.Op == token.SUB && cnt(bo.Y) && b.x.isStableLimit(bo.X)
}

func c10Builtin(v ssa.Value, name string) *ssa.Call {
	call, ok := v.(*ssa.Call)
	if !ok {
		return nil
	}
	if bi, ok := call.Call.Value.(*ssa.Builtin); !ok || bi.Name() != name {
		return nil
	}
	return call
}

// c10fact: a comparison known to hold, over kinds of values
type c10fact struct {
	op   token.Token
	a, b int
}

// facts: what the branch edges say about len(page) and the budget.
func (b *c10bud) facts(edges []c10Edge, env *c10env, busy map[ssa.Value]bool) []c10fact {
	var out []c10fact
	for _, e := range edges {
		op, l, r, ok := c10Cmp(e.iff.Cond, e.truth)
		if !ok {
			continue
		}
		kl, kr := b.intKind(l, env, nil, busy), b.intKind(r, env, nil, busy)
		if kl != c10kOther && kr != c10kOther {
			out = append(out, c10fact{op, kl, kr})
		}
	}
	return out
}

// c10LE: the facts say that a value of kind p is at most a value of kind q.
func c10LE(fs []c10fact, p, q int) bool {
	for _, f := range fs {
		if f.a == p && f.b == q && (f.op == token.LSS || f.op == token.LEQ || f.op == token.EQL) {
			return true
		}
		if f.a == q && f.b == p && (f.op == token.GTR || f.op == token.GEQ || f.op == token.EQL) {
			return true
		}
	}
	return false
}

// edgeFacts: the branch edges taken on every path from the entry of fn to the control-flow edge pred -> succ.
func (b *c10bud) edgeFacts(fn *ssa.Function, pred, succ *ssa.BasicBlock) []c10Edge {
	fi := b.x.w.Info(fn)
	var out []c10Edge
	if pred.Index != 0 {
		out = c10MustPassEdges(fi, fn.Blocks[0], map[int]bool{pred.Index: true})
	}
	if iff, ok := blockTerm(pred).(*ssa.If); ok && len(pred.Succs) == 2 && pred.Succs[0] != pred.Succs[1] {
		out = append(out, c10Edge{iff, pred.Succs[0] == succ})
	}
	return out
}

// helperEnv: the call runs a module function whose body can be looked into.
func (b *c10bud) helperEnv(call *ssa.Call, env *c10env) *c10env {
	h := staticCallee(call)
	if h == nil || h.Blocks == nil || !b.x.w.IsProductFn(h) || len(h.FreeVars) != 0 || len(call.Call.Args) != len(h.Params) || env.depth() >= 3 {
		return nil
	}
	for e := env; e != nil; e = e.parent {
		if e.fn == h {
			return nil
		}
	}
	return &c10env{fn: h, call: call, parent: env}
}

// merge: the kinds of a value on every way it can come about (with the facts known on that way) agree.
func (b *c10bud) merge(n int, kindAt func(i int) int) int {
	k := c10kOther
	for i := 0; i < n; i++ {
		ki := kindAt(i)
		if ki == c10kOther || (i > 0 && ki != k) {
			return c10kOther
		}
		k = ki
	}
	return k
}

// ways enumerates how a phi or a helper call gets its value: value, frame, and the branch edges known to be taken.
type c10way struct {
	v     ssa.Value
	env   *c10env
	edges []c10Edge
}

func (b *c10bud) ways(v ssa.Value, env *c10env) []c10way {
	switch t := v.(type) {
	case *ssa.Phi:
		if t.Parent() != env.fn || (env.parent == nil && b.inLoop[t.Block().Index]) {
			return nil
		}
		var out []c10way
		for i, e := range t.Edges {
			out = append(out, c10way{e, env, b.edgeFacts(t.Parent(), t.Block().Preds[i], t.Block())})
		}
		return out
	case *ssa.Call:
		he := b.helperEnv(t, env)
		if he == nil || he.fn.Signature.Results().Len() != 1 {
			return nil
		}
		var out []c10way
		fi := b.x.w.Info(he.fn)
		for _, blk := range he.fn.Blocks {
			ret, ok := blockTerm(blk).(*ssa.Return)
			if !ok || len(ret.Results) != 1 {
				continue
			}
			var edges []c10Edge
			if blk.Index != 0 {
				edges = c10MustPassEdges(fi, he.fn.Blocks[0], map[int]bool{blk.Index: true})
			}
			out = append(out, c10way{ret.Results[0], he, edges})
		}
		return out
	}
	return nil
}

// intKind classifies an int value; fs are facts known at its use.
func (b *c10bud) intKind(v ssa.Value, env *c10env, fs []c10fact, busy map[ssa.Value]bool) int {
	v, env = b.resolve(v, env)
	up := func(k int) int {
		switch {
		case k == c10kLen && c10LE(fs, c10kLen, c10kBudget):
			return c10kMin
		case k == c10kBudget && c10LE(fs, c10kBudget, c10kLen):
			return c10kMin
		}
		return k
	}
	if env.parent == nil && b.isBudget(v) {
		return up(c10kBudget)
	}
	if call := c10Builtin(v, "len"); call != nil && len(call.Call.Args) == 1 {
		if b.sliceKind(call.Call.Args[0], env, nil, busy) == c10sPage {
			return up(c10kLen)
		}
		switch b.sliceKind(call.Call.Args[0], env, fs, busy) {
		case c10sPrefix:
			return c10kMin
		case c10sCut:
			return up(c10kBudget)
		}
		return c10kOther
	}
	if call := c10Builtin(v, "min"); call != nil && len(call.Call.Args) == 2 {
		k0, k1 := b.intKind(call.Call.Args[0], env, nil, busy), b.intKind(call.Call.Args[1], env, nil, busy)
		if (k0 == c10kLen && k1 == c10kBudget) || (k0 == c10kBudget && k1 == c10kLen) {
			return c10kMin
		}
		return c10kOther
	}
	if busy[v] {
		return c10kOther
	}
	busy[v] = true
	defer delete(busy, v)
	ws := b.ways(v, env)
	if len(ws) == 0 {
		return c10kOther
	}
	return up(b.merge(len(ws), func(i int) int {
		return b.intKind(ws[i].v, ws[i].env, b.facts(ws[i].edges, ws[i].env, busy), busy)
	}))
}

// sliceKind classifies a slice value; fs are facts known at its use.
func (b *c10bud) sliceKind(v ssa.Value, env *c10env, fs []c10fact, busy map[ssa.Value]bool) int {
	v, env = b.resolve(v, env)
	up := func(k int) int {
		switch {
		case k == c10sPage && c10LE(fs, c10kLen, c10kBudget):
			return c10sPrefix
		case k == c10sCut && c10LE(fs, c10kBudget, c10kLen):
			return c10sPrefix
		}
		return k
	}
	if env.parent == nil && b.x.page != nil && v == ssa.Value(b.x.page) {
		return up(c10sPage)
	}
	if sl, ok := v.(*ssa.Slice); ok {
		if sl.Max != nil || (sl.Low != nil && !c10IntConst(sl.Low, 0)) || sl.High == nil {
			return c10kOther
		}
		if b.sliceKind(sl.X, env, nil, busy) != c10sPage {
			return c10kOther
		}
		switch b.intKind(sl.High, env, fs, busy) {
		case c10kMin:
			return c10sPrefix
		case c10kBudget:
			return up(c10sCut)
		case c10kLen:
			return up(c10sPage)
		}
		return c10kOther
	}
	if busy[v] {
		return c10kOther
	}
	busy[v] = true
	defer delete(busy, v)
	ws := b.ways(v, env)
	if len(ws) == 0 {
		return c10kOther
	}
	return up(b.merge(len(ws), func(i int) int {
		return b.sliceKind(ws[i].v, ws[i].env, b.facts(ws[i].edges, ws[i].env, busy), busy)
	}))
}

// c10Induction: t is an induction value of the loop: a phi of the header that enters the loop with one constant and is
// advanced by exactly +1 on every back edge, or that phi + 1; result: the value of t in the first pass.
func c10Induction(t ssa.Value, header *ssa.BasicBlock, inLoop map[int]bool) (int64, bool) {
	plusOne := func(v ssa.Value) *ssa.Phi {
		bo, ok := v.(*ssa.BinOp)
		if !ok || bo.Op != token.ADD {
			return nil
		}
		switch {
		case c10IntConst(bo.Y, 1):
			p, _ := bo.X.(*ssa.Phi)
			return p
		case c10IntConst(bo.X, 1):
			p, _ := bo.Y.(*ssa.Phi)
			return p
		}
		return nil
	}
	d := int64(0)
	phi, ok := t.(*ssa.Phi)
	if !ok {
		if phi = plusOne(t); phi == nil {
			return 0, false
		}
		d = 1
	}
	if bt, ok := phi.Type().Underlying().(*types.Basic); !ok || bt.Kind() != types.Int {
		return 0, false
	}
	if phi.Block() != header || len(phi.Edges) != len(header.Preds) {
		return 0, false
	}
	nOut, nBack := 0, 0
	var c0 int64
	for i, e := range phi.Edges {
		if !inLoop[header.Preds[i].Index] {
			k, isK := e.(*ssa.Const)
			if !isK || k.Value == nil || k.Value.Kind() != constant.Int {
				return 0, false
			}
			m, exact := constant.Int64Val(k.Value)
			if !exact || (nOut > 0 && m != c0) {
				return 0, false
			}
			c0 = m
			nOut++
			continue
		}
		if plusOne(e) != phi {
			return 0, false
		}
		nBack++
	}
	if nOut == 0 || nBack == 0 {
		return 0, false
	}
	return c0 + d, true
}

// c10LoopOnce: no path leaves the loop and comes back into it (the loop is not nested in another one).
func c10LoopOnce(fn *ssa.Function, inLoop map[int]bool) bool {
	seen := map[int]bool{}
	var stack []*ssa.BasicBlock
	for _, blk := range fn.Blocks {
		if !inLoop[blk.Index] {
			continue
		}
		for _, s := range blk.Succs {
			if !inLoop[s.Index] && !seen[s.Index] {
				seen[s.Index] = true
				stack = append(stack, s)
			}
		}
	}
	for len(stack) > 0 {
		blk := stack[len(stack)-1]
		stack = stack[:len(stack)-1]
		for _, s := range blk.Succs {
			if inLoop[s.Index] {
				return false
			}
			if !seen[s.Index] {
				seen[s.Index] = true
				stack = append(stack, s)
			}
		}
	}
	return true
}

// iterBudget prepares the decision of the iteration-budget form for the loop over the listed manifests. inc is the
// counting store (the one store of the callback to the counter).
func (x *c10frame) iterBudget(loop *loopRef, inLoop map[int]bool, counter c10cell, down bool, inc *ssa.Store) *c10bud {
	b := &c10bud{x: x, loop: loop, inLoop: inLoop, counter: counter, down: down}
	switch {
	case x.page == nil:
		b.why = "the page parameter is not known"
	case !x.inIter(inc, inLoop):
		b.why = "the counting store is outside the loop"
	case !c10LoopOnce(x.CB, inLoop):
		b.why = "the loop can be entered more than once per invocation"
	}
	return b
}

// gateKind: the branch edge is `t < n` inside the loop with t counting the passes through the loop header from 0; result:
// what n is — min(len(page), attempts left), len(page) or the attempts left, each fixed before the loop — else c10kOther.
func (b *c10bud) gateKind(e c10Edge) int {
	if b.why != "" || e.iff.Parent() != b.x.CB || !b.inLoop[e.iff.Block().Index] {
		return c10kOther
	}
	op, l, r, ok := c10Cmp(e.iff.Cond, e.truth)
	if !ok {
		return c10kOther
	}
	var t, n ssa.Value
	switch op {
	case token.LSS:
		t, n = l, r
	case token.GTR:
		t, n = r, l
	default:
		return c10kOther
	}
	if first, ok := c10Induction(t, b.loop.Header, b.inLoop); !ok || first != 0 {
		return c10kOther
	}
	return b.intKind(n, &c10env{fn: b.x.CB}, nil, map[ssa.Value]bool{})
}

// gated: the branch edges (taken on every path of one iteration to some instruction) let the j-th iteration pass only
// under j-1 < min(len(page), attempts left): one test against that minimum, or one against each of the two
// (`for i, m := range page { if i >= left { break } … }`: the header tests i < len(page), the body i < left).
func (b *c10bud) gated(edges []c10Edge) bool {
	hasLen, hasBudget := false, false
	for _, e := range edges {
		switch b.gateKind(e) {
		case c10kMin:
			return true
		case c10kLen:
			hasLen = true
		case c10kBudget:
			hasBudget = true
		}
	}
	return hasLen && hasBudget
}

// headEdges: the branch edges every path from the loop header to the instruction takes (for an instruction of the
// per-signature worker: to the worker's call) — the tests of the same iteration, the header's included.
func (x *c10frame) headEdges(loop *loopRef, in ssa.Instruction) []c10Edge {
	if x.H != nil && in.Parent() == x.H {
		in = x.hc
	}
	if in.Parent() != x.CB || in.Block() == loop.Header {
		return nil
	}
	return c10MustPassEdges(x.w.Info(x.CB), loop.Header, blocksOf(in))
}

func (b *c10bud) whyNot() string {
	if b.why != "" {
		return b.why
	}
	return "no branch `i < n` on the way from the loop header with i counting the iterations from 0 and n provably min(len(page), attempts left) fixed before the loop"
}

// loops: the loops over a slice the engine recognises (range, `for i := 0; i < len(x); i++`), plus index loops whose
// bound is not spelled len(x) (`n := …; for i := 0; i < n; i++ { … x[i] … }`): a header that ends in a test `i < n` of an
// induction value of that header (c10Induction), one branch staying in the loop, the other leaving it; the slice looped
// over is the one the loop indexes with that induction value (exactly one such slice, else the loop is not recognised).
func (x *c10frame) loops(fn *ssa.Function) []loopRef {
	out := allLoops(fn)
	known := map[*ssa.BasicBlock]bool{}
	for _, l := range out {
		known[l.Header] = true
	}
	for _, h := range fn.Blocks {
		if known[h] || len(h.Succs) != 2 {
			continue
		}
		iff, ok := blockTerm(h).(*ssa.If)
		if !ok {
			continue
		}
		back := false
		for _, p := range h.Preds {
			if h.Dominates(p) {
				back = true
			}
		}
		if !back {
			continue
		}
		in := loopBlocks(h)
		if !in[h.Succs[0].Index] || in[h.Succs[1].Index] {
			continue
		}
		op, l, r, ok := c10Cmp(iff.Cond, true)
		if !ok {
			continue
		}
		var t ssa.Value
		switch op {
		case token.LSS:
			t = l
		case token.GTR:
			t = r
		default:
			continue
		}
		if first, ok := c10Induction(t, h, in); !ok || first != 0 {
			continue
		}
		var xs []ssa.Value
		for bi := range in {
			for _, ins := range fn.Blocks[bi].Instrs {
				var x ssa.Value
				switch ia := ins.(type) {
				case *ssa.IndexAddr:
					if ia.Index == t {
						x = ia.X
					}
				case *ssa.Index:
					if ia.Index == t {
						x = ia.X
					}
				}
				if x == nil {
					continue
				}
				dup := false
				for _, y := range xs {
					if y == x {
						dup = true
					}
				}
				if !dup {
					xs = append(xs, x)
				}
			}
		}
		if len(xs) != 1 {
			continue
		}
		out = append(out, loopRef{Header: h, Body: h.Succs[0], Exit: h.Succs[1], X: xs[0], Idx: t})
		if x.extLoop == nil {
			x.extLoop = map[*ssa.BasicBlock]bool{}
		}
		x.extLoop[h] = true
	}
	return out
}

// headerBoundKind: the kind of the bound n in the header test `i < n` of the loop (c10kOther if the header is no such test).
func (b *c10bud) headerBoundKind() int {
	iff, ok := blockTerm(b.loop.Header).(*ssa.If)
	if !ok {
		return c10kOther
	}
	op, l, r, ok := c10Cmp(iff.Cond, true)
	if !ok {
		return c10kOther
	}
	n := r
	switch op {
	case token.LSS:
	case token.GTR:
		n = l
	default:
		return c10kOther
	}
	return b.intKind(n, &c10env{fn: b.x.CB}, nil, map[ssa.Value]bool{})
}

// ---------- disjunctive conditions computed into a value ---------------------------------
//
// A disjunctive gate ("the exit is reachable only if A or B held") is written as two branches (`if a { … } else if b {
// … }`, `if !a && !b { return err }`), or as one branch on a computed disjunction: a `switch { case a || b: … }`, or
// `ok := a || b; if ok { … }`. In SSA the latter is one If on a phi whose constant edges stand for the branch that
// selected them and whose value edges for the value itself. c10Alts reads such a condition back into the elementary
// branch facts one of which holds when the edge is taken; a cut-set rule may remove the edge when *every* one of them is
// an accepted fact. Soundness: the edge is taken only when the phi evaluates to `truth`; the phi got that value through
// one of its incoming edges — a constant edge equal to `truth` was entered by the branch outcome listed for it, a value
// edge carries a value that evaluated to `truth` — so one of the listed facts held; all of them being accepted facts,
// an accepted fact held on the edge, which is all a cut set stands for. (Edges of the phi that carry the other constant
// cannot produce `truth` and are left out; the same reading as the engine's OR(..) labels, on SSA values so that rules
// written over the compared values see the elementary comparisons.)

type c10alt struct {
	cond  ssa.Value
	truth bool
}

// c10sel is a selection of elementary branch facts: the canonical label of the fact, the condition and its outcome.
type c10sel func(l string, cond ssa.Value, truth bool) bool

func c10Alts(cond ssa.Value, truth bool, depth int, busy map[*ssa.Phi]bool) ([]c10alt, bool) {
	for {
		u, ok := cond.(*ssa.UnOp)
		if !ok || u.Op != token.NOT {
			break
		}
		cond, truth = u.X, !truth
	}
	p, isPhi := cond.(*ssa.Phi)
	if !isPhi {
		return []c10alt{{cond, truth}}, true
	}
	if bt, ok := p.Type().Underlying().(*types.Basic); !ok || bt.Kind() != types.Bool {
		return nil, false
	}
	if depth > 3 || busy[p] || len(p.Edges) != len(p.Block().Preds) {
		return nil, false
	}
	busy[p] = true
	defer delete(busy, p)
	var out []c10alt
	for i, e := range p.Edges {
		if bv, isK := c10BoolConst(e); isK {
			if bv != truth {
				continue
			}
			pred := p.Block().Preds[i]
			iff, ok := blockTerm(pred).(*ssa.If)
			if !ok || len(pred.Succs) != 2 || pred.Succs[0] == pred.Succs[1] {
				return nil, false
			}
			as, ok := c10Alts(iff.Cond, pred.Succs[0] == p.Block(), depth+1, busy)
			if !ok {
				return nil, false
			}
			out = append(out, as...)
			continue
		}
		as, ok := c10Alts(e, truth, depth+1, busy)
		if !ok {
			return nil, false
		}
		out = append(out, as...)
	}
	return out, true
}

// c10AllAlts: every elementary fact of the edge (cond == truth) is selected; subst rewrites the label of a fact into the
// frame the selection was written for.
func c10AllAlts(sel c10sel, subst func(string) string, cond ssa.Value, truth bool) bool {
	alts, ok := c10Alts(cond, truth, 0, map[*ssa.Phi]bool{})
	if !ok || len(alts) == 0 {
		return false
	}
	for _, a := range alts {
		l := condLabel(a.cond, a.truth)
		hit := sel(subst(l), a.cond, a.truth)
		if !hit {
			if tw, has := labelTwin(l); has {
				hit = sel(subst(tw), a.cond, a.truth)
			}
		}
		if !hit {
			return false
		}
	}
	return true
}

// c10Edges turns a selection of elementary facts into a selection of branch edges.
func c10Edges(sel c10sel) EdgeSel {
	return func(_ string, iff *ssa.If, truth bool) bool { return c10AllAlts(sel, c10Ident, iff.Cond, truth) }
}

// c10Labels: a selection that looks at the label only.
func c10Labels(sel EdgeSel) c10sel {
	return func(l string, _ ssa.Value, truth bool) bool { return sel(l, nil, truth) }
}

// ---------- read-only accessors of the state object -----------------------------------
//
// With the per-verification state in a struct, a test the outer function (or the page worker) makes on it may be
// wrapped in a small method: `func (s *state) succeeded() bool { return len(s.outcomes) > 0 }`. Such a function is
// accepted as a user of the object when the parameter that receives the object is used for nothing but loading fields
// as a whole (every use a FieldAddr, every use of that a load): it stores nothing through the object and keeps no way to
// reach it, so "all stores to a field are the ones found in the outer function, the page worker and the per-signature
// worker" stays true, which is all the object discipline is there for. Inside the accessor the parameter *is* the
// object for the calls recorded here (its argument there is the object), so a load of one of its fields is a load of
// that state cell (c10frame.isObj).
//
// A function called with the object at different parameter positions from different places is not accepted (its
// parameters would not each stand for the object at every recorded call).

func c10ReadOnlyParam(p *ssa.Parameter) bool {
	refs := p.Referrers()
	if refs == nil {
		return true
	}
	for _, r := range *refs {
		switch u := r.(type) {
		case *ssa.DebugRef:
		case *ssa.FieldAddr:
			if u.X != ssa.Value(p) {
				return false
			}
			for _, rr := range *u.Referrers() {
				switch l := rr.(type) {
				case *ssa.DebugRef:
				case *ssa.UnOp:
					if l.Op != token.MUL {
						return false
					}
				default:
					return false
				}
			}
		default:
			return false
		}
	}
	return true
}

func (x *c10frame) findAccessors() {
	x.accCalls, x.accParams = map[*ssa.Call]bool{}, map[*ssa.Parameter]bool{}
	if x.obj == nil {
		return
	}
	positions := map[*ssa.Function]string{}
	rejected := map[*ssa.Function]bool{}
	var calls []*ssa.Call
	done := map[*ssa.Function]bool{}
	for _, fn := range []*ssa.Function{x.W, x.CB, x.H} {
		if fn == nil || done[fn] {
			continue
		}
		done[fn] = true
		for _, ci := range allCalls(fn) {
			call, ok := ci.(*ssa.Call)
			if !ok || call == x.fc || call == x.hc {
				continue
			}
			g := staticCallee(call)
			if g == nil || g.Blocks == nil || g.Parent() != nil || len(g.FreeVars) != 0 || !x.w.IsProductFn(g) || len(call.Call.Args) != len(g.Params) {
				continue
			}
			if g == x.W || g == x.A || g == x.CB || (x.H != nil && g == x.H) {
				continue
			}
			pos, okAll, any := "", true, false
			for i, a := range call.Call.Args {
				if !x.isObj(a) {
					pos += "-"
					continue
				}
				any = true
				pos += "o"
				if !c10ReadOnlyParam(g.Params[i]) {
					okAll = false
				}
			}
			if !any {
				continue
			}
			if prev, seen := positions[g]; !okAll || (seen && prev != pos) {
				rejected[g] = true
				continue
			}
			positions[g] = pos
			calls = append(calls, call)
		}
	}
	for _, call := range calls {
		g := staticCallee(call)
		if rejected[g] {
			continue
		}
		x.accCalls[call] = true
		for i, ch := range positions[g] {
			if ch == 'o' {
				x.accParams[g.Params[i]] = true
			}
		}
	}
}

// viaAccessor lifts a selection of elementary facts over the boolean result of a read-only accessor of the state
// object: the edge (call == truth) is selected when every return of the accessor that can yield `truth` returns a value
// whose evaluating to `truth` is a selected fact (each operand of a computed disjunction: c10Alts); a return of the
// constant `truth` says nothing and refuses, a return of the other constant cannot take the edge.
// Soundness: the edge is taken only when the call returned `truth`; the call returned through one of the accessor's
// returns with a value that evaluated to `truth`, so the selected fact held when the accessor evaluated it — on the
// cells of the state object, since its parameter is the object at this call. The facts the rules select this way are
// monotone over one verification (the counter only counts, the success indicator is only ever set, the outer function
// stores only the initial values), so a fact that held when it was evaluated holds for "some signature was processed /
// verified" whenever it was evaluated.
func (x *c10frame) viaAccessor(sel c10sel) c10sel {
	return func(l string, cond ssa.Value, truth bool) bool {
		if sel(l, cond, truth) {
			return true
		}
		_, ways, ok := x.accessorWays(cond, truth)
		if !ok {
			return false
		}
		for _, w := range ways {
			if !w.holds(func(a c10alt) bool {
				al := condLabel(a.cond, a.truth)
				if sel(al, a.cond, a.truth) {
					return true
				}
				tw, has := labelTwin(al)
				return has && sel(tw, a.cond, a.truth)
			}) {
				return false
			}
		}
		return true
	}
}

// c10accWay: one return of an accessor that can give the answer asked for, as groups of elementary facts: for every
// group, the answer through this return implies that one fact of the group held; so a property P follows when some group
// consists of facts that each imply P. The groups: the facts of the returned value having that answer (c10Alts; none for a constant), and, for
// every branch edge all paths from the accessor's entry to this return take, the facts of that edge.
type c10accWay struct {
	groups [][]c10alt
}

func (w c10accWay) holds(implies func(c10alt) bool) bool {
	for _, g := range w.groups {
		all := len(g) > 0
		for _, a := range g {
			if !implies(a) {
				all = false
				break
			}
		}
		if all {
			return true
		}
	}
	return false
}

// accessorWays: cond is the boolean result of a call of a read-only accessor of the state object (possibly negated):
// that call and, for every return that can give the answer `truth` (a return of the other constant cannot), what the
// answer through it implies (c10accWay; the facts are evaluated inside the accessor, while the call runs). ok=false when
// cond is no such call or when no return can give the answer.
func (x *c10frame) accessorWays(cond ssa.Value, truth bool) (*ssa.Call, []c10accWay, bool) {
	for {
		u, ok := cond.(*ssa.UnOp)
		if !ok || u.Op != token.NOT {
			break
		}
		cond, truth = u.X, !truth
	}
	call, ok := cond.(*ssa.Call)
	if !ok || !x.accCalls[call] {
		return nil, nil, false
	}
	g := staticCallee(call)
	if g == nil || g.Signature.Results().Len() != 1 {
		return nil, nil, false
	}
	var out []c10accWay
	gi := x.w.Info(g)
	for _, b := range g.Blocks {
		ret, ok := blockTerm(b).(*ssa.Return)
		if !ok {
			continue
		}
		if len(ret.Results) != 1 {
			return nil, nil, false
		}
		v := ret.Results[0]
		var way c10accWay
		if bv, isK := c10BoolConst(v); isK {
			if bv != truth {
				continue
			}
		} else if as, ok := c10Alts(v, truth, 0, map[*ssa.Phi]bool{}); ok && len(as) > 0 {
			way.groups = append(way.groups, as)
		}
		if b.Index != 0 {
			for _, e := range c10MustPassEdges(gi, g.Blocks[0], map[int]bool{b.Index: true}) {
				if as, ok := c10Alts(e.iff.Cond, e.truth, 0, map[*ssa.Phi]bool{}); ok && len(as) > 0 {
					way.groups = append(way.groups, as)
				}
			}
		}
		out = append(out, way)
	}
	return call, out, len(out) > 0
}
