package main

// Helpers of the C10 rule set (rules_c10.go):
//   - the frame of one registry verification: the outer function, the listing callback, the function that does the
//     per-page work, and the state the two share (captured locals or fields of a state object);
//   - value origins decided on SSA values through read-only state cells;
//   - cut-set reachability followed into module helpers (a gate that lives in a helper the outer function calls).

import (
	"fmt"
	"go/constant"
	"go/token"
	"go/types"
	"sort"
	"strings"

	"golang.org/x/tools/go/ssa"
)

// c10cell identifies one piece of per-verification state shared by the outer function and the callback:
// a local of some function (base = its Alloc, field = -1; the callback reaches it through a free variable), or a
// field of the state object the outer function allocates and the page worker receives (base = that Alloc).
type c10cell struct {
	base  *ssa.Alloc
	field int
}

type c10stores struct {
	sts []*ssa.Store
	ok  bool // false: the address escapes (stored, passed on, captured by a nested closure, written through a part)
}

type c10frame struct {
	w  *World
	W  *ssa.Function    // the function that lists the signatures (notation.Verify)
	mc *ssa.MakeClosure // the callback handed to ListSignatures
	A  *ssa.Function    // mc's function
	CB *ssa.Function    // the function that fetches and verifies the signatures of one page: A, or the module function A forwards to
	fc *ssa.Call        // A != CB: the forwarding call in A

	bind map[*ssa.FreeVar]ssa.Value // free variables of A -> bindings in W

	page *ssa.Parameter // the parameter of CB that holds the listed page

	// state object form (A forwards to CB and hands it a pointer to an object allocated in W)
	obj      *ssa.Alloc     // the object
	objPtr   *ssa.Alloc     // the local of W that holds its address, if any
	objParam *ssa.Parameter // the parameter of CB that receives the address

	resolved map[ssa.Value]bool // SSA values that are the descriptor Repository.Resolve returned

	memo map[c10cell]c10stores
}

func c10IsLoad(v ssa.Value) (*ssa.UnOp, bool) {
	u, ok := v.(*ssa.UnOp)
	return u, ok && u.Op == token.MUL
}

// isObj: v is the address of the state object (in W, in the adapter or in the page worker).
func (x *c10frame) isObj(v ssa.Value) bool {
	if x.obj == nil {
		return false
	}
	if v == ssa.Value(x.obj) || (x.objParam != nil && v == ssa.Value(x.objParam)) {
		return true
	}
	if fv, ok := v.(*ssa.FreeVar); ok && x.bind[fv] == ssa.Value(x.obj) {
		return true
	}
	if u, ok := c10IsLoad(v); ok && x.objPtr != nil {
		if u.X == ssa.Value(x.objPtr) {
			return true
		}
		if fv, ok := u.X.(*ssa.FreeVar); ok && x.bind[fv] == ssa.Value(x.objPtr) {
			return true
		}
	}
	return false
}

// cellOf: the state cell an address denotes.
func (x *c10frame) cellOf(addr ssa.Value) (c10cell, bool) {
	switch a := addr.(type) {
	case *ssa.FreeVar:
		if al, ok := x.bind[a].(*ssa.Alloc); ok {
			return c10cell{al, -1}, true
		}
	case *ssa.Alloc:
		return c10cell{a, -1}, true
	case *ssa.FieldAddr:
		if x.isObj(a.X) {
			return c10cell{x.obj, a.Field}, true
		}
	}
	return c10cell{}, false
}

func (x *c10frame) cellOfLoad(v ssa.Value) (c10cell, bool) {
	if u, ok := c10IsLoad(v); ok {
		return x.cellOf(u.X)
	}
	return c10cell{}, false
}

func (x *c10frame) cellType(c c10cell) types.Type {
	pt, ok := c.base.Type().Underlying().(*types.Pointer)
	if !ok {
		return nil
	}
	if c.field < 0 {
		return pt.Elem()
	}
	if f := fieldOf(c.base.Type(), c.field); f != nil {
		return f.Type()
	}
	return nil
}

func (x *c10frame) cellName(c c10cell) string {
	if c.field < 0 {
		return "local " + c.base.Comment
	}
	return "field " + fieldName(c.base.Type(), c.field)
}

// addrUses sorts the uses of an address value: whole-value stores through it are collected, loads are ignored, anything
// else (the address stored or passed on, a part of it written, a nested capture) makes it escape.
func c10AddrUses(addr ssa.Value, out *c10stores) {
	refs := addr.Referrers()
	if refs == nil {
		return
	}
	for _, r := range *refs {
		switch u := r.(type) {
		case *ssa.Store:
			if u.Addr == addr {
				out.sts = append(out.sts, u)
			} else {
				out.ok = false
			}
		case *ssa.UnOp, *ssa.DebugRef:
		case *ssa.FieldAddr:
			if addrWritten(u, 0) {
				out.ok = false
			}
		case *ssa.IndexAddr:
			if addrWritten(u, 0) {
				out.ok = false
			}
		default:
			out.ok = false
		}
	}
}

// stores returns every store to the cell — in the function that owns it, in every closure that captures it, in the
// outer function and the page worker for a field of the state object — and whether that list is complete.
func (x *c10frame) stores(c c10cell) c10stores {
	if s, ok := x.memo[c]; ok {
		return s
	}
	out := c10stores{ok: true}
	if c.field < 0 {
		refs := c.base.Referrers()
		if refs != nil {
			for _, r := range *refs {
				switch u := r.(type) {
				case *ssa.Store:
					if u.Addr == ssa.Value(c.base) {
						out.sts = append(out.sts, u)
					} else {
						out.ok = false
					}
				case *ssa.UnOp, *ssa.DebugRef:
				case *ssa.FieldAddr:
					if !(c.base == x.obj) && addrWritten(u, 0) {
						out.ok = false
					}
				case *ssa.IndexAddr:
					if addrWritten(u, 0) {
						out.ok = false
					}
				case *ssa.MakeClosure:
					fn, _ := u.Fn.(*ssa.Function)
					if fn == nil {
						out.ok = false
						continue
					}
					for i, b := range u.Bindings {
						if b == ssa.Value(c.base) && i < len(fn.FreeVars) {
							c10AddrUses(fn.FreeVars[i], &out)
						}
					}
				default:
					out.ok = false
				}
			}
		}
	} else {
		for _, fn := range []*ssa.Function{x.W, x.A, x.CB} {
			if fn == nil {
				continue
			}
			for _, b := range fn.Blocks {
				for _, in := range b.Instrs {
					if fa, ok := in.(*ssa.FieldAddr); ok && fa.Field == c.field && x.isObj(fa.X) {
						c10AddrUses(fa, &out)
					}
				}
			}
			if fn == x.A && x.A == x.CB {
				break
			}
		}
	}
	x.memo[c] = out
	return out
}

// origin follows a value back through loads of state cells that are written exactly once (read-only after their
// initialisation): the load yields the value that one store put there. Sound because the list of stores is complete
// (no escape) and a cell with a single store holds either its zero value (before the store) or that value.
func (x *c10frame) origin(v ssa.Value) ssa.Value {
	for i := 0; i < 8; i++ {
		c, ok := x.cellOfLoad(v)
		if !ok {
			return v
		}
		s := x.stores(c)
		if !s.ok || len(s.sts) != 1 {
			return v
		}
		v = s.sts[0].Val
	}
	return v
}

func c10StripConv(v ssa.Value) ssa.Value {
	for {
		switch c := v.(type) {
		case *ssa.ChangeType:
			v = c.X
		case *ssa.Convert:
			v = c.X
		default:
			return v
		}
	}
}

// isResolved: the value is the descriptor Repository.Resolve returned.
func (x *c10frame) isResolved(v ssa.Value) bool { return x.resolved[x.origin(v)] }

// isResolvedDigest: the value is the Digest field of the resolved descriptor, as a digest or as its string.
func (x *c10frame) isResolvedDigest(v ssa.Value) bool {
	v = c10StripConv(v)
	if call, ok := v.(*ssa.Call); ok && calleeName(call) == "(digest.Digest).String" && len(call.Call.Args) == 1 {
		v = c10StripConv(call.Call.Args[0])
	}
	switch o := x.origin(v).(type) {
	case *ssa.UnOp:
		if o.Op != token.MUL {
			return false
		}
		fa, ok := o.X.(*ssa.FieldAddr)
		if !ok || fieldName(fa.X.Type(), fa.Field) != "Digest" {
			return false
		}
		c, ok := x.cellOf(fa.X)
		if !ok {
			return false
		}
		s := x.stores(c)
		return s.ok && len(s.sts) == 1 && x.isResolved(s.sts[0].Val)
	case *ssa.Field:
		return fieldName(o.X.Type(), o.Field) == "Digest" && x.isResolved(o.X)
	}
	return false
}

// isParsedReference: the value is the Reference part of what registry.ParseReference returned.
func isParsedReference(v ssa.Value) bool {
	d := desc(c10StripConv(v))
	return strings.HasPrefix(d, "call:oras/registry.ParseReference(") && strings.HasSuffix(d, "#0.Reference")
}

// isLimit: the value is MaxSignatureAttempts of the options the outer function was called with.
func (x *c10frame) isLimit(v ssa.Value) bool {
	switch o := x.origin(c10StripConv(v)).(type) {
	case *ssa.UnOp:
		if o.Op != token.MUL {
			return false
		}
		fa, ok := o.X.(*ssa.FieldAddr)
		if !ok || fieldName(fa.X.Type(), fa.Field) != "MaxSignatureAttempts" {
			return false
		}
		if x.isOptsParam(fa.X) {
			return true
		}
		c, ok := x.cellOf(fa.X)
		if !ok {
			return false
		}
		s := x.stores(c)
		return s.ok && len(s.sts) == 1 && x.isOptsParam(s.sts[0].Val)
	case *ssa.Field:
		return fieldName(o.X.Type(), o.Field) == "MaxSignatureAttempts" && x.isOptsParam(x.origin(o.X))
	}
	return false
}

func (x *c10frame) isOptsParam(v ssa.Value) bool {
	p, ok := v.(*ssa.Parameter)
	return ok && p.Parent() == x.W && namedOf(p.Type()) == "ngo.VerifyOptions"
}

// c10Cmp: the comparison that holds when cond evaluates to truth, constants on the right.
func c10Cmp(cond ssa.Value, truth bool) (token.Token, ssa.Value, ssa.Value, bool) {
	for {
		u, ok := cond.(*ssa.UnOp)
		if !ok || u.Op != token.NOT {
			break
		}
		cond, truth = u.X, !truth
	}
	bo, ok := cond.(*ssa.BinOp)
	if !ok {
		return 0, nil, nil, false
	}
	op := bo.Op
	switch op {
	case token.EQL, token.NEQ, token.LSS, token.GEQ, token.GTR, token.LEQ:
	default:
		return 0, nil, nil, false
	}
	if !truth {
		op = negOp(op)
	}
	a, b := bo.X, bo.Y
	if _, ak := a.(*ssa.Const); ak {
		if _, bk := b.(*ssa.Const); !bk {
			a, b = b, a
			op = c10Mirror(op)
		}
	}
	return op, a, b, true
}

func c10Mirror(op token.Token) token.Token {
	switch op {
	case token.LSS:
		return token.GTR
	case token.GTR:
		return token.LSS
	case token.LEQ:
		return token.GEQ
	case token.GEQ:
		return token.LEQ
	}
	return op
}

func c10IntConst(v ssa.Value, n int64) bool {
	k, ok := v.(*ssa.Const)
	if !ok || k.Value == nil || k.Value.Kind() != constant.Int {
		return false
	}
	m, exact := constant.Int64Val(k.Value)
	return exact && m == n
}

func c10BoolConst(v ssa.Value) (bool, bool) {
	k, ok := v.(*ssa.Const)
	if !ok || k.Value == nil || k.Value.Kind() != constant.Bool {
		return false, false
	}
	return constant.BoolVal(k.Value), true
}

// c10Edge is one branch edge: the If and the outcome of its condition.
type c10Edge struct {
	iff   *ssa.If
	truth bool
}

// mustPassEdges: the branch edges every path from the start block to one of the target blocks takes.
func c10MustPassEdges(fi *FnInfo, start *ssa.BasicBlock, targets map[int]bool) []c10Edge {
	ss := []state{{start.Index, 0, -1}}
	if !fi.reachHit(ss, nil, targets) {
		return nil
	}
	var out []c10Edge
	for _, b := range fi.Fn.Blocks {
		iff, isIf := blockTerm(b).(*ssa.If)
		if !isIf || len(b.Succs) != 2 {
			continue
		}
		for j := 0; j < 2; j++ {
			if !fi.reachHit(ss, map[edgeKey]bool{{b.Index, j}: true}, targets) {
				out = append(out, c10Edge{iff, j == 0})
			}
		}
	}
	return out
}

// ---------- cut sets followed into helpers -----------------------------------
//
// A rule of the form "the target is reachable only through one of the selected edges" (a disjunctive, fail-closed gate)
// is decided by removing the selected edges and asking whether the target is still reachable. When the outer function
// delegates the test to a module helper (`skipped, out, err := probe(v); if err != nil {…}; if skipped {…}`), the selected
// edges are in the helper. The helper then returns only through the exits that remain reachable in *its* graph without
// its selected edges, and what the caller does next is decided by the tests it applies to the helper's results. So, for
// every such remaining exit, the caller's edges whose condition contradicts the results returned at that exit are
// removed as well; the target must be unreachable for every remaining exit (a case split on how the helper returned).
//
// Soundness: take an execution that reaches the target without taking a selected edge anywhere. Its last call of the
// helper returned through an exit e that is reachable without the helper's selected edges; the caller's path after the
// call is consistent with the values returned at e, hence it uses no edge contradicted by e and no selected edge of the
// caller: the target is reachable in the caller's graph cut for e — which the rule refutes.

type c10exit struct {
	ret *ssa.Return
	st  state
}

func c10ResultIdx(call *ssa.Call, v ssa.Value) int {
	if v == ssa.Value(call) {
		if _, tup := call.Type().(*types.Tuple); !tup {
			return 0
		}
		return -1
	}
	if e, ok := v.(*ssa.Extract); ok && e.Tuple == ssa.Value(call) {
		return e.Index
	}
	return -1
}

// c10Contradicts: the helper returned through exit e; can the caller's condition cond (a test of a result of that call)
// evaluate to truth? true = it cannot.
func c10Contradicts(hi *FnInfo, e c10exit, call *ssa.Call, cond ssa.Value, truth bool) bool {
	for {
		u, ok := cond.(*ssa.UnOp)
		if !ok || u.Op != token.NOT {
			break
		}
		cond, truth = u.X, !truth
	}
	result := func(k int) (ssa.Value, *ssa.BasicBlock) {
		if k >= len(e.ret.Results) {
			return nil, nil
		}
		v := e.ret.Results[k]
		at := e.ret.Block()
		if p, ok := v.(*ssa.Phi); ok && p.Block() == at && e.st.p >= 0 && e.st.p < len(p.Edges) {
			v, at = p.Edges[e.st.p], at.Preds[e.st.p]
		}
		return v, at
	}
	if k := c10ResultIdx(call, cond); k >= 0 {
		rv, _ := result(k)
		if rv == nil {
			return false
		}
		if bv, ok := c10BoolConst(rv); ok {
			return bv != truth
		}
		return false
	}
	bo, ok := cond.(*ssa.BinOp)
	if !ok || (bo.Op != token.EQL && bo.Op != token.NEQ) {
		return false
	}
	var o ssa.Value
	switch {
	case isNilConst(bo.Y):
		o = bo.X
	case isNilConst(bo.X):
		o = bo.Y
	default:
		return false
	}
	k := c10ResultIdx(call, o)
	if k < 0 {
		return false
	}
	saysNil := (bo.Op == token.EQL) == truth
	rv, at := result(k)
	if rv == nil {
		return false
	}
	if isErrorType(o.Type()) && k == len(e.ret.Results)-1 {
		cl, _, _, _ := hi.classify(e.ret, state{e.st.b, hi.through(e.ret.Block(), e.st.m), e.st.p}, Mode{Kind: mErr})
		if saysNil {
			return cl == clFail
		}
		return cl == clSuccess
	}
	if saysNil {
		return hi.nonNil(rv, at)
	}
	return isNilConst(rv)
}

func c10EdgeSetKey(m map[edgeKey]bool) string {
	var ks []string
	for e := range m {
		ks = append(ks, fmt.Sprintf("%d.%d", e.b, e.succ))
	}
	sort.Strings(ks)
	return strings.Join(ks, ",")
}

// c10DeepCuts returns the alternative cut sets of fi for the selection (one per combination of remaining helper exits)
// and the number of selected edges found in fi and in the helpers it calls. subst rewrites a label of fi into the frame
// of the function the selection was written for.
func c10DeepCuts(w *World, fi *FnInfo, sel EdgeSel, subst func(string) string, depth int, busy map[*ssa.Function]bool) ([]map[edgeKey]bool, int) {
	own := fi.edgesMatching(func(l string, iff *ssa.If, truth bool) bool { return sel(subst(l), iff, truth) })
	n := len(own)
	alts := []map[edgeKey]bool{own}
	if depth >= 2 {
		return alts, n
	}
	busy[fi.Fn] = true
	defer delete(busy, fi.Fn)
	for _, ci := range allCalls(fi.Fn) {
		call, ok := ci.(*ssa.Call)
		if !ok {
			continue
		}
		h := staticCallee(call)
		if h == nil || h.Blocks == nil || !w.IsProductFn(h) || busy[h] || h.Parent() != nil || len(call.Call.Args) != len(h.Params) {
			continue
		}
		names := make([]string, len(h.Params))
		descs := make([]string, len(h.Params))
		for i, p := range h.Params {
			names[i] = p.Name()
			descs[i] = subst(desc(call.Call.Args[i]))
		}
		hi := w.Info(h)
		hAlts, hn := c10DeepCuts(w, hi, sel, func(l string) string { return substParams(l, names, descs) }, depth+1, busy)
		if hn == 0 {
			continue
		}
		n += hn
		// the exits of the helper that remain reachable without its selected edges
		var exits []c10exit
		seen := map[c10exit]bool{}
		for _, a := range hAlts {
			for st := range hi.reach(entryState(), a) {
				if r, ok := blockTerm(h.Blocks[st.b]).(*ssa.Return); ok {
					e := c10exit{r, st}
					if !seen[e] {
						seen[e] = true
						exits = append(exits, e)
					}
				}
			}
		}
		var per []map[edgeKey]bool
		perSeen := map[string]bool{}
		if len(exits) == 0 {
			// the helper does not return at all without a selected edge: nothing after the call is reachable
			m := map[edgeKey]bool{}
			for j := range call.Block().Succs {
				m[edgeKey{call.Block().Index, j}] = true
			}
			per = append(per, m)
		}
		for _, e := range exits {
			m := map[edgeKey]bool{}
			for _, b := range fi.Fn.Blocks {
				iff, isIf := blockTerm(b).(*ssa.If)
				if !isIf || len(b.Succs) != 2 {
					continue
				}
				for j := 0; j < 2; j++ {
					if c10Contradicts(hi, e, call, iff.Cond, j == 0) {
						m[edgeKey{b.Index, j}] = true
					}
				}
			}
			if k := c10EdgeSetKey(m); !perSeen[k] {
				perSeen[k] = true
				per = append(per, m)
			}
		}
		if len(alts)*len(per) > 256 {
			continue // too many combinations: do without this helper's case split (fewer edges removed: conservative)
		}
		var next []map[edgeKey]bool
		for _, a := range alts {
			for _, p := range per {
				m := map[edgeKey]bool{}
				for e := range a {
					m[e] = true
				}
				for e := range p {
					m[e] = true
				}
				next = append(next, m)
			}
		}
		alts = next
	}
	return alts, n
}

func c10Ident(l string) string { return l }

// c10DeepBlocked: no target block is reachable from the entry of fi once the selected edges (own and in helpers) are removed.
func c10DeepBlocked(w *World, fi *FnInfo, sel EdgeSel, targets map[int]bool) (bool, int) {
	alts, n := c10DeepCuts(w, fi, sel, c10Ident, 0, map[*ssa.Function]bool{})
	for _, a := range alts {
		if fi.reachHit(entryState(), a, targets) {
			return false, n
		}
	}
	return true, n
}

// c10DeepExitsBlocked: none of the exits can report success once the selected edges (own and in helpers) are removed.
func c10DeepExitsBlocked(w *World, fi *FnInfo, exits []*ExitSum, sel EdgeSel) (bool, int, []string) {
	alts, n := c10DeepCuts(w, fi, sel, c10Ident, 0, map[*ssa.Function]bool{})
	for _, a := range alts {
		r := fi.reach(entryState(), a)
		for _, ex := range exits {
			for st := range r {
				if st.b == ex.Ret.Block().Index {
					cl, _, _, _ := fi.classify(ex.Ret, state{st.b, fi.through(fi.Fn.Blocks[st.b], st.m), st.p}, Mode{Kind: mErr})
					if cl != clFail {
						return false, n, []string{fmt.Sprintf("exit b%d %s", st.b, fi.W.InstrPos(ex.Ret))}
					}
				}
			}
		}
	}
	return true, n, nil
}

// c10Helpers: the module functions the outer function calls directly or through one of them (not closures), with the
// chain of call sites that leads to each (outermost first).
type c10helper struct {
	fn    *ssa.Function
	chain []*ssa.Call
}

func c10Helpers(w *World, W *ssa.Function) []c10helper {
	var out []c10helper
	seen := map[*ssa.Function]bool{W: true}
	var rec func(f *ssa.Function, chain []*ssa.Call, depth int)
	rec = func(f *ssa.Function, chain []*ssa.Call, depth int) {
		for _, ci := range allCalls(f) {
			call, ok := ci.(*ssa.Call)
			if !ok {
				continue
			}
			h := staticCallee(call)
			if h == nil || h.Blocks == nil || !w.IsProductFn(h) || h.Parent() != nil || seen[h] || fnPkg(h) != fnPkg(W) {
				continue
			}
			seen[h] = true
			ch := append(append([]*ssa.Call{}, chain...), call)
			out = append(out, c10helper{h, ch})
			if depth < 1 {
				rec(h, ch, depth+1)
			}
		}
	}
	rec(W, nil, 0)
	return out
}

// c10ToOuter rewrites a label of the function at the end of the chain into the frame of the outer function.
func c10ToOuter(chain []*ssa.Call, l string) string {
	for i := len(chain) - 1; i >= 0; i-- {
		call := chain[i]
		h := staticCallee(call)
		if h == nil || len(call.Call.Args) != len(h.Params) {
			return l
		}
		names := make([]string, len(h.Params))
		descs := make([]string, len(h.Params))
		for k, p := range h.Params {
			names[k] = p.Name()
			descs[k] = desc(call.Call.Args[k])
		}
		l = substParams(l, names, descs)
	}
	return l
}
