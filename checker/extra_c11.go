package main

// Helpers of the C11 rule set: the obligations of rules_c11.go are decided on SSA values (roles, dataflow, the product
// graph) rather than on the printed form of one code shape.

import (
	"go/ast"
	"go/constant"
	"go/token"
	"go/types"
	"strings"

	"golang.org/x/tools/go/ssa"
)

// ---- repository calls on the call tree ---------------------------------------------------------

// c11RepoCall is one invocation of a registry.Repository method on the static call tree of the entry function.
type c11RepoCall struct {
	call   ssa.CallInstruction
	path   []*ssa.Call // static module calls leading from the entry function to the function holding the call (outermost first)
	opaque bool        // inside a closure or behind defer/go: it runs, but not at a place the rules can order
}

// c11RepoCalls enumerates the repository invocations per call path: a helper called from two sites counts twice,
// exactly as its body would if it were written out at both sites.
func c11RepoCalls(w *World, entry *ssa.Function) []c11RepoCall {
	var out []c11RepoCall
	onStack := map[*ssa.Function]bool{}
	var visit func(f *ssa.Function, path []*ssa.Call, opaque bool)
	visit = func(f *ssa.Function, path []*ssa.Call, opaque bool) {
		if onStack[f] || len(path) > 6 || f.Blocks == nil {
			return
		}
		onStack[f] = true
		defer delete(onStack, f)
		for _, ci := range allCalls(f) {
			if strings.HasPrefix(calleeName(ci), "invoke:ngo/registry.Repository.") {
				_, plain := ci.(*ssa.Call)
				out = append(out, c11RepoCall{call: ci, path: append([]*ssa.Call(nil), path...), opaque: opaque || !plain})
				continue
			}
			g := staticCallee(ci)
			if g == nil || g.Blocks == nil || !w.IsProductFn(g) {
				continue
			}
			if call, plain := ci.(*ssa.Call); plain && !opaque {
				visit(g, append(append([]*ssa.Call(nil), path...), call), false)
			} else {
				visit(g, path, true)
			}
		}
		for _, a := range f.AnonFuncs {
			visit(a, path, true)
		}
	}
	visit(entry, nil, false)
	return out
}

// c11Up follows a value of the frame at the end of the call path up to the entry function's frame, as long as it
// is a parameter handed through unchanged. nil if it is anything else on the way.
func c11Up(v ssa.Value, path []*ssa.Call) ssa.Value {
	for i := len(path) - 1; i >= 0; i-- {
		p, ok := v.(*ssa.Parameter)
		if !ok {
			return nil
		}
		idx := -1
		for k, q := range p.Parent().Params {
			if q == p {
				idx = k
			}
		}
		if idx < 0 || idx >= len(path[i].Call.Args) || staticCallee(path[i]) != p.Parent() {
			return nil
		}
		v = path[i].Call.Args[idx]
	}
	return v
}

// c11ErrLabel: the fact "this call returned a nil error".
func c11ErrLabel(call *ssa.Call) string { return "EQ(" + descTailErr(call) + ",nil)" }

// c11ChainSucceeded: control reaches `at` (an instruction of the entry function) only after every call of the path
// has returned a nil error: the outermost call's success guards `at`, and each inner call's success is a fact of
// every success-capable exit of the function that makes it.
func c11ChainSucceeded(w *World, entry *ssa.Function, path []*ssa.Call, at ssa.Instruction) (bool, string) {
	if len(path) == 0 {
		return true, ""
	}
	g := w.Info(entry).GuardsOf(at)
	if _, ok := hasLabel(g, c11ErrLabel(path[0])); !ok {
		return false, "the effect is reachable although " + desc(path[0]) + " failed"
	}
	for i := 1; i < len(path); i++ {
		f := path[i].Parent()
		s := w.Summarize(f, Mode{Kind: mErr})
		if len(s.Exits) == 0 {
			return false, fnName(f) + " has no success-capable exit"
		}
		for _, ex := range s.Exits {
			if _, ok := hasLabel(ex.Checked, c11ErrLabel(path[i])); !ok {
				return false, fnName(f) + " can succeed although " + desc(path[i]) + " failed"
			}
		}
	}
	return true, ""
}

// ---- the resolved descriptor as a value --------------------------------------------------------

// c11Res decides whether an SSA value is the descriptor Repository.Resolve returned, unmodified:
//   - result 0 of the Resolve call itself;
//   - result k of a module helper on the path to the Resolve, when every success-capable exit of that helper returns,
//     as result k, a value that is the resolved descriptor in the helper's own frame (a struct returned by value is the
//     same value in the caller: same digest, same size, same annotation map);
//   - a load of a local variable that holds nothing else (c11Res.cell);
//   - a phi of such values.
type c11Res struct {
	w       *World
	resolve *ssa.Call
	path    []*ssa.Call
	busy    map[ssa.Value]bool
}

func (r *c11Res) is(v ssa.Value) bool {
	if v == nil || r.busy[v] {
		return false
	}
	r.busy[v] = true
	defer delete(r.busy, v)
	switch x := v.(type) {
	case *ssa.Extract:
		call, ok := x.Tuple.(*ssa.Call)
		if !ok {
			return false
		}
		if call == r.resolve {
			return x.Index == 0
		}
		for _, pc := range r.path {
			if pc == call {
				return r.delivers(staticCallee(call), x.Index)
			}
		}
	case *ssa.UnOp:
		if x.Op == token.MUL {
			if al, ok := x.X.(*ssa.Alloc); ok {
				return r.cell(al, x)
			}
		}
	case *ssa.Phi:
		for _, e := range x.Edges {
			if !r.is(e) {
				return false
			}
		}
		return len(x.Edges) > 0
	}
	return false
}

func (r *c11Res) delivers(g *ssa.Function, k int) bool {
	if g == nil || g.Blocks == nil {
		return false
	}
	s := r.w.Summarize(g, Mode{Kind: mErr})
	if len(s.Exits) == 0 {
		return false
	}
	for _, ex := range s.Exits {
		if k >= len(ex.Ret.Results) || !r.is(ex.Ret.Results[k]) {
			return false
		}
	}
	return true
}

// cell: the local variable al holds the resolved descriptor when `at` reads it. Every whole-value store into it is
// the resolved descriptor, the variable's own value (`return x, …` of a named result), or a value stored right in
// front of a return in another block than the read (it cannot flow to the read); no field of it is ever stored to,
// its address goes nowhere, and a resolving store dominates the read.
func (r *c11Res) cell(al *ssa.Alloc, at ssa.Instruction) bool {
	refs := al.Referrers()
	if refs == nil {
		return false
	}
	dominated := false
	for _, ref := range *refs {
		switch x := ref.(type) {
		case *ssa.Store:
			if x.Addr != ssa.Value(al) {
				return false // the address itself is stored somewhere
			}
			if u, ok := x.Val.(*ssa.UnOp); ok && u.Op == token.MUL && u.X == ssa.Value(al) {
				continue
			}
			if r.is(x.Val) {
				if c11Before(x, at) {
					dominated = true
				}
				continue
			}
			if _, isRet := blockTerm(x.Block()).(*ssa.Return); isRet && x.Block() != at.Block() {
				continue
			}
			return false
		case *ssa.UnOp, *ssa.DebugRef:
		case *ssa.FieldAddr:
			if addrWritten(x, 0) {
				return false
			}
		case *ssa.IndexAddr:
			if addrWritten(x, 0) {
				return false
			}
		default:
			return false
		}
	}
	return dominated
}

// c11Before: instruction a is executed before b on every path to b (same block and earlier, or a's block strictly dominates b's).
func c11Before(a, b ssa.Instruction) bool {
	if a.Block() == b.Block() {
		return instrIndex(a) < instrIndex(b)
	}
	return a.Block().Dominates(b.Block())
}

// c11MayPrecede: some path runs a and later b.
func c11MayPrecede(fi *FnInfo, a, b ssa.Instruction) bool {
	if a.Block() == b.Block() && instrIndex(a) < instrIndex(b) {
		return true
	}
	return fi.reachHit([]state{{a.Block().Index, 0, -1}}, nil, blocksOf(b))
}

// c11StripConv strips the value-preserving conversions between a string and a named string type (digest.Digest).
func c11StripConv(v ssa.Value) ssa.Value {
	for {
		switch x := v.(type) {
		case *ssa.ChangeType:
			v = x.X
		case *ssa.Convert:
			if !c11Stringish(x.Type()) || !c11Stringish(x.X.Type()) {
				return v
			}
			v = x.X
		default:
			return v
		}
	}
}

func c11Stringish(t types.Type) bool {
	b, ok := t.Underlying().(*types.Basic)
	return ok && b.Info()&types.IsString != 0
}

// digestOf: v is the Digest field of the resolved descriptor, as a digest.Digest or as its String() (go-digest:
// `func (d Digest) String() string { return string(d) }`).
func (r *c11Res) digestOf(v ssa.Value) bool {
	v = c11StripConv(v)
	if call, ok := v.(*ssa.Call); ok && calleeName(call) == "(digest.Digest).String" && len(call.Call.Args) == 1 {
		v = c11StripConv(call.Call.Args[0])
	}
	switch x := v.(type) {
	case *ssa.Field:
		return fieldName(x.X.Type(), x.Field) == "Digest" && r.is(x.X)
	case *ssa.UnOp:
		if x.Op != token.MUL {
			return false
		}
		fa, ok := x.X.(*ssa.FieldAddr)
		if !ok || fieldName(fa.X.Type(), fa.Field) != "Digest" {
			return false
		}
		if al, ok := fa.X.(*ssa.Alloc); ok {
			return r.cell(al, x)
		}
	}
	return false
}

// c11DigestEdges: the If edges of the function holding the Resolve on which the very string that was resolved is known to
// be the resolved digest (`ref == desc.Digest.String()`, `digest.Digest(ref) == desc.Digest`) or known not to be a
// digest at all (`digest.Parse(ref)` / `digest.Digest(ref).Validate()` returned an error; go-digest: Parse(s) is
// `d := Digest(s); return d, d.Validate()`).
func (r *c11Res) digestEdges(fi *FnInfo) map[edgeKey]bool {
	refV := r.resolve.Call.Args[1]
	same := func(v ssa.Value) bool { return c11StripConv(v) == refV }
	return fi.edgesMatching(func(_ string, iff *ssa.If, truth bool) bool {
		cond := stripNot(iff.Cond, &truth)
		bo, ok := cond.(*ssa.BinOp)
		if !ok || (bo.Op != token.EQL && bo.Op != token.NEQ) {
			return false
		}
		equal := (bo.Op == token.EQL) == truth
		if (same(bo.X) && r.digestOf(bo.Y)) || (same(bo.Y) && r.digestOf(bo.X)) {
			return equal
		}
		var o ssa.Value
		if isNilConst(bo.Y) {
			o = bo.X
		} else if isNilConst(bo.X) {
			o = bo.Y
		}
		if o == nil || !isErrorType(o.Type()) {
			return false
		}
		call := callOf(o)
		if call == nil || len(call.Call.Args) != 1 || !same(call.Call.Args[0]) {
			return false
		}
		switch calleeName(call) {
		case "digest.Parse", "(digest.Digest).Validate":
			return !equal // the error is not nil
		}
		return false
	})
}

// ---- the metadata merge ------------------------------------------------------------------------

// c11M is the role assignment inside the merge function.
type c11M struct {
	w    *World
	M    *ssa.Function
	fi   *FnInfo
	dPar *ssa.Parameter // the descriptor parameter (by value, or a pointer to a descriptor the caller owns)
	D    ssa.Value      // the descriptor object: the spill of the by-value parameter, or the pointer parameter
	ptr  bool
	mPar *ssa.Parameter // the metadata map
	loop *rangeLoop     // the loop over the metadata
	annS []*ssa.Store   // stores into D.Annotations
}

func c11MergeRoles(w *World, M *ssa.Function) (*c11M, string) {
	m := &c11M{w: w, M: M, fi: w.Info(M)}
	for _, p := range M.Params {
		switch {
		case namedOf(p.Type()) == "ocispec.Descriptor":
			if m.dPar != nil {
				return nil, "two descriptor parameters"
			}
			m.dPar = p
			_, m.ptr = p.Type().Underlying().(*types.Pointer)
		case p.Type().String() == "map[string]string":
			if m.mPar != nil {
				return nil, "two map parameters"
			}
			m.mPar = p
		}
	}
	if m.dPar == nil || m.mPar == nil {
		return nil, "parameters not recognised"
	}
	m.D = m.dPar
	if !m.ptr {
		for _, r := range *m.dPar.Referrers() {
			if st, ok := r.(*ssa.Store); ok && st.Val == ssa.Value(m.dPar) {
				if al, ok := st.Addr.(*ssa.Alloc); ok {
					m.D = al
				}
			}
		}
	}
	for _, rl := range rangeLoops(M) {
		if rl.X == ssa.Value(m.mPar) {
			if m.loop != nil {
				return nil, "two loops over the metadata"
			}
			rl := rl
			m.loop = &rl
		}
	}
	// what happens to the descriptor object
	if refs := m.D.Referrers(); refs != nil {
		for _, r := range *refs {
			switch x := r.(type) {
			case *ssa.FieldAddr:
				if x.X != m.D {
					continue
				}
				isAnn := fieldName(x.X.Type(), x.Field) == "Annotations"
				for _, rr := range *x.Referrers() {
					switch y := rr.(type) {
					case *ssa.Store:
						if y.Addr != ssa.Value(x) || !isAnn {
							return nil, "the merge writes the " + fieldName(x.X.Type(), x.Field) + " field of the descriptor"
						}
						m.annS = append(m.annS, y)
					case *ssa.UnOp, *ssa.DebugRef:
					default:
						return nil, "a field address of the descriptor escapes"
					}
				}
			case *ssa.Store:
				if x.Addr == m.D && x.Val != ssa.Value(m.dPar) {
					return nil, "the descriptor is overwritten as a whole"
				}
				if x.Val == m.D && m.ptr {
					return nil, "the descriptor pointer is stored"
				}
			case *ssa.UnOp, *ssa.DebugRef, *ssa.Field:
			case *ssa.MakeInterface:
				for _, rr := range *x.Referrers() {
					if !onlyFormatted(rr, 0) {
						return nil, "the descriptor escapes"
					}
				}
			default:
				return nil, "the descriptor escapes"
			}
		}
	}
	return m, ""
}

// origAnn: v is the annotation map of the descriptor as handed in: a read of D.Annotations that no store into that
// field can precede.
func (m *c11M) origAnn(v ssa.Value) bool {
	var at ssa.Instruction
	switch x := v.(type) {
	case *ssa.Field:
		return x.X == ssa.Value(m.dPar) && !m.ptr && fieldName(x.X.Type(), x.Field) == "Annotations"
	case *ssa.UnOp:
		if x.Op != token.MUL {
			return false
		}
		fa, ok := x.X.(*ssa.FieldAddr)
		if !ok || fa.X != m.D || fieldName(fa.X.Type(), fa.Field) != "Annotations" {
			return false
		}
		at = x
	default:
		return false
	}
	for _, s := range m.annS {
		if c11MayPrecede(m.fi, s, at) {
			return false
		}
	}
	return true
}

// iterPart: v is the key (idx 1) or the value (idx 2) of the current pair of the metadata loop: the Next's component,
// or a load of a variable that is given exactly that component once, before the load, and is only read afterwards
// (a per-iteration variable captured by a closure is such a variable).
func (m *c11M) iterPart(v ssa.Value, idx int) bool {
	if m.loop == nil {
		return false
	}
	if ex, ok := v.(*ssa.Extract); ok {
		return ex.Tuple == ssa.Value(m.loop.Next) && ex.Index == idx
	}
	u, ok := v.(*ssa.UnOp)
	if !ok || u.Op != token.MUL {
		return false
	}
	al, ok := u.X.(*ssa.Alloc)
	if !ok || !m.iterCell(al, idx) {
		return false
	}
	for _, r := range *al.Referrers() {
		if st, ok := r.(*ssa.Store); ok {
			return c11Before(st, u)
		}
	}
	return false
}

func (m *c11M) iterCell(al *ssa.Alloc, idx int) bool {
	n := 0
	for _, r := range *al.Referrers() {
		switch x := r.(type) {
		case *ssa.Store:
			ex, ok := x.Val.(*ssa.Extract)
			if x.Addr != ssa.Value(al) || !ok || ex.Tuple != ssa.Value(m.loop.Next) || ex.Index != idx {
				return false
			}
			n++
		case *ssa.UnOp, *ssa.DebugRef:
		case *ssa.MakeClosure:
			g, ok := x.Fn.(*ssa.Function)
			if !ok {
				return false
			}
			for i, b := range x.Bindings {
				if b != ssa.Value(al) || i >= len(g.FreeVars) {
					continue
				}
				for _, fr := range *g.FreeVars[i].Referrers() {
					switch fr.(type) {
					case *ssa.UnOp, *ssa.DebugRef:
					default:
						return false
					}
				}
			}
		default:
			return false
		}
	}
	return n == 1
}

// iterGate: with the edges of cut removed, an iteration that starts at the loop body can neither complete (get back
// to the loop header) nor leave the function through a success-capable exit.
func c11IterGate(fi *FnInfo, l *rangeLoop, cut map[edgeKey]bool) bool {
	if len(cut) == 0 {
		return false
	}
	start := []state{{l.Body.Index, 0, -1}}
	if fi.reachHit(start, cut, map[int]bool{l.Header.Index: true}) {
		return false
	}
	all := map[edgeKey]bool{}
	for e := range cut {
		all[e] = true
	}
	for e := range backEdges(l.Header) {
		all[e] = true
	}
	return fi.successWitness(Mode{Kind: mErr}, start, all) == nil
}

// ---- the reserved prefix list ------------------------------------------------------------------

// c11ReservedList: the package-level list of strings of the root package whose initialiser holds the notary prefix.
func c11ReservedList(w *World) *ssa.Global {
	p := w.Pkg("")
	if p == nil {
		return nil
	}
	for _, n := range p.Pkg.Scope().Names() {
		v, ok := p.Pkg.Scope().Lookup(n).(*types.Var)
		if !ok {
			continue
		}
		var el types.Type
		switch t := v.Type().Underlying().(type) {
		case *types.Array:
			el = t.Elem()
		case *types.Slice:
			el = t.Elem()
		default:
			continue
		}
		if !c11Stringish(el) {
			continue
		}
		init, pp := w.pkgVarInit("", n)
		cl, ok := init.(*ast.CompositeLit)
		if !ok {
			continue
		}
		for _, e := range cl.Elts {
			if kv, ok := e.(*ast.KeyValueExpr); ok {
				e = kv.Value
			}
			if s, ok := constOfExpr(pp, e); ok && strings.HasPrefix(s, "io.cncf.notary") {
				if g, ok := p.Members[n].(*ssa.Global); ok {
					return g
				}
			}
		}
	}
	return nil
}

// c11ListBase: x is the list g itself: the global (pointer to the array), a load of it, or the full slice of it.
func c11ListBase(x ssa.Value, g *ssa.Global) bool {
	switch y := x.(type) {
	case *ssa.Global:
		return y == g
	case *ssa.UnOp:
		return y.Op == token.MUL && y.X == ssa.Value(g)
	case *ssa.Slice:
		return y.Low == nil && y.High == nil && y.Max == nil && c11ListBase(y.X, g)
	}
	return false
}

// c11ListElem: v is element idx of the list g.
func c11ListElem(v ssa.Value, g *ssa.Global, idx ssa.Value) bool {
	switch x := v.(type) {
	case *ssa.Index:
		return x.Index == idx && c11ListBase(x.X, g)
	case *ssa.UnOp:
		if ia, ok := x.X.(*ssa.IndexAddr); ok && x.Op == token.MUL {
			return ia.Index == idx && c11ListBase(ia.X, g)
		}
	}
	return false
}

// c11CountLoop is a loop whose index runs over 0, 1, …, len(g)-1 in steps of one and that is left through its header
// only when the index has reached len(g).
type c11CountLoop struct {
	Header, Body, Exit *ssa.BasicBlock
	Idx                ssa.Value
}

func c11IntConst(v ssa.Value) (int64, bool) {
	k, ok := v.(*ssa.Const)
	if !ok || k.Value == nil || k.Value.Kind() != constant.Int {
		return 0, false
	}
	return constant.Int64Val(k.Value)
}

// c11CountLoops recognises both spellings go/ssa produces: `i = phi(0, i+1); i < n` (a for statement) and
// `p = phi(-1, i); i = p+1; i < n` (range over an array or slice). n is the length of g: the constant array length, or
// len() of the list.
func c11CountLoops(fn *ssa.Function, g *ssa.Global) []c11CountLoop {
	var out []c11CountLoop
	for _, h := range fn.Blocks {
		iff, ok := blockTerm(h).(*ssa.If)
		if !ok || len(h.Succs) != 2 {
			continue
		}
		bo, ok := iff.Cond.(*ssa.BinOp)
		if !ok || bo.Op != token.LSS {
			continue
		}
		// the bound
		okN := false
		if n, isK := c11IntConst(bo.Y); isK {
			t := g.Type().Underlying().(*types.Pointer).Elem().Underlying()
			if arr, ok := t.(*types.Array); ok && arr.Len() == n {
				okN = true
			}
		} else if call, ok := bo.Y.(*ssa.Call); ok {
			if bi, ok := call.Call.Value.(*ssa.Builtin); ok && bi.Name() == "len" && c11ListBase(call.Call.Args[0], g) {
				okN = true
			}
		}
		if !okN {
			continue
		}
		// the index
		idx := bo.X
		plusOne := func(v ssa.Value) ssa.Value {
			if a, ok := v.(*ssa.BinOp); ok && a.Op == token.ADD {
				if n, isK := c11IntConst(a.Y); isK && n == 1 {
					return a.X
				}
			}
			return nil
		}
		startsAt := func(phi *ssa.Phi, first int64, next ssa.Value) bool {
			if phi.Block() != h || len(phi.Edges) != 2 {
				return false
			}
			seenFirst, seenNext := false, false
			for i, e := range phi.Edges {
				if n, isK := c11IntConst(e); isK && n == first && !h.Dominates(h.Preds[i]) {
					seenFirst = true
				} else if e == next && h.Dominates(h.Preds[i]) {
					seenNext = true
				}
			}
			return seenFirst && seenNext
		}
		okIdx := false
		if phi, ok := idx.(*ssa.Phi); ok {
			for _, e := range phi.Edges {
				if plusOne(e) == ssa.Value(phi) && startsAt(phi, 0, e) {
					okIdx = true
				}
			}
		} else if p := plusOne(idx); p != nil {
			if phi, ok := p.(*ssa.Phi); ok && startsAt(phi, -1, idx) {
				okIdx = true
			}
		}
		if okIdx {
			out = append(out, c11CountLoop{Header: h, Body: h.Succs[0], Exit: h.Succs[1], Idx: idx})
		}
	}
	return out
}

// c11HasPrefixEdges: the If edges on which strings.HasPrefix(key of this metadata pair, element accepted by elem) is false.
func (m *c11M) hasPrefixFalseEdges(elem func(ssa.Value) bool) map[edgeKey]bool {
	return m.fi.edgesMatching(func(_ string, iff *ssa.If, truth bool) bool {
		cond := stripNot(iff.Cond, &truth)
		call, ok := cond.(*ssa.Call)
		if !ok || truth || calleeName(call) != "strings.HasPrefix" {
			return false
		}
		return m.iterPart(call.Call.Args[0], 1) && elem(call.Call.Args[1])
	})
}

// reservedByLoop: shape A — a counting loop over the whole reserved list inside the metadata loop.
//
// Soundness: (1) from the body of the counting loop, neither its header nor the header of the metadata loop nor a
// success-capable exit is reachable except over an edge on which HasPrefix(key, list[i]) is false; (2) the metadata
// iteration completes only over the exit edge of the counting loop's header, which is taken when i has reached len(list).
// i starts at 0 and grows by one per passage of the header, so every element 0 … len-1 was tested negative.
func (m *c11M) reservedByLoop(g *ssa.Global) bool {
	for _, L := range c11CountLoops(m.M, g) {
		if !loopBlocks(m.loop.Header)[L.Header.Index] {
			continue
		}
		cutF := m.hasPrefixFalseEdges(func(v ssa.Value) bool { return c11ListElem(v, g, L.Idx) })
		if len(cutF) == 0 {
			continue
		}
		start := []state{{L.Body.Index, 0, -1}}
		if m.fi.reachHit(start, cutF, map[int]bool{L.Header.Index: true, m.loop.Header.Index: true}) {
			continue
		}
		all := map[edgeKey]bool{}
		for e := range cutF {
			all[e] = true
		}
		cutInto(m.fi, L.Header, all)
		cutInto(m.fi, m.loop.Header, all)
		if m.fi.successWitness(Mode{Kind: mErr}, start, all) != nil {
			continue
		}
		if c11IterGate(m.fi, m.loop, map[edgeKey]bool{{L.Header.Index, 1}: true}) {
			return true
		}
	}
	return false
}

// reservedBySearch: shape B — slices.IndexFunc(list[:], pred) < 0 or !slices.ContainsFunc(list[:], pred) with a
// predicate closure that answers false only if HasPrefix(key, element) is false.
//
// Soundness: the standard library's IndexFunc returns -1 (ContainsFunc: false) only after pred answered false for every
// element of the slice, and the slice is the whole list; the closure's every false-capable exit carries the fact
// F(HasPrefix(captured key, its parameter)), and the captured variable is the key of this metadata pair.
func (m *c11M) reservedBySearch(g *ssa.Global) bool {
	cut := m.fi.edgesMatching(func(_ string, iff *ssa.If, truth bool) bool {
		cond := stripNot(iff.Cond, &truth)
		var call *ssa.Call
		switch x := cond.(type) {
		case *ssa.Call: // !ContainsFunc
			if truth {
				return false
			}
			call = x
			if calleeName(call) != "slices.ContainsFunc" {
				return false
			}
		case *ssa.BinOp: // IndexFunc < 0, == -1, <= -1 (and the negations on the other edge)
			c, ok := x.X.(*ssa.Call)
			n, isK := c11IntConst(x.Y)
			if !ok || !isK || calleeName(c) != "slices.IndexFunc" {
				return false
			}
			op := x.Op
			if !truth {
				op = negOp(op)
			}
			if !((op == token.LSS && n == 0) || (op == token.LEQ && n == -1) || (op == token.EQL && n == -1)) {
				return false
			}
			call = c
		default:
			return false
		}
		if len(call.Call.Args) != 2 || !c11ListBase(call.Call.Args[0], g) {
			return false
		}
		return m.prefixPredicate(call.Call.Args[1])
	})
	return c11IterGate(m.fi, m.loop, cut)
}

func (m *c11M) prefixPredicate(v ssa.Value) bool {
	mc, ok := v.(*ssa.MakeClosure)
	if !ok {
		return false
	}
	g, ok := mc.Fn.(*ssa.Function)
	if !ok || len(g.Params) != 1 || g.Blocks == nil {
		return false
	}
	s := m.w.Summarize(g, Mode{Kind: mBool, Want: false})
	if !s.Complete || len(s.Exits) == 0 {
		return false
	}
	for i, b := range mc.Bindings {
		al, ok := b.(*ssa.Alloc)
		if !ok || i >= len(g.FreeVars) || !m.iterCell(al, 1) {
			continue
		}
		want := "F(call:strings.HasPrefix(free:" + g.FreeVars[i].Name() + ",param:" + g.Params[0].Name() + "))"
		all := true
		for _, ex := range s.Exits {
			if _, ok := ex.Checked[want]; !ok {
				all = false
			}
		}
		if all {
			return true
		}
	}
	return false
}

// ---- hex(sha256(x)) ----------------------------------------------------------------------------

// c11HexOfSum: v is the lower-case hexadecimal text of a sha256.Sum256 result: hex.EncodeToString(sum[:]) or
// fmt.Sprintf("%x", sum) / fmt.Sprintf("%x", sum[:]) (fmt: %x of a byte array or slice is two lower-case hex digits per
// byte, nothing in between). Returns the Sum256 call.
func c11HexOfSum(v ssa.Value) *ssa.Call {
	call, ok := v.(*ssa.Call)
	if !ok {
		return nil
	}
	switch calleeName(call) {
	case "encoding/hex.EncodeToString":
		return c11SumBytes(call.Call.Args[0])
	case "fmt.Sprintf":
		if k, ok := call.Call.Args[0].(*ssa.Const); !ok || constString(k) != `"%x"` {
			return nil
		}
		els := appendedElems(call.Call.Args[1])
		if len(els) != 1 {
			return nil
		}
		mi, ok := els[0].(*ssa.MakeInterface)
		if !ok {
			return nil
		}
		return c11SumBytes(mi.X)
	}
	return nil
}

// c11SumBytes: v is the 32 bytes a sha256.Sum256 call returned: the call, a load of the variable it was stored in, or the full slice of that variable.
func c11SumBytes(v ssa.Value) *ssa.Call {
	switch x := v.(type) {
	case *ssa.Call:
		if calleeName(x) == "crypto/sha256.Sum256" {
			return x
		}
	case *ssa.UnOp:
		if al, ok := x.X.(*ssa.Alloc); ok && x.Op == token.MUL {
			if sv := singleStore(al); sv != nil {
				return c11SumBytes(sv)
			}
		}
	case *ssa.Slice:
		if x.Low != nil || x.High != nil || x.Max != nil {
			return nil
		}
		if al, ok := x.X.(*ssa.Alloc); ok {
			var st *ssa.Store
			for _, r := range *al.Referrers() {
				switch y := r.(type) {
				case *ssa.Store:
					if st != nil || y.Addr != ssa.Value(al) {
						return nil
					}
					st = y
				case *ssa.Slice, *ssa.UnOp, *ssa.DebugRef:
				default:
					return nil
				}
			}
			if st != nil {
				return c11SumBytes(st.Val)
			}
		}
	}
	return nil
}
