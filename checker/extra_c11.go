package main

// Helpers of the C11 rule set: the obligations of rules_c11.go are decided on SSA values (roles, dataflow, the product
// graph) rather than on the printed form of one code shape.

import (
	"go/ast"
	"go/constant"
	"go/token"
	"go/types"
	"sort"
	"strings"

	"golang.org/x/tools/go/ssa"
)

// ---- repository calls on the call tree ---------------------------------------------------------

// c11RepoCall is one invocation of a registry.Repository method on the static call tree of the entry function.
type c11RepoCall struct {
	call   ssa.CallInstruction
	path   []*ssa.Call // static module calls leading from the entry function to the function holding the call (outermost first)
	opaque bool        // inside a closure or behind defer/go: it runs, but not at a place the rules can order
}

// c11RepoCalls enumerates the repository invocations per call path: a helper called from two sites counts twice,
// exactly as its body would if it were written out at both sites.
func c11RepoCalls(w *World, entry *ssa.Function) []c11RepoCall {
	var out []c11RepoCall
	onStack := map[*ssa.Function]bool{}
	var visit func(f *ssa.Function, path []*ssa.Call, opaque bool)
	visit = func(f *ssa.Function, path []*ssa.Call, opaque bool) {
		if onStack[f] || len(path) > 6 || f.Blocks == nil {
			return
		}
		onStack[f] = true
		defer delete(onStack, f)
		for _, ci := range allCalls(f) {
			if strings.HasPrefix(calleeName(ci), "invoke:ngo/registry.Repository.") {
				_, plain := ci.(*ssa.Call)
				out = append(out, c11RepoCall{call: ci, path: append([]*ssa.Call(nil), path...), opaque: opaque || !plain})
				continue
			}
			g := staticCallee(ci)
			if g == nil || g.Blocks == nil || !w.IsProductFn(g) {
				continue
			}
			if call, plain := ci.(*ssa.Call); plain && !opaque {
				visit(g, append(append([]*ssa.Call(nil), path...), call), false)
			} else {
				visit(g, path, true)
			}
		}
		for _, a := range f.AnonFuncs {
			visit(a, path, true)
		}
	}
	visit(entry, nil, false)
	return out
}

// c11Up follows a value of the frame at the end of the call path up to the entry function's frame, as long as it
// is a parameter handed through unchanged. nil if it is anything else on the way.
func c11Up(v ssa.Value, path []*ssa.Call) ssa.Value {
	for i := len(path) - 1; i >= 0; i-- {
		p, ok := v.(*ssa.Parameter)
		if !ok {
			return nil
		}
		idx := -1
		for k, q := range p.Parent().Params {
			if q == p {
				idx = k
			}
		}
		if idx < 0 || idx >= len(path[i].Call.Args) || staticCallee(path[i]) != p.Parent() {
			return nil
		}
		v = path[i].Call.Args[idx]
	}
	return v
}

// c11ErrLabel: the fact "this call returned a nil error".
func c11ErrLabel(call *ssa.Call) string { return "EQ(" + descTailErr(call) + ",nil)" }

// c11ChainSucceeded: control reaches `at` (an instruction of the entry function) only after every call of the path
// has returned a nil error: the outermost call's success guards `at`, and each inner call's success is a fact of
// every success-capable exit of the function that makes it.
func c11ChainSucceeded(w *World, entry *ssa.Function, path []*ssa.Call, at ssa.Instruction) (bool, string) {
	if len(path) == 0 {
		return true, ""
	}
	g := w.Info(entry).GuardsOf(at)
	if _, ok := hasLabel(g, c11ErrLabel(path[0])); !ok {
		return false, "the effect is reachable although " + desc(path[0]) + " failed"
	}
	for i := 1; i < len(path); i++ {
		f := path[i].Parent()
		s := w.Summarize(f, Mode{Kind: mErr})
		if len(s.Exits) == 0 {
			return false, fnName(f) + " has no success-capable exit"
		}
		for _, ex := range s.Exits {
			if _, ok := hasLabel(ex.Checked, c11ErrLabel(path[i])); !ok {
				return false, fnName(f) + " can succeed although " + desc(path[i]) + " failed"
			}
		}
	}
	return true, ""
}

// ---- the resolved descriptor as a value --------------------------------------------------------

// c11Res decides whether an SSA value is the descriptor Repository.Resolve returned, unmodified:
//   - result 0 of the Resolve call itself;
//   - result k of a module helper on the path to the Resolve, when every success-capable exit of that helper returns,
//     as result k, a value that is the resolved descriptor in the helper's own frame (a struct returned by value is the
//     same value in the caller: same digest, same size, same annotation map);
//   - a load of a local variable that holds nothing else (c11Res.cell);
//   - a phi of such values.
type c11Res struct {
	w       *World
	resolve *ssa.Call
	path    []*ssa.Call
	busy    map[ssa.Value]bool
}

func (r *c11Res) is(v ssa.Value) bool {
	if v == nil || r.busy[v] {
		return false
	}
	r.busy[v] = true
	defer delete(r.busy, v)
	switch x := v.(type) {
	case *ssa.Extract:
		call, ok := x.Tuple.(*ssa.Call)
		if !ok {
			return false
		}
		if call == r.resolve {
			return x.Index == 0
		}
		for _, pc := range r.path {
			if pc == call {
				return r.delivers(staticCallee(call), x.Index)
			}
		}
	case *ssa.UnOp:
		if x.Op == token.MUL {
			if al, ok := x.X.(*ssa.Alloc); ok {
				return r.cell(al, x)
			}
		}
	case *ssa.Phi:
		for _, e := range x.Edges {
			if !r.is(e) {
				return false
			}
		}
		return len(x.Edges) > 0
	}
	return false
}

func (r *c11Res) delivers(g *ssa.Function, k int) bool {
	if g == nil || g.Blocks == nil {
		return false
	}
	s := r.w.Summarize(g, Mode{Kind: mErr})
	if len(s.Exits) == 0 {
		return false
	}
	for _, ex := range s.Exits {
		if k >= len(ex.Ret.Results) || !r.is(ex.Ret.Results[k]) {
			return false
		}
	}
	return true
}

// cell: the local variable al holds the resolved descriptor when `at` reads it. Every whole-value store into it is
// the resolved descriptor, the variable's own value (`return x, …` of a named result), or a value stored right in
// front of a return in another block than the read (it cannot flow to the read); no field of it is ever stored to,
// its address goes nowhere, and a resolving store dominates the read.
func (r *c11Res) cell(al *ssa.Alloc, at ssa.Instruction) bool {
	refs := al.Referrers()
	if refs == nil {
		return false
	}
	dominated := false
	for _, ref := range *refs {
		switch x := ref.(type) {
		case *ssa.Store:
			if x.Addr != ssa.Value(al) {
				return false // the address itself is stored somewhere
			}
			if u, ok := x.Val.(*ssa.UnOp); ok && u.Op == token.MUL && u.X == ssa.Value(al) {
				continue
			}
			if r.is(x.Val) {
				if c11Before(x, at) {
					dominated = true
				}
				continue
			}
			if _, isRet := blockTerm(x.Block()).(*ssa.Return); isRet && x.Block() != at.Block() {
				continue
			}
			return false
		case *ssa.UnOp, *ssa.DebugRef:
		case *ssa.FieldAddr:
			if addrWritten(x, 0) {
				return false
			}
		case *ssa.IndexAddr:
			if addrWritten(x, 0) {
				return false
			}
		default:
			return false
		}
	}
	return dominated
}

// c11Before: instruction a is executed before b on every path to b (same block and earlier, or a's block strictly dominates b's).
func c11Before(a, b ssa.Instruction) bool {
	if a.Block() == b.Block() {
		return instrIndex(a) < instrIndex(b)
	}
	return a.Block().Dominates(b.Block())
}

// c11MayPrecede: some path runs a and later b.
func c11MayPrecede(fi *FnInfo, a, b ssa.Instruction) bool {
	if a.Block() == b.Block() && instrIndex(a) < instrIndex(b) {
		return true
	}
	return fi.reachHit([]state{{a.Block().Index, 0, -1}}, nil, blocksOf(b))
}

// c11StripConv strips the value-preserving conversions between a string and a named string type (digest.Digest).
func c11StripConv(v ssa.Value) ssa.Value {
	for {
		switch x := v.(type) {
		case *ssa.ChangeType:
			v = x.X
		case *ssa.Convert:
			if !c11Stringish(x.Type()) || !c11Stringish(x.X.Type()) {
				return v
			}
			v = x.X
		default:
			return v
		}
	}
}

func c11Stringish(t types.Type) bool {
	b, ok := t.Underlying().(*types.Basic)
	return ok && b.Info()&types.IsString != 0
}

// The digest fact: the very string that was resolved is known to be the resolved digest (`ref == desc.Digest.String()`,
// `digest.Digest(ref) == desc.Digest`) or known not to be a digest at all (`digest.Parse(ref)` /
// `digest.Digest(ref).Validate()` returned an error; go-digest: Parse(s) is `d := Digest(s); return d, d.Validate()`).
// Roles: "ref" the string handed to Resolve, "res" the resolved descriptor, "dig" its digest. Where the two tests are
// made — inline, in a predicate (`isDigest(ref)`), in a validator (`checkPinned(ref, desc) error`) — is left to
// c11Fact; the roles travel with the arguments.
func c11DigestFact() *c11Fact {
	return &c11Fact{name: "digest", prim: func(fr *c11Frame, cond ssa.Value, truth bool, _ *ssa.If) bool {
		bo, ok := cond.(*ssa.BinOp)
		if !ok || (bo.Op != token.EQL && bo.Op != token.NEQ) {
			return false
		}
		equal := (bo.Op == token.EQL) == truth
		if (fr.is("ref", bo.X, bo) && fr.is("dig", bo.Y, bo)) || (fr.is("ref", bo.Y, bo) && fr.is("dig", bo.X, bo)) {
			return equal
		}
		var o ssa.Value
		if isNilConst(bo.Y) {
			o = bo.X
		} else if isNilConst(bo.X) {
			o = bo.Y
		}
		if o == nil || !isErrorType(o.Type()) {
			return false
		}
		call := callOf(o)
		if call == nil || len(call.Call.Args) != 1 || !fr.is("ref", call.Call.Args[0], call) {
			return false
		}
		switch calleeName(call) {
		case "digest.Parse", "(digest.Digest).Validate":
			return !equal // the error is not nil
		}
		return false
	}}
}

// frame: the frame of the function that resolves. "ref" is argument 1 of Resolve (through the value-preserving
// string/Digest conversions), "res" what c11Res.is accepts, "dig" the Digest field of a "res" value, as a Digest or as
// its String() (go-digest: `func (d Digest) String() string { return string(d) }`).
func (r *c11Res) frame() *c11Frame {
	fr := c11NewFrame(r.w, r.resolve.Parent())
	refV := r.resolve.Call.Args[1]
	fr.base["ref"] = func(v ssa.Value, _ ssa.Instruction) bool { return v == refV }
	fr.base["res"] = func(v ssa.Value, _ ssa.Instruction) bool { return r.is(v) }
	fr.cells["res"] = r.cell
	fr.deriv["ref"] = func(fr *c11Frame, v ssa.Value, at ssa.Instruction) bool {
		if s := c11StripConv(v); s != v {
			return fr.is("ref", s, at)
		}
		// go-digest: Parse(s) returns Digest(s) — the same text — next to the verdict of Validate
		if ex, ok := v.(*ssa.Extract); ok && ex.Index == 0 {
			if call, ok := ex.Tuple.(*ssa.Call); ok && calleeName(call) == "digest.Parse" && len(call.Call.Args) == 1 {
				return fr.is("ref", call.Call.Args[0], call)
			}
		}
		return false
	}
	fr.deriv["dig"] = func(fr *c11Frame, v ssa.Value, at ssa.Instruction) bool {
		s := c11StripConv(v)
		if call, ok := s.(*ssa.Call); ok && calleeName(call) == "(digest.Digest).String" && len(call.Call.Args) == 1 {
			s = c11StripConv(call.Call.Args[0])
		}
		if s != v {
			return fr.is("dig", s, at)
		}
		switch x := v.(type) {
		case *ssa.Field:
			return fieldName(x.X.Type(), x.Field) == "Digest" && fr.is("res", x.X, x)
		case *ssa.UnOp:
			if x.Op != token.MUL {
				return false
			}
			fa, ok := x.X.(*ssa.FieldAddr)
			if !ok || fieldName(fa.X.Type(), fa.Field) != "Digest" {
				return false
			}
			if al, ok := fa.X.(*ssa.Alloc); ok {
				return fr.cell("res", al, x)
			}
		}
		return false
	}
	return fr
}

// ---- the metadata merge ------------------------------------------------------------------------

// c11M is the role assignment inside the merge function.
type c11M struct {
	w    *World
	M    *ssa.Function
	fi   *FnInfo
	dPar *ssa.Parameter // the descriptor parameter (by value, or a pointer to a descriptor the caller owns)
	D    ssa.Value      // the descriptor object: the spill of the by-value parameter, or the pointer parameter
	ptr  bool
	mPar *ssa.Parameter // the metadata map
	loop *rangeLoop     // the loop over the metadata (the one that examines the pairs)
	add  *rangeLoop     // a second loop over the metadata that does nothing but copy the pairs into a map, if any
	// the examination of the pairs extracted into a helper: the call that hands the metadata map to it, and the roles
	// inside it (its metadata parameter, its loop over that parameter)
	xcall *ssa.Call
	xm    *c11M
	annS  []*ssa.Store // stores into the Annotations of D or of a further local copy of it
	// by-value form: the descriptor may be copied on into further local variables (`out := desc; out.Annotations = …;
	// return out`). Each of them is an object of the same kind as D: given the descriptor by one whole-value store, no
	// field but Annotations written, address kept local (c11M.scanObject).
	dInit *ssa.Store                 // the store that gives D the parameter's value, when D is a local variable
	cells map[ssa.Value]*c11Cell     // the further copies, by their Alloc
	annOf map[ssa.Value][]*ssa.Store // stores into the Annotations field, per object
}

// c11Cell: a local variable that is given the descriptor handed in by one whole-value store: of the parameter itself
// (parent nil) or of a load of D / of another such variable (parent).
type c11Cell struct {
	al     *ssa.Alloc
	copy   *ssa.Store
	parent ssa.Value
}

// c11PureCopyLoop: the loop's body is one block that stores this iteration's key and value into a map and goes back
// to the header (`for k, v := range src { dst[k] = v }`): it cannot be left early and does nothing else.
func c11PureCopyLoop(rl *rangeLoop) *ssa.MapUpdate {
	if len(rl.Body.Succs) != 1 || rl.Body.Succs[0] != rl.Header || len(loopBlocks(rl.Header)) != 2 {
		return nil
	}
	var mu *ssa.MapUpdate
	for _, in := range rl.Body.Instrs {
		switch x := in.(type) {
		case *ssa.Extract, *ssa.DebugRef, *ssa.Jump:
		case *ssa.MapUpdate:
			kx, _ := x.Key.(*ssa.Extract)
			vx, _ := x.Value.(*ssa.Extract)
			if mu != nil || kx == nil || vx == nil || kx.Tuple != ssa.Value(rl.Next) || vx.Tuple != ssa.Value(rl.Next) || kx.Index != 1 || vx.Index != 2 {
				return nil
			}
			mu = x
		default:
			return nil
		}
	}
	return mu
}

func c11MergeRoles(w *World, M *ssa.Function) (*c11M, string) {
	m := &c11M{w: w, M: M, fi: w.Info(M)}
	for _, p := range M.Params {
		switch {
		case namedOf(p.Type()) == "ocispec.Descriptor":
			if m.dPar != nil {
				return nil, "two descriptor parameters"
			}
			m.dPar = p
			_, m.ptr = p.Type().Underlying().(*types.Pointer)
		case p.Type().String() == "map[string]string":
			if m.mPar != nil {
				return nil, "two map parameters"
			}
			m.mPar = p
		}
	}
	if m.dPar == nil || m.mPar == nil {
		return nil, "parameters not recognised"
	}
	m.D = m.dPar
	m.cells, m.annOf = map[ssa.Value]*c11Cell{}, map[ssa.Value][]*ssa.Store{}
	var work []ssa.Value
	if !m.ptr {
		for _, r := range *m.dPar.Referrers() {
			if st, ok := r.(*ssa.Store); ok && st.Val == ssa.Value(m.dPar) {
				if al, ok := st.Addr.(*ssa.Alloc); ok {
					if m.dInit == nil {
						m.D, m.dInit = al, st
					} else if m.cells[al] == nil && ssa.Value(al) != m.D {
						m.cells[al] = &c11Cell{al: al, copy: st}
						work = append(work, al)
					}
				}
			}
		}
	}
	// the loops over the metadata: one examines the pairs; a second one is accepted if it only copies them (the
	// "validate everything, then build" split — c11Union decides whether that copy runs after a complete examination)
	for _, rl := range rangeLoops(M) {
		if rl.X != ssa.Value(m.mPar) {
			continue
		}
		rl := rl
		switch {
		case m.loop == nil:
			m.loop = &rl
		case m.add == nil && c11PureCopyLoop(&rl) != nil:
			m.add = &rl
		case m.add == nil && c11PureCopyLoop(m.loop) != nil:
			m.add, m.loop = m.loop, &rl
		default:
			return nil, "several loops over the metadata"
		}
	}
	// no examining loop here (none at all, or only the pure copy of the pairs): it may live in a helper that is handed
	// the metadata map (c11M.examiner)
	if m.loop == nil || (m.add == nil && c11PureCopyLoop(m.loop) != nil) {
		if call, xm := c11Examiner(w, m); xm != nil {
			m.xcall, m.xm = call, xm
			m.add, m.loop = m.loop, nil
		}
	}
	// what happens to the descriptor object and to the local copies made of it
	work = append([]ssa.Value{m.D}, work...)
	for len(work) > 0 {
		O := work[0]
		work = work[1:]
		more, why := m.scanObject(O)
		if why != "" {
			return nil, why
		}
		work = append(work, more...)
	}
	return m, ""
}

// scanObject: what the merge does with one descriptor object O (D, or a local copy of it): reads, stores into its
// Annotations field (recorded), the store that initialises it; in the by-value form a load of it may be stored whole
// into another local variable of the same type, which becomes an object too (returned for scanning). Anything else —
// another field written, a second whole-value store, the address leaving the function — is refused.
func (m *c11M) scanObject(O ssa.Value) ([]ssa.Value, string) {
	refs := O.Referrers()
	if refs == nil {
		return nil, ""
	}
	cell := m.cells[O]
	var more []ssa.Value
	for _, r := range *refs {
		switch x := r.(type) {
		case *ssa.FieldAddr:
			if x.X != O {
				continue
			}
			isAnn := fieldName(x.X.Type(), x.Field) == "Annotations"
			for _, rr := range *x.Referrers() {
				switch y := rr.(type) {
				case *ssa.Store:
					if y.Addr != ssa.Value(x) || !isAnn {
						return nil, "the merge writes the " + fieldName(x.X.Type(), x.Field) + " field of the descriptor"
					}
					m.annS = append(m.annS, y)
					m.annOf[O] = append(m.annOf[O], y)
				case *ssa.UnOp, *ssa.DebugRef:
				default:
					return nil, "a field address of the descriptor escapes"
				}
			}
		case *ssa.Store:
			if x.Addr == O {
				if cell != nil && x != cell.copy {
					return nil, "a copy of the descriptor is overwritten as a whole"
				}
				if cell == nil && x.Val != ssa.Value(m.dPar) {
					return nil, "the descriptor is overwritten as a whole"
				}
			}
			if x.Val == O && (m.ptr || cell != nil) {
				return nil, "the descriptor pointer is stored"
			}
		case *ssa.UnOp:
			if m.ptr || x.Op != token.MUL || x.Referrers() == nil {
				continue
			}
			for _, rr := range *x.Referrers() {
				st, ok := rr.(*ssa.Store)
				if !ok || st.Val != ssa.Value(x) {
					continue
				}
				al, ok := st.Addr.(*ssa.Alloc)
				if !ok || ssa.Value(al) == O || ssa.Value(al) == m.D || namedOf(al.Type()) != "ocispec.Descriptor" {
					continue
				}
				if c := m.cells[al]; c != nil {
					if c.copy != st {
						return nil, "a copy of the descriptor is overwritten as a whole"
					}
					continue
				}
				m.cells[al] = &c11Cell{al: al, copy: st, parent: O}
				more = append(more, al)
			}
		case *ssa.DebugRef, *ssa.Field:
		case *ssa.MakeInterface:
			for _, rr := range *x.Referrers() {
				if !onlyFormatted(rr, 0) {
					return nil, "the descriptor escapes"
				}
			}
		default:
			return nil, "the descriptor escapes"
		}
	}
	return more, ""
}

// isObject: O is D or one of the local copies of it.
func (m *c11M) isObject(O ssa.Value) bool { return O == m.D || m.cells[O] != nil }

// holdsDescriptor: when `at` reads the object O it holds the descriptor handed in, but for its Annotations: the store
// that initialises it precedes `at` on every path (before it, a local variable is the zero descriptor), and the same
// holds for the object it was copied from at the time of the copy. No other field is ever written (scanObject).
func (m *c11M) holdsDescriptor(O ssa.Value, at ssa.Instruction) bool {
	for i := 0; i < 8; i++ {
		c := m.cells[O]
		if c == nil {
			return O == m.D && (m.dInit == nil || c11Before(m.dInit, at))
		}
		if !c11Before(c.copy, at) {
			return false
		}
		if c.parent == nil {
			return true
		}
		O, at = c.parent, c.copy
	}
	return false
}

// pristine: when `at` reads the object O, its Annotations are still the map handed in: O holds the descriptor
// (holdsDescriptor) and no store into the Annotations of O can precede `at` — nor, for a copy, could one into the
// Annotations of the object it was copied from precede the copy.
func (m *c11M) pristine(O ssa.Value, at ssa.Instruction) bool {
	if !m.holdsDescriptor(O, at) {
		return false
	}
	for i := 0; i < 8; i++ {
		for _, s := range m.annOf[O] {
			if c11MayPrecede(m.fi, s, at) {
				return false
			}
		}
		c := m.cells[O]
		if c == nil || c.parent == nil {
			return true
		}
		O, at = c.parent, c.copy
	}
	return false
}

// replacements: the stores into an Annotations field whose effect the object O carries whenever a later read of O is
// dominated by O's initialising store: those into O itself that the initialising copy cannot follow (it would
// overwrite them), and those into the object O was copied from that the copy cannot precede (whenever both run, the
// store runs first and the copy takes its effect along).
func (m *c11M) replacements(O ssa.Value) []*ssa.Store {
	var out []*ssa.Store
	c := m.cells[O]
	for _, s := range m.annOf[O] {
		if c == nil || !c11MayPrecede(m.fi, s, c.copy) {
			out = append(out, s)
		}
	}
	if c != nil && c.parent != nil {
		for _, s := range m.replacements(c.parent) {
			if !c11MayPrecede(m.fi, c.copy, s) {
				out = append(out, s)
			}
		}
	}
	return out
}

// origAnn: v is the annotation map of the descriptor as handed in: a read of the Annotations of D — or of a local copy
// of it — that no store into that field can precede (c11M.pristine).
func (m *c11M) origAnn(v ssa.Value) bool {
	switch x := v.(type) {
	case *ssa.Field:
		return x.X == ssa.Value(m.dPar) && !m.ptr && fieldName(x.X.Type(), x.Field) == "Annotations"
	case *ssa.UnOp:
		if x.Op != token.MUL {
			return false
		}
		fa, ok := x.X.(*ssa.FieldAddr)
		if !ok || !m.isObject(fa.X) || fieldName(fa.X.Type(), fa.Field) != "Annotations" {
			return false
		}
		return m.pristine(fa.X, x)
	default:
		return false
	}
}

// iterPart: v is the key (idx 1) or the value (idx 2) of the current pair of the metadata loop: the Next's component,
// or a load of a variable that is given exactly that component once, before the load, and is only read afterwards
// (a per-iteration variable captured by a closure is such a variable).
func (m *c11M) iterPart(v ssa.Value, idx int) bool {
	if m.loop == nil {
		return false
	}
	if ex, ok := v.(*ssa.Extract); ok {
		return ex.Tuple == ssa.Value(m.loop.Next) && ex.Index == idx
	}
	u, ok := v.(*ssa.UnOp)
	if !ok || u.Op != token.MUL {
		return false
	}
	al, ok := u.X.(*ssa.Alloc)
	if !ok || !m.iterCell(al, idx) {
		return false
	}
	for _, r := range *al.Referrers() {
		if st, ok := r.(*ssa.Store); ok {
			return c11Before(st, u)
		}
	}
	return false
}

func (m *c11M) iterCell(al *ssa.Alloc, idx int) bool {
	n := 0
	for _, r := range *al.Referrers() {
		switch x := r.(type) {
		case *ssa.Store:
			ex, ok := x.Val.(*ssa.Extract)
			if x.Addr != ssa.Value(al) || !ok || ex.Tuple != ssa.Value(m.loop.Next) || ex.Index != idx {
				return false
			}
			n++
		case *ssa.UnOp, *ssa.DebugRef:
		case *ssa.MakeClosure:
			g, ok := x.Fn.(*ssa.Function)
			if !ok {
				return false
			}
			for i, b := range x.Bindings {
				if b != ssa.Value(al) || i >= len(g.FreeVars) {
					continue
				}
				for _, fr := range *g.FreeVars[i].Referrers() {
					switch fr.(type) {
					case *ssa.UnOp, *ssa.DebugRef:
					default:
						return false
					}
				}
			}
		default:
			return false
		}
	}
	return n == 1
}

// iterGate: with the edges of cut removed, an iteration that starts at the loop body can neither complete (get back
// to the loop header) nor leave the function through a success-capable exit.
func c11IterGate(fi *FnInfo, l *rangeLoop, cut map[edgeKey]bool) bool {
	if len(cut) == 0 {
		return false
	}
	start := []state{{l.Body.Index, 0, -1}}
	if fi.reachHit(start, cut, map[int]bool{l.Header.Index: true}) {
		return false
	}
	all := map[edgeKey]bool{}
	for e := range cut {
		all[e] = true
	}
	for e := range backEdges(l.Header) {
		all[e] = true
	}
	return fi.successWitness(Mode{Kind: mErr}, start, all) == nil
}

// ---- the reserved prefix list ------------------------------------------------------------------

// c11ReservedList: the package-level list of strings of the root package whose initialiser holds the notary prefix.
func c11ReservedList(w *World) *ssa.Global {
	p := w.Pkg("")
	if p == nil {
		return nil
	}
	for _, n := range p.Pkg.Scope().Names() {
		v, ok := p.Pkg.Scope().Lookup(n).(*types.Var)
		if !ok {
			continue
		}
		var el types.Type
		switch t := v.Type().Underlying().(type) {
		case *types.Array:
			el = t.Elem()
		case *types.Slice:
			el = t.Elem()
		default:
			continue
		}
		if !c11Stringish(el) {
			continue
		}
		init, pp := w.pkgVarInit("", n)
		cl, ok := init.(*ast.CompositeLit)
		if !ok {
			continue
		}
		for _, e := range cl.Elts {
			if kv, ok := e.(*ast.KeyValueExpr); ok {
				e = kv.Value
			}
			if s, ok := constOfExpr(pp, e); ok && strings.HasPrefix(s, "io.cncf.notary") {
				if g, ok := p.Members[n].(*ssa.Global); ok {
					return g
				}
			}
		}
	}
	return nil
}

// c11ListBase: x is the list g itself: the global (pointer to the array), a load of it, or the full slice of it.
func c11ListBase(x ssa.Value, g *ssa.Global) bool {
	switch y := x.(type) {
	case *ssa.Global:
		return y == g
	case *ssa.UnOp:
		return y.Op == token.MUL && y.X == ssa.Value(g)
	case *ssa.Slice:
		return y.Low == nil && y.High == nil && y.Max == nil && c11ListBase(y.X, g)
	}
	return false
}

// c11ListElem: v is element idx of the list g.
func c11ListElem(v ssa.Value, g *ssa.Global, idx ssa.Value) bool {
	switch x := v.(type) {
	case *ssa.Index:
		return x.Index == idx && c11ListBase(x.X, g)
	case *ssa.UnOp:
		if ia, ok := x.X.(*ssa.IndexAddr); ok && x.Op == token.MUL {
			return ia.Index == idx && c11ListBase(ia.X, g)
		}
	}
	return false
}

// c11CountLoop is a loop whose index runs over 0, 1, …, len(g)-1 in steps of one and that is left through its header
// only when the index has reached len(g).
type c11CountLoop struct {
	Header, Body, Exit *ssa.BasicBlock
	Idx                ssa.Value
}

func c11IntConst(v ssa.Value) (int64, bool) {
	k, ok := v.(*ssa.Const)
	if !ok || k.Value == nil || k.Value.Kind() != constant.Int {
		return 0, false
	}
	return constant.Int64Val(k.Value)
}

// c11CountLoops recognises both spellings go/ssa produces: `i = phi(0, i+1); i < n` (a for statement) and
// `p = phi(-1, i); i = p+1; i < n` (range over an array or slice). n is the length of g: the constant array length, or
// len() of the list.
func c11CountLoops(fn *ssa.Function, g *ssa.Global) []c11CountLoop {
	return c11CountLoopsTo(fn, func(bound ssa.Value) bool {
		if n, isK := c11IntConst(bound); isK {
			t := g.Type().Underlying().(*types.Pointer).Elem().Underlying()
			arr, ok := t.(*types.Array)
			return ok && arr.Len() == n
		}
		if call, ok := bound.(*ssa.Call); ok {
			if bi, ok := call.Call.Value.(*ssa.Builtin); ok && bi.Name() == "len" && c11ListBase(call.Call.Args[0], g) {
				return true
			}
		}
		return false
	})
}

// c11CountLoopsTo: the counting loops of fn whose bound satisfies isLen (the length of the list walked).
func c11CountLoopsTo(fn *ssa.Function, isLen func(bound ssa.Value) bool) []c11CountLoop {
	var out []c11CountLoop
	for _, h := range fn.Blocks {
		iff, ok := blockTerm(h).(*ssa.If)
		if !ok || len(h.Succs) != 2 {
			continue
		}
		bo, ok := iff.Cond.(*ssa.BinOp)
		if !ok || bo.Op != token.LSS {
			continue
		}
		// the bound
		if !isLen(bo.Y) {
			continue
		}
		// the index
		idx := bo.X
		plusOne := func(v ssa.Value) ssa.Value {
			if a, ok := v.(*ssa.BinOp); ok && a.Op == token.ADD {
				if n, isK := c11IntConst(a.Y); isK && n == 1 {
					return a.X
				}
			}
			return nil
		}
		startsAt := func(phi *ssa.Phi, first int64, next ssa.Value) bool {
			if phi.Block() != h || len(phi.Edges) != 2 {
				return false
			}
			seenFirst, seenNext := false, false
			for i, e := range phi.Edges {
				if n, isK := c11IntConst(e); isK && n == first && !h.Dominates(h.Preds[i]) {
					seenFirst = true
				} else if e == next && h.Dominates(h.Preds[i]) {
					seenNext = true
				}
			}
			return seenFirst && seenNext
		}
		okIdx := false
		if phi, ok := idx.(*ssa.Phi); ok {
			for _, e := range phi.Edges {
				if plusOne(e) == ssa.Value(phi) && startsAt(phi, 0, e) {
					okIdx = true
				}
			}
		} else if p := plusOne(idx); p != nil {
			if phi, ok := p.(*ssa.Phi); ok && startsAt(phi, -1, idx) {
				okIdx = true
			}
		}
		if okIdx {
			out = append(out, c11CountLoop{Header: h, Body: h.Succs[0], Exit: h.Succs[1], Idx: idx})
		}
	}
	return out
}

// ---- the merged map ----------------------------------------------------------------------------

// c11Union: what the merge function does with maps. One fresh map U becomes the Annotations of the descriptor; it
// receives the annotations handed in (copy loop or maps.Copy — `for k, v := range src { dst[k] = v }` by definition)
// and the metadata pairs; nothing else is written into a map here.
//
// The pairs arrive either one by one, inside the loop that examines them (U[key] = value of the same iteration), or in
// bulk after that loop (maps.Copy(U, metadata) or a pure copy loop over the metadata). The bulk form takes over every
// pair, so it is accepted only where control can arrive solely over the exhaustion edge of the examining loop's header
// (afterExhaustion): a `range` loop takes that edge when every pair has been visited, every visit that returned to the
// header passed the per-pair gates (merge/existing-key, merge/reserved-prefix), and the metadata map is not written
// in between (any map write that is not into U is refused here; the ownership rule covers callees).
type c11Union struct {
	U             ssa.Value
	fresh         bool
	copies, adds  int
	noDelete      bool
	copyCall      *ssa.Call  // maps.Copy(U, annotations handed in)
	copyLoop      *rangeLoop // for k, v := range annotations handed in { U[k] = v }
	bulk, perPair bool
	cloned        bool // U is a fresh copy of the annotations handed in from its very definition (c11Copy)
}

func (m *c11M) afterExhaustion(in ssa.Instruction) bool {
	if in.Block().Index == 0 {
		return false
	}
	if m.xm != nil {
		// the examining loop lives in a helper: `in` runs only after that helper returned a nil error, and the helper can
		// return a nil error only over the exhaustion edge of its loop — or with no metadata at all
		if _, ok := hasLabel(m.fi.GuardsOf(in), c11ErrLabel(m.xcall)); !ok {
			return false
		}
		x := m.xm
		empty := "EQ(len(" + desc(x.mPar) + "),const:0)"
		cut := x.fi.edgesMatching(func(l string, _ *ssa.If, _ bool) bool { return l == empty })
		cut[edgeKey{x.loop.Header.Index, 1}] = true
		return x.fi.successWitness(Mode{Kind: mErr}, entryState(), cut) == nil
	}
	if m.loop == nil {
		return false
	}
	return !m.fi.reachHit(entryState(), map[edgeKey]bool{{m.loop.Header.Index, 1}: true}, blocksOf(in))
}

// c11Examiner: the module function the merge hands its metadata map to and that loops over it (exactly one such call,
// exactly one such loop): the "validate everything" phase cut out into a helper. Its last result is an error.
func c11Examiner(w *World, m *c11M) (*ssa.Call, *c11M) {
	var call *ssa.Call
	var xm *c11M
	for _, ci := range allCalls(m.M) {
		c, ok := ci.(*ssa.Call)
		if !ok {
			continue
		}
		h := staticCallee(c)
		if h == nil || h.Blocks == nil || !w.IsProductFn(h) || h == m.M {
			continue
		}
		for i, a := range c.Call.Args {
			if a != ssa.Value(m.mPar) || i >= len(h.Params) {
				continue
			}
			for _, rl := range rangeLoops(h) {
				if rl.X != ssa.Value(h.Params[i]) {
					continue
				}
				if xm != nil {
					return nil, nil
				}
				rl := rl
				call, xm = c, &c11M{w: w, M: h, fi: w.Info(h), mPar: h.Params[i], loop: &rl}
			}
		}
	}
	if xm == nil {
		return nil, nil
	}
	res := xm.M.Signature.Results()
	if res.Len() == 0 || !isErrorType(res.At(res.Len()-1).Type()) {
		return nil, nil
	}
	return call, xm
}

// examination: where the pairs are examined — the merge function's own frame and loop, or the helper's, entered with
// the roles of the arguments ("ann", "sup", "dsc" travel with them) and "key" being the key of its loop's current pair.
func (m *c11M) examination(fr *c11Frame) (*c11M, *c11Frame) {
	if m.xm == nil {
		return m, fr
	}
	sub := fr.enter(m.xcall)
	if sub == nil {
		return m.xm, nil
	}
	x := m.xm
	sub.base["key"] = func(v ssa.Value, _ ssa.Instruction) bool { return x.iterPart(v, 1) }
	return x, sub
}

func (m *c11M) union() *c11Union {
	u := &c11Union{fresh: len(m.annS) > 0, noDelete: true}
	for _, s := range m.annS {
		if u.U != nil && s.Val != u.U {
			u.fresh = false
		}
		u.U = s.Val
	}
	if _, isMake := u.U.(*ssa.MakeMap); !isMake {
		// not made here and filled afterwards, but born as a copy: maps.Clone of the annotations handed in with the nil
		// case replaced by a fresh empty map, inline or in a helper (c11Copy). That is the one copy of the annotations.
		cc := &c11Copy{w: m.w, fn: m.M, fi: m.fi, isSrc: m.origAnn}
		if u.U != nil && cc.kind(u.U) == c11CopyFull {
			u.copies++
			u.cloned = true
		} else {
			u.fresh = false
		}
	}
	U, M := u.U, m.M
	dominates := func(in ssa.Instruction) bool {
		for _, s := range m.annS {
			if !c11Before(in, s) {
				return false
			}
		}
		return true
	}
	loopOf := func(n *ssa.Next) *rangeLoop {
		for _, rl := range rangeLoops(M) {
			if rl.Next == n {
				rl := rl
				return &rl
			}
		}
		return nil
	}
	for _, f := range append([]*ssa.Function{M}, closuresOf(M)...) {
		for _, b := range f.Blocks {
			for _, in := range b.Instrs {
				switch x := in.(type) {
				case *ssa.MapUpdate:
					kx, _ := x.Key.(*ssa.Extract)
					vx, _ := x.Value.(*ssa.Extract)
					switch {
					case x.Map != U || f != M:
						u.fresh = false
					case m.iterPart(x.Key, 1) && m.iterPart(x.Value, 2):
						u.adds++
						u.perPair = true
					case kx != nil && vx != nil && kx.Tuple == vx.Tuple && kx.Index == 1 && vx.Index == 2:
						n, isNext := kx.Tuple.(*ssa.Next)
						switch {
						case isNext && m.origAnn(rangeOperand(n)) && dominates(blockTerm(n.Block())):
							u.copies++
							u.copyLoop = loopOf(n)
						case isNext && m.add != nil && n == m.add.Next && c11PureCopyLoop(m.add) == x && m.afterExhaustion(blockTerm(n.Block())) && dominates(blockTerm(n.Block())):
							u.adds++
							u.bulk = true
						default:
							u.fresh = false
						}
					default:
						u.fresh = false
					}
				case *ssa.Call:
					if bi, isB := x.Call.Value.(*ssa.Builtin); isB {
						if bi.Name() == "delete" || bi.Name() == "clear" {
							u.fresh, u.noDelete = false, false
						}
						continue
					}
					uses := false
					for _, a := range x.Call.Args {
						if a == U && U != nil {
							uses = true
						}
					}
					if !uses {
						continue
					}
					switch {
					case calleeName(x) == "maps.Copy" && x.Call.Args[0] == U && m.origAnn(x.Call.Args[1]) && dominates(x) && f == M:
						u.copies++
						u.copyCall = x
					case calleeName(x) == "maps.Copy" && x.Call.Args[0] == U && x.Call.Args[1] == ssa.Value(m.mPar) && dominates(x) && f == M && m.afterExhaustion(x):
						u.adds++
						u.bulk = true
					default:
						u.fresh = false
					}
				}
			}
		}
	}
	if m.add != nil && !u.bulk {
		u.fresh = false // a second loop over the metadata that is not the accepted bulk copy
	}
	return u
}

// ---- a map born as a copy ------------------------------------------------------------------------
//
// c11Copy decides, in the frame of one function, whether a map value is a fresh, non-nil map that holds every pair of
// the source map (role isSrc: the annotations handed in) from its definition on — the standard-library spelling of
// `m := make(…); for k, v := range src { m[k] = v }`. Three kinds of value:
//
//	empty  a map made here (make / composite literal): fresh, non-nil, holds nothing;
//	clone  maps.Clone(src): fresh, holds exactly the pairs of src — and is nil iff src is nil (package maps: "Clone
//	       returns a copy of m … if m is nil, Clone returns nil");
//	full   fresh, non-nil, holds at least the pairs of src.
//
// A clone is full where it is known not to be nil, an empty map is full where the source is known to have no pairs
// (nothing is missing from it). "Known" is a path fact: the value arrives — over one edge of a phi, or at a return —
// only over branch edges on which an emptiness test of the source or of a clone of it (`x == nil`, `len(x) == 0` and
// their negations; a clone is nil / empty exactly when the source is) came out the right way. So
// `c := maps.Clone(src); if c == nil { c = make(…) }`, `if src == nil { c = make(…) } else { c = maps.Clone(src) }`,
// `if len(c) == 0 { c = map[string]string{} }` are full; a bare maps.Clone (nil for an artifact without annotations:
// the first pair taken over panics) and a make on a path where the source may hold pairs (they would be dropped) are not.
// A module helper handed the source is full when each of its returns is, in its own frame, the parameter playing the source.
type c11Copy struct {
	w     *World
	fn    *ssa.Function
	fi    *FnInfo
	isSrc func(v ssa.Value) bool
	depth int
	busy  map[ssa.Value]bool
}

const (
	c11CopyNone = iota
	c11CopyEmpty
	c11CopyClone
	c11CopyFull
)

// cloneOfSrc: v is maps.Clone(source).
func (cc *c11Copy) cloneOfSrc(v ssa.Value) bool {
	call, ok := v.(*ssa.Call)
	return ok && calleeName(call) == "maps.Clone" && len(call.Call.Args) == 1 && cc.isSrc(call.Call.Args[0])
}

// emptiness: the branch edges on which the source is known to be empty (want) resp. to be non-nil (!want).
func (cc *c11Copy) emptiness(want bool) map[edgeKey]bool {
	tested := func(v ssa.Value) bool { return cc.isSrc(v) || cc.cloneOfSrc(v) }
	return cc.fi.edgesMatching(func(_ string, iff *ssa.If, truth bool) bool {
		bo, ok := stripNot(iff.Cond, &truth).(*ssa.BinOp)
		if !ok {
			return false
		}
		x, y, op := bo.X, bo.Y, bo.Op
		if _, isK := x.(*ssa.Const); isK { // constant on the left: mirror
			x, y = y, x
			switch op {
			case token.LSS:
				op = token.GTR
			case token.GTR:
				op = token.LSS
			case token.LEQ:
				op = token.GEQ
			case token.GEQ:
				op = token.LEQ
			}
		}
		if !truth {
			op = negOp(op)
		}
		// x == nil / x != nil
		if isNilConst(y) && tested(x) {
			return (op == token.EQL && want) || (op == token.NEQ && !want)
		}
		// len(x) == 0, len(x) <= 0, len(x) < 1 / len(x) != 0, len(x) > 0, len(x) >= 1
		call, ok := x.(*ssa.Call)
		if !ok || len(call.Call.Args) != 1 || !tested(call.Call.Args[0]) {
			return false
		}
		if bi, ok := call.Call.Value.(*ssa.Builtin); !ok || bi.Name() != "len" {
			return false
		}
		n, isK := c11IntConst(y)
		if !isK {
			return false
		}
		empty := (op == token.EQL && n == 0) || (op == token.LEQ && n == 0) || (op == token.LSS && n == 1)
		some := (op == token.NEQ && n == 0) || (op == token.GTR && n == 0) || (op == token.GEQ && n == 1)
		return (want && empty) || (!want && some)
	})
}

// arrives: block b can be reached from the entry without passing an edge of cut.
func (cc *c11Copy) arrives(b *ssa.BasicBlock, cut map[edgeKey]bool) bool {
	return b.Index == 0 || cc.fi.reachHit(entryState(), cut, map[int]bool{b.Index: true})
}

// fullWhere: v is full wherever it arrives; reach(cut) says whether it can arrive without passing an edge of cut.
func (cc *c11Copy) fullWhere(v ssa.Value, reach func(cut map[edgeKey]bool) bool) bool {
	switch cc.kind(v) {
	case c11CopyFull:
		return true
	case c11CopyClone:
		cut := cc.emptiness(false)
		return len(cut) > 0 && !reach(cut)
	case c11CopyEmpty:
		cut := cc.emptiness(true)
		return len(cut) > 0 && !reach(cut)
	}
	return false
}

func (cc *c11Copy) kind(v ssa.Value) int {
	if v == nil || cc.busy[v] {
		return c11CopyNone
	}
	if cc.busy == nil {
		cc.busy = map[ssa.Value]bool{}
	}
	cc.busy[v] = true
	defer delete(cc.busy, v)
	switch x := v.(type) {
	case *ssa.MakeMap:
		return cc.made(x)
	case *ssa.Phi:
		b := x.Block()
		for i, e := range x.Edges {
			p := b.Preds[i]
			over := func(cut map[edgeKey]bool) bool {
				if !cc.arrives(p, cut) {
					return false
				}
				for j, s := range p.Succs {
					if s == b && !cut[edgeKey{p.Index, j}] {
						return true
					}
				}
				return false
			}
			if !cc.fullWhere(e, over) {
				return c11CopyNone
			}
		}
		if len(x.Edges) > 0 {
			return c11CopyFull
		}
	case *ssa.Call:
		if cc.cloneOfSrc(x) {
			return c11CopyClone
		}
		return cc.helper(x, 0)
	case *ssa.Extract:
		if call, ok := x.Tuple.(*ssa.Call); ok {
			return cc.helper(call, x.Index)
		}
	}
	return c11CopyNone
}

// made: a map made here. Handed on untouched (only phis and returns see it) it is empty. It is full when the one thing
// done to it is a pure copy loop over the source (`for k, v := range src { m[k] = v }`, c11PureCopyLoop: one block, cannot
// be left early) and it is only returned, at places the loop's exhaustion block dominates — the hand-written maps.Clone
// of a helper. Any other use (another store, a call receiving it) is not followed.
func (cc *c11Copy) made(mk *ssa.MakeMap) int {
	refs := mk.Referrers()
	if refs == nil {
		return c11CopyNone
	}
	var loop *rangeLoop
	var rets []*ssa.Return
	phis := 0
	for _, r := range *refs {
		switch y := r.(type) {
		case *ssa.DebugRef:
		case *ssa.Phi:
			phis++
		case *ssa.Return:
			rets = append(rets, y)
		case *ssa.MapUpdate:
			if y.Map != ssa.Value(mk) || loop != nil {
				return c11CopyNone
			}
			for _, rl := range rangeLoops(cc.fn) {
				rl := rl
				if cc.isSrc(rl.X) && c11PureCopyLoop(&rl) == y {
					loop = &rl
				}
			}
			if loop == nil {
				return c11CopyNone
			}
		default:
			return c11CopyNone
		}
	}
	if loop == nil {
		return c11CopyEmpty
	}
	if phis > 0 || len(rets) == 0 {
		return c11CopyNone
	}
	for _, r := range rets {
		if loop.Exit != r.Block() && !loop.Exit.Dominates(r.Block()) {
			return c11CopyNone
		}
	}
	return c11CopyFull
}

// helper: result k of a module function that was handed the source: full when every return delivers, as result k, a
// value that is full where that return is reached, in the callee's frame (the parameter plays the source; the
// ownership rule sees to it that nobody on the call tree writes into it).
func (cc *c11Copy) helper(call *ssa.Call, k int) int {
	g := staticCallee(call)
	if g == nil || g.Blocks == nil || !cc.w.IsProductFn(g) || cc.depth >= 3 || g == cc.fn {
		return c11CopyNone
	}
	src := map[ssa.Value]bool{}
	for i, a := range call.Call.Args {
		if i < len(g.Params) && cc.isSrc(a) {
			src[g.Params[i]] = true
		}
	}
	if len(src) == 0 {
		return c11CopyNone
	}
	sub := &c11Copy{w: cc.w, fn: g, fi: cc.w.Info(g), isSrc: func(v ssa.Value) bool { return src[v] }, depth: cc.depth + 1}
	n := 0
	for _, b := range g.Blocks {
		r, ok := blockTerm(b).(*ssa.Return)
		if !ok {
			continue
		}
		b := b
		if k >= len(r.Results) || !sub.fullWhere(r.Results[k], func(cut map[edgeKey]bool) bool { return sub.arrives(b, cut) }) {
			return c11CopyNone
		}
		n++
	}
	if n == 0 {
		return c11CopyNone
	}
	return c11CopyFull
}

// holdsAnnotations: when `at` runs, U holds at least every annotation handed in: the copy of them into U is complete
// (the maps.Copy call precedes `at`; the pure copy loop's exhaustion block dominates it) and nothing is ever removed
// from a map in this function.
func (u *c11Union) holdsAnnotations(v ssa.Value, at ssa.Instruction) bool {
	if u.U == nil || v != u.U || !u.noDelete || at == nil {
		return false
	}
	if u.cloned {
		return true // U holds them from its definition on, which precedes every use of the value
	}
	if u.copyCall != nil && at.Parent() == u.copyCall.Parent() && c11Before(u.copyCall, at) {
		return true
	}
	if l := u.copyLoop; l != nil && c11PureCopyLoop(l) != nil && at.Parent() == l.Header.Parent() {
		return l.Exit == at.Block() || l.Exit.Dominates(at.Block())
	}
	return false
}

// frame: the merge function's frame. "key": the key of the current pair of the examining loop; "ann": the annotation
// map of the descriptor as handed in; "sup": a map that holds at least those annotations (the union map once they have
// been copied into it).
func (m *c11M) frame(u *c11Union) *c11Frame {
	fr := c11NewFrame(m.w, m.M)
	fr.base["key"] = func(v ssa.Value, _ ssa.Instruction) bool { return m.iterPart(v, 1) }
	fr.base["ann"] = func(v ssa.Value, _ ssa.Instruction) bool { return m.origAnn(v) }
	fr.base["sup"] = u.holdsAnnotations
	// "dsc": the descriptor handed in, by value, read where no store into its Annotations can have run (a helper that is
	// handed the whole descriptor reads the same annotation map from its Annotations field)
	fr.base["dsc"] = func(v ssa.Value, _ ssa.Instruction) bool {
		if m.ptr {
			return false
		}
		if v == ssa.Value(m.dPar) {
			return true
		}
		ld, ok := v.(*ssa.UnOp)
		if !ok || ld.Op != token.MUL || !m.isObject(ld.X) {
			return false
		}
		return m.pristine(ld.X, ld)
	}
	fr.deriv["ann"] = func(fr *c11Frame, v ssa.Value, _ ssa.Instruction) bool {
		switch x := v.(type) {
		case *ssa.Field:
			return fieldName(x.X.Type(), x.Field) == "Annotations" && fr.is("dsc", x.X, x)
		case *ssa.UnOp:
			fa, ok := x.X.(*ssa.FieldAddr)
			if !ok || x.Op != token.MUL || fieldName(fa.X.Type(), fa.Field) != "Annotations" {
				return false
			}
			if al, ok := fa.X.(*ssa.Alloc); ok {
				return fr.cell("dsc", al, x) // a variable given the descriptor once and never written, field by field or as a whole
			}
		}
		return false
	}
	return fr
}

// The existing-key fact: this pair's key was looked up (comma-ok) and found absent in the annotations handed in — or
// in a map that holds at least those ("sup": absent from a superset is absent from the set; that the union map also
// holds the pairs taken over earlier only refuses more, and map keys of one metadata map are distinct anyway).
func c11ExistingKeyFact() *c11Fact {
	return &c11Fact{name: "existing-key", prim: func(fr *c11Frame, cond ssa.Value, truth bool, _ *ssa.If) bool {
		ex, ok := cond.(*ssa.Extract)
		if !ok || ex.Index != 1 || truth {
			return false
		}
		lk, ok := ex.Tuple.(*ssa.Lookup)
		if !ok || !lk.CommaOk || !fr.is("key", lk.Index, lk) {
			return false
		}
		return fr.is("ann", lk.X, lk) || fr.is("sup", lk.X, lk)
	}}
}

// ---- the reserved prefixes ---------------------------------------------------------------------

// The reserved-prefix fact: this pair's key starts with no element of the reserved list g. Two primitive shapes:
//
// A — the exhaustion edge of a counting loop over the whole list (index 0, 1, …, len-1; c11CountLoops) in whose body
// the header can be reached again, without leaving the loop, only over an edge on which HasPrefix(key, list[i]) is
// false: i starts at 0 and grows by one per passage of the header, so when the header is left with i == len(list)
// every element was tested negative. (Leaving the loop any other way does not pass this edge.)
//
// B — slices.IndexFunc(list[:], pred) < 0 or !slices.ContainsFunc(list[:], pred) with a predicate closure that answers
// false only if HasPrefix(key, element) is false: the standard library returns -1 (false) only after pred answered false
// for every element of the slice, and the slice is the whole list.
func c11ReservedFact(g *ssa.Global) *c11Fact {
	// the per-element fact inside the predicate: HasPrefix(key, elem) is false
	elemFact := func() *c11Fact {
		return &c11Fact{name: "no-prefix", prim: func(fr *c11Frame, cond ssa.Value, truth bool, _ *ssa.If) bool {
			call, ok := cond.(*ssa.Call)
			return ok && !truth && calleeName(call) == "strings.HasPrefix" && fr.is("key", call.Call.Args[0], call) && fr.is("elem", call.Call.Args[1], call)
		}}
	}
	return &c11Fact{name: "reserved-prefix", prim: func(fr *c11Frame, cond ssa.Value, truth bool, iff *ssa.If) bool {
		// A
		if iff != nil && iff.Cond == cond && !truth {
			for _, L := range c11CountLoops(fr.fn, g) {
				if L.Header == iff.Block() && c11ScanNegative(fr, L, g) {
					return true
				}
			}
		}
		// B
		var call *ssa.Call
		switch x := cond.(type) {
		case *ssa.Call: // !ContainsFunc
			if truth || calleeName(x) != "slices.ContainsFunc" {
				return false
			}
			call = x
		case *ssa.BinOp: // IndexFunc < 0, == -1, <= -1 (and the negations on the other edge)
			c, ok := x.X.(*ssa.Call)
			n, isK := c11IntConst(x.Y)
			if !ok || !isK || calleeName(c) != "slices.IndexFunc" {
				return false
			}
			op := x.Op
			if !truth {
				op = negOp(op)
			}
			if !((op == token.LSS && n == 0) || (op == token.LEQ && n == -1) || (op == token.EQL && n == -1)) {
				return false
			}
			call = c
		default:
			return false
		}
		if len(call.Call.Args) != 2 || !c11ListBase(call.Call.Args[0], g) {
			return false
		}
		mc, ok := call.Call.Args[1].(*ssa.MakeClosure)
		if !ok {
			return false
		}
		sub := fr.closure(mc)
		if sub == nil || len(sub.fn.Params) != 1 {
			return false
		}
		el := sub.fn.Params[0]
		sub.base["elem"] = func(v ssa.Value, _ ssa.Instruction) bool { return v == ssa.Value(el) }
		return elemFact().outcome(sub, c11Outcome{k: 0, want: false})
	}}
}

// c11ScanNegative: inside the counting loop L, the header is reached again only over an edge on which
// HasPrefix(key, list[L.Idx]) is false.
func c11ScanNegative(fr *c11Frame, L c11CountLoop, g *ssa.Global) bool {
	cut := fr.fi.edgesMatching(func(_ string, iff *ssa.If, truth bool) bool {
		cond := stripNot(iff.Cond, &truth)
		call, ok := cond.(*ssa.Call)
		if !ok || truth || calleeName(call) != "strings.HasPrefix" {
			return false
		}
		return fr.is("key", call.Call.Args[0], call) && c11ListElem(call.Call.Args[1], g, L.Idx)
	})
	if len(cut) == 0 {
		return false
	}
	lb := loopBlocks(L.Header)
	for bi := range lb {
		for j, s := range fr.fn.Blocks[bi].Succs {
			if !lb[s.Index] {
				cut[edgeKey{bi, j}] = true
			}
		}
	}
	return !fr.fi.reachHit([]state{{L.Body.Index, 0, -1}}, cut, map[int]bool{L.Header.Index: true})
}

// ---- hex(sha256(x)) ----------------------------------------------------------------------------

// c11HexOfSum: v is the lower-case hexadecimal text of a sha256.Sum256 result: hex.EncodeToString(sum[:]) or
// fmt.Sprintf("%x", sum) / fmt.Sprintf("%x", sum[:]) (fmt: %x of a byte array or slice is two lower-case hex digits per
// byte, nothing in between). Returns the Sum256 call.
func c11HexOfSum(v ssa.Value) *ssa.Call {
	call, ok := v.(*ssa.Call)
	if !ok {
		return nil
	}
	switch calleeName(call) {
	case "encoding/hex.EncodeToString":
		return c11SumBytes(call.Call.Args[0])
	case "fmt.Sprintf":
		if k, ok := call.Call.Args[0].(*ssa.Const); !ok || constString(k) != `"%x"` {
			return nil
		}
		els := appendedElems(call.Call.Args[1])
		if len(els) != 1 {
			return nil
		}
		mi, ok := els[0].(*ssa.MakeInterface)
		if !ok {
			return nil
		}
		return c11SumBytes(mi.X)
	}
	return nil
}

// c11SumBytes: v is the 32 bytes a sha256.Sum256 call returned: the call, a load of the variable it was stored in, or the full slice of that variable.
func c11SumBytes(v ssa.Value) *ssa.Call {
	switch x := v.(type) {
	case *ssa.Call:
		if calleeName(x) == "crypto/sha256.Sum256" {
			return x
		}
	case *ssa.UnOp:
		if al, ok := x.X.(*ssa.Alloc); ok && x.Op == token.MUL {
			if sv := singleStore(al); sv != nil {
				return c11SumBytes(sv)
			}
		}
	case *ssa.Slice:
		if x.Low != nil || x.High != nil || x.Max != nil {
			return nil
		}
		if al, ok := x.X.(*ssa.Alloc); ok {
			var st *ssa.Store
			for _, r := range *al.Referrers() {
				switch y := r.(type) {
				case *ssa.Store:
					if st != nil || y.Addr != ssa.Value(al) {
						return nil
					}
					st = y
				case *ssa.Slice, *ssa.UnOp, *ssa.DebugRef:
				default:
					return nil
				}
			}
			if st != nil {
				return c11SumBytes(st.Val)
			}
		}
	}
	return nil
}

// ---- facts decided across helpers --------------------------------------------------------------
//
// A gate of the property ("the key is not in the annotations", "the key has no reserved prefix", "the string resolved
// is the resolved digest or no digest") is a FACT about values that play ROLES (the key of this metadata pair, the
// annotation map handed in, the string that was resolved, …). Where the fact is established is not part of the
// property: inline on a branch edge, in a predicate helper (`if isDigest(ref)`), in a validator returning an error
// (`if err := checkKey(k, ann); err != nil`), in a lookup helper returning (value, ok), or in a closure. The rules
// therefore ask, per fact, on which branch edges of a frame it is known to hold (c11Fact.edges): an edge qualifies
// when its condition establishes the fact directly (the fact's `prim`) or when the condition is the outcome of a
// module function every return of which, with that outcome, lies behind such an edge of its own frame or returns an
// operand that establishes the fact (c11Fact.outcome) — roles being carried into the callee by the call's arguments
// (c11Frame.enter) and into a closure by its bindings (c11Frame.closure).

// c11Role decides whether v, used by the instruction at, plays a role in a frame.
type c11Role func(v ssa.Value, at ssa.Instruction) bool

type c11Frame struct {
	w      *World
	fn     *ssa.Function
	fi     *FnInfo
	base   map[string]c11Role
	cells  map[string]func(al *ssa.Alloc, at ssa.Instruction) bool             // root frames: a role-specific judgement on local variables
	deriv  map[string]func(fr *c11Frame, v ssa.Value, at ssa.Instruction) bool // roles that follow from other roles (same in every frame)
	depth  int
	inCell map[*ssa.Alloc]bool
}

func c11NewFrame(w *World, fn *ssa.Function) *c11Frame {
	return &c11Frame{w: w, fn: fn, fi: w.Info(fn), base: map[string]c11Role{}, cells: map[string]func(*ssa.Alloc, ssa.Instruction) bool{},
		deriv: map[string]func(*c11Frame, ssa.Value, ssa.Instruction) bool{}}
}

func (fr *c11Frame) is(role string, v ssa.Value, at ssa.Instruction) bool {
	if v == nil {
		return false
	}
	if p := fr.base[role]; p != nil && p(v, at) {
		return true
	}
	if u, ok := v.(*ssa.UnOp); ok && u.Op == token.MUL {
		if al, ok := u.X.(*ssa.Alloc); ok && fr.cell(role, al, u) {
			return true
		}
	}
	if d := fr.deriv[role]; d != nil && d(fr, v, at) {
		return true
	}
	return false
}

// cell: the local variable al holds a value of the role when `at` reads it (or captures it): it is given such a value by
// one store that precedes `at`, and everything else reads it — closures that capture it included (singleStore).
func (fr *c11Frame) cell(role string, al *ssa.Alloc, at ssa.Instruction) bool {
	if f := fr.cells[role]; f != nil && f(al, at) {
		return true
	}
	sv := singleStore(al)
	if sv == nil || fr.inCell[al] {
		return false
	}
	if fr.inCell == nil {
		fr.inCell = map[*ssa.Alloc]bool{}
	}
	fr.inCell[al] = true
	defer delete(fr.inCell, al)
	for _, r := range *al.Referrers() {
		if st, ok := r.(*ssa.Store); ok && st.Addr == ssa.Value(al) {
			if at != nil && at.Parent() == st.Parent() && !c11Before(st, at) {
				return false
			}
			return fr.is(role, sv, st)
		}
	}
	return false
}

// enter: the frame of the static module callee of call; a parameter plays the roles of the argument it receives, a free
// variable (call of a closure value) those of its binding.
func (fr *c11Frame) enter(call *ssa.Call) *c11Frame {
	g := staticCallee(call)
	if g == nil || g.Blocks == nil || !fr.w.IsProductFn(g) || fr.depth >= 4 {
		return nil
	}
	sub := c11NewFrame(fr.w, g)
	sub.depth, sub.deriv = fr.depth+1, fr.deriv
	mc, _ := call.Call.Value.(*ssa.MakeClosure)
	for name := range fr.roleNames() {
		params := map[*ssa.Parameter]bool{}
		for i, a := range call.Call.Args {
			if i < len(g.Params) && fr.is(name, a, call) {
				params[g.Params[i]] = true
			}
		}
		var free c11Role
		if mc != nil {
			free = fr.freeRole(name, mc)
		}
		sub.base[name] = func(v ssa.Value, at ssa.Instruction) bool {
			if p, ok := v.(*ssa.Parameter); ok && params[p] {
				return true
			}
			return free != nil && free(v, at)
		}
	}
	return sub
}

func (fr *c11Frame) roleNames() map[string]bool {
	out := map[string]bool{}
	for n := range fr.base {
		out[n] = true
	}
	for n := range fr.deriv {
		out[n] = true
	}
	return out
}

// closure: the frame of a function literal created by mc in this frame.
func (fr *c11Frame) closure(mc *ssa.MakeClosure) *c11Frame {
	g, ok := mc.Fn.(*ssa.Function)
	if !ok || g.Blocks == nil || fr.depth >= 4 {
		return nil
	}
	sub := c11NewFrame(fr.w, g)
	sub.depth, sub.deriv = fr.depth+1, fr.deriv
	for name := range fr.roleNames() {
		sub.base[name] = fr.freeRole(name, mc)
	}
	return sub
}

// freeRole: which free variables of the closure play the role: a captured variable (free variables are pointers to
// the enclosing function's variables) that holds a value of the role and is only read, or a value bound directly.
func (fr *c11Frame) freeRole(name string, mc *ssa.MakeClosure) c11Role {
	g, ok := mc.Fn.(*ssa.Function)
	if !ok {
		return nil
	}
	byRef, byVal := map[*ssa.FreeVar]bool{}, map[*ssa.FreeVar]bool{}
	for i, b := range mc.Bindings {
		if i >= len(g.FreeVars) {
			break
		}
		if al, ok := b.(*ssa.Alloc); ok {
			if fr.cell(name, al, mc) {
				byRef[g.FreeVars[i]] = true
			}
		} else if fr.is(name, b, mc) {
			byVal[g.FreeVars[i]] = true
		}
	}
	return func(v ssa.Value, _ ssa.Instruction) bool {
		if fv, ok := v.(*ssa.FreeVar); ok {
			return byVal[fv]
		}
		if u, ok := v.(*ssa.UnOp); ok && u.Op == token.MUL {
			if fv, ok := u.X.(*ssa.FreeVar); ok {
				return byRef[fv]
			}
		}
		return false
	}
}

// c11Fact: prim says whether "cond evaluated to truth" establishes the fact in a frame. iff is the branch whose
// condition cond is (nil when cond is a returned operand).
type c11Fact struct {
	name string
	prim func(fr *c11Frame, cond ssa.Value, truth bool, iff *ssa.If) bool
	busy map[*ssa.Function]bool
	seen map[ssa.Value]bool // the conditions that established the fact directly
}

// prims: the number of distinct conditions that established the fact directly (vacuity guard).
func (f *c11Fact) prims() int { return len(f.seen) }

// c11Outcome: how a function returned — with a nil error (last result), or with result k (a bool) equal to want.
type c11Outcome struct {
	err  bool
	k    int
	want bool
}

func (f *c11Fact) implies(fr *c11Frame, cond ssa.Value, truth bool, iff *ssa.If) bool {
	if fr == nil || cond == nil {
		return false
	}
	cond = stripNot(cond, &truth)
	if f.prim(fr, cond, truth, iff) {
		if f.seen == nil {
			f.seen = map[ssa.Value]bool{}
		}
		f.seen[cond] = true
		return true
	}
	switch x := cond.(type) {
	case *ssa.Call:
		if isBoolType(x.Type()) {
			return f.outcome(fr.enter(x), c11Outcome{k: 0, want: truth})
		}
	case *ssa.Extract:
		if call, ok := x.Tuple.(*ssa.Call); ok && isBoolType(x.Type()) {
			return f.outcome(fr.enter(call), c11Outcome{k: x.Index, want: truth})
		}
	case *ssa.BinOp:
		if x.Op != token.EQL && x.Op != token.NEQ {
			return false
		}
		var o ssa.Value
		if isNilConst(x.Y) {
			o = x.X
		} else if isNilConst(x.X) {
			o = x.Y
		}
		if o == nil || !isErrorType(o.Type()) || (x.Op == token.EQL) != truth {
			return false
		}
		// o == nil: the call that produced o returned a nil error (its last result)
		call := callOf(o)
		if call == nil {
			return false
		}
		if ex, ok := o.(*ssa.Extract); ok {
			if tup, ok := call.Type().(*types.Tuple); !ok || ex.Index != tup.Len()-1 {
				return false
			}
		}
		return f.outcome(fr.enter(call), c11Outcome{err: true})
	}
	return false
}

// edges: the branch edges of the frame on which the fact is known.
func (f *c11Fact) edges(fr *c11Frame) map[edgeKey]bool {
	return fr.fi.edgesMatching(func(_ string, iff *ssa.If, truth bool) bool {
		return f.implies(fr, iff.Cond, truth, iff)
	})
}

// outcome: every way the frame's function can return with outcome o lies behind an edge on which the fact is known, or
// returns an operand that establishes it (`return err == nil`), or hands on the verdict of a callee for which the same
// holds (`return check(x)`). A function that cannot return with that outcome at all satisfies this vacuously.
func (f *c11Fact) outcome(fr *c11Frame, o c11Outcome) bool {
	if fr == nil {
		return false
	}
	if f.busy == nil {
		f.busy = map[*ssa.Function]bool{}
	}
	if f.busy[fr.fn] {
		return false
	}
	f.busy[fr.fn] = true
	defer delete(f.busy, fr.fn)
	fi := fr.fi
	cut := f.edges(fr)
	for st := range fi.reach(entryState(), cut) {
		b := fr.fn.Blocks[st.b]
		r, ok := blockTerm(b).(*ssa.Return)
		if !ok {
			continue
		}
		if o.err {
			cl, tail, tmode, _ := fi.classify(r, state{st.b, fi.through(b, st.m), st.p}, Mode{Kind: mErr})
			if cl == clFail {
				continue
			}
			if tail != nil && tmode.Kind == mErr && f.outcome(fr.enter(tail), c11Outcome{err: true}) {
				continue
			}
			return false
		}
		if o.k >= len(r.Results) {
			return false
		}
		v := r.Results[o.k]
		if p, ok := v.(*ssa.Phi); ok && p.Block() == b && st.p >= 0 && st.p < len(p.Edges) {
			v = p.Edges[st.p]
		}
		if k, ok := boolConst(v); ok {
			if k != o.want {
				continue
			}
			return false
		}
		if !f.implies(fr, v, o.want, nil) {
			return false
		}
	}
	return true
}

// ---- the annotation generator behind wrappers ----------------------------------------------------

// c11WritesKey: g stores under one of the two annotation keys the generator is responsible for.
func c11WritesKey(g *ssa.Function, keys ...string) bool {
	for _, b := range g.Blocks {
		for _, in := range b.Instrs {
			if mu, ok := in.(*ssa.MapUpdate); ok {
				if k, ok := mu.Key.(*ssa.Const); ok && k.Value != nil && k.Value.Kind() == constant.String {
					for _, want := range keys {
						if want != "" && constant.StringVal(k.Value) == want {
							return true
						}
					}
				}
			}
		}
	}
	return false
}

func c11IsAnnotationMaker(g *ssa.Function) bool {
	r := g.Signature.Results()
	return r.Len() == 2 && strings.HasPrefix(r.At(0).Type().String(), "map[string]string") && isErrorType(r.At(1).Type())
}

// c11Generator finds the function that fills in the manifest annotations, starting from the module function SignOCI
// hands Sign's SignerInfo to. A function that does not itself store under the thumbprint / created keys is a wrapper
// when (c11Wraps) every success-capable exit returns, as result 0, the map one call to another annotation maker
// returned — that call receives the wrapper's own SignerInfo parameter and its nil error is a fact of the exit — and
// the wrapper does nothing with that map but return and print it. What the caller receives is then the very map the
// inner function returned, unchanged, so the rules about the generated values are decided on the inner function.
func c11Generator(w *World, g *ssa.Function, keys ...string) (gen *ssa.Function, wrappers []*ssa.Function, why string) {
	for depth := 0; depth < 4; depth++ {
		if c11WritesKey(g, keys...) {
			return g, wrappers, ""
		}
		inner, reason := c11Wraps(w, g)
		if inner == nil {
			return g, wrappers, fnName(g) + " neither stores the generated annotations nor hands on another generator's map: " + reason
		}
		wrappers = append(wrappers, g)
		g = inner
	}
	return g, wrappers, "wrapper chain too deep"
}

func c11Wraps(w *World, g *ssa.Function) (*ssa.Function, string) {
	var si *ssa.Parameter
	for _, p := range g.Params {
		if namedOf(p.Type()) == "core/signature.SignerInfo" {
			if si != nil {
				return nil, "two SignerInfo parameters"
			}
			si = p
		}
	}
	if si == nil || !c11IsAnnotationMaker(g) {
		return nil, "not an annotation maker over a SignerInfo"
	}
	s := w.Summarize(g, Mode{Kind: mErr})
	if len(s.Exits) == 0 {
		return nil, "no success-capable exit"
	}
	var inner *ssa.Call
	for _, ex := range s.Exits {
		e, ok := ex.Ret.Results[0].(*ssa.Extract)
		if !ok || e.Index != 0 {
			return nil, "the exit at " + w.InstrPos(ex.Ret) + " returns " + desc(ex.Ret.Results[0])
		}
		call, ok := e.Tuple.(*ssa.Call)
		if !ok || (inner != nil && call != inner) {
			return nil, "the exits return different maps"
		}
		h := staticCallee(call)
		if h == nil || h.Blocks == nil || !w.IsProductFn(h) || !c11IsAnnotationMaker(h) {
			return nil, "the map returned at " + w.InstrPos(ex.Ret) + " is not the result of a module annotation maker"
		}
		if _, ok := hasLabel(ex.Checked, c11ErrLabel(call)); !ok {
			return nil, "the exit at " + w.InstrPos(ex.Ret) + " succeeds although " + desc(call) + " failed"
		}
		inner = call
	}
	passes := false
	for _, a := range inner.Call.Args {
		if a == ssa.Value(si) {
			passes = true
		}
	}
	if !passes {
		return nil, "the inner generator does not receive the SignerInfo handed in"
	}
	// every Extract #0 of the inner call (there may be several instructions for one value) is only returned or printed
	for _, r := range *inner.Referrers() {
		e, ok := r.(*ssa.Extract)
		if !ok || e.Index != 0 {
			continue
		}
		for _, use := range *e.Referrers() {
			if _, isRet := use.(*ssa.Return); isRet {
				continue
			}
			if !onlyFormatted(use, 0) {
				return nil, "the map is used at " + w.InstrPos(use) + " before it is returned"
			}
		}
	}
	return staticCallee(inner), ""
}

// ---- the thumbprint list -----------------------------------------------------------------------

// c11Thumbs decides whether a []string value is the list of hex(sha256(cert.Raw)) over the certificates of the chain
// (role "chain"): built from nothing (nil, or make with length 0) by appends, each inside a loop over the whole chain
// and each appending the thumbprint of that loop's current element; or preallocated with len(chain) elements every
// store into which is element i := thumbprint of chain[i] inside such a loop; or the result of a module helper that was
// handed the chain and builds the list that way (the role travels with the argument).
type c11Thumbs struct {
	busy  map[ssa.Value]bool
	fills int
}

func (t *c11Thumbs) list(fr *c11Frame, v ssa.Value) bool { return t.listAt(fr, v, false) }

// listAt: initial says that v enters the header of a loop over the chain from outside — the one place where "nothing
// yet" (nil, or make with length 0) is the right value.
func (t *c11Thumbs) listAt(fr *c11Frame, v ssa.Value, initial bool) bool {
	if fr == nil || v == nil {
		return false
	}
	if t.busy == nil {
		t.busy = map[ssa.Value]bool{}
	}
	switch x := v.(type) {
	case *ssa.Const:
		return initial && x.IsNil()
	case *ssa.MakeSlice:
		if n, ok := c11IntConst(x.Len); ok && n == 0 {
			return initial
		}
	}
	if t.busy[v] {
		return true // the loop-carried value, already under examination
	}
	t.busy[v] = true
	switch x := v.(type) {
	case *ssa.Phi:
		hdr := false
		for _, L := range c11ChainLoops(fr) {
			if L.Header == x.Block() {
				hdr = true
			}
		}
		for i, e := range x.Edges {
			if !t.listAt(fr, e, hdr && !x.Block().Dominates(x.Block().Preds[i])) {
				return false
			}
		}
		return len(x.Edges) > 0
	case *ssa.MakeSlice:
		return t.prealloc(fr, x)
	case *ssa.Call:
		if bi, ok := x.Call.Value.(*ssa.Builtin); ok {
			if bi.Name() != "append" || len(x.Call.Args) != 2 || !t.listAt(fr, x.Call.Args[0], false) {
				return false
			}
			els := appendedElems(x.Call.Args[1])
			for _, el := range els {
				if !c11ThumbOfCurrent(fr, el, x, nil) {
					return false
				}
			}
			if len(els) == 0 {
				return false
			}
			t.fills++
			return true
		}
		return t.helper(fr, x, 0)
	case *ssa.Extract:
		if call, ok := x.Tuple.(*ssa.Call); ok {
			return t.helper(fr, call, x.Index)
		}
	}
	return false
}

// c11ChainLoops: the counting loops 0, 1, …, len(chain)-1 of the frame's function (c11CountLoopsTo: start at 0, step one,
// left through the header only at len).
func c11ChainLoops(fr *c11Frame) []c11CountLoop {
	return c11CountLoopsTo(fr.fn, func(bound ssa.Value) bool {
		call, ok := bound.(*ssa.Call)
		if !ok {
			return false
		}
		bi, ok := call.Call.Value.(*ssa.Builtin)
		return ok && bi.Name() == "len" && fr.is("chain", call.Call.Args[0], call)
	})
}

func (t *c11Thumbs) helper(fr *c11Frame, call *ssa.Call, k int) bool {
	sub := fr.enter(call)
	if sub == nil {
		return false
	}
	handed := false
	for _, p := range sub.fn.Params {
		if sub.is("chain", p, nil) {
			handed = true
		}
	}
	if !handed {
		return false
	}
	n := 0
	for _, b := range sub.fn.Blocks {
		if r, ok := blockTerm(b).(*ssa.Return); ok {
			if k >= len(r.Results) || !t.list(sub, r.Results[k]) {
				return false
			}
			n++
		}
	}
	return n > 0
}

// prealloc: make([]string, len(chain)) filled by `out[i] = thumbprint of chain[i]` in a loop over the chain.
func (t *c11Thumbs) prealloc(fr *c11Frame, mk *ssa.MakeSlice) bool {
	lc, ok := mk.Len.(*ssa.Call)
	if !ok {
		return false
	}
	if bi, ok := lc.Call.Value.(*ssa.Builtin); !ok || bi.Name() != "len" || !fr.is("chain", lc.Call.Args[0], lc) {
		return false
	}
	stores := 0
	for _, r := range *mk.Referrers() {
		ia, ok := r.(*ssa.IndexAddr)
		if !ok {
			continue
		}
		for _, rr := range *ia.Referrers() {
			st, ok := rr.(*ssa.Store)
			if !ok {
				continue
			}
			if st.Addr != ssa.Value(ia) || !c11ThumbOfCurrent(fr, st.Val, st, ia.Index) {
				return false
			}
			stores++
		}
	}
	if stores == 0 {
		return false
	}
	t.fills++
	return true
}

// c11ThumbOfCurrent: el is hex(sha256(chain[i].Raw)) where i is the index of a loop over the whole chain that holds both
// the instruction `at` and the hash (and, if slot is given, slot is that same index).
func c11ThumbOfCurrent(fr *c11Frame, el ssa.Value, at ssa.Instruction, slot ssa.Value) bool {
	sum := c11HexOfSum(el)
	if sum == nil || sum.Parent() != at.Parent() {
		return false
	}
	u, ok := sum.Call.Args[0].(*ssa.UnOp)
	if !ok || u.Op != token.MUL {
		return false
	}
	fa, ok := u.X.(*ssa.FieldAddr)
	if !ok || fieldName(fa.X.Type(), fa.Field) != "Raw" {
		return false
	}
	cu, ok := fa.X.(*ssa.UnOp)
	if !ok || cu.Op != token.MUL {
		return false
	}
	ia, ok := cu.X.(*ssa.IndexAddr)
	if !ok || !fr.is("chain", ia.X, ia) {
		return false
	}
	// the index of a counting loop over the whole chain selects the certificate
	loops := c11ChainLoops(fr)
	for _, L := range loops {
		if L.Idx != ia.Index {
			continue
		}
		lb := loopBlocks(L.Header)
		if lb[at.Block().Index] && lb[sum.Block().Index] && (slot == nil || slot == L.Idx) {
			return true
		}
	}
	return false
}

// c11MarshalArg: v is the text of json.Marshal(x) (result 0, through the []byte -> string conversion or a variable
// assigned once): returns x.
func c11MarshalArg(v ssa.Value) ssa.Value {
	for i := 0; i < 6; i++ {
		switch x := v.(type) {
		case *ssa.Convert:
			v = x.X
			continue
		case *ssa.ChangeType:
			v = x.X
			continue
		case *ssa.UnOp:
			if al, ok := x.X.(*ssa.Alloc); ok && x.Op == token.MUL {
				if sv := singleStore(al); sv != nil {
					v = sv
					continue
				}
			}
			return nil
		case *ssa.Extract:
			call, ok := x.Tuple.(*ssa.Call)
			if !ok || x.Index != 0 || calleeName(call) != "encoding/json.Marshal" || len(call.Call.Args) != 1 {
				return nil
			}
			if mi, ok := call.Call.Args[0].(*ssa.MakeInterface); ok {
				return mi.X
			}
			return nil
		}
		return nil
	}
	return nil
}

// ---- what SignOCI's success stands for -----------------------------------------------------------

// c11SuccessGates: the gates behind Signer.Sign. The property says that signing "produces a signature … attaches it to
// that resolved artifact with annotations giving the thumbprints … and the signing time", and that signing again
// "succeeds again". Three must-pass facts are necessary for that, whatever the code looks like:
//
//   - PushSignature runs only after Signer.Sign returned a nil error: otherwise the bytes pushed are whatever a failed
//     signer left in its result (nil, a partial envelope) and they get attached to the artifact as its signature;
//   - PushSignature runs only after the annotation generator returned a nil error: otherwise the signature manifest is
//     attached without (or with half of) the thumbprint / created annotations;
//   - every exit of SignOCI that can return a nil error has passed "PushSignature returned a nil error": otherwise the
//     caller is told the artifact is signed although nothing was stored. The documented exception (the referrers index
//     could not be cleaned up) hands the push error on, so it is not a success exit and is not constrained here.
//
// All three are decided as must-pass facts of the engine (GuardsOf for the effect site, the Checked labels of the
// success-capable exits of the summary), so the spelling of the test is free: `if err != nil { return }`, `if err == nil
// { … }`, a switch, nested ifs, a test inside a helper the summary composes, early or late.
func c11SuccessGates(c *Ctx, W *ssa.Function, sign, gen, push *ssa.Call) {
	w := c.W
	fi := w.Info(W)
	g := fi.GuardsOf(push)
	c.Evals++
	needPush := func(key, what string, call *ssa.Call) {
		_, h := hasLabel(g, c11ErrLabel(call))
		c.Check(h, "gate/"+key, "effect-site gate: PushSignature is reachable only through — "+what, w.InstrPos(push), "PushSignature is reachable although "+trunc(desc(call), 100)+" ("+w.InstrPos(call)+") returned an error; guards: "+summarizeLabels(g, 8))
	}
	needPush("push-after-sign", "a successful Signer.Sign (what is attached to the artifact is a signature the signer produced)", sign)
	if gen != nil {
		needPush("push-after-annotations", "successfully generated manifest annotations (thumbprints and signing time)", gen)
	}
	s := w.Summarize(W, Mode{Kind: mErr})
	c.Evals += s.States
	ok := len(s.Exits) > 0
	why := ""
	if !ok {
		why = "no success-capable exit found"
	}
	for _, ex := range s.Exits {
		if c11Contradictory(ex.Checked) {
			continue
		}
		if _, h := hasLabel(ex.Checked, c11ErrLabel(push)); !h {
			ok = false
			why = "the exit at " + w.InstrPos(ex.Ret) + " can report success although PushSignature failed or was not reached; facts on every path to it: " + summarizeLabels(ex.Checked, 8)
		}
	}
	c.Check(ok, "gate/success-after-push", "exit gate: SignOCI returns a nil error only through — a successful PushSignature (success means the signature was stored)", w.FnPos(W), why)
}

// c11Contradictory: the must-pass facts of an exit contain both "x == nil" and "x != nil" for the same x. Such an exit
// is listed as success-capable only because the summary could not classify the error it returns (`if failed(err) {
// return …, err }`: the verdict of the helper gives NE(err,nil), composing the returned error gives EQ(err,nil)); no
// execution leaves through it with a nil error, so it is not an exit the success gates have to hold on.
func c11Contradictory(checked map[string]string) bool {
	for l := range checked {
		if strings.HasPrefix(l, "EQ(") && strings.HasSuffix(l, ",nil)") {
			if _, both := checked["NE("+l[3:]]; both {
				return true
			}
		}
	}
	return false
}

// c11Feed collects, per function frame, the calls with an error result whose value results feed a given value:
// through conversions, phis, extracts, arguments and receivers of further calls, local variables (every store into
// them), and — for module helpers — the results the helper returns (the helper's own frame then has its own list).
type c11Feed struct {
	w    *World
	seen map[ssa.Value]bool
	need map[*ssa.Function][]*ssa.Call
	n    int
}

func (f *c11Feed) walk(v ssa.Value, depth int) {
	if v == nil || f.seen[v] || depth > 6 || f.n > 4000 {
		return
	}
	f.seen[v] = true
	f.n++
	switch x := v.(type) {
	case *ssa.Const, *ssa.Parameter, *ssa.Global, *ssa.FreeVar, *ssa.Function, *ssa.Builtin:
		return
	case *ssa.Extract:
		if call, ok := x.Tuple.(*ssa.Call); ok {
			f.call(call, x.Index, depth)
			return
		}
	case *ssa.Call:
		f.call(x, 0, depth)
		return
	case *ssa.Alloc:
		f.stores(x, depth)
		return
	case *ssa.FieldAddr:
		f.stores(x, depth)
		f.walk(x.X, depth)
		return
	case *ssa.IndexAddr:
		f.stores(x, depth)
		f.walk(x.X, depth)
		f.walk(x.Index, depth)
		return
	}
	if in, ok := v.(ssa.Instruction); ok {
		for _, op := range in.Operands(nil) {
			if op != nil {
				f.walk(*op, depth)
			}
		}
	}
}

// stores: everything stored through the address, or through an element / field address derived from it.
func (f *c11Feed) stores(addr ssa.Value, depth int) {
	refs := addr.Referrers()
	if refs == nil {
		return
	}
	for _, r := range *refs {
		switch x := r.(type) {
		case *ssa.Store:
			if x.Addr == addr {
				f.walk(x.Val, depth)
			}
		case *ssa.FieldAddr:
			if x.X == addr && !f.seen[x] {
				f.seen[x] = true
				f.stores(x, depth)
			}
		case *ssa.IndexAddr:
			if x.X == addr && !f.seen[x] {
				f.seen[x] = true
				f.stores(x, depth)
			}
		}
	}
}

func (f *c11Feed) call(call *ssa.Call, k int, depth int) {
	res := call.Call.Signature().Results()
	if n := res.Len(); n >= 2 && isErrorType(res.At(n-1).Type()) && k != n-1 {
		fn := call.Parent()
		dup := false
		for _, o := range f.need[fn] {
			dup = dup || o == call
		}
		if !dup {
			f.need[fn] = append(f.need[fn], call)
		}
	}
	if call.Call.IsInvoke() {
		f.walk(call.Call.Value, depth)
	}
	for _, a := range call.Call.Args {
		f.walk(a, depth)
	}
	if h := staticCallee(call); h != nil && h.Blocks != nil && f.w.IsProductFn(h) {
		for _, b := range h.Blocks {
			if r, ok := blockTerm(b).(*ssa.Return); ok && k < len(r.Results) {
				f.walk(r.Results[k], depth+1)
			}
		}
	}
}

// c11FallibleSources: the two generated annotations are computed from the SignerInfo by calls some of which can fail
// (the signing time is missing; the encoder refuses). A result taken from a call that returned an error is not the
// signing time / the thumbprint list — by the convention of the language it is the zero value — so a generator that
// goes on and reports success hands SignOCI annotations that do not "give the thumbprints of the signing chain and the
// signing time", and SignOCI attaches them. Necessary condition, decided per function frame: every success-capable
// exit of the generator (and of every module helper whose result feeds one of the two values) has passed the nil-error
// edge of every call with an error result whose value feeds the annotation. Must-pass facts of the summary: where and
// how the error is tested (early return, inverted test, switch, a helper that wraps the call and hands the error on)
// does not matter.
func c11FallibleSources(c *Ctx, G *ssa.Function, keys ...string) {
	w := c.W
	feed := &c11Feed{w: w, seen: map[ssa.Value]bool{}, need: map[*ssa.Function][]*ssa.Call{}}
	for _, b := range G.Blocks {
		for _, in := range b.Instrs {
			mu, ok := in.(*ssa.MapUpdate)
			if !ok {
				continue
			}
			k, ok := mu.Key.(*ssa.Const)
			if !ok || k.Value == nil || k.Value.Kind() != constant.String {
				continue
			}
			for _, want := range keys {
				if want != "" && constant.StringVal(k.Value) == want {
					feed.walk(mu.Value, 0)
				}
			}
		}
	}
	rule := "the annotation generator succeeds only if every call with an error result whose value feeds the thumbprint or the created annotation returned a nil error (a failed computation is never stored as the thumbprints or the signing time of a signature reported as signed)"
	var frames []*ssa.Function
	for fn := range feed.need {
		frames = append(frames, fn)
	}
	sort.Slice(frames, func(i, j int) bool { return frames[i].String() < frames[j].String() })
	n := 0
	ok, why := true, ""
	for _, fn := range frames {
		c.SeenFn(fn.String())
		s := w.Summarize(fn, Mode{Kind: mErr})
		c.Evals += s.States
		for _, call := range feed.need[fn] {
			n++
			if len(s.Exits) == 0 && fn == G {
				ok, why = false, fnName(fn)+" has no success-capable exit"
			}
			for _, ex := range s.Exits {
				if c11Contradictory(ex.Checked) {
					continue
				}
				if _, h := hasLabel(ex.Checked, c11ErrLabel(call)); !h {
					ok = false
					why = fnName(fn) + " can succeed at " + w.InstrPos(ex.Ret) + " although " + trunc(desc(call), 120) + " (" + w.InstrPos(call) + ") failed, and its result goes into a generated annotation"
				}
			}
		}
	}
	if n == 0 {
		c.Unk("annotations/fallible-sources", rule, w.FnPos(G), "no call with an error result feeds the generated annotations (the signing time is expected to come from envelope.SigningTime)")
		return
	}
	c.Check(ok, "annotations/fallible-sources", rule, w.FnPos(G), why)
}

// c11AnnotationKeys: the two keys the generator is responsible for (the thumbprint key of the module, the created key
// of the image spec).
func c11AnnotationKeys(w *World) []string {
	tk, _ := w.constString("internal/envelope", "AnnotationX509ChainThumbprint")
	ck, _ := w.depConstString("github.com/opencontainers/image-spec/specs-go/v1", "AnnotationCreated")
	return []string{tk, ck}
}
