package main

import (
	"fmt"
	"go/token"
	"go/types"
	"reflect"
	"strings"

	"golang.org/x/tools/go/ssa"
)

// ---- pointers that come out of decoded external data ---------------------------------------------
//
// Rule (one obligation per place where such a pointer is read; keys nilable/decoded-element/<function>#k and
// nilable/decoded-field/<function>#k):
//
//	(element) a pointer read out of a container — the value of a map lookup (plain or comma-ok), a map range value, a
//	slice/array element — whose type is "pointer to a JSON data struct" (a struct with `json:"…"` field tags, defined in
//	the module or in a dependency: proto.VerificationResult, ocispec.Descriptor, …) is nil whenever the document says
//	`null` for that element: encoding/json stores a nil pointer under a present key / at a present index;
//	(field) a pointer-typed field of a JSON data struct (Manifest.Subject, Artifact.Subject, SigningKeys.Default, …) is
//	nil whenever the document omits the member or says `null`.
//	Every dereference that pointer reaches (field selection, *p load or store), in the function that read it or in any
//	module function it is handed to (as an argument, as a receiver, as a helper's result, through a phi or a local
//	variable, into a closure), is reachable only through the non-nil edge of a nil test of that very pointer.
//
// Why it is a necessary condition of C12: plugin output, registry manifests, policy / config / cache files are
// untrusted JSON; `{"verificationResults":{"<capability>":null}}` is a valid document that json.Unmarshal accepts
// without error, so the only thing between it and a nil-pointer panic inside Verify is a test of the element itself.
// The presence test of the comma-ok form (`r, ok := m[k]; if !ok {…}`) is NOT such a test: the key is present.
//
// Equivalent shapes accepted (decided on SSA values, must-pass facts and the call tree, not on spelling):
//   - `if r == nil {fail}`, `if r != nil {use}`, `if !ok || r == nil {fail}`, `if r == nil || !r.Success`, a boolean
//     local holding the comparison, a module predicate whose answer implies the comparison (gate composition), a second
//     load of the same field path (`x.F == nil || !eq(*x.F, d)`);
//   - the test in the reader and the dereference in a helper (no taint flows through a call whose argument is known
//     non-nil at the call), or the test in the helper itself, or before the return of a helper that hands the pointer
//     back; a helper that hands the pointer back next to a verdict (`r, ok` / `r, err`) when the side of the verdict the
//     caller is on excludes every exit with an untested pointer (`return r, ok && r != nil`, `return r, true` under the
//     test, `return r, errors.New(…)`), but not `return r, ok`;
//   - a closure reading the variable, when the variable is assigned once and every call / escape of the closure lies
//     behind the test;
//   - a field the function itself set to a non-nil value on the way to the load;
//   - a pointer that is never dereferenced (only compared, stored, formatted, marshalled).
//
// Not followed: pointers stored into struct fields / containers and read back later, pointers boxed into interfaces,
// what functions outside the module do with the pointer.

type c12Source struct {
	fn   *ssa.Function
	val  ssa.Value
	at   ssa.Instruction
	what string
}

type c12Deref struct {
	at     ssa.Instruction
	val    ssa.Value
	expr   string
	guards string
}

// c12JSONStruct: a struct type that carries `json:"…"` field tags — a data type of some wire / file format.
func c12JSONStruct(t types.Type) bool {
	if t == nil {
		return false
	}
	st, ok := types.Unalias(t).Underlying().(*types.Struct)
	if !ok {
		return false
	}
	for i := 0; i < st.NumFields(); i++ {
		if _, ok := reflect.StructTag(st.Tag(i)).Lookup("json"); ok {
			return true
		}
	}
	return false
}

func c12PtrToJSONStruct(t types.Type) bool {
	if t == nil {
		return false
	}
	p, ok := types.Unalias(t).Underlying().(*types.Pointer)
	return ok && c12JSONStruct(p.Elem())
}

// c12DecodedSources lists, in instruction order, the places of fn that read a pointer-to-JSON-struct out of a container.
func c12DecodedSources(fn *ssa.Function) []c12Source {
	var out []c12Source
	for _, b := range fn.Blocks {
		for _, in := range b.Instrs {
			switch x := in.(type) {
			case *ssa.Lookup:
				mt, isMap := x.X.Type().Underlying().(*types.Map)
				if !isMap || !c12PtrToJSONStruct(mt.Elem()) {
					continue
				}
				if !x.CommaOk {
					out = append(out, c12Source{fn, x, x, "value of the map lookup " + desc(x)})
					continue
				}
				found := false
				for _, r := range *x.Referrers() {
					if ex, ok := r.(*ssa.Extract); ok && ex.Index == 0 {
						out = append(out, c12Source{fn, ex, x, "value of the comma-ok map lookup " + desc(x) + " (the key being present says nothing about the value)"})
						found = true
					}
				}
				if !found {
					out = append(out, c12Source{fn, nil, x, "presence test " + desc(x)})
				}
			case *ssa.Extract:
				nx, ok := x.Tuple.(*ssa.Next)
				if !ok || nx.IsString || x.Index != 2 || !c12PtrToJSONStruct(x.Type()) {
					continue
				}
				out = append(out, c12Source{fn, x, x, "range value of the map " + desc(rangeOperand(nx))})
			case *ssa.UnOp:
				if x.Op != token.MUL || !c12PtrToJSONStruct(x.Type()) {
					continue
				}
				if ia, ok := x.X.(*ssa.IndexAddr); ok {
					out = append(out, c12Source{fn, x, x, "element of " + desc(ia.X)})
				}
			case *ssa.Index:
				if c12PtrToJSONStruct(x.Type()) {
					out = append(out, c12Source{fn, x, x, "element of " + desc(x.X)})
				}
			}
		}
	}
	return out
}

// c12Origin: a tainted call result — the pointer is result k of `call`, handed back by the exit `ret` of the callee.
type c12Origin struct {
	call *ssa.Call
	ret  *ssa.Return
	k    int
}

type c12Flow struct {
	w       *World
	sites   map[*ssa.Function][]ssa.CallInstruction
	seen    map[ssa.Value]bool
	via     map[ssa.Value]string
	origins map[ssa.Value][]c12Origin
	work    []ssa.Value
	cand    []c12Deref // dereferences reached (judged when the flow is complete)
	candAt  map[ssa.Instruction]bool
	derefs  []c12Deref // … that are not behind a nil test
	// ownCallOnly: the taint stands for "the value this call of the function received" (tested-parameter rule): it is followed
	// down into callees but not back to the callers through a return (they know their own argument better).
	ownCallOnly bool
}

func newC12Flow(w *World, sites map[*ssa.Function][]ssa.CallInstruction) *c12Flow {
	return &c12Flow{w: w, sites: sites, seen: map[ssa.Value]bool{}, via: map[ssa.Value]string{}, origins: map[ssa.Value][]c12Origin{}, candAt: map[ssa.Instruction]bool{}}
}

func c12CallSites(w *World) map[*ssa.Function][]ssa.CallInstruction {
	m := map[*ssa.Function][]ssa.CallInstruction{}
	for _, f := range w.Funcs {
		for _, ci := range allCalls(f) {
			if g := staticCallee(ci); g != nil {
				m[g] = append(m[g], ci)
			}
		}
	}
	return m
}

// c12KnownNonNil: every path to `at` passed the non-nil edge of a nil test of v (of that SSA value, or of a value with the same access path).
func c12KnownNonNil(w *World, v ssa.Value, at ssa.Instruction) bool {
	if at == nil || at.Block() == nil {
		return false
	}
	fi := w.Info(at.Parent())
	if fi.nonNil(v, at.Block()) {
		return true
	}
	return labelHas(fi.GuardsOf(at), "NE("+desc(v)+",nil)")
}

// nonNilAt: v is known non-nil at `at` — by a nil test (c12KnownNonNil) or, for a pointer a helper handed back next to a
// verdict (`r, ok := get(…)`, `r, err := get(…)`), because what the caller knows about the other results at `at` excludes
// every exit of the helper that hands back an untested pointer.
func (fl *c12Flow) nonNilAt(v ssa.Value, at ssa.Instruction) bool {
	if c12KnownNonNil(fl.w, v, at) {
		return true
	}
	os := fl.origins[v]
	if len(os) == 0 {
		return false
	}
	for _, o := range os {
		if !fl.exitExcluded(o, at) {
			return false
		}
	}
	return true
}

// exitExcluded: at `at` (in the caller) the exit o.ret of the callee cannot have been taken, or implies that the pointer is not nil:
//   - the exit returns a non-nil error and the caller is on the `err == nil` side of that call;
//   - the exit returns a boolean constant and the caller is on the other side of that result;
//   - the exit returns a boolean b with b == true (false) ⟹ pointer != nil — `return r, r != nil`, `return r, ok && r != nil` —
//     and the caller is on the true (false) side of that result.
func (fl *c12Flow) exitExcluded(o c12Origin, at ssa.Instruction) bool {
	w := fl.w
	if at == nil || at.Parent() != o.call.Parent() || o.call.Referrers() == nil {
		return false
	}
	g := w.Info(at.Parent()).GuardsOf(at)
	hi := w.Info(o.ret.Parent())
	v := o.ret.Results[o.k]
	n := len(o.ret.Results)
	for j, rj := range o.ret.Results {
		if j == o.k {
			continue
		}
		if isErrorType(rj.Type()) && j == n-1 {
			if labelHas(g, "EQ("+descTailErr(o.call)+",nil)") && hi.nonNil(rj, o.ret.Block()) {
				return true
			}
			continue
		}
		if !isBoolType(rj.Type()) {
			continue
		}
		var exj ssa.Value
		for _, r := range *o.call.Referrers() {
			if ex, ok := r.(*ssa.Extract); ok && ex.Index == j {
				exj = ex
			}
		}
		if exj == nil {
			continue
		}
		for _, truth := range []bool{true, false} {
			side := "F("
			if truth {
				side = "T("
			}
			if !labelHas(g, side+desc(exj)+")") {
				continue
			}
			if bv, isB := boolConst(rj); isB {
				if bv != truth {
					return true
				}
				continue
			}
			if condLabel(rj, truth) == "NE("+desc(v)+",nil)" {
				return true
			}
		}
	}
	return false
}

// c12EdgeNonNil: v is known non-nil when control leaves pred for succ.
func (fl *c12Flow) edgeNonNil(v ssa.Value, pred, succ *ssa.BasicBlock) bool {
	t := blockTerm(pred)
	if t == nil {
		return false
	}
	if fl.nonNilAt(v, t) {
		return true
	}
	if iff, ok := t.(*ssa.If); ok && len(pred.Succs) == 2 && pred.Succs[0] != pred.Succs[1] {
		for j, s := range pred.Succs {
			if s == succ && (condImpliesNonNil(iff.Cond, j == 0, v) || condLabel(iff.Cond, j == 0) == "NE("+desc(v)+",nil)") {
				return true
			}
		}
	}
	return false
}

func (fl *c12Flow) taint(v ssa.Value, via string) {
	if v == nil || fl.seen[v] {
		return
	}
	fl.seen[v] = true
	fl.via[v] = via
	fl.work = append(fl.work, v)
}

// taintResult: v (a call or one of its extracts) receives the pointer from the exit o.ret of the callee. A further exit that
// reaches an already tainted value weakens what the caller's knowledge excludes: the value is looked at again.
func (fl *c12Flow) taintResult(v ssa.Value, o c12Origin, via string) {
	for _, x := range fl.origins[v] {
		if x == o {
			return
		}
	}
	fl.origins[v] = append(fl.origins[v], o)
	if fl.seen[v] {
		fl.work = append(fl.work, v)
		return
	}
	fl.taint(v, via)
}

func (fl *c12Flow) deref(at ssa.Instruction, v ssa.Value, expr string) {
	if fl.candAt[at] {
		return
	}
	fl.candAt[at] = true
	fl.cand = append(fl.cand, c12Deref{at: at, val: v, expr: expr})
}

// judge: the flow is complete; which of the dereferences reached are not behind a nil test.
func (fl *c12Flow) judge() {
	for _, d := range fl.cand {
		if fl.nonNilAt(d.val, d.at) {
			continue
		}
		d.guards = summarizeLabels(fl.w.Info(d.at.Parent()).GuardsOf(d.at), 4)
		fl.derefs = append(fl.derefs, d)
	}
}

func (fl *c12Flow) run() {
	w := fl.w
	for len(fl.work) > 0 {
		v := fl.work[len(fl.work)-1]
		fl.work = fl.work[:len(fl.work)-1]
		refs := v.Referrers()
		if refs == nil {
			continue
		}
		fn := v.Parent()
		for _, r := range *refs {
			switch x := r.(type) {
			case *ssa.FieldAddr:
				if x.X == v {
					fl.deref(x, v, desc(v)+"."+fieldName(x.X.Type(), x.Field))
				}
			case *ssa.UnOp:
				if x.Op == token.MUL && x.X == v {
					fl.deref(x, v, "*"+desc(v))
				}
			case *ssa.Phi:
				for i, e := range x.Edges {
					if e == v && !fl.edgeNonNil(v, x.Block().Preds[i], x.Block()) {
						fl.taint(x, fl.via[v])
					}
				}
			case *ssa.ChangeType:
				fl.taint(x, fl.via[v])
			case *ssa.Store:
				if x.Addr == v {
					fl.deref(x, v, "*"+desc(v)+" = …")
					continue
				}
				if x.Val != v {
					continue
				}
				al, ok := x.Addr.(*ssa.Alloc)
				if !ok || fl.nonNilAt(v, x) {
					continue // stored into a field / element: not followed
				}
				fl.taintVar(al, fl.via[v])
			case *ssa.Return:
				if fl.ownCallOnly {
					continue
				}
				for k, res := range x.Results {
					if res != v || fl.nonNilAt(v, x) {
						continue
					}
					for _, ci := range fl.sites[fn] {
						call, ok := ci.(*ssa.Call)
						if !ok || call.Referrers() == nil {
							continue
						}
						via := fl.via[v] + ", handed back by " + fnName(fn) + " (" + w.InstrPos(x) + ")"
						if len(x.Results) == 1 {
							fl.taintResult(call, c12Origin{call, x, k}, via)
							continue
						}
						for _, cr := range *call.Referrers() {
							if ex, ok := cr.(*ssa.Extract); ok && ex.Index == k {
								fl.taintResult(ex, c12Origin{call, x, k}, via)
							}
						}
					}
				}
			case ssa.CallInstruction:
				if com := x.Common(); com.IsInvoke() {
					if com.Value == v {
						fl.deref(x, v, desc(v)+"."+com.Method.Name()+"(…)") // a method call on a nil interface panics
					}
					continue
				}
				g := staticCallee(x)
				if g == nil || g.Blocks == nil || !w.IsProductFn(g) {
					continue // what functions outside the module do with the pointer is not followed
				}
				args := x.Common().Args
				for i, a := range args {
					if a != v || len(args) != len(g.Params) || fl.nonNilAt(v, x) {
						continue
					}
					fl.taint(g.Params[i], fl.via[v]+", passed to "+fnName(g)+" ("+w.InstrPos(x)+")")
				}
			}
		}
	}
}

// taintVar: a local variable (not lifted to a register: captured by a closure or address-taken) received the pointer; every
// read of it, here and in the closures that capture it, may yield the pointer.
func (fl *c12Flow) taintVar(al *ssa.Alloc, via string) {
	if al.Referrers() == nil {
		return
	}
	for _, r := range *al.Referrers() {
		switch x := r.(type) {
		case *ssa.UnOp:
			if x.Op == token.MUL {
				fl.taint(x, via)
			}
		case *ssa.MakeClosure:
			g, ok := x.Fn.(*ssa.Function)
			if !ok {
				continue
			}
			// the variable holds one value for ever, and wherever the closure is called or leaves the function (call, defer,
			// argument, store, return) that value has been seen non-nil: the closure only ever runs with a non-nil pointer
			if sv := singleStore(al); sv != nil {
				safe := true
				if x.Referrers() != nil {
					for _, u := range *x.Referrers() {
						if _, isDbg := u.(*ssa.DebugRef); !isDbg && !c12KnownNonNil(fl.w, sv, u) {
							safe = false
						}
					}
				}
				if safe {
					continue
				}
			}
			for k, bnd := range x.Bindings {
				if bnd != ssa.Value(al) || k >= len(g.FreeVars) || g.FreeVars[k].Referrers() == nil {
					continue
				}
				for _, fr := range *g.FreeVars[k].Referrers() {
					if ld, ok := fr.(*ssa.UnOp); ok && ld.Op == token.MUL {
						fl.taint(ld, via+", captured by "+fnName(g))
					}
				}
			}
		}
	}
}

// c12DecodedFieldSources lists, in instruction order, the loads of pointer-typed fields of JSON data structs (fields the decoder
// fills: not tagged `json:"-"`). A field the function itself set to a non-nil value on the way to the load is not listed.
func c12DecodedFieldSources(w *World, fn *ssa.Function) []c12Source {
	var out []c12Source
	fi := w.Info(fn)
	for _, b := range fn.Blocks {
		for _, in := range b.Instrs {
			var v ssa.Value
			var st types.Type
			var field int
			var addr ssa.Value
			switch x := in.(type) {
			case *ssa.UnOp:
				fa, ok := x.X.(*ssa.FieldAddr)
				if !ok || x.Op != token.MUL {
					continue
				}
				v, st, field, addr = x, fa.X.Type(), fa.Field, fa
			case *ssa.Field:
				v, st, field = x, x.X.Type(), x.Field
			default:
				continue
			}
			if _, isPtr := types.Unalias(v.Type()).Underlying().(*types.Pointer); !isPtr {
				continue
			}
			if p, ok := types.Unalias(st).Underlying().(*types.Pointer); ok {
				st = p.Elem()
			}
			if !c12JSONStruct(st) {
				continue
			}
			if tag, ok := reflect.StructTag(types.Unalias(st).Underlying().(*types.Struct).Tag(field)).Lookup("json"); ok && tag == "-" {
				continue
			}
			if addr != nil && c12FieldSetBefore(fi, addr.(*ssa.FieldAddr), in) {
				continue
			}
			out = append(out, c12Source{fn, v, in, "field " + desc(v) + " of the JSON data struct " + namedOf(st)})
		}
	}
	return out
}

// c12FieldSetBefore: the function stored a non-nil value into that very field (same access path) at a point every path to the load passes.
func c12FieldSetBefore(fi *FnInfo, fa *ssa.FieldAddr, ld ssa.Instruction) bool {
	d := desc(fa)
	for _, b := range fi.Fn.Blocks {
		for i, in := range b.Instrs {
			st, ok := in.(*ssa.Store)
			if !ok {
				continue
			}
			sa, ok := st.Addr.(*ssa.FieldAddr)
			if !ok || sa.Field != fa.Field || desc(sa) != d || !fi.nonNil(st.Val, b) {
				continue
			}
			if b == ld.Block() {
				if i < instrIndex(ld) {
					return true
				}
				continue
			}
			if b.Dominates(ld.Block()) {
				return true
			}
		}
	}
	return false
}

func c12DecodedElements(c *Ctx) {
	w := c.W
	sites := c12CallSites(w)
	tail := "every dereference it reaches, in the reading function or in the module functions it is handed to (argument, receiver, helper result, phi, local variable, closure), lies behind the non-nil edge of a nil test of that pointer"
	ruleE := "inventory: a pointer to a JSON data struct read out of a container of decoded data (map lookup value — the comma-ok presence test says nothing about it —, map range value, slice element) is nil when the document says null for that element; " + tail
	ruleF := "inventory: a pointer-typed field of a JSON data struct (an optional member of a decoded document: manifest subject, default key name, …) is nil when the document omits it or says null; " + tail
	fields := map[string]bool{}
	for _, fn := range w.Funcs {
		c12JudgeSources(c, sites, "nilable/decoded-element/", ruleE, fn, c12DecodedSources(fn))
		fs := c12DecodedFieldSources(w, fn)
		for _, s := range fs {
			switch x := s.at.(type) {
			case *ssa.UnOp:
				fa := x.X.(*ssa.FieldAddr)
				fields[namedOf(fa.X.Type())+"."+fieldName(fa.X.Type(), fa.Field)] = true
			case *ssa.Field:
				fields[namedOf(x.X.Type())+"."+fieldName(x.X.Type(), x.Field)] = true
			}
		}
		c12JudgeSources(c, sites, "nilable/decoded-field/", ruleF, fn, fs)
	}
	c.MinCount("nilable/decoded-element", 1, "reads of a pointer out of a decoded container (the per-capability verdict of the verification plugin)")
	c.Check(len(fields) >= 3, "nilable/decoded-field#count", "vacuity guard: at least 3 distinct optional pointer fields of decoded documents are read by the module", "-", fmt.Sprintf("only %d found: the rule no longer matches the code it was written for", len(fields)))
	c.Extra["decoded_pointer_fields"] = len(fields)
}

func c12JudgeSources(c *Ctx, sites map[*ssa.Function][]ssa.CallInstruction, prefix, rule string, fn *ssa.Function, srcs []c12Source) {
	w := c.W
	for k, s := range srcs {
		c.Evals++
		key := fmt.Sprintf("%s%s#%d", prefix, fnName(fn), k+1)
		if s.val == nil {
			c.OK(key, rule+" (presence test only: the value is not read)", w.InstrPos(s.at))
			continue
		}
		fl := newC12Flow(w, sites)
		fl.taint(s.val, s.what+" ("+w.InstrPos(s.at)+")")
		fl.run()
		fl.judge()
		if len(fl.derefs) == 0 {
			c.OK(key, rule, w.InstrPos(s.at))
			continue
		}
		var parts []string
		for i, d := range fl.derefs {
			if i == 3 {
				parts = append(parts, fmt.Sprintf("… and %d more", len(fl.derefs)-3))
				break
			}
			parts = append(parts, fmt.Sprintf("%s in %s (%s) dereferences the %s without a nil test of it; guards: %s", d.expr, fnName(d.at.Parent()), w.InstrPos(d.at), fl.via[d.val], d.guards))
		}
		c.Bad(key, rule, w.InstrPos(fl.derefs[0].at), strings.Join(parts, "; "))
	}
}

// ---- parameters the function itself tests against nil ------------------------------------------------
//
// Rule (one obligation per such parameter; key nilable/tested-parameter/<function>#k): a module function that compares one
// of its pointer- or interface-typed parameters (receiver included) with nil says by that very test that nil is a value it
// expects to be called with — a result a Signer / plugin / repository implementation handed back, a verifier built without
// a component, a document member that was absent. Then every dereference that parameter value reaches — field selection
// through it, *p load or store, a method call on the interface, and the same in every module function the value is passed
// on to — is reachable only through the non-nil edge of a nil test of that value ("contradiction rule": one path tests, no
// path may dereference untested).
//
// Why it is a necessary condition of C12: these tests are the library's only protection where a nil arrives from outside
// its control (SignOCI hands the *SignerInfo a caller-supplied Signer returned straight to the annotation generator; a
// verification plugin looked up by name may be absent); a nil that gets past them is a nil-pointer panic inside a public
// entry point instead of an error.
//
// Equivalent shapes accepted (decided on SSA values, must-pass facts and the call tree):
//   - `if p == nil {return}` before the use, `if p != nil {use}`, `if p == nil || p.F …`, `if nil == p`, a switch case,
//     a nested `if`, the test in a module predicate / validating helper whose answer implies it (gate composition);
//   - `if p == nil { p = default }` — the phi that joins a fresh value with the tested one is not nil;
//   - the test here and the dereference in a helper (nothing flows through a call whose argument is known non-nil at the
//     call), or a helper that tests its own parameter;
//   - a parameter moved to a variable cell because a closure captures it (reads of the cell are followed, also inside the
//     closure, exactly as for decoded pointers);
//   - a parameter that is tested but never dereferenced (compared, stored, handed to functions outside the module);
//   - for an unexported function whose call sites are all known (never used as a value, not reachable through an interface,
//     not started by go/defer): every call site passes a value known non-nil at the call — the function's own test is then
//     redundant and what it guards cannot happen. A test in a caller does not count for anything that can be entered from
//     elsewhere (exported functions and methods, function values, closures).
//
// Not followed: the value boxed into another interface, stored into a field / container and read back, handed back to the
// callers through a return.

// c12CallerTestsCount: see the last accepted shape above. Set to false to demand the function's own test everywhere.
const c12CallerTestsCount = true

// c12NilTestedParams: the parameters of fn that fn (or a function literal inside it that captured the parameter) compares with nil.
func c12NilTestedParams(fn *ssa.Function) map[*ssa.Parameter]bool {
	nilable := func(t types.Type) bool {
		switch types.Unalias(t).Underlying().(type) {
		case *types.Pointer, *types.Interface:
			return true
		}
		return false
	}
	cand := false
	for _, p := range fn.Params {
		if nilable(p.Type()) {
			cand = true
		}
	}
	if !cand {
		return nil
	}
	// variable cells that hold a parameter (captured / address-taken parameters), and the free variables bound to them
	cell := map[ssa.Value]*ssa.Parameter{}
	for _, b := range fn.Blocks {
		for _, in := range b.Instrs {
			if st, ok := in.(*ssa.Store); ok {
				if p, ok := st.Val.(*ssa.Parameter); ok {
					if al, ok := st.Addr.(*ssa.Alloc); ok && cell[al] == nil {
						cell[al] = p
					}
				}
			}
		}
	}
	fns := []*ssa.Function{fn}
	if len(cell) > 0 {
		var bind func(f *ssa.Function)
		bind = func(f *ssa.Function) {
			for _, b := range f.Blocks {
				for _, in := range b.Instrs {
					mc, ok := in.(*ssa.MakeClosure)
					if !ok {
						continue
					}
					g, ok := mc.Fn.(*ssa.Function)
					if !ok {
						continue
					}
					hit := false
					for k, bnd := range mc.Bindings {
						if p := cell[bnd]; p != nil && k < len(g.FreeVars) {
							cell[g.FreeVars[k]] = p
							hit = true
						}
					}
					if hit {
						fns = append(fns, g)
						bind(g)
					}
				}
			}
		}
		bind(fn)
	}
	var resolve func(v ssa.Value) *ssa.Parameter
	resolve = func(v ssa.Value) *ssa.Parameter {
		switch x := v.(type) {
		case *ssa.Parameter:
			if x.Parent() == fn {
				return x
			}
		case *ssa.ChangeInterface:
			return resolve(x.X)
		case *ssa.ChangeType:
			return resolve(x.X)
		case *ssa.UnOp:
			if x.Op == token.MUL {
				return cell[x.X]
			}
		}
		return nil
	}
	out := map[*ssa.Parameter]bool{}
	for _, f := range fns {
		for _, b := range f.Blocks {
			for _, in := range b.Instrs {
				bo, ok := in.(*ssa.BinOp)
				if !ok || (bo.Op != token.EQL && bo.Op != token.NEQ) {
					continue
				}
				var o ssa.Value
				if isNilConst(bo.Y) {
					o = bo.X
				} else if isNilConst(bo.X) {
					o = bo.Y
				} else {
					continue
				}
				if p := resolve(o); p != nil && nilable(p.Type()) {
					out[p] = true
				}
			}
		}
	}
	return out
}

func c12TestedParams(c *Ctx) {
	w := c.W
	sites := c12CallSites(w)
	rule := "inventory: a module function that compares a pointer / interface parameter with nil expects to be called with nil; every dereference that parameter value reaches (field selection, *p, method call on the interface — in the function or in the module functions the value is passed on to) lies behind the non-nil edge of a nil test of it (a re-assigned default is followed through the phi; for an unexported function with a closed list of call sites, call sites that all pass a known non-nil value are accepted instead)"
	n := 0
	for _, fn := range w.Funcs {
		if fn.Synthetic != "" {
			continue
		}
		tested := c12NilTestedParams(fn)
		if len(tested) == 0 {
			continue
		}
		k := 0
		for idx, p := range fn.Params {
			if !tested[p] {
				continue
			}
			k++
			n++
			c.Evals++
			key := fmt.Sprintf("nilable/tested-parameter/%s#%d", fnName(fn), k)
			fl := newC12Flow(w, sites)
			fl.ownCallOnly = true
			fl.taint(p, "parameter "+desc(p)+" of "+fnName(fn)+", which the function compares with nil")
			fl.run()
			fl.judge()
			if len(fl.derefs) == 0 {
				c.OK(key, rule, w.FnPos(fn))
				continue
			}
			if c12CallerTestsCount {
				if cs, closed := c05CallSites(w, fn); closed && len(cs) > 0 {
					all := true
					for _, call := range cs {
						if idx >= len(call.Call.Args) || !c12KnownNonNil(w, call.Call.Args[idx], call) {
							all = false
						}
					}
					if all {
						c.OK(key, rule+" (every call site of this unexported function passes a value known non-nil at the call)", w.FnPos(fn))
						continue
					}
				}
			}
			var parts []string
			for i, d := range fl.derefs {
				if i == 3 {
					parts = append(parts, fmt.Sprintf("… and %d more", len(fl.derefs)-3))
					break
				}
				parts = append(parts, fmt.Sprintf("%s in %s (%s) dereferences the %s without passing the non-nil edge of a nil test of it; guards: %s", d.expr, fnName(d.at.Parent()), w.InstrPos(d.at), fl.via[d.val], d.guards))
			}
			c.Bad(key, rule, w.InstrPos(fl.derefs[0].at), strings.Join(parts, "; "))
		}
	}
	c.Extra["nil_tested_parameters"] = n
	c.MinCount("nilable/tested-parameter", 14, "parameters a module function compares with nil (18 on the reference tree: repository / verifier / signer arguments of the public entry points, the signer info of the annotation generator and of SigningTime, the verification plugin of the plugin runner, …)")
}
