package main

import (
	"go/constant"
	"strings"

	"golang.org/x/tools/go/ssa"
)

// ---------------------------------------------------------------------------------------------------------------------
// C13, second pass: the rules are decided in ONE frame — that of GetCertificates — whatever the boundaries at which the
// loading was cut into helper functions.
//
// The first version followed two fixed cuts (a "directory loader" called by GetCertificates, a "per-entry helper" called
// by the loop) and looked for every anchor call (SysPath, Lstat, ReadDir, ReadCertificateFile) in the body of one
// particular function. A driver over stage helpers (resolve the path / list the directory / load one entry / validate
// the roots) has the same behaviour and none of those positions. What the property needs is not where a statement sits
// but
//   - which facts every success exit of GetCertificates must have passed (the engine composes these through calls and
//     substitutes the callee's parameters by the caller's arguments), and
//   - which value is which: a value of a helper is rendered in the frame of GetCertificates by substituting the helper's
//     parameters by the arguments of the call chain that leads to it (c13Inst.toG), exactly as the engine does for labels.
// So an anchor call is looked for in the call tree under GetCertificates, and every comparison of renderings is made
// after translation to the root frame.
// ---------------------------------------------------------------------------------------------------------------------

// c13Inst: a function of the call tree under GetCertificates, reached through one chain of static calls.
type c13Inst struct {
	fn     *ssa.Function
	parent *c13Inst
	call   *ssa.Call // the call in parent.fn that enters fn (nil for the root)
	names  []string  // parameters of fn
	descs  []string  // the arguments they are bound to, rendered in the root's frame
	// free variables that occur in renderings of this frame — those of fn itself if it is a closure, and those of the
	// closures fn creates (facts composed from a closure carry them verbatim) — and the captured variables' values, root frame
	fnames []string
	fdescs []string
	kids   []*c13Inst
	depth  int
}

// toG translates a rendering (a value or a label) from the frame of this function into the frame of the root.
func (in *c13Inst) toG(d string) string {
	if in.parent != nil {
		d = substParams(d, in.names, in.descs)
	}
	if len(in.fnames) > 0 && strings.Contains(d, "free:") {
		d = c13SubstFree(d, in.fnames, in.fdescs)
	}
	return d
}

// local: the parameter (or captured variable) of this function that is bound to the root-frame value gd ("" if there is none).
func (in *c13Inst) local(gd string) string {
	if in.parent == nil {
		return gd
	}
	for i, d := range in.descs {
		if d == gd {
			return "param:" + in.names[i]
		}
	}
	for i, d := range in.fdescs {
		if d == gd {
			return "free:" + in.fnames[i]
		}
	}
	return ""
}

// c13SubstFree replaces each "free:<name>" (whole identifier) that has a binding.
func c13SubstFree(label string, names, descs []string) string {
	var sb strings.Builder
	for i := 0; i < len(label); {
		j := strings.Index(label[i:], "free:")
		if j < 0 {
			sb.WriteString(label[i:])
			break
		}
		sb.WriteString(label[i : i+j])
		k := i + j + len("free:")
		e := k
		for e < len(label) && (label[e] == '_' || label[e] >= '0' && label[e] <= '9' || label[e] >= 'a' && label[e] <= 'z' || label[e] >= 'A' && label[e] <= 'Z') {
			e++
		}
		repl := label[i+j : e]
		for n := range names {
			if names[n] == label[k:e] {
				repl = descs[n]
			}
		}
		sb.WriteString(repl)
		i = e
	}
	return trunc(sb.String(), 1500)
}

// bindFrees records, for a closure created by mc in the frame of `maker`, what its free variables stand for.
// A captured variable is rendered by the one value stored into it (desc does that for a variable that is stored once and
// only read by closures); the rendering is used only if that store happens before the closure exists — otherwise the
// closure could see the variable before it holds that value — and a name bound to two different values is dropped.
func (in *c13Inst) bindFrees(mc *ssa.MakeClosure, maker *c13Inst) {
	fn, ok := mc.Fn.(*ssa.Function)
	if !ok {
		return
	}
	for k, b := range mc.Bindings {
		if k >= len(fn.FreeVars) {
			break
		}
		if al, isAlloc := b.(*ssa.Alloc); isAlloc {
			if singleStore(al) == nil {
				continue
			}
			before := false
			for _, r := range *al.Referrers() {
				if st, isSt := r.(*ssa.Store); isSt && st.Addr == ssa.Value(al) {
					before = st.Block() == mc.Block() && instrIndex(st) < instrIndex(mc) || st.Block() != mc.Block() && st.Block().Dominates(mc.Block())
				}
			}
			if !before {
				continue
			}
		}
		name, d := fn.FreeVars[k].Name(), maker.toG(desc(b))
		dup := false
		for i, n := range in.fnames {
			if n == name {
				dup = true
				if in.fdescs[i] != d {
					in.fdescs[i] = "free?:" + name
				}
			}
		}
		if !dup {
			in.fnames = append(in.fnames, name)
			in.fdescs = append(in.fdescs, d)
		}
	}
}

// closuresMadeIn: the MakeClosure instructions of fn.
func closuresMadeIn(fn *ssa.Function) []*ssa.MakeClosure {
	var out []*ssa.MakeClosure
	for _, b := range fn.Blocks {
		for _, x := range b.Instrs {
			if mc, ok := x.(*ssa.MakeClosure); ok {
				out = append(out, mc)
			}
		}
	}
	return out
}

// under: a is this instance or one of its callers.
func (in *c13Inst) under(a *c13Inst) bool {
	for x := in; x != nil; x = x.parent {
		if x == a {
			return true
		}
	}
	return false
}

// path: the call chain from the root to this instance.
func (in *c13Inst) path() []*c13Inst {
	var out []*c13Inst
	for x := in; x != nil; x = x.parent {
		out = append([]*c13Inst{x}, out...)
	}
	return out
}

// c13Tree: the static call tree of module functions under root (bounded; recursion is not unfolded).
func c13Tree(w *World, root *ssa.Function) (*c13Inst, []*c13Inst) {
	r := &c13Inst{fn: root}
	for _, mc := range closuresMadeIn(root) {
		r.bindFrees(mc, r)
	}
	all := []*c13Inst{r}
	var rec func(in *c13Inst)
	rec = func(in *c13Inst) {
		if in.depth >= 5 {
			return
		}
		for _, ci := range allCalls(in.fn) {
			call, ok := ci.(*ssa.Call)
			if !ok || len(all) > 200 {
				continue
			}
			g := staticCallee(call)
			if g == nil || g.Blocks == nil || !w.IsProductFn(g) || len(g.Params) != len(call.Call.Args) {
				continue
			}
			cyc := false
			for a := in; a != nil; a = a.parent {
				if a.fn == g {
					cyc = true
				}
			}
			if cyc {
				continue
			}
			kid := &c13Inst{fn: g, parent: in, call: call, depth: in.depth + 1}
			for i, p := range g.Params {
				kid.names = append(kid.names, p.Name())
				kid.descs = append(kid.descs, in.toG(desc(call.Call.Args[i])))
			}
			// a closure called where it was made: its own captured variables, seen from the maker's frame
			if mc, ok := call.Call.Value.(*ssa.MakeClosure); ok {
				kid.bindFrees(mc, in)
			}
			for _, mc := range closuresMadeIn(g) {
				kid.bindFrees(mc, kid)
			}
			in.kids = append(in.kids, kid)
			all = append(all, kid)
		}
		for _, k := range in.kids {
			rec(k)
		}
	}
	rec(r)
	return r, all
}

type c13Site struct {
	in   *c13Inst
	call *ssa.Call
}

// c13Sites: the calls of the named functions anywhere in the tree.
func c13Sites(all []*c13Inst, names ...string) []c13Site {
	var out []c13Site
	for _, in := range all {
		for _, ci := range findCalls(in.fn, names...) {
			if call, ok := ci.(*ssa.Call); ok {
				out = append(out, c13Site{in, call})
			}
		}
	}
	return out
}

// c13Level: the facts of every success exit of one function of the chain GetCertificates → … → the function that
// accumulates the result, translated to the root frame. A fact that holds on every success exit of a function of that
// chain holds on every success exit of GetCertificates, because each link of the chain is checked separately
// (exact-set/returned-from-loader: the caller succeeds only if the callee does, and returns what it returned).
type c13Level struct {
	in    *c13Inst
	sum   *Summary
	exits []map[string]string
}

func c13LevelOf(c *Ctx, in *c13Inst) *c13Level {
	lv := &c13Level{in: in, sum: c.W.Summarize(in.fn, Mode{Kind: mErr})}
	c.Evals += lv.sum.States
	for _, ex := range lv.sum.Exits {
		m := map[string]string{}
		for l, s := range ex.Checked {
			m[in.toG(l)] = s
		}
		lv.exits = append(lv.exits, m)
	}
	return lv
}

// has: every success exit carries a fact containing all subs.
func (lv *c13Level) has(subs ...string) bool {
	if len(lv.exits) == 0 {
		return false
	}
	for _, m := range lv.exits {
		if _, ok := hasLabel(m, subs...); !ok {
			return false
		}
	}
	return true
}

// every: pred holds for the facts of every success exit.
func (lv *c13Level) every(pred func(m map[string]string) bool) bool {
	if len(lv.exits) == 0 {
		return false
	}
	for _, m := range lv.exits {
		if !pred(m) {
			return false
		}
	}
	return true
}

// ---------------------------------------------------------------------------------------------------------------------
// "Every certificate of the file passed the gate" — decided on the call tree.
//
// In a function of the tree an edge ESTABLISHES the clause if it can only be taken after a loop over all elements of the
// certificates was entered whose every completed iteration passes the gate:
//   (a) the edges into the header of such a loop in this function (the loop leaves through its exit edge only when the
//       elements are exhausted; an iteration neither completes nor returns successfully without the gate — iterBlocked;
//       the gate may be delegated to a per-element helper whose success exits all lie behind the gate);
//   (b) the edge `helper(…) err == nil` (and the exit `return helper(…)`) for a callee of the tree that receives the
//       certificates and cannot succeed once ITS establishing edges are removed (the same definition, one level down);
//   (c) for a clause that applies under a condition only (tsa stores): the edges on which the condition is false.
// The clause holds for an entry if, with the establishing edges of the entry's scope removed, the iteration of the
// entries loop cannot complete. This is the same cut argument as before; what is new is that (b) is recursive and can be
// combined with (c), so `if type == tsa { if err := validateRoots(certs); err != nil { return } }`, the loop inline, the
// whole per-entry processing in a helper, or the type test inside the per-certificate loop are all one rule.
// ---------------------------------------------------------------------------------------------------------------------

type c13Univ struct {
	c        *Ctx
	certsG   string                               // the certificates of one file, root frame
	gate     func(in *c13Inst, el string) EdgeSel // el: rendering (frame of in) of one element, or its prefix "<slice>["
	cond     func(in *c13Inst) EdgeSel            // edges on which the clause does not apply (nil: none)
	minEdges int                                  // the gate consists of at least that many edges
	memo     map[*c13Inst]map[edgeKey]bool        // establishing edges per instance
	tails    map[*c13Inst]map[*ssa.Call]bool      // established tail calls per instance
	busy     map[*c13Inst]bool
	loops    int    // qualifying loops met (vacuity)
	site     string // where the (last) qualifying loop is
}

func (u *c13Univ) sel(in *c13Inst, el string) EdgeSel {
	g := u.gate(in, el)
	if u.cond == nil {
		return g
	}
	cd := u.cond(in)
	return func(l string, iff *ssa.If, truth bool) bool { return g(l, iff, truth) || cd(l, iff, truth) }
}

// iterGated: no iteration of loop l (over the certificates) completes or returns successfully without the gate.
func (u *c13Univ) iterGated(in *c13Inst, l *loopRef) bool {
	w := u.c.W
	fi := w.Info(in.fn)
	el := desc(l.X) + "["
	if ok, _ := iterBlocked(fi, l, Mode{Kind: mErr}, u.sel(in, el)); ok && len(fi.edgesMatching(u.gate(in, el))) >= u.minEdges {
		return true
	}
	// or: every completed iteration passes helper(element, …) err == nil, and the helper succeeds only behind the gate
	il, _ := fi.mustPassBetween([]int{l.Body.Index}, map[int]bool{l.Header.Index: true})
	for _, kid := range in.kids {
		if !loopBlocks(l.Header)[kid.call.Block().Index] || !labelHas(il, "EQ("+descTailErr(kid.call)+",nil)") {
			continue
		}
		for i, a := range kid.call.Call.Args {
			if !strings.HasPrefix(desc(a), el) {
				continue
			}
			p := "param:" + kid.fn.Params[i].Name()
			kfi := w.Info(kid.fn)
			if ok, _, _ := exitsBlocked(kfi, Mode{Kind: mErr}, u.sel(kid, p), nil); ok && len(kfi.edgesMatching(u.gate(kid, p))) >= u.minEdges {
				u.c.SeenFn(kid.fn.String())
				return true
			}
		}
	}
	return false
}

// establishing: the edges (and forwarded calls) of in.fn that establish the clause.
func (u *c13Univ) establishing(in *c13Inst) (map[edgeKey]bool, map[*ssa.Call]bool) {
	if cut, ok := u.memo[in]; ok {
		return cut, u.tails[in]
	}
	w := u.c.W
	fi := w.Info(in.fn)
	cut := map[edgeKey]bool{}
	tails := map[*ssa.Call]bool{}
	if u.busy[in] {
		return cut, tails
	}
	u.busy[in] = true
	defer delete(u.busy, in)
	for _, l := range allLoops(in.fn) {
		l := l
		if in.toG(desc(l.X)) != u.certsG || !u.iterGated(in, &l) {
			continue
		}
		cutInto(fi, l.Header, cut)
		u.loops++
		u.site = w.InstrPos(blockTerm(l.Header))
		u.c.SeenFn(in.fn.String())
	}
	for _, kid := range in.kids {
		if !c13ReturnsError(kid.fn) || !u.blocked(kid) {
			continue
		}
		for e := range fi.edgesMatching(anyOf("EQ(" + descTailErr(kid.call) + ",nil)")) {
			cut[e] = true
		}
		tails[kid.call] = true
	}
	if u.cond != nil {
		for e := range fi.edgesMatching(u.cond(in)) {
			cut[e] = true
		}
	}
	u.memo[in] = cut
	u.tails[in] = tails
	return cut, tails
}

// blocked: the function cannot return successfully once its establishing edges are removed.
func (u *c13Univ) blocked(in *c13Inst) bool {
	cut, tails := u.establishing(in)
	if len(cut) == 0 && len(tails) == 0 {
		return false
	}
	fi := u.c.W.Info(in.fn)
	saved := fi.ignoreTail
	fi.ignoreTail = tails
	wit := fi.successWitness(Mode{Kind: mErr}, entryState(), cut)
	fi.ignoreTail = saved
	return wit == nil
}

// iteration: the clause holds for every completed iteration of the entries loop (in the frame of in).
func (u *c13Univ) iteration(in *c13Inst, loop *loopRef) bool {
	cut, _ := u.establishing(in)
	if u.loops == 0 {
		return false
	}
	fi := u.c.W.Info(in.fn)
	return !fi.reachHit([]state{{loop.Body.Index, 0, -1}}, cut, map[int]bool{loop.Header.Index: true})
}

func c13ReturnsError(fn *ssa.Function) bool {
	res := fn.Signature.Results()
	return res.Len() > 0 && isErrorType(res.At(res.Len()-1).Type())
}

// ---------------------------------------------------------------------------------------------------------------------
// The accumulator: the value a success exit returns, followed backwards through phis, appends (first operand) and the
// stores of a named result. Its leaves must be EMPTY (nil, or make with constant length 0 — a capacity is not content),
// so that what is returned is exactly what the appends of the family added.
// ---------------------------------------------------------------------------------------------------------------------

type c13Acc struct {
	members map[ssa.Value]bool
	appends []*ssa.Call
	bad     string
}

func c13Accumulator(v ssa.Value) *c13Acc {
	acc := &c13Acc{members: map[ssa.Value]bool{}}
	var walk func(x ssa.Value)
	walk = func(x ssa.Value) {
		if x == nil || acc.members[x] {
			return
		}
		acc.members[x] = true
		switch y := x.(type) {
		case *ssa.Phi:
			for _, e := range y.Edges {
				walk(e)
			}
		case *ssa.Const:
			if !y.IsNil() {
				acc.bad = "a constant that is not nil"
			}
		case *ssa.MakeSlice:
			k, ok := y.Len.(*ssa.Const)
			if !ok || k.Value == nil || k.Value.Kind() != constant.Int || constant.Sign(k.Value) != 0 {
				acc.bad = "a slice made with a length other than 0 (it already holds elements)"
			}
		case *ssa.Call:
			if bi, ok := y.Call.Value.(*ssa.Builtin); ok && bi.Name() == "append" && len(y.Call.Args) == 2 {
				acc.appends = append(acc.appends, y)
				walk(y.Call.Args[0])
				return
			}
			acc.bad = "the result of " + calleeName(y)
		case *ssa.UnOp:
			// a named result / spilled local: every value stored into it
			if al, ok := y.X.(*ssa.Alloc); ok && al.Referrers() != nil {
				n := 0
				for _, r := range *al.Referrers() {
					switch st := r.(type) {
					case *ssa.Store:
						if st.Addr == ssa.Value(al) {
							walk(st.Val)
							n++
						}
					case *ssa.UnOp:
					default:
						acc.bad = "a variable whose address is used otherwise"
					}
				}
				_ = n // never stored: the zero value, an empty slice
				return
			}
			acc.bad = "a value loaded from " + desc(y.X)
		default:
			acc.bad = desc(x)
		}
	}
	walk(v)
	return acc
}

// grows: every back edge of the loop hands the header a value of the family that is an append of the family with an
// accepted second operand — so each completed iteration adds that operand's elements.
func (acc *c13Acc) grows(loop *loopRef, okArg func(v ssa.Value) bool) bool {
	lb := loopBlocks(loop.Header)
	found := false
	for _, in := range loop.Header.Instrs {
		p, ok := in.(*ssa.Phi)
		if !ok || !acc.members[p] {
			continue
		}
		for i, e := range p.Edges {
			if !lb[loop.Header.Preds[i].Index] {
				continue
			}
			call, ok := e.(*ssa.Call)
			if !ok {
				return false
			}
			bi, ok := call.Call.Value.(*ssa.Builtin)
			if !ok || bi.Name() != "append" || len(call.Call.Args) != 2 || !acc.members[call.Call.Args[0]] || !okArg(call.Call.Args[1]) {
				return false
			}
			found = true
		}
	}
	return found
}
