package main

import (
	"go/constant"
	"go/token"
	"go/types"
	"strings"

	"golang.org/x/tools/go/ssa"
)

// ---------------------------------------------------------------------------------------------------------------------
// C13, second pass: the rules are decided in ONE frame — that of GetCertificates — whatever the boundaries at which the
// loading was cut into helper functions.
//
// The first version followed two fixed cuts (a "directory loader" called by GetCertificates, a "per-entry helper" called
// by the loop) and looked for every anchor call (SysPath, Lstat, ReadDir, ReadCertificateFile) in the body of one
// particular function. A driver over stage helpers (resolve the path / list the directory / load one entry / validate
// the roots) has the same behaviour and none of those positions. What the property needs is not where a statement sits
// but
//   - which facts every success exit of GetCertificates must have passed (the engine composes these through calls and
//     substitutes the callee's parameters by the caller's arguments), and
//   - which value is which: a value of a helper is rendered in the frame of GetCertificates by substituting the helper's
//     parameters by the arguments of the call chain that leads to it (c13Inst.toG), exactly as the engine does for labels.
// So an anchor call is looked for in the call tree under GetCertificates, and every comparison of renderings is made
// after translation to the root frame.
// ---------------------------------------------------------------------------------------------------------------------

// c13Inst: a function of the call tree under GetCertificates, reached through one chain of static calls.
type c13Inst struct {
	fn     *ssa.Function
	parent *c13Inst
	call   *ssa.Call // the call in parent.fn that enters fn (nil for the root)
	names  []string  // parameters of fn
	descs  []string  // the arguments they are bound to, rendered in the root's frame
	// free variables that occur in renderings of this frame — those of fn itself if it is a closure, and those of the
	// closures fn creates (facts composed from a closure carry them verbatim) — and the captured variables' values, root frame
	fnames []string
	fdescs []string
	kids   []*c13Inst
	depth  int
	// third pass: what the fields of the parameter objects of the tree stand for (shared by all instances; see c13Fields)
	fields *c13Fields
}

// toG translates a rendering (a value or a label) from the frame of this function into the frame of the root.
func (in *c13Inst) toG(d string) string {
	if in.parent != nil {
		d = substParams(d, in.names, in.descs)
	}
	if len(in.fnames) > 0 && strings.Contains(d, "free:") {
		d = c13SubstFree(d, in.fnames, in.fdescs)
	}
	if in.fields != nil {
		d = in.fields.resolve(d)
	}
	return d
}

// locals: the renderings, in the frame of this function, of the root-frame value gd — gd itself in the root, a parameter
// or a captured variable bound to it, a field of a parameter object (a struct parameter, by value or by pointer, whose
// field the call chain binds to gd) or a field of a parameter object this function builds itself.
func (in *c13Inst) locals(gd string) []string {
	var out []string
	if in.parent == nil {
		out = append(out, gd)
	}
	for i, d := range in.descs {
		if d == gd {
			out = append(out, "param:"+in.names[i])
		}
	}
	for i, d := range in.fdescs {
		if d == gd {
			out = append(out, "free:"+in.fnames[i])
		}
	}
	if in.parent != nil {
		for _, p := range in.fn.Params {
			st := c13StructOf(p.Type())
			for j := 0; st != nil && j < st.NumFields(); j++ {
				if cand := "param:" + p.Name() + "." + st.Field(j).Name(); in.toG(cand) == gd {
					out = append(out, cand)
				}
			}
		}
	}
	for _, fv := range in.fn.FreeVars {
		st := c13StructOf(fv.Type())
		for j := 0; st != nil && j < st.NumFields(); j++ {
			if cand := "free:" + fv.Name() + "." + st.Field(j).Name(); in.toG(cand) == gd {
				out = append(out, cand)
			}
		}
	}
	if in.fields != nil {
		for i, k := range in.fields.keys {
			if in.fields.owner[i] == in.fn && in.fields.descs[i] == gd {
				out = append(out, k)
			}
		}
	}
	return out
}

// c13SubstFree replaces each "free:<name>" (whole identifier) that has a binding.
func c13SubstFree(label string, names, descs []string) string {
	var sb strings.Builder
	for i := 0; i < len(label); {
		j := strings.Index(label[i:], "free:")
		if j < 0 {
			sb.WriteString(label[i:])
			break
		}
		sb.WriteString(label[i : i+j])
		k := i + j + len("free:")
		e := k
		for e < len(label) && (label[e] == '_' || label[e] >= '0' && label[e] <= '9' || label[e] >= 'a' && label[e] <= 'z' || label[e] >= 'A' && label[e] <= 'Z') {
			e++
		}
		repl := label[i+j : e]
		for n := range names {
			if names[n] == label[k:e] {
				repl = descs[n]
			}
		}
		sb.WriteString(repl)
		i = e
	}
	return trunc(sb.String(), 1500)
}

// bindFrees records, for a closure created by mc in the frame of `maker`, what its free variables stand for.
// A captured variable is rendered by the one value stored into it (desc does that for a variable that is stored once and
// only read by closures); the rendering is used only if that store happens before the closure exists — otherwise the
// closure could see the variable before it holds that value — and a name bound to two different values is dropped.
func (in *c13Inst) bindFrees(w *World, mc *ssa.MakeClosure, maker *c13Inst) {
	fn, ok := mc.Fn.(*ssa.Function)
	if !ok {
		return
	}
	for k, b := range mc.Bindings {
		if k >= len(fn.FreeVars) {
			break
		}
		if al, isAlloc := b.(*ssa.Alloc); isAlloc {
			if vals, rets := c13StructLocal(w, al); singleStore(al) == nil && vals != nil && len(rets) == 0 {
				// a captured parameter object: its fields are resolved by c13Fields (which also requires every field write to
				// happen before the closure is made)
				in.bindFree(fn.FreeVars[k].Name(), maker.toG(desc(b)))
				continue
			}
			if singleStore(al) == nil {
				continue
			}
			before := false
			for _, r := range *al.Referrers() {
				if st, isSt := r.(*ssa.Store); isSt && st.Addr == ssa.Value(al) {
					before = st.Block() == mc.Block() && instrIndex(st) < instrIndex(mc) || st.Block() != mc.Block() && st.Block().Dominates(mc.Block())
				}
			}
			if !before {
				continue
			}
		}
		in.bindFree(fn.FreeVars[k].Name(), maker.toG(desc(b)))
	}
}

func (in *c13Inst) bindFree(name, d string) {
	for i, n := range in.fnames {
		if n == name {
			if in.fdescs[i] != d {
				in.fdescs[i] = "free?:" + name
			}
			return
		}
	}
	in.fnames = append(in.fnames, name)
	in.fdescs = append(in.fdescs, d)
}

// closuresMadeIn: the MakeClosure instructions of fn.
func closuresMadeIn(fn *ssa.Function) []*ssa.MakeClosure {
	var out []*ssa.MakeClosure
	for _, b := range fn.Blocks {
		for _, x := range b.Instrs {
			if mc, ok := x.(*ssa.MakeClosure); ok {
				out = append(out, mc)
			}
		}
	}
	return out
}

// under: a is this instance or one of its callers.
func (in *c13Inst) under(a *c13Inst) bool {
	for x := in; x != nil; x = x.parent {
		if x == a {
			return true
		}
	}
	return false
}

// path: the call chain from the root to this instance.
func (in *c13Inst) path() []*c13Inst {
	var out []*c13Inst
	for x := in; x != nil; x = x.parent {
		out = append([]*c13Inst{x}, out...)
	}
	return out
}

// c13Tree: the static call tree of module functions under root (bounded; recursion is not unfolded).
func c13Tree(w *World, root *ssa.Function) (*c13Inst, []*c13Inst) {
	r := &c13Inst{fn: root}
	for _, mc := range closuresMadeIn(root) {
		r.bindFrees(w, mc, r)
	}
	all := []*c13Inst{r}
	var rec func(in *c13Inst)
	rec = func(in *c13Inst) {
		if in.depth >= 5 {
			return
		}
		for _, ci := range allCalls(in.fn) {
			call, ok := ci.(*ssa.Call)
			if !ok || len(all) > 200 {
				continue
			}
			g := staticCallee(call)
			if g == nil || g.Blocks == nil || !w.IsProductFn(g) || len(g.Params) != len(call.Call.Args) {
				continue
			}
			cyc := false
			for a := in; a != nil; a = a.parent {
				if a.fn == g {
					cyc = true
				}
			}
			if cyc {
				continue
			}
			kid := &c13Inst{fn: g, parent: in, call: call, depth: in.depth + 1}
			for i, p := range g.Params {
				kid.names = append(kid.names, p.Name())
				kid.descs = append(kid.descs, in.toG(desc(call.Call.Args[i])))
			}
			// a closure called where it was made: its own captured variables, seen from the maker's frame
			if mc, ok := call.Call.Value.(*ssa.MakeClosure); ok {
				kid.bindFrees(w, mc, in)
			}
			for _, mc := range closuresMadeIn(g) {
				kid.bindFrees(w, mc, kid)
			}
			in.kids = append(in.kids, kid)
			all = append(all, kid)
		}
		for _, k := range in.kids {
			rec(k)
		}
	}
	rec(r)
	fields := c13FieldsOf(w, all)
	for _, in := range all {
		in.fields = fields
		// the bindings were rendered before the table existed
		for i := range in.descs {
			in.descs[i] = fields.resolve(in.descs[i])
		}
		for i := range in.fdescs {
			in.fdescs[i] = fields.resolve(in.fdescs[i])
		}
	}
	return r, all
}

type c13Site struct {
	in   *c13Inst
	call *ssa.Call
}

// c13Sites: the calls of the named functions anywhere in the tree.
func c13Sites(all []*c13Inst, names ...string) []c13Site {
	var out []c13Site
	for _, in := range all {
		for _, ci := range findCalls(in.fn, names...) {
			if call, ok := ci.(*ssa.Call); ok {
				out = append(out, c13Site{in, call})
			}
		}
	}
	return out
}

// c13Level: the facts of every success exit of one function of the chain GetCertificates → … → the function that
// accumulates the result, translated to the root frame. A fact that holds on every success exit of a function of that
// chain holds on every success exit of GetCertificates, because each link of the chain is checked separately
// (exact-set/returned-from-loader: the caller succeeds only if the callee does, and returns what it returned).
type c13Level struct {
	in    *c13Inst
	sum   *Summary
	exits []map[string]string
}

func c13LevelOf(c *Ctx, in *c13Inst) *c13Level {
	lv := &c13Level{in: in, sum: c.W.Summarize(in.fn, Mode{Kind: mErr})}
	c.Evals += lv.sum.States
	for _, ex := range lv.sum.Exits {
		m := map[string]string{}
		for l, s := range ex.Checked {
			m[in.toG(l)] = s
		}
		lv.exits = append(lv.exits, m)
	}
	return lv
}

// has: every success exit carries a fact containing all subs.
func (lv *c13Level) has(subs ...string) bool {
	if len(lv.exits) == 0 {
		return false
	}
	for _, m := range lv.exits {
		if !c13HasLabel(m, subs...) {
			return false
		}
	}
	return true
}

// every: pred holds for the facts of every success exit.
func (lv *c13Level) every(pred func(m map[string]string) bool) bool {
	if len(lv.exits) == 0 {
		return false
	}
	for _, m := range lv.exits {
		if !pred(m) {
			return false
		}
	}
	return true
}

// ---------------------------------------------------------------------------------------------------------------------
// "Every certificate of the file passed the gate" — decided on the call tree.
//
// In a function of the tree an edge ESTABLISHES the clause if it can only be taken after a loop over all elements of the
// certificates was entered whose every completed iteration passes the gate:
//   (a) the edges into the header of such a loop in this function (the loop leaves through its exit edge only when the
//       elements are exhausted; an iteration neither completes nor returns successfully without the gate — iterBlocked;
//       the gate may be delegated to a per-element helper whose success exits all lie behind the gate);
//   (b) the edge `helper(…) err == nil` (and the exit `return helper(…)`) for a callee of the tree that receives the
//       certificates and cannot succeed once ITS establishing edges are removed (the same definition, one level down);
//   (c) for a clause that applies under a condition only (tsa stores): the edges on which the condition is false.
// The clause holds for an entry if, with the establishing edges of the entry's scope removed, the iteration of the
// entries loop cannot complete. This is the same cut argument as before; what is new is that (b) is recursive and can be
// combined with (c), so `if type == tsa { if err := validateRoots(certs); err != nil { return } }`, the loop inline, the
// whole per-entry processing in a helper, or the type test inside the per-certificate loop are all one rule.
// ---------------------------------------------------------------------------------------------------------------------

type c13Univ struct {
	c        *Ctx
	certsG   string                               // the certificates of one file, root frame
	gate     func(in *c13Inst, el string) EdgeSel // el: rendering (frame of in) of one element, or its prefix "<slice>["
	cond     func(in *c13Inst) EdgeSel            // edges on which the clause does not apply (nil: none)
	minEdges int                                  // the gate consists of at least that many edges
	memo     map[*c13Inst]map[edgeKey]bool        // establishing edges per instance
	tails    map[*c13Inst]map[*ssa.Call]bool      // established tail calls per instance
	busy     map[*c13Inst]bool
	loops    int    // qualifying loops met (vacuity)
	site     string // where the (last) qualifying loop is
	early    string // a loop over the certificates that an iteration can leave successfully
}

// gateCut: the edges of in.fn that establish the gate for the element(s) el — by their label, or because a module
// predicate that decides them answers so only behind the gate (fourth pass, c13GateCut) — plus the edges on which the
// clause does not apply. n counts the gate's elementary facts only.
func (u *c13Univ) gateCut(in *c13Inst, el string) c13Gate {
	gc := c13GateCut(u.c.W, in.fn, u.gate(in, el), c13GateDepth, nil)
	if u.cond != nil {
		for e := range u.c.W.Info(in.fn).edgesMatching(u.cond(in)) {
			gc.cut[e] = true
		}
	}
	return gc
}

// c13ElemPrefix: how the element of the current iteration of a loop over a slice is rendered: "<slice>[@<index>]" with the
// loop's own induction value (fourth pass: `certs[len(certs)-1]` or the element of another loop over the same slice is
// not "the certificate of this iteration"); "<slice>[" when the loop has no recognisable index.
func c13ElemPrefix(l *loopRef) string {
	if l.Idx != nil {
		if _, isConst := l.Idx.(*ssa.Const); !isConst {
			return desc(l.X) + "[" + descIndex(l.Idx) + "]"
		}
	}
	return desc(l.X) + "["
}

// iterGated: no iteration of loop l (over the certificates) completes or returns successfully without the gate.
func (u *c13Univ) iterGated(in *c13Inst, l *loopRef) bool {
	w := u.c.W
	fi := w.Info(in.fn)
	el := c13ElemPrefix(l)
	// An iteration ends by failing or by going on to the next element, never by succeeding: a successful return (or a
	// break that leads to one) from inside the loop — even behind the gate for THIS element, `if cert.IsCA { return nil }`
	// — leaves the remaining certificates of the file unjudged (seeded change C03-6).
	if c13ReturnsError(in.fn) && fi.successWitness(Mode{Kind: mErr}, []state{{l.Body.Index, 0, -1}}, backEdges(l.Header)) != nil {
		u.early = w.InstrPos(blockTerm(l.Header))
		return false
	}
	if gc := u.gateCut(in, el); gc.n >= u.minEdges && !fi.reachHit([]state{{l.Body.Index, 0, -1}}, gc.cut, map[int]bool{l.Header.Index: true}) &&
		c13Witness(fi, []state{{l.Body.Index, 0, -1}}, gc, backEdges(l.Header)) == nil {
		return true
	}
	// or: every completed iteration passes helper(element, …) err == nil, and the helper succeeds only behind the gate
	il, _ := fi.mustPassBetween([]int{l.Body.Index}, map[int]bool{l.Header.Index: true})
	for _, kid := range in.kids {
		if !loopBlocks(l.Header)[kid.call.Block().Index] || !labelHas(il, "EQ("+descTailErr(kid.call)+",nil)") {
			continue
		}
		for i, a := range kid.call.Call.Args {
			if !strings.HasPrefix(desc(a), el) {
				continue
			}
			p := "param:" + kid.fn.Params[i].Name()
			kfi := w.Info(kid.fn)
			if kgc := u.gateCut(kid, p); kgc.n >= u.minEdges && c13Witness(kfi, entryState(), kgc) == nil {
				u.c.SeenFn(kid.fn.String())
				return true
			}
		}
	}
	return false
}

// establishing: the edges (and forwarded calls) of in.fn that establish the clause.
func (u *c13Univ) establishing(in *c13Inst) (map[edgeKey]bool, map[*ssa.Call]bool) {
	if cut, ok := u.memo[in]; ok {
		return cut, u.tails[in]
	}
	w := u.c.W
	fi := w.Info(in.fn)
	cut := map[edgeKey]bool{}
	tails := map[*ssa.Call]bool{}
	if u.busy[in] {
		return cut, tails
	}
	u.busy[in] = true
	defer delete(u.busy, in)
	for _, l := range allLoops(in.fn) {
		l := l
		if in.toG(desc(l.X)) != u.certsG || !u.iterGated(in, &l) {
			continue
		}
		cutInto(fi, l.Header, cut)
		u.loops++
		u.site = w.InstrPos(blockTerm(l.Header))
		u.c.SeenFn(in.fn.String())
	}
	for _, kid := range in.kids {
		if !c13ReturnsError(kid.fn) || !u.blocked(kid) {
			continue
		}
		for e := range fi.edgesMatching(anyOf("EQ(" + descTailErr(kid.call) + ",nil)")) {
			cut[e] = true
		}
		tails[kid.call] = true
	}
	if u.cond != nil {
		for e := range fi.edgesMatching(u.cond(in)) {
			cut[e] = true
		}
	}
	u.memo[in] = cut
	u.tails[in] = tails
	return cut, tails
}

// blocked: the function cannot return successfully once its establishing edges are removed.
func (u *c13Univ) blocked(in *c13Inst) bool {
	cut, tails := u.establishing(in)
	if len(cut) == 0 && len(tails) == 0 {
		return false
	}
	fi := u.c.W.Info(in.fn)
	saved := fi.ignoreTail
	fi.ignoreTail = tails
	wit := fi.successWitness(Mode{Kind: mErr}, entryState(), cut)
	fi.ignoreTail = saved
	return wit == nil
}

// iteration: the clause holds for every completed iteration of the entries loop (in the frame of in).
func (u *c13Univ) iteration(in *c13Inst, loop *loopRef) bool {
	cut, _ := u.establishing(in)
	if u.loops == 0 {
		return false
	}
	fi := u.c.W.Info(in.fn)
	return !fi.reachHit([]state{{loop.Body.Index, 0, -1}}, cut, map[int]bool{loop.Header.Index: true})
}

func c13ReturnsError(fn *ssa.Function) bool {
	res := fn.Signature.Results()
	return res.Len() > 0 && isErrorType(res.At(res.Len()-1).Type())
}

// ---------------------------------------------------------------------------------------------------------------------
// The accumulator: the value a success exit returns, followed backwards through phis, appends (first operand) and the
// stores of a named result. Its leaves must be EMPTY (nil, or make with constant length 0 — a capacity is not content),
// so that what is returned is exactly what the appends of the family added.
// ---------------------------------------------------------------------------------------------------------------------

type c13Acc struct {
	members map[ssa.Value]bool
	appends []*ssa.Call
	bad     string
}

func c13Accumulator(v ssa.Value) *c13Acc {
	acc := &c13Acc{members: map[ssa.Value]bool{}}
	var walk func(x ssa.Value)
	walk = func(x ssa.Value) {
		if x == nil || acc.members[x] {
			return
		}
		acc.members[x] = true
		switch y := x.(type) {
		case *ssa.Phi:
			for _, e := range y.Edges {
				walk(e)
			}
		case *ssa.Const:
			if !y.IsNil() {
				acc.bad = "a constant that is not nil"
			}
		case *ssa.MakeSlice:
			k, ok := y.Len.(*ssa.Const)
			if !ok || k.Value == nil || k.Value.Kind() != constant.Int || constant.Sign(k.Value) != 0 {
				acc.bad = "a slice made with a length other than 0 (it already holds elements)"
			}
		case *ssa.Call:
			if bi, ok := y.Call.Value.(*ssa.Builtin); ok && bi.Name() == "append" && len(y.Call.Args) == 2 {
				acc.appends = append(acc.appends, y)
				walk(y.Call.Args[0])
				return
			}
			acc.bad = "the result of " + calleeName(y)
		case *ssa.UnOp:
			// a named result / spilled local: every value stored into it
			if al, ok := y.X.(*ssa.Alloc); ok && al.Referrers() != nil {
				n := 0
				for _, r := range *al.Referrers() {
					switch st := r.(type) {
					case *ssa.Store:
						if st.Addr == ssa.Value(al) {
							walk(st.Val)
							n++
						}
					case *ssa.UnOp:
					default:
						acc.bad = "a variable whose address is used otherwise"
					}
				}
				_ = n // never stored: the zero value, an empty slice
				return
			}
			acc.bad = "a value loaded from " + desc(y.X)
		default:
			acc.bad = desc(x)
		}
	}
	walk(v)
	return acc
}

// grows: every back edge of the loop hands the header a value of the family that carries the certificates of the entry
// of that iteration (c13Acc.grown: a bulk append, an exhausted element-wise inner loop, or a merge of those) — so each
// completed iteration adds that entry's certificates.
func (acc *c13Acc) grows(fn *ssa.Function, loop *loopRef, isCerts func(v ssa.Value) bool) bool {
	lb := loopBlocks(loop.Header)
	found := false
	for _, in := range loop.Header.Instrs {
		p, ok := in.(*ssa.Phi)
		if !ok || !acc.members[p] {
			continue
		}
		for i, e := range p.Edges {
			if !lb[loop.Header.Preds[i].Index] {
				continue
			}
			if !acc.grown(fn, loop, e, isCerts, 0) {
				return false
			}
			found = true
		}
	}
	return found
}

// ---------------------------------------------------------------------------------------------------------------------
// C13, third pass (1): PARAMETER OBJECTS. The store identity (type, name) may travel through the call tree as the fields
// of a struct — built once from the two parameters and handed to the helpers by value, by pointer or as a method
// receiver — instead of as two loose arguments. The engine renders a field read of such an object as
// "alloc:T<n>.f" (frame of the function that owns the local; a helper's `param:p.f` becomes that after the parameter is
// substituted by the call's argument). The rules are about VALUES, so that rendering is resolved to the rendering of the
// one value the field holds. This is sound only under the conditions c13StructLocal checks: the field is written exactly
// once, that write happens before anything reads the object (so no reader can see the zero value or an earlier content),
// the object's address goes nowhere but to module functions that only read it, and the rendering names one object only
// (a second local of the same type and name anywhere in the tree makes it ambiguous and is not resolved). A field that
// does not qualify keeps its "alloc:" rendering, which no rule accepts — the alarm stays.
// ---------------------------------------------------------------------------------------------------------------------

type c13Fields struct {
	keys  []string        // "alloc:T<n>.f"
	descs []string        // what the field holds, root frame
	owner []*ssa.Function // the function the object is a local of
}

func c13IdentByte(b byte) bool {
	return b == '_' || b >= '0' && b <= '9' || b >= 'a' && b <= 'z' || b >= 'A' && b <= 'Z'
}

// resolve replaces every whole occurrence of a key (not followed by more of an identifier) by what the field holds.
func (f *c13Fields) resolve(d string) string {
	if len(f.keys) == 0 || !strings.Contains(d, "alloc:") {
		return d
	}
	for round := 0; round < 2; round++ {
		changed := false
		for i, k := range f.keys {
			for from := 0; ; {
				j := strings.Index(d[from:], k)
				if j < 0 {
					break
				}
				j += from
				if e := j + len(k); e < len(d) && c13IdentByte(d[e]) {
					from = e
					continue
				}
				d = d[:j] + f.descs[i] + d[j+len(k):]
				from = j + len(f.descs[i])
				changed = true
			}
		}
		if !changed {
			break
		}
	}
	return trunc(d, 1500)
}

// c13StructOf: the struct behind a (pointer to a) struct type, nil otherwise.
func c13StructOf(t types.Type) *types.Struct {
	u := t.Underlying()
	if p, ok := u.(*types.Pointer); ok {
		u = p.Elem().Underlying()
	}
	st, _ := u.(*types.Struct)
	return st
}

// c13Before: instruction a is executed before b on every path that reaches b.
func c13Before(a, b ssa.Instruction) bool {
	if a.Block() == b.Block() {
		return instrIndex(a) < instrIndex(b)
	}
	return a.Block().Dominates(b.Block())
}

// c13ReadOnlyParam: the function only reads through the pointer it receives (field reads, whole loads, nil tests, or
// handing it on to a module function that only reads through it).
func c13ReadOnlyParam(w *World, p ssa.Value, depth int) bool {
	if depth > 3 {
		return false
	}
	if p.Referrers() == nil {
		return true
	}
	for _, r := range *p.Referrers() {
		switch x := r.(type) {
		case *ssa.FieldAddr:
			if addrWritten(x, 0) {
				return false
			}
		case *ssa.UnOp, *ssa.DebugRef, *ssa.BinOp:
		case *ssa.Call:
			g := staticCallee(x)
			if g == nil || g.Blocks == nil || !w.IsProductFn(g) || len(g.Params) != len(x.Call.Args) || x.Call.Value == p {
				return false
			}
			for i, a := range x.Call.Args {
				if a == p && !c13ReadOnlyParam(w, g.Params[i], depth+1) {
					return false
				}
			}
		default:
			return false
		}
	}
	return true
}

// c13StructLocal: for a struct local that is a write-once parameter object, the one value each written field holds
// (nil if the local cannot be followed), and the returns that hand its address to the caller (a constructor: the caller
// of c13StructLocal then has to check what the callers of the constructor do with it).
func c13StructLocal(w *World, al *ssa.Alloc) (map[int]ssa.Value, []*ssa.Return) {
	vals, rets := c13StructLocal1(w, al)
	if vals == nil {
		return nil, nil
	}
	return vals, rets
}

func c13StructLocal1(w *World, al *ssa.Alloc) (map[int]ssa.Value, []*ssa.Return) {
	pt, ok := al.Type().Underlying().(*types.Pointer)
	if !ok || al.Referrers() == nil {
		return nil, nil
	}
	if _, ok := pt.Elem().Underlying().(*types.Struct); !ok {
		return nil, nil
	}
	stores := map[int]*ssa.Store{}
	var reads []ssa.Instruction
	var rets []*ssa.Return
	for _, r := range *al.Referrers() {
		switch x := r.(type) {
		case *ssa.FieldAddr:
			if x.Referrers() == nil {
				continue
			}
			for _, rr := range *x.Referrers() {
				switch y := rr.(type) {
				case *ssa.Store:
					if y.Addr != ssa.Value(x) || stores[x.Field] != nil {
						return nil, nil // the field's address is stored somewhere, or the field is written twice
					}
					stores[x.Field] = y
				case *ssa.UnOp:
					reads = append(reads, y)
				case *ssa.DebugRef:
				case *ssa.FieldAddr:
					if addrWritten(y, 0) {
						return nil, nil
					}
					reads = append(reads, y)
				case *ssa.IndexAddr:
					if addrWritten(y, 0) {
						return nil, nil
					}
					reads = append(reads, y)
				default:
					return nil, nil
				}
			}
		case *ssa.UnOp:
			reads = append(reads, x)
		case *ssa.DebugRef:
		case *ssa.Call:
			g := staticCallee(x)
			if g == nil || g.Blocks == nil || !w.IsProductFn(g) || len(g.Params) != len(x.Call.Args) || x.Call.Value == ssa.Value(al) {
				return nil, nil
			}
			for i, a := range x.Call.Args {
				if a == ssa.Value(al) && !c13ReadOnlyParam(w, g.Params[i], 0) {
					return nil, nil
				}
			}
			reads = append(reads, x)
		case *ssa.Return:
			rets = append(rets, x)
			reads = append(reads, x)
		case *ssa.MakeClosure:
			if closureWrites(x, al, 0) {
				return nil, nil
			}
			reads = append(reads, x)
		default:
			return nil, nil // a whole-object store, an escape
		}
	}
	out := map[int]ssa.Value{}
	for f, st := range stores {
		for _, rd := range reads {
			if !c13Before(st, rd) {
				return nil, nil
			}
		}
		out[f] = st.Val
	}
	if len(out) == 0 {
		return nil, nil
	}
	return out, rets
}

// c13AllocsOf: the locals and the heap cells of a function.
func c13AllocsOf(fn *ssa.Function) []*ssa.Alloc {
	out := append([]*ssa.Alloc(nil), fn.Locals...)
	for _, b := range fn.Blocks {
		for _, x := range b.Instrs {
			if al, ok := x.(*ssa.Alloc); ok && al.Heap {
				out = append(out, al)
			}
		}
	}
	return out
}

// c13ResultOnlyRead: every call of the constructor in the functions of the tree uses the object it gets only for reading
// (each call makes a fresh object, so the one a rule meets came from one of these calls and was written by the
// constructor only, before it returned).
func c13ResultOnlyRead(w *World, all []*c13Inst, ctor *ssa.Function) bool {
	seen := map[*ssa.Function]bool{}
	for _, in := range all {
		if seen[in.fn] {
			continue
		}
		seen[in.fn] = true
		for _, ci := range allCalls(in.fn) {
			if staticCallee(ci) != ctor {
				continue
			}
			call, ok := ci.(*ssa.Call)
			if !ok || !c13ReadOnlyParam(w, call, 0) {
				return false
			}
		}
	}
	return true
}

func c13FieldsOf(w *World, all []*c13Inst) *c13Fields {
	f := &c13Fields{}
	// how many objects of the tree each rendering names
	count := map[string]int{}
	seen := map[*ssa.Function]bool{}
	for _, in := range all {
		if seen[in.fn] {
			continue
		}
		seen[in.fn] = true
		for _, al := range c13AllocsOf(in.fn) {
			if d := desc(al); strings.HasPrefix(d, "alloc:") {
				count[d]++
			}
		}
	}
	drop := map[string]bool{}
	for _, in := range all {
		for _, al := range c13AllocsOf(in.fn) {
			base := desc(al)
			if !strings.HasPrefix(base, "alloc:") || count[base] != 1 {
				continue
			}
			vals, rets := c13StructLocal(w, al)
			if len(rets) > 0 && !c13ResultOnlyRead(w, all, in.fn) {
				continue
			}
			for fld, v := range vals {
				k, d := base+"."+fieldName(al.Type(), fld), in.toG(desc(v))
				dup := false
				for i := range f.keys {
					if f.keys[i] == k {
						dup = true
						if f.descs[i] != d {
							drop[k] = true // the owner is reached through two call chains that bind the value differently
						}
					}
				}
				if !dup {
					f.keys, f.descs, f.owner = append(f.keys, k), append(f.descs, d), append(f.owner, in.fn)
				}
			}
		}
	}
	out := &c13Fields{}
	for i, k := range f.keys {
		if !drop[k] && !strings.Contains(f.descs[i], k) {
			out.keys, out.descs, out.owner = append(out.keys, k), append(out.descs, f.descs[i]), append(out.owner, f.owner[i])
		}
	}
	return out
}

// ---------------------------------------------------------------------------------------------------------------------
// C13, third pass (2): the certificates of an entry may be added to the result ONE BY ONE — `for _, c := range certs {
// …; result = append(result, c) }` — instead of in bulk (`append(result, certs...)`), on some or on all branches of the
// iteration.
//   - "only from this store's files": an element of the certificates of the entry comes from the same file as the whole
//     slice does, so `append(result, certs[i])` has an accepted source (c13ElemOf).
//   - "every completed iteration adds the certificates of its entry" (needed when the emptiness test is made on the
//     listing): the value the iteration hands back to the header of the entries loop is
//       (a) append(<family>, certs...), or
//       (b) the accumulator phi of an inner loop over ALL of certs (range, or an index loop from 0 in steps of 1) whose
//           every back edge hands back append(<that phi>, certs[<the loop's index>]) and whose body cannot get back to
//           the entries loop except through the inner header — so the value seen on the way out is the one of the
//           exhausted loop: every element appended (and there is at least one: entry/at-least-one-certificate), or
//       (c) a merge of such values (if/else instead of continue).
// ---------------------------------------------------------------------------------------------------------------------

// c13ElemOf: v is `x[i]` read from a slice — returns the slice and the index (nil, nil otherwise).
func c13ElemOf(v ssa.Value) (ssa.Value, ssa.Value) {
	switch y := v.(type) {
	case *ssa.UnOp:
		if ia, ok := y.X.(*ssa.IndexAddr); ok && y.Op == token.MUL {
			return ia.X, ia.Index
		}
	case *ssa.Index:
		return y.X, y.Index
	}
	return nil, nil
}

// c13VarArgs: the explicit elements of a non-spread append (`append(s, a, b)`), nil for `append(s, x...)`.
func c13VarArgs(v ssa.Value) []ssa.Value {
	sl, ok := v.(*ssa.Slice)
	if !ok || sl.Low != nil || sl.High != nil {
		return nil
	}
	al, ok := sl.X.(*ssa.Alloc)
	if !ok || al.Comment != "varargs" {
		return nil
	}
	return orderedLitElems(al)
}

// c13ElemsOfCerts: the second operand of an append consists of elements of the certificates of the entry.
func c13ElemsOfCerts(v ssa.Value, isCerts func(ssa.Value) bool) bool {
	els := c13VarArgs(v)
	for _, e := range els {
		if x, _ := c13ElemOf(e); x == nil || !isCerts(x) {
			return false
		}
	}
	return len(els) > 0
}

func c13IsAppend(v ssa.Value) *ssa.Call {
	call, ok := v.(*ssa.Call)
	if !ok {
		return nil
	}
	if bi, ok := call.Call.Value.(*ssa.Builtin); !ok || bi.Name() != "append" || len(call.Call.Args) != 2 {
		return nil
	}
	return call
}

// c13CountsFromFirst: the loop visits every index from the first on: a range loop, or `for i := 0; i < len(x); i++`.
func c13CountsFromFirst(l *loopRef) bool {
	if strings.HasPrefix(l.Header.Comment, "rangeindex.loop") {
		return true
	}
	p, ok := l.Idx.(*ssa.Phi)
	if !ok || p.Block() != l.Header {
		return false
	}
	lb := loopBlocks(l.Header)
	for i, e := range p.Edges {
		if lb[l.Header.Preds[i].Index] {
			bo, ok := e.(*ssa.BinOp)
			if !ok || bo.Op != token.ADD || bo.X != ssa.Value(p) {
				return false
			}
			if k, ok := bo.Y.(*ssa.Const); !ok || k.Value == nil || constString(k) != "1" {
				return false
			}
		} else if k, ok := e.(*ssa.Const); !ok || k.Value == nil || constString(k) != "0" {
			return false
		}
	}
	return true
}

// c13Reaches: block `to` is reachable from `from` in the control-flow graph without entering `avoid`.
func c13Reaches(from, to, avoid *ssa.BasicBlock) bool {
	seen := map[int]bool{}
	stack := []*ssa.BasicBlock{from}
	for len(stack) > 0 {
		b := stack[len(stack)-1]
		stack = stack[:len(stack)-1]
		if b == avoid || seen[b.Index] {
			continue
		}
		if b == to {
			return true
		}
		seen[b.Index] = true
		stack = append(stack, b.Succs...)
	}
	return false
}

// grown: the value carries the certificates of the entry of this iteration (see above).
func (acc *c13Acc) grown(fn *ssa.Function, outer *loopRef, v ssa.Value, isCerts func(ssa.Value) bool, depth int) bool {
	if call := c13IsAppend(v); call != nil {
		return acc.members[call.Call.Args[0]] && isCerts(call.Call.Args[1])
	}
	p, ok := v.(*ssa.Phi)
	if !ok || depth > 3 || !acc.members[p] || p.Block() == outer.Header || !loopBlocks(outer.Header)[p.Block().Index] {
		return false
	}
	for _, l := range allLoops(fn) {
		l := l
		if l.Header != p.Block() {
			continue
		}
		// (b) the accumulator of an inner loop over all the certificates
		if !isCerts(l.X) || !c13CountsFromFirst(&l) || c13Reaches(l.Body, outer.Header, l.Header) {
			return false
		}
		lb := loopBlocks(l.Header)
		back := 0
		for i, e := range p.Edges {
			if !lb[l.Header.Preds[i].Index] {
				if !acc.members[e] {
					return false
				}
				continue
			}
			call := c13IsAppend(e)
			if call == nil || call.Call.Args[0] != ssa.Value(p) {
				return false
			}
			els := c13VarArgs(call.Call.Args[1])
			if len(els) != 1 {
				return false
			}
			if x, idx := c13ElemOf(els[0]); x == nil || !isCerts(x) || idx != l.Idx {
				return false
			}
			back++
		}
		return back > 0
	}
	// (c) a merge inside the iteration
	if lb := loopBlocks(p.Block()); len(lb) > 1 || len(p.Edges) == 0 {
		return false // the header of some other loop
	}
	for _, e := range p.Edges {
		if !acc.grown(fn, outer, e, isCerts, depth+1) {
			return false
		}
	}
	return true
}

// ---------------------------------------------------------------------------------------------------------------------
// C13, fourth pass: THE DECISION OF A GATE MAY BE MADE BY A MODULE PREDICATE. "Every certificate is a CA or self-signed"
// was recognised by the two edges `cert.IsCA` true / `cert.CheckSignature(…) err == nil` in the body of the loop (or of a
// per-element helper with an error result). The same decision can be taken one level down without any of those edges
// being in the loop: `if cert.IsCA || isSelfSigned(cert) { continue }` with `isSelfSigned(c) bool { return
// c.CheckSignature(…) == nil }`, the whole disjunction in `acceptable(c) bool`, the negation in `rejected(c) bool`, or a
// helper with an error result for one of the alternatives only.
//
// Rule: an edge of a function establishes the gate if
//   (1) its canonical label is one of the accepted facts (as before), or
//   (2) it is decided by an outcome of a call of a module function (`helper(…)` true / false, `helper(…) err == nil`,
//       `v, ok := helper(…)` ok true / false) and — in the helper, labels translated to the caller's frame by substituting
//       the parameters by the arguments of THAT call — the outcome cannot be produced once the establishing edges of the
//       helper (the same definition, one level down) are removed, where an exit that hands back a boolean that IS an
//       accepted fact (`return c.CheckSignature(…) == nil`, or the call of a further module predicate that qualifies)
//       produces the outcome only if the fact holds.
// Soundness: if the helper can produce the outcome only along paths on which an accepted fact about the caller's
// argument holds, then passing the caller's edge that tests for the outcome implies an accepted fact: the decision was
// moved, not dropped. The substitution binds the fact to the value the caller passes, so a predicate asked about another
// certificate (or about a constant) does not qualify; a helper with no gate edge never qualifies (n > 0); recursion is
// bounded and a function is never re-entered.
// This is the composition extra_c09.go makes for its gates (c09GateCut), restated here so that C13 does not depend on
// another property's file.
// ---------------------------------------------------------------------------------------------------------------------

// c13Outcome names the outcomes of a helper that an edge of the caller stands for.
type c13Outcome struct {
	errNil bool // the error result is nil (when the helper has one)
	k      int  // >= 0: boolean result k equals want
	want   bool
}

// c13Gate: the establishing edges of one function.
type c13Gate struct {
	cut   map[edgeKey]bool   // edges on which an accepted fact holds
	tails map[*ssa.Call]bool // forwarded calls (`return helper(…)`) whose own success needs an accepted fact
	n     int                // elementary facts found (in the function and in the helpers it relies on)
}

const c13GateDepth = 3

// c13EdgeOutcome: the value `cond == truth` is decided by the result of a call of a module function: which call, and
// which outcomes of the callee make it so.
func c13EdgeOutcome(w *World, cond ssa.Value, truth bool) (*ssa.Call, c13Outcome, bool) {
	for {
		u, ok := cond.(*ssa.UnOp)
		if !ok || u.Op != token.NOT {
			break
		}
		cond, truth = u.X, !truth
	}
	usable := func(c *ssa.Call) bool {
		g := staticCallee(c)
		return g != nil && g.Blocks != nil && w.IsProductFn(g) && len(c.Call.Args) == len(g.Params)
	}
	isBool := func(t types.Type) bool {
		b, ok := t.Underlying().(*types.Basic)
		return ok && b.Kind() == types.Bool
	}
	switch x := cond.(type) {
	case *ssa.BinOp:
		var o ssa.Value
		if isNilConst(x.Y) {
			o = x.X
		} else if isNilConst(x.X) {
			o = x.Y
		} else {
			return nil, c13Outcome{}, false
		}
		isNil := (x.Op == token.EQL && truth) || (x.Op == token.NEQ && !truth)
		if !isNil || !isErrorType(o.Type()) {
			return nil, c13Outcome{}, false
		}
		if c := callOf(o); c != nil && usable(c) {
			return c, c13Outcome{errNil: true, k: -1}, true
		}
	case *ssa.Call:
		if isBool(x.Type()) && usable(x) {
			return x, c13Outcome{k: 0, want: truth}, true
		}
	case *ssa.Extract:
		if c, ok := x.Tuple.(*ssa.Call); ok && isBool(x.Type()) && usable(c) {
			return c, c13Outcome{errNil: c13ReturnsError(staticCallee(c)), k: x.Index, want: truth}, true
		}
	}
	return nil, c13Outcome{}, false
}

// c13FrameSel hands the selection the labels of the callee translated into the caller's frame.
func c13FrameSel(c *ssa.Call, sel EdgeSel) EdgeSel {
	g := staticCallee(c)
	names := make([]string, len(g.Params))
	descs := make([]string, len(g.Params))
	for i, p := range g.Params {
		names[i] = p.Name()
		descs[i] = desc(c.Call.Args[i])
	}
	return func(l string, iff *ssa.If, truth bool) bool { return sel(substParams(l, names, descs), iff, truth) }
}

// c13SelLabel: the selection accepts the label or its symmetric spelling.
func c13SelLabel(sel EdgeSel, l string, iff *ssa.If, truth bool) bool {
	if sel(l, iff, truth) {
		return true
	}
	tw, ok := labelTwin(l)
	return ok && sel(tw, iff, truth)
}

// c13OutcomeBlocked: the number of elementary facts behind the outcome cl of the call c if the callee can produce that
// outcome only through establishing edges (0: it can produce it otherwise, or it has no gate at all).
func c13OutcomeBlocked(w *World, c *ssa.Call, cl c13Outcome, sel EdgeSel, depth int, busy map[*ssa.Function]bool) int {
	g := staticCallee(c)
	if depth <= 0 || g == nil || busy[g] {
		return 0
	}
	busy[g] = true
	defer delete(busy, g)
	fsel := c13FrameSel(c, sel)
	sub := c13GateCut(w, g, fsel, depth-1, busy)
	if sub.n == 0 || c13OutcomeReachable(w, g, sub, fsel, cl, depth-1, busy) {
		return 0
	}
	return sub.n
}

// c13GateCut: the establishing edges of fn for the accepted facts sel (labels in the frame of fn).
func c13GateCut(w *World, fn *ssa.Function, sel EdgeSel, depth int, busy map[*ssa.Function]bool) c13Gate {
	gc := c13Gate{cut: map[edgeKey]bool{}, tails: map[*ssa.Call]bool{}}
	if busy == nil {
		busy = map[*ssa.Function]bool{}
	}
	for _, b := range fn.Blocks {
		iff, ok := blockTerm(b).(*ssa.If)
		if !ok || len(b.Succs) != 2 {
			continue
		}
		for j := 0; j < 2; j++ {
			if c13SelLabel(sel, condLabel(iff.Cond, j == 0), iff, j == 0) {
				gc.cut[edgeKey{b.Index, j}] = true
				gc.n++
				continue
			}
			if c, cl, ok := c13EdgeOutcome(w, iff.Cond, j == 0); ok {
				if n := c13OutcomeBlocked(w, c, cl, sel, depth, busy); n > 0 {
					gc.cut[edgeKey{b.Index, j}] = true
					gc.n += n
				}
			}
		}
	}
	for _, b := range fn.Blocks {
		r, ok := blockTerm(b).(*ssa.Return)
		if !ok {
			continue
		}
		// `return <fact>`: the boolean handed back is itself an accepted fact (or its negation)
		for _, v := range r.Results {
			if bt, isB := v.Type().Underlying().(*types.Basic); !isB || bt.Kind() != types.Bool {
				continue
			}
			vals := []ssa.Value{v}
			if p, ok := v.(*ssa.Phi); ok && p.Block() == b {
				vals = p.Edges
			}
			for _, x := range vals {
				if _, isConst := x.(*ssa.Const); isConst {
					continue
				}
				if c13SelLabel(sel, condLabel(x, true), nil, true) || c13SelLabel(sel, condLabel(x, false), nil, false) {
					gc.n++
					continue
				}
				// `return … || further(c)`: the answer of a further module predicate that gives it only behind an accepted fact
				if c, cl, ok := c13EdgeOutcome(w, x, true); ok {
					n := c13OutcomeBlocked(w, c, cl, sel, depth, busy)
					cl.want = !cl.want
					if m := c13OutcomeBlocked(w, c, cl, sel, depth, busy); m > n {
						n = m
					}
					gc.n += n
				}
			}
		}
		// `return helper(…)`: the exit succeeds iff the helper does
		if len(r.Results) == 0 {
			continue
		}
		last := r.Results[len(r.Results)-1]
		cands := []ssa.Value{last}
		if p, ok := last.(*ssa.Phi); ok && p.Block() == b {
			cands = p.Edges
		}
		for _, v := range cands {
			if !isErrorType(v.Type()) {
				continue
			}
			c := callOf(v)
			if c == nil {
				continue
			}
			if c13SelLabel(sel, "EQ("+descTailErr(c)+",nil)", nil, true) {
				gc.tails[c] = true
				gc.n++
				continue
			}
			g := staticCallee(c)
			if g == nil || g.Blocks == nil || !w.IsProductFn(g) || len(c.Call.Args) != len(g.Params) {
				continue
			}
			if n := c13OutcomeBlocked(w, c, c13Outcome{errNil: true, k: -1}, sel, depth, busy); n > 0 {
				gc.tails[c] = true
				gc.n += n
			}
		}
	}
	return gc
}

// c13Witness: successWitness with the forwarded calls of gc not counted as success exits.
func c13Witness(fi *FnInfo, starts []state, gc c13Gate, more ...map[edgeKey]bool) []string {
	cut := map[edgeKey]bool{}
	for e := range gc.cut {
		cut[e] = true
	}
	for _, m := range more {
		for e := range m {
			cut[e] = true
		}
	}
	saved := fi.ignoreTail
	if len(gc.tails) > 0 {
		fi.ignoreTail = gc.tails
	}
	wit := fi.successWitness(Mode{Kind: mErr}, starts, cut)
	fi.ignoreTail = saved
	return wit
}

// c13OutcomeReachable: with the establishing edges removed, can fn still leave with an outcome of the class?
func c13OutcomeReachable(w *World, fn *ssa.Function, gc c13Gate, sel EdgeSel, cl c13Outcome, depth int, busy map[*ssa.Function]bool) bool {
	fi := w.Info(fn)
	if cl.k < 0 {
		return c13Witness(fi, entryState(), gc) != nil
	}
	for st := range fi.reach(entryState(), gc.cut) {
		b := fn.Blocks[st.b]
		r, ok := blockTerm(b).(*ssa.Return)
		if !ok || cl.k >= len(r.Results) {
			continue
		}
		if cl.errNil {
			c, tail, _, _ := fi.classify(r, state{st.b, fi.through(b, st.m), st.p}, Mode{Kind: mErr})
			if c == clFail || (tail != nil && gc.tails[tail]) {
				continue
			}
		}
		v := r.Results[cl.k]
		if p, ok := v.(*ssa.Phi); ok && p.Block() == b && st.p >= 0 && st.p < len(p.Edges) {
			v = p.Edges[st.p]
		}
		if k, ok := v.(*ssa.Const); ok {
			if k.Value != nil && k.Value.Kind() == constant.Bool && constant.BoolVal(k.Value) != cl.want {
				continue // this exit delivers the other answer
			}
			return true
		}
		if c13SelLabel(sel, condLabel(v, cl.want), nil, cl.want) {
			continue // the value handed back is itself the accepted fact: it is `want` only if the fact holds
		}
		if c, cl2, ok := c13EdgeOutcome(w, v, cl.want); ok && c13OutcomeBlocked(w, c, cl2, sel, depth, busy) > 0 {
			continue // the answer of a further module predicate, which gives it only behind an accepted fact
		}
		return true
	}
	return false
}

// c13HasLabel: a fact of the set contains all subs. A disjunctive fact OR(a,b,…) — `case err == nil || other:` — counts only
// if every alternative does: passing the edge means ONE of the alternatives held, and the searched fact must hold
// whichever it was (fourth pass: the plain substring test accepted `OR(EQ(Lstat err,nil),NE(info,nil))` as "Lstat err == nil").
func c13HasLabel(m map[string]string, subs ...string) bool {
	var holds func(l string, depth int) bool
	holds = func(l string, depth int) bool {
		if strings.HasPrefix(l, "OR(") && depth < 4 {
			_, alts := splitTopArgs(l)
			for _, a := range alts {
				if !holds(a, depth+1) {
					return false
				}
			}
			return len(alts) > 0
		}
		for _, s := range subs {
			if !strings.Contains(l, s) {
				return false
			}
		}
		return true
	}
	for l := range m {
		if holds(l, 0) {
			return true
		}
	}
	return false
}
