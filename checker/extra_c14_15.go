package main

// Helpers of the C14 / C15 rule set (rules_c14_15.go): deciding obligations of the CRL file cache when the code that
// discharges them lives in a helper function instead of the body of WriteFile / Get / Set.

import (
	"fmt"
	"go/token"
	"go/types"
	"regexp"
	"strings"

	"golang.org/x/tools/go/ssa"
)

// ---- C14: where the steps of the writer's protocol live ---------------------------------------------------------

// c14Unit: the writer as a call tree. WF is the entry (the function of internal/file that the cache calls and that,
// itself or in a function it reaches, renames the temporary file over the destination); the steps of the protocol —
// CreateTemp, Write, Close, Rename — may each live in WF or in any module function WF reaches by static calls
// ("the family"). A step is identified by what it operates on (the handle os.CreateTemp returned, followed through
// arguments, results, and the cell a closure captures), never by where it stands. Facts about a step that lives in a
// callee are read in WF's frame: the callee's parameters are replaced by the arguments of its call (c14Unit.inWF),
// which is exactly the substitution the gate composition applies when it carries a callee's must-pass facts over
// the `err == nil` edge of the call — so "Rename is reached only after Write succeeded" is one label comparison
// wherever the cut between the functions was made.
type c14Unit struct {
	w      *World
	WF     *ssa.Function
	fns    []*ssa.Function // WF first
	sites  map[*ssa.Function][]c14Site
	ct, rn *ssa.Call
	ctFn   *ssa.Function // the member that calls os.CreateTemp
	rnFn   *ssa.Function // the member that calls os.Rename
}

type c14Site struct {
	caller *ssa.Function
	call   ssa.CallInstruction
}

func (u *c14Unit) member(f *ssa.Function) bool {
	if f == u.WF {
		return true
	}
	_, ok := u.sites[f]
	return ok
}

// c14Family: fn and the module functions it reaches by static calls (closures it calls or defers included).
func c14Family(w *World, fn *ssa.Function) ([]*ssa.Function, map[*ssa.Function][]c14Site) {
	fns := []*ssa.Function{fn}
	sites := map[*ssa.Function][]c14Site{}
	seen := map[*ssa.Function]bool{fn: true}
	for i := 0; i < len(fns) && len(fns) <= 24; i++ {
		f := fns[i]
		for _, ci := range allCalls(f) {
			g := staticCallee(ci)
			if g == nil || g.Blocks == nil || !w.IsProductFn(g) {
				continue
			}
			sites[g] = append(sites[g], c14Site{f, ci})
			if !seen[g] {
				seen[g] = true
				fns = append(fns, g)
			}
		}
	}
	return fns, sites
}

// c14FindUnit returns nil (with the reason) when the family of WF does not contain exactly one os.CreateTemp and
// exactly one os.Rename, each in a member whose facts can be read in WF's frame.
func c14FindUnit(w *World, WF *ssa.Function) (*c14Unit, string) {
	if WF == nil {
		return nil, "no function of internal/file renames a file"
	}
	u := &c14Unit{w: w, WF: WF}
	u.fns, u.sites = c14Family(w, WF)
	nct, nrn := 0, 0
	for _, f := range u.fns {
		for _, ci := range allCalls(f) {
			switch calleeName(ci) {
			case "os.Rename":
				nrn++
				if call, ok := ci.(*ssa.Call); ok {
					u.rn, u.rnFn = call, f
				} else {
					return nil, "the rename is deferred"
				}
			case "os.CreateTemp":
				nct++
				if call, ok := ci.(*ssa.Call); ok {
					u.ct, u.ctFn = call, f
				} else {
					return nil, "the temporary file is created in a deferred call"
				}
			}
		}
	}
	if nrn != 1 {
		return nil, fmt.Sprintf("%d os.Rename calls in %s and the functions it calls", nrn, fnName(WF))
	}
	if nct != 1 {
		return nil, fmt.Sprintf("%d os.CreateTemp calls in %s and the functions it calls", nct, fnName(WF))
	}
	for _, f := range []*ssa.Function{u.ctFn, u.rnFn} {
		if _, ok := u.chain(f); !ok {
			return nil, fnName(f) + " is not called exactly once on the way from " + fnName(WF)
		}
	}
	return u, ""
}

// c14CellValue: the one value ever assigned to the variable (nil when it is assigned more than once, or written by a
// closure): a variable that exists only because a closure reads it still holds what it was initialised with.
func c14CellValue(al *ssa.Alloc) ssa.Value {
	var v ssa.Value
	n := 0
	for _, r := range *al.Referrers() {
		if st, ok := r.(*ssa.Store); ok && st.Addr == ssa.Value(al) {
			n++
			v = st.Val
		}
	}
	if n != 1 || allocWrittenByClosure(al) {
		return nil
	}
	return v
}

// chain: the calls that lead from WF to f (outermost first) when f is WF or is called exactly once inside the
// family, by an ordinary call, from a member that itself has such a chain. Only then do the facts of f's body read
// unambiguously in WF's frame.
func (u *c14Unit) chain(f *ssa.Function) ([]*ssa.Call, bool) {
	var rev []*ssa.Call
	for d := 0; f != u.WF; d++ {
		ss := u.sites[f]
		if len(ss) != 1 || d > 6 {
			return nil, false
		}
		call, ok := ss[0].call.(*ssa.Call)
		if !ok || len(call.Call.Args) != len(f.Params) {
			return nil, false
		}
		rev = append(rev, call)
		f = ss[0].caller
	}
	for i, j := 0, len(rev)-1; i < j; i, j = i+1, j-1 {
		rev[i], rev[j] = rev[j], rev[i]
	}
	return rev, true
}

// inWF: a label (or printed value) of f's frame read in WF's frame.
func (u *c14Unit) inWF(f *ssa.Function, label string) string {
	ch, ok := u.chain(f)
	if !ok {
		return "?" + label
	}
	for i := len(ch) - 1; i >= 0; i-- {
		label = c15FrameAt(ch[i]).in(label)
	}
	return label
}

// guards: the facts every path from the entry of WF to the instruction (of member f) has passed, in WF's frame: the
// guards of the instruction inside f, and the guards of every call on the chain that leads to f.
func (u *c14Unit) guards(f *ssa.Function, in ssa.Instruction) map[string]string {
	out := map[string]string{}
	ch, ok := u.chain(f)
	if !ok {
		return out
	}
	for {
		for l, site := range u.w.Info(f).GuardsOf(in) {
			out[u.inWF(f, l)] = site
		}
		if len(ch) == 0 {
			return out
		}
		in = ch[len(ch)-1]
		f = in.Parent()
		ch = ch[:len(ch)-1]
	}
}

// wfParam: the parameter of WF that the value v of member f is (through the chain of calls).
func (u *c14Unit) wfParam(f *ssa.Function, v ssa.Value) *ssa.Parameter {
	d := u.inWF(f, desc(v))
	for _, p := range u.WF.Params {
		if d == "param:"+p.Name() {
			return p
		}
	}
	return nil
}

// isHandle: the value v of member f is the temporary file os.CreateTemp returned —
//   - the result itself (or the variable it is kept in, assigned once, when a closure captures it);
//   - a parameter of f, when every call of f inside the family passes the handle at that position;
//   - the captured variable, read inside a closure;
//   - a result of a member every value-delivering exit of which returns the handle.
func (u *c14Unit) isHandle(f *ssa.Function, v ssa.Value, depth int) bool {
	if depth > 4 {
		return false
	}
	switch x := v.(type) {
	case *ssa.Extract:
		if x.Tuple == ssa.Value(u.ct) {
			return x.Index == 0
		}
		if call, ok := x.Tuple.(*ssa.Call); ok {
			return u.resultIs(call, x.Index, depth, u.isHandle)
		}
	case *ssa.Call:
		return u.resultIs(x, 0, depth, u.isHandle)
	case *ssa.UnOp:
		if al, ok := x.X.(*ssa.Alloc); ok {
			if sv := c14CellValue(al); sv != nil {
				return u.isHandle(f, sv, depth+1)
			}
		}
		if fv, ok := x.X.(*ssa.FreeVar); ok {
			if al := c14Bound(f, fv); al != nil && f.Parent() != nil {
				if sv := c14CellValue(al); sv != nil {
					return u.isHandle(f.Parent(), sv, depth+1)
				}
			}
		}
	case *ssa.Parameter:
		return u.paramIs(f, x, depth, u.isHandle)
	}
	return false
}

// isName: the value is handle.Name() — taken here, kept in a variable assigned once, handed in as an argument by
// every caller, or handed back by a member on every value-delivering exit.
func (u *c14Unit) isName(f *ssa.Function, v ssa.Value, depth int) bool {
	if depth > 4 {
		return false
	}
	v = loadOrigin(v)
	switch x := v.(type) {
	case *ssa.Call:
		if calleeName(x) == "(*os.File).Name" {
			return u.isHandle(f, x.Call.Args[0], depth)
		}
		return u.resultIs(x, 0, depth, u.isName)
	case *ssa.Extract:
		if call, ok := x.Tuple.(*ssa.Call); ok {
			return u.resultIs(call, x.Index, depth, u.isName)
		}
	case *ssa.Parameter:
		return u.paramIs(f, x, depth, u.isName)
	}
	return false
}

func (u *c14Unit) paramIs(f *ssa.Function, p *ssa.Parameter, depth int, is func(*ssa.Function, ssa.Value, int) bool) bool {
	idx := -1
	for i, q := range f.Params {
		if q == p {
			idx = i
		}
	}
	ss := u.sites[f]
	if idx < 0 || len(ss) == 0 || f == u.WF {
		return false
	}
	for _, s := range ss {
		args := s.call.Common().Args
		if idx >= len(args) || !is(s.caller, args[idx], depth+1) {
			return false
		}
	}
	return true
}

// resultIs: result k of the call is, on every exit of the (member) callee that can report success, a value with the
// property `is` — and is not a result variable a deferred function rewrites afterwards.
func (u *c14Unit) resultIs(call *ssa.Call, k int, depth int, is func(*ssa.Function, ssa.Value, int) bool) bool {
	g := staticCallee(call)
	if g == nil || !u.member(g) || g == u.WF {
		return false
	}
	var rets []*ssa.Return
	res := g.Signature.Results()
	if res.Len() > 0 && isErrorType(res.At(res.Len()-1).Type()) {
		s := u.w.Summarize(g, Mode{Kind: mErr})
		if s == nil || !s.Complete {
			return false
		}
		for _, e := range s.Exits {
			rets = append(rets, e.Ret)
		}
	} else {
		for _, b := range g.Blocks {
			if r, ok := blockTerm(b).(*ssa.Return); ok {
				rets = append(rets, r)
			}
		}
	}
	if len(rets) == 0 {
		return false
	}
	for _, r := range rets {
		if k >= len(r.Results) {
			return false
		}
		v := r.Results[k]
		if al, _ := unwrapLoadAlloc(v); al != nil && allocWrittenByClosure(al) {
			return false
		}
		if !is(g, spilledRet(v), depth+1) {
			return false
		}
	}
	return true
}

// c14Bound: the variable of the enclosing function that the free variable of closure f is bound to, wherever the
// closure is made (nil if it is not one and the same local variable).
func c14Bound(f *ssa.Function, fv *ssa.FreeVar) *ssa.Alloc {
	idx := -1
	for i, q := range f.FreeVars {
		if q == fv {
			idx = i
		}
	}
	par := f.Parent()
	if idx < 0 || par == nil {
		return nil
	}
	var cell *ssa.Alloc
	for _, b := range par.Blocks {
		for _, in := range b.Instrs {
			if mc, ok := in.(*ssa.MakeClosure); ok && mc.Fn == ssa.Value(f) {
				if idx >= len(mc.Bindings) {
					return nil
				}
				al, ok := mc.Bindings[idx].(*ssa.Alloc)
				if !ok || (cell != nil && al != cell) {
					return nil
				}
				cell = al
			}
		}
	}
	return cell
}

// handleCalls: the calls of the method (e.g. "(*os.File).Write") on the handle, in all members and the closures made
// in them.
func (u *c14Unit) handleCalls(method string) (calls []*ssa.Call, fns []*ssa.Function, deferred int) {
	seen := map[*ssa.Function]bool{}
	var all []*ssa.Function
	for _, f := range u.fns {
		for _, g := range append([]*ssa.Function{f}, closuresOf(f)...) {
			if !seen[g] {
				seen[g] = true
				all = append(all, g)
			}
		}
	}
	for _, f := range all {
		for _, ci := range allCalls(f) {
			if calleeName(ci) != method || len(ci.Common().Args) == 0 || !u.isHandle(f, ci.Common().Args[0], 0) {
				continue
			}
			if call, ok := ci.(*ssa.Call); ok {
				calls = append(calls, call)
				fns = append(fns, f)
			} else {
				deferred++
			}
		}
	}
	return
}

// otherHandleUses: calls that are handed the temporary file other than the steps of the protocol, harmless methods
// (Name, Sync, Chmod, Stat, Fd) and members of the family (followed by isHandle): WriteString, WriteAt, Truncate,
// io.Copy(handle, …), fmt.Fprint(handle, …) would change the content behind the back of the one Write the protocol
// counts.
func (u *c14Unit) otherHandleUses() []string {
	var out []string
	seen := map[*ssa.Function]bool{}
	for _, f0 := range u.fns {
		for _, f := range append([]*ssa.Function{f0}, closuresOf(f0)...) {
			if seen[f] {
				continue
			}
			seen[f] = true
			for _, ci := range allCalls(f) {
				switch calleeName(ci) {
				case "(*os.File).Write", "(*os.File).Close", "(*os.File).Name", "(*os.File).Sync", "(*os.File).Chmod", "(*os.File).Stat", "(*os.File).Fd":
					continue
				}
				if g := staticCallee(ci); g != nil && u.member(g) {
					continue
				}
				for _, a := range callArgs(ci) {
					if u.isHandle(f, unwrap(a), 0) {
						out = append(out, calleeName(ci))
					}
				}
			}
		}
	}
	return out
}

// passThrough: every exit of g returns, as result k, its own parameter number i unchanged (`func(err error) error {
// cleanup(); return err }`): the result of a call of g is the argument it was given. -1 if g is not of that kind.
func c14PassThrough(g *ssa.Function, k int) int {
	if g == nil || g.Blocks == nil {
		return -1
	}
	idx, n := -1, 0
	for _, b := range g.Blocks {
		r, ok := blockTerm(b).(*ssa.Return)
		if !ok {
			continue
		}
		if k >= len(r.Results) {
			return -1
		}
		v := r.Results[k]
		if al, _ := unwrapLoadAlloc(v); al != nil && allocWrittenByClosure(al) {
			return -1
		}
		p, ok := spilledRet(v).(*ssa.Parameter)
		if !ok {
			return -1
		}
		i := -1
		for j, q := range g.Params {
			if q == p {
				i = j
			}
		}
		if i < 0 || (n > 0 && i != idx) {
			return -1
		}
		// the parameter is never reassigned: parameters are SSA values, a reassigned one would be a phi or a cell
		idx = i
		n++
	}
	if n == 0 {
		return -1
	}
	return idx
}

// c14ErrorOnlyViaRename: an alternative proof of "the writer reports success only after the rename" for writers that
// collect the outcome of the steps in one error variable and return it at a single exit
// (`if werr != nil { err = wrap(werr) } else if … else { err = os.Rename(…) }; if err != nil { cleanup }; return err`).
// The product graph cannot tell at the exit which assignment reached it; the values can: every value that can arrive
// at a return as the error result (followed through phis) is
//   - provably non-nil where it is produced (a failure is reported), or
//   - the result of the rename itself (nil exactly when the rename succeeded), or
//   - delivered from a block that cannot be reached once the edges into the rename's block are removed, or
//   - one of the above handed through a function that returns its argument unchanged (c14PassThrough).
//
// So a nil result implies the rename was executed first — the same fact the path rule establishes.
func c14ErrorOnlyViaRename(fi *FnInfo, rn *ssa.Call) (bool, string) {
	cut := map[edgeKey]bool{}
	cutInto(fi, rn.Block(), cut)
	rb := rn.Block()
	onlyAfter := func(at *ssa.BasicBlock) bool {
		if at == rb {
			return true
		}
		if at.Index == 0 {
			return false
		}
		return !fi.reachHit(entryState(), cut, map[int]bool{at.Index: true})
	}
	for _, b := range fi.Fn.Blocks {
		r, ok := blockTerm(b).(*ssa.Return)
		if !ok {
			continue
		}
		if b.Index != 0 && !fi.reachHit(entryState(), nil, map[int]bool{b.Index: true}) {
			continue // not reachable from the entry (the recover block)
		}
		if len(r.Results) == 0 || !isErrorType(r.Results[len(r.Results)-1].Type()) {
			return false, "the writer does not return an error"
		}
		seen := map[ssa.Value]bool{}
		var walk func(v ssa.Value, at *ssa.BasicBlock) (bool, string)
		walk = func(v ssa.Value, at *ssa.BasicBlock) (bool, string) {
			if v == ssa.Value(rn) {
				return true, ""
			}
			if ph, isPhi := v.(*ssa.Phi); isPhi {
				if seen[v] {
					return true, ""
				}
				seen[v] = true
				for i, e := range ph.Edges {
					if ok, why := walk(e, ph.Block().Preds[i]); !ok {
						return false, why
					}
				}
				return true, ""
			}
			// a function that hands its argument back unchanged on every exit (a clean-up wrapper:
			// `discard := func(err error) error { f.Close(); os.Remove(name); return err }`): the value is the argument
			{
				var call *ssa.Call
				k := 0
				switch x := v.(type) {
				case *ssa.Call:
					call = x
				case *ssa.Extract:
					call, _ = x.Tuple.(*ssa.Call)
					k = x.Index
				}
				if call != nil && call != rn {
					if g := staticCallee(call); g != nil && fi.W.IsProductFn(g) {
						if i := c14PassThrough(g, k); i >= 0 && i < len(call.Call.Args) {
							return walk(call.Call.Args[i], at)
						}
					}
				}
			}
			if _, isLoad := v.(*ssa.UnOp); isLoad {
				if sv := spilledRet(v); sv != v {
					if al, _ := unwrapLoadAlloc(v); al != nil && allocWrittenByClosure(al) {
						return false, "the result variable is rewritten by a deferred function"
					}
					return walk(sv, at)
				}
			}
			if fi.nonNil(v, at) || onlyAfter(at) {
				return true, ""
			}
			return false, fmt.Sprintf("%s can be returned as the result at %s without the rename having run", desc(v), fi.W.InstrPos(r))
		}
		if ok, why := walk(r.Results[len(r.Results)-1], b); !ok {
			return false, why
		}
	}
	return true, ""
}

// c14FromRead: the value is the content result of the read rf — directly, or as a parameter of a function of the unit
// every call of which (inside the unit) passes such a value at that position.
func c14FromRead(unit []*ssa.Function, f *ssa.Function, v ssa.Value, rf *ssa.Call, depth int) bool {
	if ex, ok := v.(*ssa.Extract); ok && ex.Tuple == ssa.Value(rf) && ex.Index == 0 {
		return true
	}
	if depth > 3 {
		return false
	}
	// the result of a function of the unit that reads: every return hands back nil (next to an error) or the content
	// of that read
	if call := callOf(v); call != nil && call != rf {
		k := 0
		if ex, isEx := v.(*ssa.Extract); isEx {
			k = ex.Index
		}
		g := staticCallee(call)
		if g == nil || g.Blocks == nil || !c15InUnit(unit, g) {
			return false
		}
		n := 0
		for _, b := range g.Blocks {
			r, isRet := blockTerm(b).(*ssa.Return)
			if !isRet {
				continue
			}
			if k >= len(r.Results) || c15RewrittenResult(r.Results[k]) {
				return false
			}
			rv := spilledRet(r.Results[k])
			if isNilConst(rv) {
				continue
			}
			n++
			if !c14FromRead(unit, g, rv, rf, depth+1) {
				return false
			}
		}
		return n > 0
	}
	p, ok := v.(*ssa.Parameter)
	if !ok {
		return false
	}
	idx := -1
	for i, q := range f.Params {
		if q == p {
			idx = i
		}
	}
	if idx < 0 {
		return false
	}
	n := 0
	for _, g := range unit {
		for _, ci := range allCalls(g) {
			if staticCallee(ci) != f {
				continue
			}
			n++
			args := ci.Common().Args
			if idx >= len(args) || !c14FromRead(unit, g, args[idx], rf, depth+1) {
				return false
			}
		}
	}
	return n > 0
}

// ---- C15: frames, exact labels, gates decided through helpers ---------------------------------------------------

// c15Frame: how the parameters of a callee read in the caller's frame (the substitution the gate composition applies
// to the callee's labels). The identity when callee == caller. When several calls lie between the two functions the
// frames compose (outer = the frame of the caller of `call`, seen from the function the facts are read in).
type c15Frame struct {
	names, descs []string
	ident        bool
	call         *ssa.Call // the call of the callee itself (the innermost of the chain)
	outer        *c15Frame
}

func (fr *c15Frame) in(label string) string {
	if fr.ident {
		return label
	}
	label = substParams(label, fr.names, fr.descs)
	if fr.outer != nil {
		return fr.outer.in(label)
	}
	return label
}

func c15FrameAt(call *ssa.Call) *c15Frame {
	g := staticCallee(call)
	fr := &c15Frame{call: call}
	if g == nil {
		return fr
	}
	for i, p := range g.Params {
		if i < len(call.Call.Args) {
			fr.names = append(fr.names, p.Name())
			fr.descs = append(fr.descs, desc(call.Call.Args[i]))
		}
	}
	return fr
}

// c15FrameOf: the frame of callee at its only static call in caller (nil if there is none or more than one).
func c15FrameOf(caller, callee *ssa.Function) *c15Frame {
	if caller == callee {
		return &c15Frame{ident: true}
	}
	var calls []*ssa.Call
	for _, ci := range allCalls(caller) {
		if call, ok := ci.(*ssa.Call); ok && staticCallee(call) == callee {
			calls = append(calls, call)
		}
	}
	if len(calls) != 1 {
		return nil
	}
	return c15FrameAt(calls[0])
}

// c15FramePath: the frame of `to` seen from `from` when `to` is reached from `from` through functions of the unit,
// each of which is called exactly once in the whole unit (by an ordinary call): the chain of calls is then unique
// and a fact of `to`'s body reads in `from`'s frame by substituting parameters by arguments call after call —
// what the gate composition does when it carries must-pass facts over `err == nil` edges. nil if there is no such
// unique chain.
func c15FramePath(unit []*ssa.Function, from, to *ssa.Function) *c15Frame {
	return c15FramePathD(unit, from, to, 0)
}

func c15FramePathD(unit []*ssa.Function, from, to *ssa.Function, depth int) *c15Frame {
	if from == to {
		return &c15Frame{ident: true}
	}
	if depth > 5 {
		return nil
	}
	var site *ssa.Call
	n := 0
	for _, f := range unit {
		for _, ci := range allCalls(f) {
			if staticCallee(ci) != to {
				continue
			}
			n++
			site, _ = ci.(*ssa.Call)
		}
	}
	if n != 1 || site == nil || len(site.Call.Args) != len(to.Params) {
		return nil
	}
	fr := c15FrameAt(site)
	if site.Parent() == from {
		return fr
	}
	outer := c15FramePathD(unit, from, site.Parent(), depth+1)
	if outer == nil {
		return nil
	}
	if !outer.ident {
		fr.outer = outer
	}
	return fr
}

// ---- C15: a step's error checked through an accumulated error variable ------------------------------------------

// c15Need: every success-capable exit must lie behind the fact Label (`EQ(<error of a step>,nil)`); X is the SSA value of
// that error when the step stands in the function itself (nil when it stands in a callee and Label is the callee's
// fact read in this frame).
type c15Need struct {
	Name, What, Label string
	X                 ssa.Value
}

// c15RequireOnExits is requireOnExits with one more way to carry a fact: through an error variable that collects the
// outcome of several steps and is tested once (`b, err := step1(); if err == nil { err = step2(b) }; if err != nil
// { return wrap(err) }; return nil`). The exit then lies behind `EQ(phi(e1|e2),nil)`, and that implies `EQ(e1,nil)`
// when (c15PhiNilImplies) on every way into the phi the value that arrives is e1 itself, or the way was only open
// after `EQ(e1,nil)`, or the value that arrives is known non-nil there (so that way cannot continue into the nil branch).
func (c *Ctx) c15RequireOnExits(prefix string, fn *ssa.Function, exits []*ExitSum, needs []c15Need) {
	w := c.W
	fi := w.Info(fn)
	for _, n := range needs {
		key := prefix + "/" + n.Name
		rule := "must-check: every success-capable exit of " + fnName(fn) + " is reachable only through the passing edge of: " + n.What
		if len(exits) == 0 {
			c.Unk(key, rule, w.FnPos(fn), "the function has no success-capable exit under this mode: rule does not recognise its shape")
			continue
		}
		okAll := true
		site := w.FnPos(fn)
		for i, ex := range exits {
			c.Evals++
			if s, ok := ex.Checked[n.Label]; ok {
				if i == 0 {
					site = s
				}
				continue
			}
			if c15ExitBehindPhi(fi, ex, n) {
				continue
			}
			okAll = false
			c.Bad(key, rule, w.InstrPos(ex.Ret),
				fmt.Sprintf("success-capable exit at %s (block b%d) is reachable without that check; facts that do hold on every path to it: %s",
					w.InstrPos(ex.Ret), ex.Ret.Block().Index, summarizeLabels(ex.Checked, 12)))
			break
		}
		if okAll {
			c.OK(key, rule, site)
		}
	}
}

// c15ExitBehindPhi: the exit lies behind the nil edge of a test `phi == nil` / `phi != nil` (every path to the exit's
// block takes that edge) and the phi being nil implies the wanted fact.
func c15ExitBehindPhi(fi *FnInfo, ex *ExitSum, n c15Need) bool {
	for _, b := range fi.Fn.Blocks {
		iff, ok := blockTerm(b).(*ssa.If)
		if !ok || len(b.Succs) != 2 {
			continue
		}
		bo, ok := iff.Cond.(*ssa.BinOp)
		if !ok || (bo.Op != token.EQL && bo.Op != token.NEQ) {
			continue
		}
		var o ssa.Value
		if isNilConst(bo.Y) {
			o = bo.X
		} else if isNilConst(bo.X) {
			o = bo.Y
		}
		ph, ok := o.(*ssa.Phi)
		if !ok {
			continue
		}
		j := 0 // the edge on which the phi is nil
		if bo.Op == token.NEQ {
			j = 1
		}
		if !labelHas(ex.Checked, condLabel(iff.Cond, j == 0)) {
			continue
		}
		if fi.reachHit(entryState(), map[edgeKey]bool{{b.Index, j}: true}, map[int]bool{ex.Ret.Block().Index: true}) {
			continue // another test with the same printed form: this edge is not on every path to the exit
		}
		if c15PhiNilImplies(fi, ph, n, map[*ssa.Phi]bool{}) {
			return true
		}
	}
	return false
}

func c15PhiNilImplies(fi *FnInfo, ph *ssa.Phi, n c15Need, seen map[*ssa.Phi]bool) bool {
	if seen[ph] {
		return false
	}
	seen[ph] = true
	pb := ph.Block()
	// the phi's block must not lie on a cycle: "the way into the phi" is then the last edge taken before the test
	if fi.reachHit([]state{{pb.Index, 0, -1}}, nil, map[int]bool{pb.Index: true}) {
		return false
	}
	for i, e := range ph.Edges {
		if n.X != nil && e == n.X {
			continue // the value that arrives is the step's own error: nil here means the step succeeded
		}
		pred := pb.Preds[i]
		// the facts every path from the entry that enters the phi's block by this edge has passed
		cut := map[edgeKey]bool{}
		for _, q := range pb.Preds {
			for j, sx := range q.Succs {
				if sx == pb && q != pred {
					cut[edgeKey{q.Index, j}] = true
				}
			}
		}
		labels, ok := fi.mustPassBetweenCut([]int{0}, map[int]bool{pb.Index: true}, cut)
		if !ok {
			continue // this way into the phi cannot be taken at all
		}
		if labelHas(labels, n.Label) {
			continue
		}
		if fi.nonNil(e, pred) || labelHas(labels, "NE("+desc(e)+",nil)") {
			continue // a non-nil value arrives: the nil branch of the test is not taken on this way
		}
		if q, isPhi := e.(*ssa.Phi); isPhi && c15PhiNilImplies(fi, q, n, seen) {
			continue
		}
		return false
	}
	return true
}

// ---- C15: values followed through the functions of the unit --------------------------------------------------------

// c15MarshalOf: the value is result 0 of a json.Marshal call — directly, or as the result of a function of the unit
// every success-capable exit of which hands back result 0 of one and the same json.Marshal call (`return
// json.Marshal(entry)`, or `b, err := json.Marshal(entry); if err != nil {…}; return b, nil`).
func c15MarshalOf(w *World, unit []*ssa.Function, v ssa.Value, depth int) *ssa.Call {
	ex, ok := loadOrigin(v).(*ssa.Extract)
	if !ok || depth > 3 {
		return nil
	}
	call, ok := ex.Tuple.(*ssa.Call)
	if !ok {
		return nil
	}
	if calleeName(call) == "encoding/json.Marshal" {
		if ex.Index == 0 {
			return call
		}
		return nil
	}
	g := staticCallee(call)
	inUnit := false
	for _, f := range unit {
		if f == g {
			inUnit = true
		}
	}
	if g == nil || !inUnit {
		return nil
	}
	s := w.Summarize(g, Mode{Kind: mErr})
	if s == nil || !s.Complete || len(s.Exits) == 0 {
		return nil
	}
	var m *ssa.Call
	for _, e := range s.Exits {
		if ex.Index >= len(e.Ret.Results) {
			return nil
		}
		rv := e.Ret.Results[ex.Index]
		if c15RewrittenResult(rv) {
			return nil
		}
		mm := c15MarshalOf(w, unit, spilledRet(rv), depth+1)
		if mm == nil || (m != nil && mm != m) {
			return nil
		}
		m = mm
	}
	return m
}

// c15ExpandParams: the values v (of function fn) can be, other than nil — following a parameter of fn to the argument
// of fn's only call in the unit (and that argument's phi arms), so that a value handed to a constructor is judged
// where it was produced.
type c15Leaf struct {
	v  ssa.Value
	fn *ssa.Function
}

func c15ExpandParams(unit []*ssa.Function, fn *ssa.Function, v ssa.Value, depth int) []c15Leaf {
	if ph, ok := v.(*ssa.Phi); ok && depth > 0 {
		var out []c15Leaf
		seen := map[ssa.Value]bool{}
		var walk func(x ssa.Value)
		walk = func(x ssa.Value) {
			if seen[x] {
				return
			}
			seen[x] = true
			if q, ok := x.(*ssa.Phi); ok {
				for _, e := range q.Edges {
					walk(e)
				}
				return
			}
			if !isNilConst(x) {
				out = append(out, c15ExpandParams(unit, fn, x, depth)...)
			}
		}
		walk(ph)
		return out
	}
	p, ok := v.(*ssa.Parameter)
	if !ok || depth > 3 {
		return []c15Leaf{{v, fn}}
	}
	idx := -1
	for i, q := range fn.Params {
		if q == p {
			idx = i
		}
	}
	var site *ssa.Call
	n := 0
	for _, f := range unit {
		for _, ci := range allCalls(f) {
			if staticCallee(ci) == fn {
				n++
				site, _ = ci.(*ssa.Call)
			}
		}
	}
	if idx < 0 || n != 1 || site == nil || idx >= len(site.Call.Args) {
		return []c15Leaf{{v, fn}}
	}
	return c15ExpandParams(unit, site.Parent(), site.Call.Args[idx], depth+1)
}

// c15RewrittenResult: the returned value is read from a result variable that a deferred function may rewrite.
func c15RewrittenResult(rv ssa.Value) bool {
	if un, ok := rv.(*ssa.UnOp); ok {
		if al, ok := un.X.(*ssa.Alloc); ok && allocWrittenByClosure(al) {
			return true
		}
	}
	return false
}

// c15ResolveObjs: the objects (allocations) the value can be — itself, the arms of a phi (a nil arm is not an
// object: unresolved), or what a function of the unit, called exactly once in the unit, hands back as result k on its
// success-capable exits.
func c15ResolveObjs(w *World, unit []*ssa.Function, v ssa.Value, depth int, out map[*ssa.Alloc]bool) bool {
	if depth > 4 {
		return false
	}
	switch x := v.(type) {
	case *ssa.Alloc:
		out[x] = true
		return true
	case *ssa.Phi:
		for _, e := range x.Edges {
			if e == v {
				continue
			}
			if !c15ResolveObjs(w, unit, e, depth+1, out) {
				return false
			}
		}
		return len(x.Edges) > 0
	}
	k := 0
	var call *ssa.Call
	switch x := v.(type) {
	case *ssa.Extract:
		call, _ = x.Tuple.(*ssa.Call)
		k = x.Index
	case *ssa.Call:
		call = x
	}
	if call == nil {
		return false
	}
	g := staticCallee(call)
	if g == nil || g.Blocks == nil || !w.IsProductFn(g) || c15FramePath(unit, call.Parent(), g) == nil {
		return false
	}
	s := w.Summarize(g, Mode{Kind: mErr})
	if s == nil || !s.Complete || len(s.Exits) == 0 {
		return false
	}
	for _, ex := range s.Exits {
		if k >= len(ex.Ret.Results) {
			return false
		}
		rv := ex.Ret.Results[k]
		if c15RewrittenResult(rv) {
			return false
		}
		if !c15ResolveObjs(w, unit, spilledRet(rv), depth+1, out) {
			return false
		}
	}
	return true
}

// exactNeed: some fact of the exit is exactly one of the labels (a disjunction that merely contains the label is a
// weaker fact and does not count).
func exactNeed(name, what string, labels ...string) Need {
	var q []string
	for _, l := range labels {
		q = append(q, regexp.QuoteMeta(l))
	}
	return Need{Name: name, What: what, Re: regexp.MustCompile("^(?:" + strings.Join(q, "|") + ")$")}
}

func oneOfLabels(ls []string) func(string) bool {
	set := map[string]bool{}
	for _, l := range ls {
		set[l] = true
	}
	return func(l string) bool { return set[l] }
}

// c15Blocked: no success-capable exit of fn is reachable without passing an edge whose fact (read in the frame given by
// sel) is selected — where "passing" may happen inside a module function fn calls: if the callee itself cannot
// succeed without passing a selected edge (its labels read with its parameters replaced by the arguments of this
// call, exactly as the gate composition does), then the edge of fn on which that call's error is nil, and an exit of
// fn that forwards the call's error, stand for a selected edge.
// Sound because a path of fn through `err == nil` of such a call contains a complete successful run of the callee,
// which by induction passed a selected edge. n counts the selected edges (in fn and in the callees relied on).
func c15Blocked(w *World, fn *ssa.Function, m Mode, sel func(string) bool, depth int) (bool, int, []string) {
	fi := w.Info(fn)
	cut := fi.edgesMatching(func(l string, _ *ssa.If, _ bool) bool { return sel(l) })
	// an edge also carries what the gate composition derives for it from a predicate the condition calls
	// (`if expired(t)`: the facts every run of the predicate with that answer has passed, its parameters replaced by the
	// arguments)
	for _, b := range fn.Blocks {
		iff, isIf := blockTerm(b).(*ssa.If)
		if !isIf || len(b.Succs) != 2 {
			continue
		}
		for j := 0; j < 2; j++ {
			if cut[edgeKey{b.Index, j}] {
				continue
			}
			if comp := fi.composeCond(iff.Cond, j == 0); comp != nil && comp.Complete {
				for l := range comp.Checked {
					if sel(l) {
						cut[edgeKey{b.Index, j}] = true
					}
				}
			}
		}
	}
	n := len(cut)
	var relied []*ssa.Call
	if depth < 3 {
		for _, ci := range allCalls(fn) {
			call, ok := ci.(*ssa.Call)
			if !ok {
				continue
			}
			g := staticCallee(call)
			if g == nil || g == fn || g.Blocks == nil || !w.IsProductFn(g) || len(call.Call.Args) != len(g.Params) {
				continue
			}
			res := g.Signature.Results()
			if res.Len() == 0 || !isErrorType(res.At(res.Len()-1).Type()) {
				continue
			}
			fr := c15FrameAt(call)
			ok2, n2, _ := c15Blocked(w, g, Mode{Kind: mErr}, func(l string) bool { return sel(fr.in(l)) }, depth+1)
			if !ok2 || n2 == 0 {
				continue
			}
			n += n2
			relied = append(relied, call)
			for e := range fi.edgesMatching(anyOf("EQ(" + descTailErr(call) + ",nil)")) {
				cut[e] = true
			}
		}
	}
	// An exit that forwards the error of a call (`return x509.ParseRevocationList(raw)`) reports success only if that
	// error is nil: when `EQ(<the call's error>,nil)` is itself a selected fact, such an exit lies behind a selected fact
	// although no If edge carries it.
	for _, ci := range allCalls(fn) {
		call, ok := ci.(*ssa.Call)
		if !ok {
			continue
		}
		res := call.Call.Signature().Results()
		if res.Len() == 0 || !isErrorType(res.At(res.Len()-1).Type()) {
			continue
		}
		if sel("EQ(" + descTailErr(call) + ",nil)") {
			already := false
			for _, r := range relied {
				if r == call {
					already = true
				}
			}
			if !already {
				n++
				relied = append(relied, call)
			}
		}
	}
	saved := fi.ignoreTail
	if len(relied) > 0 {
		fi.ignoreTail = map[*ssa.Call]bool{}
		for k, v := range saved {
			fi.ignoreTail[k] = v
		}
		for _, call := range relied {
			fi.ignoreTail[call] = true
		}
	}
	wit := fi.successWitness(m, entryState(), cut)
	fi.ignoreTail = saved
	return wit == nil, n, wit
}

// c15ResolvesTo: the value is the object `target` — itself, or result k of a module function every success-capable
// exit of which returns it.
func c15ResolvesTo(w *World, v ssa.Value, target ssa.Value, depth int) bool {
	if v == target {
		return true
	}
	if depth > 2 {
		return false
	}
	k := 0
	var call *ssa.Call
	switch x := v.(type) {
	case *ssa.Extract:
		call, _ = x.Tuple.(*ssa.Call)
		k = x.Index
	case *ssa.Call:
		call = x
	}
	if call == nil {
		return false
	}
	g := staticCallee(call)
	if g == nil || g.Blocks == nil || !w.IsProductFn(g) {
		return false
	}
	s := w.Summarize(g, Mode{Kind: mErr})
	if s == nil || !s.Complete || len(s.Exits) == 0 {
		return false
	}
	for _, ex := range s.Exits {
		if k >= len(ex.Ret.Results) || !c15ResolvesTo(w, spilledRet(ex.Ret.Results[k]), target, depth+1) {
			return false
		}
	}
	return true
}

// c15FieldStores: the stores into fields of a local of (pointer) type T, per function of the unit.
type c15Store struct {
	fn    *ssa.Function
	al    *ssa.Alloc
	st    *ssa.Store
	field string
}

func c15FieldStores(unit []*ssa.Function, isT func(*ssa.Alloc) bool) []c15Store {
	var out []c15Store
	for _, f := range unit {
		for _, b := range f.Blocks {
			for _, in := range b.Instrs {
				st, ok := in.(*ssa.Store)
				if !ok {
					continue
				}
				fa, ok := st.Addr.(*ssa.FieldAddr)
				if !ok {
					continue
				}
				al, ok := fa.X.(*ssa.Alloc)
				if !ok || !isT(al) {
					continue
				}
				out = append(out, c15Store{f, al, st, fieldName(al.Type(), fa.Field)})
			}
		}
	}
	return out
}

// c15LoadSeesStores: the whole-struct load `ld` of the local reads it after every field store: no store is in a block
// reachable from the load's block, and a store of the same block precedes the load.
func c15LoadSeesStores(fi *FnInfo, ld ssa.Instruction, stores []*ssa.Store) bool {
	for _, st := range stores {
		if st.Block() == ld.Block() {
			if instrIndex(st) > instrIndex(ld) {
				return false
			}
			continue
		}
		if fi.reachHit([]state{{ld.Block().Index, 0, -1}}, nil, map[int]bool{st.Block().Index: true}) {
			return false
		}
	}
	return true
}

// c15ForeignStores: stores into a field of an object of pointer type T that is not the given local (another local of
// that type, or an object reached through a parameter, a call result or a load: a helper that is handed the object can
// rewrite it behind the back of the rule that looked at the local's own stores).
func c15ForeignStores(w *World, unit []*ssa.Function, T types.Type, local *ssa.Alloc) []string {
	return c15ForeignStoresSet(w, unit, T, map[*ssa.Alloc]bool{local: local != nil})
}

// c15ForeignStoresSet: the same with several locals whose own stores the rule has examined.
func c15ForeignStoresSet(w *World, unit []*ssa.Function, T types.Type, locals map[*ssa.Alloc]bool) []string {
	var out []string
	for _, f := range unit {
		for _, b := range f.Blocks {
			for _, in := range b.Instrs {
				st, ok := in.(*ssa.Store)
				if !ok {
					continue
				}
				fa, ok := st.Addr.(*ssa.FieldAddr)
				if !ok || !types.Identical(fa.X.Type(), T) {
					continue
				}
				if al, isAl := fa.X.(*ssa.Alloc); isAl && locals[al] {
					continue
				}
				out = append(out, fieldName(fa.X.Type(), fa.Field)+" of "+desc(fa.X)+" at "+w.InstrPos(st))
			}
		}
	}
	return out
}

// c15LocalsOfType: the locals of pointer type T in the unit (labels name a local by type and name; when a rule compares
// labels across the frames of two functions it must know there is only one such local on the way).
func c15LocalsOfType(unit []*ssa.Function, T types.Type) int {
	n := 0
	for _, f := range unit {
		for _, b := range f.Blocks {
			for _, in := range b.Instrs {
				if al, ok := in.(*ssa.Alloc); ok && types.Identical(al.Type(), T) {
					n++
				}
			}
		}
	}
	return n
}

// roles: which parameter of the writer is the temporary directory (CreateTemp's first argument), the destination
// (Rename's second argument) and the content (what is written), read off the writer's own calls. When the writer is
// not understood (nil unit, or a role not found) the declared order of internal/file.WriteFile is assumed; the
// writer's own obligations fail in that case anyway.
func (u *c14Unit) roles() (dir, path, content int) {
	dir, path, content = 0, 1, 2
	if u == nil {
		return
	}
	idx := func(p *ssa.Parameter) int {
		for i, q := range u.WF.Params {
			if p != nil && q == p {
				return i
			}
		}
		return -1
	}
	d := idx(u.wfParam(u.ctFn, u.ct.Call.Args[0]))
	p := idx(u.wfParam(u.rnFn, u.rn.Call.Args[1]))
	k := -1
	if ws, fs, _ := u.handleCalls("(*os.File).Write"); len(ws) == 1 {
		k = idx(u.wfParam(fs[0], ws[0].Call.Args[1]))
	}
	if d >= 0 && p >= 0 && k >= 0 && d != p && p != k && d != k {
		return d, p, k
	}
	return
}

// ---- C15: the expiry checks written as a loop over a table of the bundle's lists ---------------------------------

// c15TableFacts: what a loop over a local table establishes for the values the table holds. For a spelling v of a
// list (how the value stored in the table prints): nilOrFresh[v] — at every success-capable exit of the function
// v is nil or time.Now() was not after v.NextUpdate; nilOrNotZero[v] — v is nil or v.NextUpdate is not zero.
type c15TableFacts struct {
	nilOrFresh, nilOrNotZero map[string]bool
	gates                    int
}

// c15TableLoops recognises
//
//	for _, e := range []struct{…; l *x509.RevocationList}{{…, L0}, {…, L1}} { if e.l == nil { continue }; if err := check(e.l.NextUpdate); err != nil { return …, err } }
//
// and turns the facts of one iteration into facts about L0, L1, … at the exits of the function. The argument:
//   - the table is a local array literal, every element of which is stored once, at a constant index, in a block that
//     dominates the loop, and which is used for nothing but these stores and the slice the loop ranges over (so the
//     loop reads what was stored);
//   - the loop is the index loop go/ssa builds for `range` over that slice (index phi(-1, i+1), test i+1 < len): the
//     edge from its header to its exit is taken only after iterations 0 … N-1 each came back to the header;
//   - every success-capable exit of the function lies behind that header-to-exit edge (cutting it leaves no success
//     witness): a `break`, or a path around the loop, would show up here;
//   - within one iteration every way from the body back to the header passes an edge on which the wanted fact holds for
//     the element (the element is nil, or the check on its NextUpdate succeeded — read through the checking function's
//     own must-pass facts, exactly as on a straight-line call).
//
// Hence at every success-capable exit the fact holds for each of the N elements, i.e. for the values stored.
// sees(load): a table value that is loaded from an object the caller tracks is the object's final value.
func c15TableLoops(w *World, fn *ssa.Function, m Mode, sees func(ld *ssa.UnOp) bool) *c15TableFacts {
	tf := &c15TableFacts{nilOrFresh: map[string]bool{}, nilOrNotZero: map[string]bool{}}
	fi := w.Info(fn)
	for _, L := range sliceLoops(fn) {
		sl, ok := L.X.(*ssa.Slice)
		if !ok || sl.Low != nil || sl.High != nil || sl.Max != nil {
			continue
		}
		T, ok := sl.X.(*ssa.Alloc)
		if !ok {
			continue
		}
		arr, ok := T.Type().Underlying().(*types.Pointer).Elem().Underlying().(*types.Array)
		if !ok || arr.Len() < 1 || arr.Len() > 8 {
			continue
		}
		est, ok := arr.Elem().Underlying().(*types.Struct)
		if !ok {
			continue
		}
		inLoop := loopBlocks(L.Header)
		// the index: phi(-1 from outside, i+1 from the back edges), tested as i+1 < len(slice)
		iff := blockTerm(L.Header).(*ssa.If)
		cmp := iff.Cond.(*ssa.BinOp)
		inc, ok := cmp.X.(*ssa.BinOp)
		if !ok || inc.Op != token.ADD || desc(inc.Y) != "const:1" || L.Header.Succs[0] != L.Body || inLoop[L.Exit.Index] {
			continue
		}
		ph, ok := inc.X.(*ssa.Phi)
		if !ok || ph.Block() != L.Header {
			continue
		}
		okIdx := true
		for i, e := range ph.Edges {
			fromLoop := inLoop[L.Header.Preds[i].Index]
			if fromLoop && e != ssa.Value(inc) || !fromLoop && desc(e) != "const:-1" {
				okIdx = false
			}
		}
		if lc, isCall := cmp.Y.(*ssa.Call); !isCall || calleeName(lc) != "builtin:len" || lc.Call.Args[0] != ssa.Value(sl) {
			okIdx = false
		}
		if !okIdx {
			continue
		}
		// the table: element k, field j -> the value stored (once, before the loop)
		vals := map[[2]int]ssa.Value{}
		okT := T.Block().Dominates(L.Header) && !inLoop[T.Block().Index]
		storeOK := func(st *ssa.Store) bool {
			return st.Block().Dominates(L.Header) && !inLoop[st.Block().Index]
		}
		var elemLoads []*ssa.UnOp
		for _, r := range *T.Referrers() {
			switch x := r.(type) {
			case *ssa.DebugRef:
			case *ssa.Slice:
				if x != sl {
					okT = false
				}
			case *ssa.IndexAddr:
				kc, isK := x.Index.(*ssa.Const)
				if !isK {
					okT = false
					continue
				}
				var k int
				fmt.Sscan(constString(kc), &k)
				for _, rr := range *x.Referrers() {
					fa, isFA := rr.(*ssa.FieldAddr)
					if !isFA {
						if _, isDbg := rr.(*ssa.DebugRef); !isDbg {
							okT = false
						}
						continue
					}
					for _, r3 := range *fa.Referrers() {
						st, isSt := r3.(*ssa.Store)
						if _, dup := vals[[2]int{k, fa.Field}]; !isSt || st.Addr != ssa.Value(fa) || dup || !storeOK(st) {
							if _, isDbg := r3.(*ssa.DebugRef); !isDbg {
								okT = false
							}
							continue
						}
						vals[[2]int{k, fa.Field}] = st.Val
					}
				}
			default:
				okT = false
			}
		}
		for _, r := range *sl.Referrers() {
			switch x := r.(type) {
			case *ssa.DebugRef:
			case *ssa.Call:
				if calleeName(x) != "builtin:len" {
					okT = false
				}
			case *ssa.IndexAddr:
				if x.Index != ssa.Value(inc) || !inLoop[x.Block().Index] {
					okT = false
				}
				for _, rr := range *x.Referrers() {
					if ld, isLoad := rr.(*ssa.UnOp); isLoad && ld.Op == token.MUL {
						elemLoads = append(elemLoads, ld)
					} else if _, isDbg := rr.(*ssa.DebugRef); !isDbg {
						okT = false
					}
				}
			default:
				okT = false
			}
		}
		if !okT || len(elemLoads) != 1 {
			continue
		}
		// every success-capable exit lies behind the header-to-exit edge
		exitEdge := map[edgeKey]bool{}
		for j, sx := range L.Header.Succs {
			if sx == L.Exit {
				exitEdge[edgeKey{L.Header.Index, j}] = true
			}
		}
		if len(exitEdge) != 1 || fi.successWitness(m, entryState(), exitEdge) != nil {
			continue
		}
		E := desc(elemLoads[0])
		// one iteration: no way from the body back to the header once the edges that carry one of the facts are removed
		blocked := func(sel map[string]bool) (bool, int) {
			cut := map[edgeKey]bool{}
			for bi := range inLoop {
				b := fn.Blocks[bi]
				bif, isIf := blockTerm(b).(*ssa.If)
				if !isIf || len(b.Succs) != 2 || b == L.Header {
					continue
				}
				for j := 0; j < 2; j++ {
					l := condLabel(bif.Cond, j == 0)
					hit := sel[l]
					if tw, has := labelTwin(l); has && sel[tw] {
						hit = true
					}
					if comp := fi.composeCond(bif.Cond, j == 0); comp != nil && comp.Complete {
						for cl := range comp.Checked {
							if sel[cl] {
								hit = true
							}
						}
					}
					if hit {
						cut[edgeKey{b.Index, j}] = true
					}
				}
			}
			return !fi.reachHit([]state{{L.Body.Index, 0, -1}}, cut, map[int]bool{L.Header.Index: true}), len(cut)
		}
		for j := 0; j < est.NumFields(); j++ {
			f := E + "." + est.Field(j).Name()
			if _, isPtr := est.Field(j).Type().Underlying().(*types.Pointer); !isPtr {
				continue
			}
			isNil := "EQ(" + f + ",nil)"
			okFresh, n1 := blocked(map[string]bool{isNil: true,
				"F(call:(time.Time).After(call:time.Now()," + f + ".NextUpdate))":  true,
				"F(call:(time.Time).Before(" + f + ".NextUpdate,call:time.Now()))": true})
			okZero, _ := blocked(map[string]bool{isNil: true, "F(call:(time.Time).IsZero(" + f + ".NextUpdate))": true})
			for k := 0; k < int(arr.Len()); k++ {
				v, stored := vals[[2]int{k, j}]
				if !stored || isNilConst(v) {
					continue
				}
				if ld, isLoad := v.(*ssa.UnOp); isLoad && ld.Op == token.MUL && !sees(ld) {
					continue
				}
				d := desc(v)
				if okFresh {
					tf.nilOrFresh[d] = true
					tf.gates += n1
				}
				if okZero {
					tf.nilOrNotZero[d] = true
				}
			}
		}
	}
	return tf
}

// ---- C14 / C15: the key in a path is the key of *the* URL ---------------------------------------------------------

// c15KeyOfURL: the path value contains the key of exactly the URL parameter `url` of fn — decided on the values, not on
// the printed form (the key function is a transparent helper for desc(), and its printed body need not mention its
// parameter: `hash := sha256.Sum256([]byte(url))` prints as the variable). The path is filepath.Join(…, Key(recv, u))
// with u the parameter itself (no conversion, no normalisation: "the identical URL string"), or the result of a
// helper of the package that is handed the parameter and returns such a path on every exit.
func c15KeyOfURL(a *crlAnchors, fn *ssa.Function, v ssa.Value, url ssa.Value, depth int) bool {
	call, ok := loadOrigin(v).(*ssa.Call)
	if !ok || depth > 3 || a.Key == nil {
		return false
	}
	if calleeName(call) == "path/filepath.Join" && len(call.Call.Args) == 1 {
		sl, ok := call.Call.Args[0].(*ssa.Slice)
		if !ok {
			return false
		}
		al, ok := sl.X.(*ssa.Alloc)
		if !ok {
			return false
		}
		els := orderedLitElems(al)
		if len(els) != 2 {
			return false
		}
		kc, ok := els[1].(*ssa.Call)
		if !ok || staticCallee(kc) != a.Key || len(kc.Call.Args) == 0 {
			return false
		}
		return kc.Call.Args[len(kc.Call.Args)-1] == url
	}
	g := staticCallee(call)
	if g == nil || g.Blocks == nil || fnPkg(g) != fnPkg(fn) || len(call.Call.Args) != len(g.Params) {
		return false
	}
	gi := -1
	for i, arg := range call.Call.Args {
		if arg == url {
			if gi >= 0 {
				return false
			}
			gi = i
		}
	}
	if gi < 0 {
		return false
	}
	n := 0
	for _, b := range g.Blocks {
		r, isRet := blockTerm(b).(*ssa.Return)
		if !isRet {
			continue
		}
		n++
		if len(r.Results) != 1 || !c15KeyOfURL(a, g, r.Results[0], g.Params[gi], depth+1) {
			return false
		}
	}
	return n > 0
}

// ---- C15 (third pass): the expiry function decided on paths and on values ----------------------------------------

// c15RequireOrBlocked: every success of fn lies behind one of the facts `labels` (whole labels). Decided first per
// exit, as requireOnExits does (each success-capable exit carries one of the facts on every path to it); when the
// exits do not all carry one, decided on the paths (c15Blocked: once the edges that carry one of the facts are removed
// — in fn, or inside a module function whose success fn waits for — no success-capable exit is reachable). The two
// are the same statement, "every path from the entry to a success passes an edge on which one of the facts holds";
// the second form does not care whether the alternatives meet in one return statement (`if l != nil { …checks… };
// return nil`) or leave by returns of their own (`if l == nil { return nil }; …checks…; return nil`), nor whether the
// decision is an if-chain or a switch.
func (c *Ctx) c15RequireOrBlocked(prefix string, fn *ssa.Function, exits []*ExitSum, name, what string, labels []string) {
	need := exactNeed(name, what, labels...)
	all := len(exits) > 0
	for _, ex := range exits {
		if _, ok := need.match(ex.Checked); !ok {
			all = false
		}
	}
	if !all && len(exits) > 0 {
		c.Evals++
		if ok, n, _ := c15Blocked(c.W, fn, Mode{Kind: mErr}, oneOfLabels(labels), 0); ok && n >= 1 {
			c.SeenFn(fn.String())
			c.OK(prefix+"/"+name, "must-check: every success-capable exit of "+fnName(fn)+" is reachable only through the passing edge of: "+what, c.W.FnPos(fn))
			return
		}
	}
	c.requireOnExits(prefix, fn, exits, []Need{need})
}

// c15WrapOperand: the operand index of the one %w verb of a format string (-1 when there is none or more than one, or
// when the format uses explicit operand indexes or '*' widths, which break the verb-to-operand correspondence).
func c15WrapOperand(format string) int {
	idx, op := -1, 0
	for i := 0; i < len(format); i++ {
		if format[i] != '%' {
			continue
		}
		i++
		for i < len(format) && strings.IndexByte("+-# 0123456789.", format[i]) >= 0 {
			i++
		}
		if i >= len(format) {
			return -1
		}
		switch format[i] {
		case '%':
			continue
		case '[', '*':
			return -1
		case 'w':
			if idx >= 0 {
				return -1
			}
			idx = op
		}
		op++
	}
	return idx
}

// c15WrappedOperands: the error values the call keeps reachable for errors.Is / errors.Unwrap in its result —
// fmt.Errorf(constant format with one %w, …): the operand of the %w; errors.Join(…): every operand; a module function
// that hands back (on every return, as result k) one of its own parameters, itself or wrapped in that way
// (c15CarriesParam): the argument passed for that parameter.
func c15WrappedOperands(w *World, call *ssa.Call, k int, depth int) []ssa.Value {
	args := call.Call.Args
	switch calleeName(call) {
	case "fmt.Errorf":
		if len(args) != 2 || k != 0 {
			return nil
		}
		fc, ok := args[0].(*ssa.Const)
		if !ok {
			return nil
		}
		format, err := unquote(constString(fc))
		if err != nil {
			return nil
		}
		sl, ok := args[1].(*ssa.Slice)
		if !ok {
			return nil
		}
		al, ok := sl.X.(*ssa.Alloc)
		if !ok {
			return nil
		}
		els := orderedLitElems(al)
		if i := c15WrapOperand(format); i >= 0 && i < len(els) {
			return []ssa.Value{unwrap(els[i])}
		}
		return nil
	case "errors.Join":
		if len(args) != 1 || k != 0 {
			return nil
		}
		sl, ok := args[0].(*ssa.Slice)
		if !ok {
			return nil
		}
		al, ok := sl.X.(*ssa.Alloc)
		if !ok {
			return nil
		}
		return orderedLitElems(al)
	}
	if g := staticCallee(call); g != nil && g.Blocks != nil && w.IsProductFn(g) && depth < 3 && len(args) == len(g.Params) {
		if i := c15CarriesParam(w, g, k, depth+1); i >= 0 {
			return []ssa.Value{args[i]}
		}
	}
	return nil
}

// c15CarriesParam: every return of g delivers, as result k, one and the same parameter of g — itself, or wrapped so
// that errors.Is still finds it (c15WrappedOperands), or a phi of such values. -1 if g is not of that kind.
func c15CarriesParam(w *World, g *ssa.Function, k int, depth int) int {
	idx := -1
	var carries func(v ssa.Value, d int) bool
	carries = func(v ssa.Value, d int) bool {
		if d > 4 {
			return false
		}
		switch x := v.(type) {
		case *ssa.Parameter:
			for i, p := range g.Params {
				if p == x && (idx < 0 || idx == i) {
					idx = i
					return true
				}
			}
			return false
		case *ssa.Phi:
			for _, e := range x.Edges {
				if !carries(e, d+1) {
					return false
				}
			}
			return len(x.Edges) > 0
		case *ssa.Call:
			ops := c15WrappedOperands(w, x, 0, depth)
			if len(ops) != 1 {
				return false
			}
			return carries(ops[0], d+1)
		}
		return false
	}
	n := 0
	for _, b := range g.Blocks {
		r, ok := blockTerm(b).(*ssa.Return)
		if !ok {
			continue
		}
		n++
		if k >= len(r.Results) || c15RewrittenResult(r.Results[k]) || !carries(spilledRet(r.Results[k]), 0) {
			return -1
		}
	}
	if n == 0 {
		return -1
	}
	return idx
}

// c15SentinelWays: the ways by which the error value v, used in block `at`, can be — or wrap, so that errors.Is still
// finds it — the global error `sentinel`; for each way, the facts that hold whenever the value arrives that way:
//   - the value is loaded from the global in block b: what every path from the entry to b has passed;
//   - the value is a phi and the sentinel arrives by edge i: the facts of the way it took to the predecessor, and what
//     every path that enters the phi's block by that edge has passed (phis on a cycle are not followed);
//   - the value is the result of a wrapping call (c15WrappedOperands) one operand of which arrives as the sentinel: the
//     facts of that operand's way, and what every path to the call has passed.
//
// "An expired list yields the miss sentinel" is then: some value returned arrives as the sentinel by a way whose
// facts include "now is after NextUpdate" — wherever the wrapping of the error was moved (caller or callee) and
// whether the function leaves by one return per outcome or collects the outcome in an error local.
func c15SentinelWays(fi *FnInfo, v ssa.Value, at *ssa.BasicBlock, sentinel string, depth int) []map[string]string {
	return c15ErrWays(fi, v, at, func(x ssa.Value) bool {
		un, ok := x.(*ssa.UnOp)
		if !ok {
			return false
		}
		_, isGlobal := un.X.(*ssa.Global)
		return isGlobal && desc(un) == sentinel
	}, depth)
}

// c15ErrWays: c15SentinelWays for any error value picked out by isTarget (the sentinel; the error a call returned).
func c15ErrWays(fi *FnInfo, v ssa.Value, at *ssa.BasicBlock, isTarget func(ssa.Value) bool, depth int) []map[string]string {
	if depth > 6 {
		return nil
	}
	join := func(a, b map[string]string) map[string]string {
		out := map[string]string{}
		for l, s := range a {
			out[l] = s
		}
		for l, s := range b {
			out[l] = s
		}
		return out
	}
	upTo := func(b *ssa.BasicBlock) map[string]string {
		if b.Index == 0 {
			return map[string]string{}
		}
		l, ok := fi.mustPassBetween([]int{0}, map[int]bool{b.Index: true})
		if !ok {
			return nil
		}
		return l
	}
	if sv := spilledRet(v); sv != v {
		if c15RewrittenResult(v) {
			return nil
		}
		v = sv
	}
	var out []map[string]string
	if isTarget(v) {
		if f := upTo(at); f != nil {
			out = append(out, f)
		}
		return out
	}
	switch x := v.(type) {
	case *ssa.Phi:
		pb := x.Block()
		if fi.reachHit([]state{{pb.Index, 0, -1}}, nil, map[int]bool{pb.Index: true}) {
			return nil
		}
		for i, e := range x.Edges {
			pred := pb.Preds[i]
			ways := c15ErrWays(fi, e, pred, isTarget, depth+1)
			if len(ways) == 0 {
				continue
			}
			cut := map[edgeKey]bool{}
			for _, q := range pb.Preds {
				for j, sx := range q.Succs {
					if sx == pb && q != pred {
						cut[edgeKey{q.Index, j}] = true
					}
				}
			}
			in, ok := fi.mustPassBetweenCut([]int{0}, map[int]bool{pb.Index: true}, cut)
			if !ok {
				continue
			}
			for _, wy := range ways {
				out = append(out, join(wy, in))
			}
		}
	case *ssa.Call, *ssa.Extract:
		call, k := callOf(v), 0
		if ex, isEx := v.(*ssa.Extract); isEx {
			k = ex.Index
		}
		if call == nil {
			return nil
		}
		here := upTo(call.Block())
		if here == nil {
			return nil
		}
		for _, op := range c15WrappedOperands(fi.W, call, k, 0) {
			for _, wy := range c15ErrWays(fi, op, call.Block(), isTarget, depth+1) {
				out = append(out, join(wy, here))
			}
		}
	}
	return out
}

// c15ReadsSeeStores: every read of the field of the local object — a load of the field, the field's address put to
// any other use, or a call that is handed the object itself — comes after every store into that field (no store in a
// block reachable from the read, a store of the same block precedes it). A fact "the list is nil, or it was checked"
// is about the list the object finally holds only then: a check that runs before the field is filled sees nil and
// lets everything pass.
func c15ReadsSeeStores(w *World, al *ssa.Alloc, field string, stores []*ssa.Store) (bool, string) {
	fi := w.Info(al.Parent())
	var fst []*ssa.Store
	for _, st := range stores {
		if fa, ok := st.Addr.(*ssa.FieldAddr); ok && fa.X == ssa.Value(al) && fieldName(al.Type(), fa.Field) == field {
			fst = append(fst, st)
		}
	}
	early := func(in ssa.Instruction) (bool, string) {
		if c15LoadSeesStores(fi, in, fst) {
			return true, ""
		}
		return false, "the " + field + " of the bundle is read at " + w.InstrPos(in) + ", before it is filled"
	}
	for _, r := range *al.Referrers() {
		switch x := r.(type) {
		case *ssa.FieldAddr:
			if fieldName(al.Type(), x.Field) != field {
				continue
			}
			for _, rr := range *x.Referrers() {
				switch y := rr.(type) {
				case *ssa.DebugRef:
				case *ssa.Store:
					if y.Addr != ssa.Value(x) {
						return false, "the address of the bundle's " + field + " is stored at " + w.InstrPos(y)
					}
				default:
					if ok, why := early(rr); !ok {
						return false, why
					}
				}
			}
		case ssa.CallInstruction:
			if g := staticCallee(x); g != nil && w.IsProductFn(g) {
				if ok, why := early(x); !ok {
					return false, why
				}
			}
		}
	}
	return true, ""
}

// ---- C15 (third pass): values handed back by helpers that answer for an absent delta themselves -----------------------

// c15SuccessReturns: the returns of g that can deliver a value to a caller that goes on — the success-capable exits when
// g has an error result, every return otherwise. ok=false when the exits are not understood.
func c15SuccessReturns(w *World, g *ssa.Function) ([]*ssa.Return, bool) {
	var rets []*ssa.Return
	res := g.Signature.Results()
	if res.Len() > 0 && isErrorType(res.At(res.Len()-1).Type()) {
		s := w.Summarize(g, Mode{Kind: mErr})
		if s == nil || !s.Complete {
			return nil, false
		}
		for _, e := range s.Exits {
			rets = append(rets, e.Ret)
		}
	} else {
		for _, b := range g.Blocks {
			if r, ok := blockTerm(b).(*ssa.Return); ok {
				rets = append(rets, r)
			}
		}
	}
	return rets, len(rets) > 0
}

func c15InUnit(unit []*ssa.Function, g *ssa.Function) bool {
	for _, f := range unit {
		if f == g {
			return true
		}
	}
	return false
}

// c15ParsedFrom: the (non-nil) list v is result 0 of x509.ParseRevocationList applied to the entry field `want` — the
// call stands here, or in a function of the unit whose result v is: every value that function can hand back on a
// success-capable exit is nil (no list: not a source) or such a parse result, its argument read with the function's
// parameters replaced by the arguments of this call (`in` carries the text from the caller's frame into the frame of the
// decoding function). A helper `parse(raw) { if raw == nil { return nil, nil }; return x509.ParseRevocationList(raw) }`
// called with entry.DeltaCRL is the guard `if entry.DeltaCRL != nil` of the caller moved into the callee; a helper
// called for both fields is judged per call.
func c15ParsedFrom(w *World, unit []*ssa.Function, v ssa.Value, want string, in func(string) string, depth int) bool {
	if depth > 3 {
		return false
	}
	if ph, ok := v.(*ssa.Phi); ok && depth > 0 {
		n := 0
		for _, e := range ph.Edges {
			if isNilConst(e) {
				continue
			}
			n++
			if !c15ParsedFrom(w, unit, e, want, in, depth+1) {
				return false
			}
		}
		return n > 0
	}
	call, k := callOf(v), 0
	if ex, ok := v.(*ssa.Extract); ok {
		k = ex.Index
	}
	if call == nil {
		return false
	}
	if calleeName(call) == "crypto/x509.ParseRevocationList" {
		return k == 0 && in(desc(call.Call.Args[0])) == want
	}
	g := staticCallee(call)
	if g == nil || g.Blocks == nil || !c15InUnit(unit, g) || len(call.Call.Args) != len(g.Params) {
		return false
	}
	rets, ok := c15SuccessReturns(w, g)
	if !ok {
		return false
	}
	fr := c15FrameAt(call)
	inG := func(l string) string { return in(fr.in(l)) }
	n := 0
	for _, r := range rets {
		if k >= len(r.Results) || c15RewrittenResult(r.Results[k]) {
			return false
		}
		rv := spilledRet(r.Results[k])
		if isNilConst(rv) {
			continue
		}
		n++
		if !c15ParsedFrom(w, unit, rv, want, inG, depth+1) {
			return false
		}
	}
	return n > 0
}

// c15ValueSpellings: how the non-nil values v can be are written, in the frame of the function v stands in: v itself, or
// — when v is the result of a function of the unit — what that function hands back (nil returns and nil arms of a phi
// are no values), with its parameters replaced by the arguments of the call. ok=false when some return is not understood.
func c15ValueSpellings(w *World, unit []*ssa.Function, v ssa.Value, depth int) ([]string, bool) {
	call, k := callOf(v), 0
	if ex, ok := v.(*ssa.Extract); ok {
		k = ex.Index
	}
	var g *ssa.Function
	if call != nil {
		g = staticCallee(call)
	}
	if g == nil || g.Blocks == nil || !c15InUnit(unit, g) || len(call.Call.Args) != len(g.Params) || depth > 2 {
		return []string{desc(v)}, true
	}
	if _, transparent := retExpr(call, k, 6); transparent {
		return []string{desc(v)}, true // desc() already renders the one expression the helper hands back
	}
	rets, ok := c15SuccessReturns(w, g)
	if !ok {
		return nil, false
	}
	fr := c15FrameAt(call)
	var out []string
	for _, r := range rets {
		if k >= len(r.Results) || c15RewrittenResult(r.Results[k]) {
			return nil, false
		}
		var arms []ssa.Value
		seen := map[ssa.Value]bool{}
		var walk func(x ssa.Value)
		walk = func(x ssa.Value) {
			if seen[x] {
				return
			}
			seen[x] = true
			if ph, isPhi := x.(*ssa.Phi); isPhi {
				for _, e := range ph.Edges {
					walk(e)
				}
				return
			}
			if !isNilConst(x) {
				arms = append(arms, x)
			}
		}
		walk(spilledRet(r.Results[k]))
		for _, a := range arms {
			ds, ok := c15ValueSpellings(w, unit, a, depth+1)
			if !ok {
				return nil, false
			}
			for _, d := range ds {
				out = append(out, fr.in(d))
			}
		}
	}
	return out, true
}

// c15NilWays: the ways by which the value v, used in block `at` of fi's function, can be nil, each with the facts that
// hold whenever it is nil that way (labels in the frame of fi's function): a nil constant — what every path to its use
// has passed; a nil arm of a phi — what every path that enters the phi's block by that edge has passed; the result of a
// function of the unit — the ways its returned value can be nil, read with the parameters replaced by the arguments of
// the call, and what every path to the call has passed. Values of any other kind are not nil by construction of the
// rule that asks (a field load `bundle.DeltaCRL.Raw` is "the bytes of the list"). ok=false: not understood.
func c15NilWays(w *World, unit []*ssa.Function, fi *FnInfo, v ssa.Value, at *ssa.BasicBlock, depth int) ([]map[string]string, bool) {
	if depth > 4 {
		return nil, false
	}
	upTo := func(b *ssa.BasicBlock) map[string]string {
		if b.Index == 0 {
			return map[string]string{}
		}
		l, _ := fi.mustPassBetween([]int{0}, map[int]bool{b.Index: true})
		if l == nil {
			l = map[string]string{}
		}
		return l
	}
	join := func(a, b map[string]string) map[string]string {
		out := map[string]string{}
		for l, s := range a {
			out[l] = s
		}
		for l, s := range b {
			out[l] = s
		}
		return out
	}
	if isNilConst(v) {
		return []map[string]string{upTo(at)}, true
	}
	var out []map[string]string
	switch x := v.(type) {
	case *ssa.Phi:
		pb := x.Block()
		if fi.reachHit([]state{{pb.Index, 0, -1}}, nil, map[int]bool{pb.Index: true}) {
			return nil, false
		}
		for i, e := range x.Edges {
			pred := pb.Preds[i]
			ways, ok := c15NilWays(w, unit, fi, e, pred, depth+1)
			if !ok {
				return nil, false
			}
			if len(ways) == 0 {
				continue
			}
			cut := map[edgeKey]bool{}
			for _, q := range pb.Preds {
				for j, sx := range q.Succs {
					if sx == pb && q != pred {
						cut[edgeKey{q.Index, j}] = true
					}
				}
			}
			inEdge, reach := fi.mustPassBetweenCut([]int{0}, map[int]bool{pb.Index: true}, cut)
			if !reach {
				continue
			}
			for _, wy := range ways {
				out = append(out, join(wy, inEdge))
			}
		}
		return out, true
	case *ssa.Call, *ssa.Extract:
		call, k := callOf(v), 0
		if ex, isEx := v.(*ssa.Extract); isEx {
			k = ex.Index
		}
		if call == nil {
			return nil, true
		}
		g := staticCallee(call)
		if g == nil || g.Blocks == nil || !c15InUnit(unit, g) || len(call.Call.Args) != len(g.Params) {
			return nil, true
		}
		rets, ok := c15SuccessReturns(w, g)
		if !ok {
			return nil, false
		}
		fr := c15FrameAt(call)
		gi := w.Info(g)
		here := upTo(call.Block())
		for _, r := range rets {
			if k >= len(r.Results) || c15RewrittenResult(r.Results[k]) {
				return nil, false
			}
			ways, ok := c15NilWays(w, unit, gi, spilledRet(r.Results[k]), r.Block(), depth+1)
			if !ok {
				return nil, false
			}
			for _, wy := range ways {
				m := map[string]string{}
				for l, s := range wy {
					m[fr.in(l)] = s
				}
				out = append(out, join(m, here))
			}
		}
		return out, true
	}
	return nil, true
}

// ---- C15 (third pass): "now is after T", however it is spelled ---------------------------------------------------------

// c15ClockForms: the standard-library spellings of the difference between the clock and a time T. Each form is the
// printed call with T cut out (prefix, suffix) and the sign of the result when now is after T: +1 for now-T (Compare
// and Sub with the clock as the receiver, time.Since), -1 for T-now (the clock as the argument, time.Until), 0 for the
// boolean methods (bool = +1: After(now,T) and Before(T,now) are true exactly when now is after T).
// time.Since(T) is time.Now().Sub(T) and time.Until(T) is T.Sub(time.Now()); Sub saturates but keeps the sign and is
// zero only for equal instants, Compare is the sign of that difference: `> 0` on a now-T form and `< 0` on a T-now
// form are true exactly when time.Now().After(T) is.
var c15ClockForms = []struct {
	pre, suf string
	sign     int
}{
	{"call:(time.Time).After(call:time.Now(),", ")", 0},
	{"call:(time.Time).Before(", ",call:time.Now())", 0},
	{"call:(time.Time).Compare(call:time.Now(),", ")", +1},
	{"call:(time.Time).Compare(", ",call:time.Now())", -1},
	{"call:(time.Time).Sub(call:time.Now(),", ")", +1},
	{"call:(time.Time).Sub(", ",call:time.Now())", -1},
	{"call:time.Since(", ")", +1},
	{"call:time.Until(", ")", -1},
}

// c15ClockLabels: the edge labels that say "now is after T" (expired) and the ones that say "now is not after T" (fresh).
func c15ClockLabels(T string) (expired, fresh []string) {
	for _, f := range c15ClockForms {
		core := f.pre + T + f.suf
		switch f.sign {
		case 0:
			expired = append(expired, "T("+core+")")
			fresh = append(fresh, "F("+core+")")
		case +1:
			expired = append(expired, "GT("+core+",const:0)")
			fresh = append(fresh, "LE("+core+",const:0)")
		case -1:
			expired = append(expired, "LT("+core+",const:0)")
			fresh = append(fresh, "GE("+core+",const:0)")
		}
	}
	return
}

// c15ClockOperand: the time T a label compares the clock with, if the label is one of c15ClockLabels(T).
func c15ClockOperand(l string) (string, bool) {
	_, args := splitTopArgs(l)
	if len(args) == 0 {
		return "", false
	}
	core := args[0]
	for _, f := range c15ClockForms {
		if !strings.HasPrefix(core, f.pre) || !strings.HasSuffix(core, f.suf) || len(core) <= len(f.pre)+len(f.suf) {
			continue
		}
		T := core[len(f.pre) : len(core)-len(f.suf)]
		if T == "call:time.Now()" || strings.HasPrefix(T, "call:time.Now(),") {
			continue
		}
		ex, fr := c15ClockLabels(T)
		for _, x := range append(ex, fr...) {
			if x == l {
				return T, true
			}
		}
	}
	return "", false
}

func labelHasAny(m map[string]string, ls []string) bool {
	for _, l := range ls {
		if labelHas(m, l) {
			return true
		}
	}
	return false
}

// c15ConsultsClock: the function reads the clock itself.
func c15ConsultsClock(f *ssa.Function) bool {
	return len(findCalls(f, "time.Now", "time.Since", "time.Until")) > 0
}

// c15ExpiryFns: the functions on the way of Get that decide on the clock: a function of the unit (other than Get) that
// reads the clock and reports by an error — or, when the clock is read by a predicate (`func expired(t time.Time)
// bool`), the functions of the unit with an error result that call the predicate: the predicate's answer is a
// condition of theirs, and the gate composition carries its facts (with the parameter replaced by the argument) onto
// their edges.
func c15ExpiryFns(unit []*ssa.Function) []*ssa.Function {
	var out []*ssa.Function
	seen := map[*ssa.Function]bool{}
	reportsError := func(f *ssa.Function) bool {
		res := f.Signature.Results()
		return res.Len() > 0 && isErrorType(res.At(res.Len()-1).Type())
	}
	var add func(f *ssa.Function, depth int)
	add = func(f *ssa.Function, depth int) {
		if seen[f] || f == unit[0] || f.Parent() != nil || depth > 2 {
			return
		}
		seen[f] = true
		if reportsError(f) {
			out = append(out, f)
			return
		}
		for _, g := range unit {
			for _, ci := range allCalls(g) {
				if staticCallee(ci) == f {
					add(g, depth+1)
				}
			}
		}
	}
	for _, f := range unit[1:] {
		if f.Parent() == nil && c15ConsultsClock(f) {
			add(f, 0)
		}
	}
	return out
}

// c15JudgedTime: the time the function compares the clock with, read off the facts of its own branch edges (the
// condition itself, and what the gate composition derives from a predicate it calls), in block order.
func c15JudgedTime(fi *FnInfo) string {
	for _, b := range fi.Fn.Blocks {
		iff, ok := blockTerm(b).(*ssa.If)
		if !ok || len(b.Succs) != 2 {
			continue
		}
		for j := 0; j < 2; j++ {
			ls := []string{condLabel(iff.Cond, j == 0)}
			if comp := fi.composeCond(iff.Cond, j == 0); comp != nil {
				ls = append(ls, labelList(comp.Checked)...)
			}
			for _, l := range ls {
				if T, ok := c15ClockOperand(l); ok {
					return T
				}
			}
		}
	}
	return ""
}

// ---- C14 / C15 (third pass): a step of Get / Set that touches the file system from a helper of the package ---------------

// c15PathIsKeyOfURL: the path value pa, used in function f of the unit of root (Get or Set), is Join(root dir, key(url))
// for root's own URL parameter: f is root, or is reached from root by calls made once (c15FramePath), the path reads
// `want` once f's parameters are replaced by the arguments of those calls, and — decided on the values — the key is
// taken of exactly that parameter of f which, by the same substitution, is root's URL parameter.
func c15PathIsKeyOfURL(a *crlAnchors, unit []*ssa.Function, root, f *ssa.Function, pa ssa.Value, want string) (bool, string) {
	fr := c15FramePath(unit, root, f)
	if fr == nil {
		return false, desc(pa) + " in " + fnName(f) + ", which " + fnName(root) + " does not reach by calls made once"
	}
	if got := fr.in(desc(pa)); got != want {
		return false, got
	}
	urlP := "param:" + root.Params[2].Name()
	var up *ssa.Parameter
	for _, p := range f.Params {
		if p.Type().String() != "string" {
			continue
		}
		if (fr.ident && p == root.Params[2]) || (!fr.ident && fr.in("param:"+p.Name()) == urlP) {
			if up != nil {
				return false, desc(pa) + " — two parameters of " + fnName(f) + " are the URL"
			}
			up = p
		}
	}
	if up == nil || !c15KeyOfURL(a, f, pa, up, 0) {
		return false, desc(pa) + " — the key of another string than the URL parameter"
	}
	return true, ""
}

// c15IsErrOf: the value is the error the call returned.
func c15IsErrOf(call *ssa.Call) func(ssa.Value) bool {
	return func(x ssa.Value) bool {
		if x == ssa.Value(call) {
			return isErrorType(call.Type())
		}
		ex, ok := x.(*ssa.Extract)
		return ok && ex.Tuple == ssa.Value(call) && isErrorType(ex.Type())
	}
}

// c15OnlyErrorReturned: every result of the return but the last is a nil constant.
func c15OnlyErrorReturned(r *ssa.Return) bool {
	for i := 0; i+1 < len(r.Results); i++ {
		if !isNilConst(r.Results[i]) {
			return false
		}
	}
	return len(r.Results) >= 1
}

// c15UpChain: the value v of function f (reached from the root by the chain of calls of frame fr) as the root handed it
// in: while v is a parameter of f, it is the argument of f's call one level up. Returns the value and the function it
// stands in.
func c15UpChain(fr *c15Frame, f *ssa.Function, v ssa.Value) (ssa.Value, *ssa.Function) {
	for fr != nil && !fr.ident && fr.call != nil {
		p, ok := v.(*ssa.Parameter)
		if !ok {
			break
		}
		idx := -1
		for i, q := range f.Params {
			if q == p {
				idx = i
			}
		}
		if idx < 0 || idx >= len(fr.call.Call.Args) {
			break
		}
		v = fr.call.Call.Args[idx]
		f = fr.call.Parent()
		fr = fr.outer
	}
	return v, f
}

// c15WriterCall: the one call of the atomic writer on the way of Set — in Set, or in a function of the package that Set
// reaches by calls made once and that nothing else in the package calls (so the writer runs for Set's arguments only).
// nil (with the reason) otherwise.
func c15WriterCall(w *World, a *crlAnchors, setUnit []*ssa.Function) (*ssa.Call, *c15Frame, string) {
	if a.WF == nil {
		return nil, nil, "no atomic writer"
	}
	var wcall *ssa.Call
	n := 0
	for _, f := range setUnit {
		for _, ci := range allCalls(f) {
			if staticCallee(ci) == a.WF {
				n++
				wcall, _ = ci.(*ssa.Call)
			}
		}
	}
	if n != 1 || wcall == nil {
		return nil, nil, fmt.Sprintf("%d calls of the temp-file-and-rename writer in Set and the functions of the package it calls", n)
	}
	fr := c15FramePath(setUnit, a.Set, wcall.Parent())
	if fr == nil {
		return nil, nil, "the writer is called in " + fnName(wcall.Parent()) + ", which Set does not reach by calls made once"
	}
	for x := fr; x != nil && !x.ident && x.call != nil; x = x.outer {
		g := staticCallee(x.call)
		for _, f := range w.FuncsOfPkg("verifier/crl") {
			for _, ci := range allCalls(f) {
				if staticCallee(ci) == g && ci != ssa.CallInstruction(x.call) {
					return nil, nil, fnName(g) + ", which calls the writer, is also called from " + fnName(f)
				}
			}
		}
		for _, f := range w.FuncsOfPkg("verifier/crl") {
			for _, b := range f.Blocks {
				for _, in := range b.Instrs {
					for _, op := range in.Operands(nil) {
						if *op == ssa.Value(g) {
							if ci, isCall := in.(ssa.CallInstruction); !isCall || ci.Common().Value != ssa.Value(g) {
								return nil, nil, fnName(g) + ", which calls the writer, is used as a value in " + fnName(f)
							}
						}
					}
				}
			}
		}
	}
	return wcall, fr, ""
}

// ---- C15 (guard pass): a missing entry leaves the reader by no other return than the miss --------------------------

// c15Way: one way by which a returned error value arrives at a return — the value itself (leaf: not a phi), the block
// it is used in (the return's block, or the predecessor a phi edge comes from) and the facts every path that delivers
// it this way has passed.
type c15Way struct {
	leaf  ssa.Value
	at    *ssa.BasicBlock
	facts map[string]string
}

func c15JoinFacts(a, b map[string]string) map[string]string {
	out := map[string]string{}
	for l, s := range a {
		out[l] = s
	}
	for l, s := range b {
		out[l] = s
	}
	return out
}

// c15LeafWays: all the ways the value v, used in block `at`, can arrive (c15ErrWays asks for the ways of one target;
// this one lists every way): a phi contributes, per incoming edge, the ways of the edge's value joined with what every
// path that enters the phi's block by that edge has passed (an edge no path can take contributes nothing); any other
// value is a leaf with what every path from the entry to `at` has passed. ok=false: not understood (a phi on a cycle,
// a result variable a deferred function may rewrite, nesting too deep).
func c15LeafWays(fi *FnInfo, v ssa.Value, at *ssa.BasicBlock, depth int) ([]c15Way, bool) {
	if depth > 6 {
		return nil, false
	}
	if sv := spilledRet(v); sv != v {
		if c15RewrittenResult(v) {
			return nil, false
		}
		v = sv
	}
	if ph, isPhi := v.(*ssa.Phi); isPhi {
		pb := ph.Block()
		if fi.reachHit([]state{{pb.Index, 0, -1}}, nil, map[int]bool{pb.Index: true}) {
			return nil, false
		}
		var out []c15Way
		for i, e := range ph.Edges {
			pred := pb.Preds[i]
			cut := map[edgeKey]bool{}
			for _, q := range pb.Preds {
				for j, sx := range q.Succs {
					if sx == pb && q != pred {
						cut[edgeKey{q.Index, j}] = true
					}
				}
			}
			in, reach := fi.mustPassBetweenCut([]int{0}, map[int]bool{pb.Index: true}, cut)
			if !reach {
				continue
			}
			ways, ok := c15LeafWays(fi, e, pred, depth+1)
			if !ok {
				return nil, false
			}
			for _, wy := range ways {
				out = append(out, c15Way{wy.leaf, wy.at, c15JoinFacts(wy.facts, in)})
			}
		}
		return out, true
	}
	facts := map[string]string{}
	if at.Index != 0 {
		l, reach := fi.mustPassBetween([]int{0}, map[int]bool{at.Index: true})
		if !reach {
			return nil, true
		}
		facts = l
	}
	return []c15Way{{v, at, facts}}, true
}

// c15EveryWayAfter: in fn, every way by which a non-nil error arrives at a return that can be reached after the call
// `after` (the way's block is the call's block or reachable from it) either has passed one of the facts `pass`, or
// delivers an error `carries` accepts. n = the ways that had to rely on `carries` or on nothing (the ways the rule is
// about: the call happened and none of the `pass` facts is established); bad = the first way that relies on nothing
// (`what` names the pass facts in words for that message); undecided = why the returns of fn are not understood.
func c15EveryWayAfter(fi *FnInfo, after *ssa.Call, pass []string, what string, carries func(leaf ssa.Value, at *ssa.BasicBlock) bool) (n int, bad, undecided string) {
	w := fi.W
	ab := after.Block()
	for _, b := range fi.Fn.Blocks {
		r, isRet := blockTerm(b).(*ssa.Return)
		if !isRet || len(r.Results) == 0 || !isErrorType(r.Results[len(r.Results)-1].Type()) {
			continue
		}
		ways, ok := c15LeafWays(fi, r.Results[len(r.Results)-1], b, 0)
		if !ok {
			if undecided == "" {
				undecided = "the error returned at " + w.InstrPos(r) + " is not understood (a result variable rewritten by a deferred function, or an error collected around a loop)"
			}
			continue
		}
		var toRet map[string]string
		if b.Index != 0 {
			toRet, _ = fi.mustPassBetween([]int{0}, map[int]bool{b.Index: true})
		}
		for _, wy := range ways {
			if isNilConst(wy.leaf) {
				continue // a success: get/read-error answers for it
			}
			if wy.at != ab && !fi.reachHit([]state{{ab.Index, 0, -1}}, nil, map[int]bool{wy.at.Index: true}) {
				continue // decided before the call
			}
			facts := c15JoinFacts(wy.facts, toRet)
			if labelHasAny(facts, pass) {
				continue
			}
			n++
			if !carries(wy.leaf, wy.at) && bad == "" {
				bad = fmt.Sprintf("the return at %s can deliver %s on a path that has passed neither %s; facts that do hold on every path that delivers it: %s", w.InstrPos(r), trunc(desc(wy.leaf), 160), what, summarizeLabels(facts, 8))
			}
		}
	}
	return n, bad, undecided
}

// c15MissingOnlyMiss: "for URLs never stored the result is a cache miss" as a must-pass rule. get/missing-is-miss
// finds a return of the sentinel behind the passing edge of the not-exist test — it still finds it when that test got
// an extra conjunct (`if strict && errors.Is(err, fs.ErrNotExist)`): the sentinel's return is simply reached less
// often, and a missing file falls through to the return of the plain read error. A caller that asks errors.Is(err,
// ErrCacheMiss) — the revocation fetcher does, to decide between "download the CRL" and "fail" — then fails for every
// URL it has not seen before. What is required here is the complement: in the function that reads, every way an
// error other than the sentinel can be returned once the read has happened lies behind "the read error is nil" or
// behind the FAILING edge of the not-exist test (errors.Is(err, fs.ErrNotExist) or os.IsNotExist(err), on the error of
// the os.ReadFile call itself, directly or inside a predicate of the module — the engine reads the predicate's facts
// with its parameter replaced by the argument). And when the read stands in a function Get calls, the same on every
// caller of the chain: every way an error that does not carry the call's error (itself, or wrapped with %w) can be
// returned after the call lies behind "the call's error is nil" or behind "the call's error is not the sentinel".
//
// Shapes accepted: the test nested under `err != nil` or standing before it; `if`, `switch { case … }`, the negated
// test with the arms exchanged; the test in a bool helper; one return per outcome or one return of an error local
// (the arms of the phi are judged one by one); the sentinel returned as it is or wrapped with %w / errors.Join.
func (c *Ctx) c15MissingOnlyMiss(Get, Fr *ssa.Function, rf *ssa.Call, frR *c15Frame) {
	w := c.W
	const sentinel = "global:core/revocation/crl.ErrCacheMiss"
	key := "get/missing-only-miss"
	rule := "must-pass: once os.ReadFile has failed, every return of an error other than the cache-miss sentinel lies behind the failing edge of the not-exist test (errors.Is(err, fs.ErrNotExist) / os.IsNotExist(err) is false) — a URL never stored can leave Get by no other error than the miss; each function between Get and the read hands that error on"
	rfi := w.Info(Fr)
	re := desc(rf) + "#err"
	pass := []string{"EQ(" + re + ",nil)", "F(call:errors.Is(" + re + ",global:io/fs.ErrNotExist))", "F(call:os.IsNotExist(" + re + "))"}
	n, bad, und := c15EveryWayAfter(rfi, rf, pass, "\"the read error is nil\" nor the failing edge of the not-exist test on the read error", func(leaf ssa.Value, at *ssa.BasicBlock) bool {
		return len(c15SentinelWays(rfi, leaf, at, sentinel, 0)) > 0
	})
	c.Evals += n + 1
	site := w.InstrPos(rf)
	if bad == "" && und == "" && n == 0 {
		bad = "no return of " + fnName(Fr) + " delivers an error for a failed read"
	}
	for fr := frR; bad == "" && und == "" && fr != nil && !fr.ident && fr.call != nil; fr = fr.outer {
		call := fr.call
		caller := call.Parent()
		cfi := w.Info(caller)
		ce := desc(call)
		if !isErrorType(call.Type()) {
			ce = ""
			for _, ref := range *call.Referrers() {
				if ex, ok := ref.(*ssa.Extract); ok && isErrorType(ex.Type()) {
					ce = desc(ex)
				}
			}
		}
		if ce == "" {
			bad = fnName(caller) + " drops the error of " + calleeName(call)
			site = w.InstrPos(call)
			break
		}
		isErr := c15IsErrOf(call)
		m, b2, u2 := c15EveryWayAfter(cfi, call, []string{"EQ(" + ce + ",nil)", "F(call:errors.Is(" + ce + "," + sentinel + "))"}, "\"the call's error is nil\" nor \"the call's error is not the miss sentinel\"", func(leaf ssa.Value, at *ssa.BasicBlock) bool {
			return len(c15ErrWays(cfi, leaf, at, isErr, 0)) > 0 || len(c15SentinelWays(cfi, leaf, at, sentinel, 0)) > 0
		})
		c.Evals += m + 1
		if b2 == "" && u2 == "" && m == 0 {
			b2 = "no return of " + fnName(caller) + " delivers the error of " + calleeName(call)
		}
		if b2 != "" {
			bad = "in " + fnName(caller) + ", after " + calleeName(call) + " failed, " + b2
			site = w.InstrPos(call)
		}
		und = u2
	}
	switch {
	case bad != "":
		c.Bad(key, rule, site, bad)
	case und != "":
		c.Unk(key, rule, site, und)
	default:
		c.OK(key, rule, site)
	}
}
