package main

// Helpers of the C14 / C15 rule set (rules_c14_15.go): deciding obligations of the CRL file cache when the code that
// discharges them lives in a helper function instead of the body of WriteFile / Get / Set.

import (
	"fmt"
	"go/types"
	"regexp"
	"strings"

	"golang.org/x/tools/go/ssa"
)

// ---- C14: where the steps of the writer's protocol live ---------------------------------------------------------

// c14Unit: the writer WF (the function of internal/file that renames the temporary file over the destination) and the
// function H that creates, writes and closes the temporary file — WF itself, or a module function WF calls directly
// and whose result is the name handed to Rename.
type c14Unit struct {
	WF, H  *ssa.Function
	hc     *ssa.Call // the call of H in WF (nil when H == WF)
	ct, rn *ssa.Call
}

func (u *c14Unit) fns() []*ssa.Function {
	if u.H == u.WF {
		return []*ssa.Function{u.WF}
	}
	return []*ssa.Function{u.WF, u.H}
}

// c14FindUnit returns nil (with the reason) when WF and its direct module callees do not contain exactly one
// os.CreateTemp and exactly one os.Rename, the latter in WF itself.
func c14FindUnit(w *World, WF *ssa.Function) (*c14Unit, string) {
	if WF == nil {
		return nil, "no function of internal/file renames a file"
	}
	u := &c14Unit{WF: WF}
	rns := findCalls(WF, "os.Rename")
	if len(rns) != 1 {
		return nil, fmt.Sprintf("%d os.Rename calls in %s", len(rns), fnName(WF))
	}
	rn, isCall := rns[0].(*ssa.Call)
	if !isCall {
		return nil, "the rename is deferred"
	}
	u.rn = rn
	var holders []*ssa.Function
	var hcs []*ssa.Call
	nct := len(findCalls(WF, "os.CreateTemp"))
	if nct > 0 {
		holders = append(holders, WF)
	}
	seen := map[*ssa.Function]bool{WF: true}
	for _, ci := range allCalls(WF) {
		g := staticCallee(ci)
		if g == nil || g.Blocks == nil || !w.IsProductFn(g) {
			continue
		}
		k := len(findCalls(g, "os.CreateTemp"))
		if k == 0 && len(findCalls(g, "os.Rename")) > 0 && !seen[g] {
			return nil, "a second rename in " + fnName(g)
		}
		if k == 0 {
			continue
		}
		if call, ok := ci.(*ssa.Call); ok {
			hcs = append(hcs, call)
		} else {
			return nil, "the temporary file is created in a deferred call"
		}
		if !seen[g] {
			seen[g] = true
			nct += k
			holders = append(holders, g)
			if len(findCalls(g, "os.Rename")) > 0 {
				return nil, "a second rename in " + fnName(g)
			}
		}
	}
	if nct != 1 || len(holders) != 1 {
		return nil, fmt.Sprintf("%d os.CreateTemp calls in %s and the functions it calls", nct, fnName(WF))
	}
	u.H = holders[0]
	if u.H != WF {
		if len(hcs) != 1 {
			return nil, fmt.Sprintf("%s is called %d times", fnName(u.H), len(hcs))
		}
		u.hc = hcs[0]
	}
	ct, isCall := findCalls(u.H, "os.CreateTemp")[0].(*ssa.Call)
	if !isCall {
		return nil, "the temporary file is created in a deferred call"
	}
	u.ct = ct
	return u, ""
}

func c14ParamIndex(fn *ssa.Function, v ssa.Value) int {
	d := desc(v)
	for i, p := range fn.Params {
		if d == "param:"+p.Name() {
			return i
		}
	}
	return -1
}

// toWF: the parameter of WF that a value of H's frame is (H's own parameter, fed at the call of H by a parameter of WF).
func (u *c14Unit) toWF(v ssa.Value) *ssa.Parameter {
	i := c14ParamIndex(u.H, v)
	if i < 0 {
		return nil
	}
	if u.H == u.WF {
		return u.WF.Params[i]
	}
	if i >= len(u.hc.Call.Args) {
		return nil
	}
	j := c14ParamIndex(u.WF, u.hc.Call.Args[i])
	if j < 0 {
		return nil
	}
	return u.WF.Params[j]
}

// c14ErrorOnlyViaRename: an alternative proof of "the writer reports success only after the rename" for writers that
// collect the outcome of the steps in one error variable and return it at a single exit
// (`if werr != nil { err = wrap(werr) } else if … else { err = os.Rename(…) }; if err != nil { cleanup }; return err`).
// The product graph cannot tell at the exit which assignment reached it; the values can: every value that can arrive
// at a return as the error result (followed through phis) is
//   - provably non-nil where it is produced (a failure is reported), or
//   - the result of the rename itself (nil exactly when the rename succeeded), or
//   - delivered from a block that cannot be reached once the edges into the rename's block are removed.
//
// So a nil result implies the rename was executed first — the same fact the path rule establishes.
func c14ErrorOnlyViaRename(fi *FnInfo, rn *ssa.Call) (bool, string) {
	cut := map[edgeKey]bool{}
	cutInto(fi, rn.Block(), cut)
	rb := rn.Block()
	onlyAfter := func(at *ssa.BasicBlock) bool {
		if at == rb {
			return true
		}
		if at.Index == 0 {
			return false
		}
		return !fi.reachHit(entryState(), cut, map[int]bool{at.Index: true})
	}
	for _, b := range fi.Fn.Blocks {
		r, ok := blockTerm(b).(*ssa.Return)
		if !ok {
			continue
		}
		if b.Index != 0 && !fi.reachHit(entryState(), nil, map[int]bool{b.Index: true}) {
			continue // not reachable from the entry (the recover block)
		}
		if len(r.Results) == 0 || !isErrorType(r.Results[len(r.Results)-1].Type()) {
			return false, "the writer does not return an error"
		}
		seen := map[ssa.Value]bool{}
		var walk func(v ssa.Value, at *ssa.BasicBlock) (bool, string)
		walk = func(v ssa.Value, at *ssa.BasicBlock) (bool, string) {
			if v == ssa.Value(rn) {
				return true, ""
			}
			if ph, isPhi := v.(*ssa.Phi); isPhi {
				if seen[v] {
					return true, ""
				}
				seen[v] = true
				for i, e := range ph.Edges {
					if ok, why := walk(e, ph.Block().Preds[i]); !ok {
						return false, why
					}
				}
				return true, ""
			}
			if _, isLoad := v.(*ssa.UnOp); isLoad {
				if sv := spilledRet(v); sv != v {
					if al, _ := unwrapLoadAlloc(v); al != nil && allocWrittenByClosure(al) {
						return false, "the result variable is rewritten by a deferred function"
					}
					return walk(sv, at)
				}
			}
			if fi.nonNil(v, at) || onlyAfter(at) {
				return true, ""
			}
			return false, fmt.Sprintf("%s can be returned as the result at %s without the rename having run", desc(v), fi.W.InstrPos(r))
		}
		if ok, why := walk(r.Results[len(r.Results)-1], b); !ok {
			return false, why
		}
	}
	return true, ""
}

// c14FromRead: the value is the content result of the read rf — directly, or as a parameter of a function of the unit
// every call of which (inside the unit) passes such a value at that position.
func c14FromRead(unit []*ssa.Function, f *ssa.Function, v ssa.Value, rf *ssa.Call, depth int) bool {
	if ex, ok := v.(*ssa.Extract); ok && ex.Tuple == ssa.Value(rf) && ex.Index == 0 {
		return true
	}
	p, ok := v.(*ssa.Parameter)
	if !ok || depth > 3 {
		return false
	}
	idx := -1
	for i, q := range f.Params {
		if q == p {
			idx = i
		}
	}
	if idx < 0 {
		return false
	}
	n := 0
	for _, g := range unit {
		for _, ci := range allCalls(g) {
			if staticCallee(ci) != f {
				continue
			}
			n++
			args := ci.Common().Args
			if idx >= len(args) || !c14FromRead(unit, g, args[idx], rf, depth+1) {
				return false
			}
		}
	}
	return n > 0
}

// ---- C15: frames, exact labels, gates decided through helpers ---------------------------------------------------

// c15Frame: how the parameters of a callee read in the caller's frame (the substitution the gate composition applies
// to the callee's labels). The identity when callee == caller.
type c15Frame struct {
	names, descs []string
	ident        bool
	call         *ssa.Call
}

func (fr *c15Frame) in(label string) string {
	if fr.ident {
		return label
	}
	return substParams(label, fr.names, fr.descs)
}

func c15FrameAt(call *ssa.Call) *c15Frame {
	g := staticCallee(call)
	fr := &c15Frame{call: call}
	if g == nil {
		return fr
	}
	for i, p := range g.Params {
		if i < len(call.Call.Args) {
			fr.names = append(fr.names, p.Name())
			fr.descs = append(fr.descs, desc(call.Call.Args[i]))
		}
	}
	return fr
}

// c15FrameOf: the frame of callee at its only static call in caller (nil if there is none or more than one).
func c15FrameOf(caller, callee *ssa.Function) *c15Frame {
	if caller == callee {
		return &c15Frame{ident: true}
	}
	var calls []*ssa.Call
	for _, ci := range allCalls(caller) {
		if call, ok := ci.(*ssa.Call); ok && staticCallee(call) == callee {
			calls = append(calls, call)
		}
	}
	if len(calls) != 1 {
		return nil
	}
	return c15FrameAt(calls[0])
}

// exactNeed: some fact of the exit is exactly one of the labels (a disjunction that merely contains the label is a
// weaker fact and does not count).
func exactNeed(name, what string, labels ...string) Need {
	var q []string
	for _, l := range labels {
		q = append(q, regexp.QuoteMeta(l))
	}
	return Need{Name: name, What: what, Re: regexp.MustCompile("^(?:" + strings.Join(q, "|") + ")$")}
}

func oneOfLabels(ls []string) func(string) bool {
	set := map[string]bool{}
	for _, l := range ls {
		set[l] = true
	}
	return func(l string) bool { return set[l] }
}

// c15Blocked: no success-capable exit of fn is reachable without passing an edge whose fact (read in the frame given by
// sel) is selected — where "passing" may happen inside a module function fn calls: if the callee itself cannot
// succeed without passing a selected edge (its labels read with its parameters replaced by the arguments of this
// call, exactly as the gate composition does), then the edge of fn on which that call's error is nil, and an exit of
// fn that forwards the call's error, stand for a selected edge.
// Sound because a path of fn through `err == nil` of such a call contains a complete successful run of the callee,
// which by induction passed a selected edge. n counts the selected edges (in fn and in the callees relied on).
func c15Blocked(w *World, fn *ssa.Function, m Mode, sel func(string) bool, depth int) (bool, int, []string) {
	fi := w.Info(fn)
	cut := fi.edgesMatching(func(l string, _ *ssa.If, _ bool) bool { return sel(l) })
	n := len(cut)
	var relied []*ssa.Call
	if depth < 3 {
		for _, ci := range allCalls(fn) {
			call, ok := ci.(*ssa.Call)
			if !ok {
				continue
			}
			g := staticCallee(call)
			if g == nil || g == fn || g.Blocks == nil || !w.IsProductFn(g) || len(call.Call.Args) != len(g.Params) {
				continue
			}
			res := g.Signature.Results()
			if res.Len() == 0 || !isErrorType(res.At(res.Len()-1).Type()) {
				continue
			}
			fr := c15FrameAt(call)
			ok2, n2, _ := c15Blocked(w, g, Mode{Kind: mErr}, func(l string) bool { return sel(fr.in(l)) }, depth+1)
			if !ok2 || n2 == 0 {
				continue
			}
			n += n2
			relied = append(relied, call)
			for e := range fi.edgesMatching(anyOf("EQ(" + descTailErr(call) + ",nil)")) {
				cut[e] = true
			}
		}
	}
	saved := fi.ignoreTail
	if len(relied) > 0 {
		fi.ignoreTail = map[*ssa.Call]bool{}
		for k, v := range saved {
			fi.ignoreTail[k] = v
		}
		for _, call := range relied {
			fi.ignoreTail[call] = true
		}
	}
	wit := fi.successWitness(m, entryState(), cut)
	fi.ignoreTail = saved
	return wit == nil, n, wit
}

// c15ResolvesTo: the value is the object `target` — itself, or result k of a module function every success-capable
// exit of which returns it.
func c15ResolvesTo(w *World, v ssa.Value, target ssa.Value, depth int) bool {
	if v == target {
		return true
	}
	if depth > 2 {
		return false
	}
	k := 0
	var call *ssa.Call
	switch x := v.(type) {
	case *ssa.Extract:
		call, _ = x.Tuple.(*ssa.Call)
		k = x.Index
	case *ssa.Call:
		call = x
	}
	if call == nil {
		return false
	}
	g := staticCallee(call)
	if g == nil || g.Blocks == nil || !w.IsProductFn(g) {
		return false
	}
	s := w.Summarize(g, Mode{Kind: mErr})
	if s == nil || !s.Complete || len(s.Exits) == 0 {
		return false
	}
	for _, ex := range s.Exits {
		if k >= len(ex.Ret.Results) || !c15ResolvesTo(w, spilledRet(ex.Ret.Results[k]), target, depth+1) {
			return false
		}
	}
	return true
}

// c15FieldStores: the stores into fields of a local of (pointer) type T, per function of the unit.
type c15Store struct {
	fn    *ssa.Function
	al    *ssa.Alloc
	st    *ssa.Store
	field string
}

func c15FieldStores(unit []*ssa.Function, isT func(*ssa.Alloc) bool) []c15Store {
	var out []c15Store
	for _, f := range unit {
		for _, b := range f.Blocks {
			for _, in := range b.Instrs {
				st, ok := in.(*ssa.Store)
				if !ok {
					continue
				}
				fa, ok := st.Addr.(*ssa.FieldAddr)
				if !ok {
					continue
				}
				al, ok := fa.X.(*ssa.Alloc)
				if !ok || !isT(al) {
					continue
				}
				out = append(out, c15Store{f, al, st, fieldName(al.Type(), fa.Field)})
			}
		}
	}
	return out
}

// c15LoadSeesStores: the whole-struct load `ld` of the local reads it after every field store: no store is in a block
// reachable from the load's block, and a store of the same block precedes the load.
func c15LoadSeesStores(fi *FnInfo, ld ssa.Instruction, stores []*ssa.Store) bool {
	for _, st := range stores {
		if st.Block() == ld.Block() {
			if instrIndex(st) > instrIndex(ld) {
				return false
			}
			continue
		}
		if fi.reachHit([]state{{ld.Block().Index, 0, -1}}, nil, map[int]bool{st.Block().Index: true}) {
			return false
		}
	}
	return true
}

// c15ForeignStores: stores into a field of an object of pointer type T that is not the given local (another local of
// that type, or an object reached through a parameter, a call result or a load: a helper that is handed the object can
// rewrite it behind the back of the rule that looked at the local's own stores).
func c15ForeignStores(w *World, unit []*ssa.Function, T types.Type, local *ssa.Alloc) []string {
	var out []string
	for _, f := range unit {
		for _, b := range f.Blocks {
			for _, in := range b.Instrs {
				st, ok := in.(*ssa.Store)
				if !ok {
					continue
				}
				fa, ok := st.Addr.(*ssa.FieldAddr)
				if !ok || !types.Identical(fa.X.Type(), T) || fa.X == ssa.Value(local) {
					continue
				}
				out = append(out, fieldName(fa.X.Type(), fa.Field)+" of "+desc(fa.X)+" at "+w.InstrPos(st))
			}
		}
	}
	return out
}

// c15LocalsOfType: the locals of pointer type T in the unit (labels name a local by type and name; when a rule compares
// labels across the frames of two functions it must know there is only one such local on the way).
func c15LocalsOfType(unit []*ssa.Function, T types.Type) int {
	n := 0
	for _, f := range unit {
		for _, b := range f.Blocks {
			for _, in := range b.Instrs {
				if al, ok := in.(*ssa.Alloc); ok && types.Identical(al.Type(), T) {
					n++
				}
			}
		}
	}
	return n
}

// roles: which parameter of the writer is the temporary directory (CreateTemp's first argument), the destination
// (Rename's second argument) and the content (what is written), read off the writer's own calls. When the writer is
// not understood (nil unit, or a role not found) the declared order of internal/file.WriteFile is assumed; the
// writer's own obligations fail in that case anyway.
func (u *c14Unit) roles() (dir, path, content int) {
	dir, path, content = 0, 1, 2
	if u == nil {
		return
	}
	idx := func(p *ssa.Parameter) int {
		for i, q := range u.WF.Params {
			if p != nil && q == p {
				return i
			}
		}
		return -1
	}
	d := idx(u.toWF(u.ct.Call.Args[0]))
	p := c14ParamIndex(u.WF, u.rn.Call.Args[1])
	k := -1
	if ws := findCalls(u.H, "(*os.File).Write"); len(ws) == 1 {
		k = idx(u.toWF(ws[0].Common().Args[1]))
	}
	if d >= 0 && p >= 0 && k >= 0 && d != p && p != k && d != k {
		return d, p, k
	}
	return
}
