package main

import (
	"fmt"
	"strings"

	"golang.org/x/tools/go/ssa"
)

// c16ListWalkError: the third part of "listing reports exactly the real sub-directories of the plugin root": a listing is
// reported as such (nil error) only when the walk read the whole root.
//
// fs.WalkDir reports a failure to read a directory by calling the callback once more with the error; if the callback answers
// nil (or a skip sentinel) the walk goes on with whatever entries were read, and if the lister ignores the walk's result the
// names collected so far are handed out with a nil error. Either way an unreadable (or half-read) plugin root is reported as
// a shorter or empty list of plugins although real sub-directories exist: not "exactly the real sub-directories". The one
// walk error that may be answered with nil is "does not exist" (no root, no sub-directories: the empty list is exact).
//
// Both halves are must-pass facts on the success-capable exits of the function summaries (composed through helpers, callee
// parameters substituted by call arguments), not tests for the presence of an `if`:
//
//	(cb)   every exit of the walk callback whose result can be nil or a skip sentinel has passed `err == nil` on the error the
//	       walk handed in, or the true answer of a not-exist test of that error (errors.Is(err, fs/os.ErrNotExist),
//	       os.IsNotExist(err)); an exit that returns that very error parameter is fine as it is.
//	(list) every exit of the lister with a nil error has passed `== nil` on the result of the WalkDir call.
//
// Accepted shapes: if / switch / nested / swapped operands (labels are canonical), the tests in small predicate helpers
// (the engine composes their summaries), the callback as closure, function value, plain function or method value, the walk
// in a helper of the lister (the fact is then part of the helper's summary).
func c16ListWalkError(c *Ctx, L *ssa.Function) {
	w := c.W
	ruleCB := "listing is exact: the walk callback answers nil (or a skip sentinel) to a walk error only when that error is not-exist — every such exit passes `err == nil` or a not-exist test of the error WalkDir handed in (otherwise an unreadable plugin root is listed as having fewer plugins, without an error)"
	ruleL := "listing is exact: the lister returns a nil error only on paths that passed the nil test of the WalkDir result (otherwise a walk that failed half-way is reported as the complete list)"
	isWalk := func(n string) bool { return n == "io/fs.WalkDir" || n == "path/filepath.WalkDir" }
	// the callbacks actually handed to WalkDir: three parameters (path, entry, error) after an optional receiver / captures
	n := 0
	for _, cl := range c16WalkCallbacks(L) {
		var errP *ssa.Parameter
		np := len(cl.Params)
		if np >= 3 && isErrorType(cl.Params[np-1].Type()) && cl.Signature.Results().Len() == 1 && isErrorType(cl.Signature.Results().At(0).Type()) {
			errP = cl.Params[np-1]
		}
		if errP == nil {
			continue
		}
		n++
		c.Evals++
		pd := desc(errP)
		// the facts say: no walk error, or the walk error is not-exist
		okFacts := func(facts map[string]string) bool {
			for l := range facts {
				if l == "EQ("+pd+",nil)" {
					return true
				}
				if (strings.HasPrefix(l, "T(call:errors.Is("+pd+",") && strings.Contains(l, "ErrNotExist")) || strings.HasPrefix(l, "T(call:os.IsNotExist("+pd+")") {
					return true
				}
			}
			return false
		}
		okExit := func(ex *ExitSum) bool {
			// the exit hands back the walk's own error
			if len(ex.Ret.Results) == 1 {
				v := ex.Ret.Results[0]
				if ph, ok := v.(*ssa.Phi); ok && ph.Block() == ex.Ret.Block() && ex.Pred >= 0 && ex.Pred < len(ph.Edges) {
					v = ph.Edges[ex.Pred]
				}
				if v == ssa.Value(errP) {
					return true
				}
			}
			return okFacts(ex.Checked)
		}
		sum := w.Summarize(cl, Mode{Kind: mErr})
		if !sum.Complete {
			c.Unk("list/walk-error-handed-back", ruleCB, w.FnPos(cl), "the callback's summary is incomplete (recursion)")
			continue
		}
		bad := ""
		for _, ex := range sum.Exits {
			if !okExit(ex) {
				bad = fmt.Sprintf("the exit at %s can be taken with a walk error that is not not-exist; facts on every path to it: %s", w.InstrPos(ex.Ret), summarizeLabels(ex.Checked, 6))
				break
			}
		}
		// the skip sentinels are non-nil, hence no success exits of the summary, but WalkDir takes them for "go on": the
		// same facts are demanded of every return that can deliver one
		fi := w.Info(cl)
		for _, b := range cl.Blocks {
			r, ok := blockTerm(b).(*ssa.Return)
			if !ok || len(r.Results) != 1 || bad != "" {
				continue
			}
			vals := []ssa.Value{r.Results[0]}
			if ph, ok := r.Results[0].(*ssa.Phi); ok {
				vals = ph.Edges
			}
			for _, v := range vals {
				d := desc(v)
				if !strings.HasSuffix(d, "io/fs.SkipDir") && !strings.HasSuffix(d, "io/fs.SkipAll") && !strings.HasSuffix(d, "path/filepath.SkipDir") && !strings.HasSuffix(d, "path/filepath.SkipAll") {
					continue
				}
				if g := fi.GuardsOf(r); !okFacts(g) {
					bad = fmt.Sprintf("the skip sentinel returned at %s can answer a walk error that is not not-exist; facts on every path to it: %s", w.InstrPos(r), summarizeLabels(g, 6))
				}
			}
		}
		c.Check(bad == "", "list/walk-error-handed-back", ruleCB, w.FnPos(cl), bad)
	}
	if n == 0 {
		c.Unk("list/walk-error-handed-back", ruleCB, w.FnPos(L), "no walk callback with an error parameter found")
	}
	// (list)
	hasWalk := false
	for _, g := range append([]*ssa.Function{L}, w.moduleCallees(L)...) {
		for _, ci := range allCalls(g) {
			if isWalk(calleeName(ci)) {
				hasWalk = true
			}
		}
	}
	c.Evals++
	sum := w.Summarize(L, Mode{Kind: mErr})
	switch {
	case !hasWalk:
		c.Unk("list/walk-result-decides", ruleL, w.FnPos(L), "no WalkDir call found in the lister or its helpers")
	case !sum.Complete || len(sum.Exits) == 0:
		c.Unk("list/walk-result-decides", ruleL, w.FnPos(L), "the lister's summary is incomplete or has no success exit")
	default:
		bad, unk := "", ""
		for _, ex := range sum.Exits {
			found := false
			for l := range ex.Checked {
				if (strings.HasPrefix(l, "EQ(call:io/fs.WalkDir(") || strings.HasPrefix(l, "EQ(call:path/filepath.WalkDir(")) && strings.HasSuffix(l, ",nil)") {
					found = true
				}
			}
			if found {
				continue
			}
			d := fmt.Sprintf("the exit at %s returns without the walk's result having been tested; facts on every path to it: %s", w.InstrPos(ex.Ret), summarizeLabels(ex.Checked, 6))
			if ex.Class == clSuccess {
				bad = d
			} else {
				unk = d
			}
		}
		switch {
		case bad != "":
			c.Bad("list/walk-result-decides", ruleL, w.FnPos(L), bad)
		case unk != "":
			c.Unk("list/walk-result-decides", ruleL, w.FnPos(L), unk)
		default:
			c.OK("list/walk-result-decides", ruleL, w.FnPos(L))
		}
	}
	c.MinCount("list/walk-", 2, "walk-error obligations of the listing")
}
