package main

// C17, second pass: the error mapping of the runner is decided on the runner's *flattened* ways of returning
// rather than on where a statement sits.
//
// A "leaf" is one way in which the runner can hand an error value to its caller: a return statement of the runner
// itself, or - when the operand of that return is the result of an unexported module helper, returned unchanged -
// a return statement of that helper (recursively), or one incoming edge of a phi that is returned (single exit with
// an error local). Each leaf carries the facts that hold on every path that leaves through it, all spelled in the
// runner's frame (the helper's parameters replaced by the printed form of the arguments at the call site), i.e. the
// facts one would read off the runner's own return statement had the helpers been inlined.
//
// Soundness of reading the mapping off the leaves: the value a leaf stands for reaches the runner's caller
// unchanged (only `return f(...)`, `x := f(...); ...; return x` and phis of such are followed: no wrapping, no
// conversion), so its dynamic type is the one the runner returns; a path that leaves through the leaf crosses every
// must-pass edge of every frame on the chain (the call site lies on every path to the return that uses its result,
// SSA dominance), so the union of the per-frame must-pass facts holds on it; parameters are immutable SSA values, so
// replacing `param:x` by the argument's printed form states the same fact about the same value.

import (
	"fmt"
	"go/constant"
	"go/token"
	"go/types"
	"strings"

	"golang.org/x/tools/go/ssa"
)

type c17Leaf struct {
	fn    *ssa.Function       // function holding the return the value comes from
	val   ssa.Value           // the operand (a value of fn)
	g     map[string]string   // facts on every path through this leaf, in the runner's frame
	frame func(string) string // rewrites a printed form of fn into the runner's frame
	site  ssa.Instruction     // the return (for positions)
	chain []*ssa.Function     // helpers followed, outermost first
}

func c17Has(m map[string]string, l string) bool { _, ok := m[l]; return ok }

// c17Leaves enumerates the leaves of fn's k-th result (see the file comment). base are the facts already known
// (runner frame), frame rewrites fn's printed forms into the runner's frame.
func c17Leaves(c *Ctx, fn *ssa.Function, k int, base map[string]string, frame func(string) string, chain []*ssa.Function, out *[]c17Leaf) {
	w := c.W
	fi := w.Info(fn)
	framed := func(g map[string]string) map[string]string {
		m := map[string]string{}
		for l, s := range base {
			m[l] = s
		}
		for l, s := range g {
			m[frame(l)] = s
		}
		return m
	}
	factsAt := func(b *ssa.BasicBlock) map[string]string {
		if b.Index == 0 {
			return map[string]string{}
		}
		g, ok := fi.mustPassBetween([]int{0}, map[int]bool{b.Index: true})
		if !ok {
			return nil // unreachable
		}
		return g
	}
	var expand func(v ssa.Value, g map[string]string, r *ssa.Return, depth int)
	expand = func(v ssa.Value, g map[string]string, r *ssa.Return, depth int) {
		c.Evals++
		switch x := v.(type) {
		case *ssa.Phi:
			// one leaf per incoming edge: the facts at the predecessor, the fact of the edge taken, and (still) the
			// facts of the block that returns. Only a phi whose block reaches the return without a further branch is
			// split (otherwise an edge of the phi need not be a way of returning at all).
			if depth < 4 && c17StraightTo(x.Block(), r.Block()) {
				for i, e := range x.Edges {
					pred := x.Block().Preds[i]
					pg := factsAt(pred)
					if pg == nil {
						continue
					}
					eg := map[string]string{}
					for l, s := range g {
						eg[l] = s
					}
					for l, s := range framed(pg) {
						eg[l] = s
					}
					if iff, ok := blockTerm(pred).(*ssa.If); ok && len(pred.Succs) == 2 && pred.Succs[0] != pred.Succs[1] {
						l := condLabel(iff.Cond, pred.Succs[0] == x.Block())
						eg[frame(l)] = w.InstrPos(iff)
						if tw, ok := labelTwin(l); ok {
							eg[frame(tw)] = w.InstrPos(iff)
						}
					}
					expand(e, eg, r, depth+1)
				}
				return
			}
		case *ssa.Call:
			h := staticCallee(x)
			if h != nil && h.Blocks != nil && w.IsProductFn(h) && !token.IsExported(h.Name()) && len(h.Params) == len(x.Call.Args) && len(chain) < 3 && !c17InChain(chain, h) && h != fn {
				if res := h.Signature.Results(); res.Len() == 1 && types.Identical(res.At(0).Type(), v.Type()) {
					names := make([]string, len(h.Params))
					descs := make([]string, len(h.Params))
					for i, p := range h.Params {
						names[i] = p.Name()
						descs[i] = frame(desc(x.Call.Args[i]))
					}
					c.SeenFn(h.String())
					sub := func(l string) string { return substParams(l, names, descs) }
					c17Leaves(c, h, 0, g, sub, append(append([]*ssa.Function{}, chain...), h), out)
					return
				}
			}
		}
		*out = append(*out, c17Leaf{fn: fn, val: v, g: g, frame: frame, site: r, chain: chain})
	}
	for _, b := range fn.Blocks {
		r, ok := blockTerm(b).(*ssa.Return)
		if !ok || len(r.Results) <= k {
			continue
		}
		g := factsAt(b)
		if g == nil {
			continue
		}
		expand(r.Results[k], framed(g), r, 0)
	}
}

func c17InChain(chain []*ssa.Function, h *ssa.Function) bool {
	for _, f := range chain {
		if f == h {
			return true
		}
	}
	return false
}

// c17StraightTo: from is to, or reaches it through unconditional jumps only.
func c17StraightTo(from, to *ssa.BasicBlock) bool {
	for i := 0; i < 8; i++ {
		if from == to {
			return true
		}
		if len(from.Succs) != 1 {
			return false
		}
		from = from.Succs[0]
	}
	return false
}

// c17ResultDesc: the printed form of the k-th result of a tuple-valued call, as it appears in edge labels.
func c17ResultDesc(call *ssa.Call, k int) string {
	if refs := call.Referrers(); refs != nil {
		for _, r := range *refs {
			if e, ok := r.(*ssa.Extract); ok && e.Index == k {
				return desc(e)
			}
		}
	}
	if tup, ok := call.Type().(*types.Tuple); ok && k < tup.Len() && isErrorType(tup.At(k).Type()) {
		return desc(call) + "#err"
	}
	return desc(call) + "#" + string(rune('0'+k))
}

// c17ErrorMapping decides the four cases of the runner's error mapping on its leaves.
//
//	executable        a leaf of dynamic type *PluginExecutableFileError whose facts contain  process err != nil  and  len(stderr) == 0
//	malformed-stderr  a leaf of dynamic type *PluginMalformedError whose facts contain  process err != nil,  len(stderr) != 0  and
//	                  json.Unmarshal(stderr, X) err != nil
//	plugin-error      a leaf that is the RequestError object X itself (a load of the local the decoder wrote to) whose facts contain
//	                  process err != nil  and  json.Unmarshal(stderr, &X) err == nil
//	malformed-stdout  a leaf of dynamic type *PluginMalformedError whose facts contain  process err == nil  and
//	                  json.Unmarshal(stdout, response) err != nil
//
// The dynamic type of a leaf is the static type of the operand of its interface conversion (a concrete type), which is
// also right when the object was built by a constructor function returning that concrete type.
func c17ErrorMapping(c *Ctx, RUN *ssa.Function, oc *ssa.Call, respP string) map[string]bool {
	stdoutD, stderrD, errD := c17ResultDesc(oc, 0), c17ResultDesc(oc, 1), c17ResultDesc(oc, 2)
	var leaves []c17Leaf
	k := -1
	for i := 0; i < RUN.Signature.Results().Len(); i++ {
		if isErrorType(RUN.Signature.Results().At(i).Type()) {
			k = i
		}
	}
	cases := map[string]bool{}
	if k < 0 {
		return cases
	}
	c17Leaves(c, RUN, k, map[string]string{}, func(l string) string { return l }, nil, &leaves)
	umLabel := func(g map[string]string, op, src string) bool {
		for l := range g {
			if strings.HasPrefix(l, op+"(call:encoding/json.Unmarshal("+src+",") && strings.HasSuffix(l, ")#err,nil)") {
				return true
			}
		}
		return false
	}
	for _, lf := range leaves {
		mi, ok := lf.val.(*ssa.MakeInterface)
		if !ok {
			continue
		}
		g := lf.g
		// calls, in the leaf's function, of a decode wrapper applied to stderr (see c17DecodeWrapper): the wrapper's error
		// IS the error of json.Unmarshal(stderr, &X) and its first result IS X
		var wrapped []*ssa.Call
		for _, ci := range allCalls(lf.fn) {
			if wc, ok := ci.(*ssa.Call); ok {
				if src, ok := c17DecodeWrapper(c.W, wc); ok && lf.frame(desc(wc.Call.Args[src])) == stderrD {
					wrapped = append(wrapped, wc)
				}
			}
		}
		failed := c17Has(g, "NE("+errD+",nil)")
		succeeded := c17Has(g, "EQ("+errD+",nil)")
		switch namedOf(mi.X.Type()) {
		case "ngo/plugin.PluginExecutableFileError":
			if failed && c17Has(g, "EQ(len("+stderrD+"),const:0)") {
				cases["executable"] = true
			}
		case "ngo/plugin.PluginMalformedError":
			undecodable := umLabel(g, "NE", stderrD)
			for _, wc := range wrapped {
				if c17Has(g, "NE("+lf.frame(c17ResultDesc(wc, 1))+",nil)") {
					undecodable = true
				}
			}
			if failed && c17Has(g, "NE(len("+stderrD+"),const:0)") && undecodable {
				cases["malformed-stderr"] = true
			}
			replyUndecodable := c17Has(g, "NE(call:encoding/json.Unmarshal("+stdoutD+","+respP+")#err,nil)")
			for _, ci := range allCalls(lf.fn) {
				// ... or the error of a helper that is `return json.Unmarshal(stdout, response)` (see c17DecodeInto)
				if wc, ok := ci.(*ssa.Call); ok && !replyUndecodable {
					if src, dst, ok := c17DecodeInto(c.W, wc); ok && lf.frame(desc(wc.Call.Args[src])) == stdoutD && lf.frame(desc(wc.Call.Args[dst])) == respP {
						replyUndecodable = c17Has(g, "NE("+lf.frame(desc(wc))+",nil)")
					}
				}
			}
			if succeeded && !failed && replyUndecodable {
				cases["malformed-stdout"] = true
			}
		case "ngo/plugin/proto.RequestError":
			// the decoded error object: the value returned is (a load of) the local the decoder of stderr wrote to
			if !failed {
				continue
			}
			// ... or the object a decode wrapper of stderr returned, under the wrapper's err == nil
			for _, wc := range wrapped {
				if e, ok := mi.X.(*ssa.Extract); ok && e.Tuple == ssa.Value(wc) && e.Index == 0 && c17Has(g, "EQ("+lf.frame(c17ResultDesc(wc, 1))+",nil)") {
					cases["plugin-error"] = true
				}
			}
			al, _ := unwrapLoadAlloc(mi.X)
			if al == nil {
				continue
			}
			for _, ci := range findCalls(lf.fn, "encoding/json.Unmarshal") {
				um, ok := ci.(*ssa.Call)
				if !ok || len(um.Call.Args) != 2 || unwrap(um.Call.Args[1]) != ssa.Value(al) {
					continue
				}
				if lf.frame(desc(um.Call.Args[0])) == stderrD && c17Has(g, "EQ("+lf.frame(desc(um))+",nil)") {
					cases["plugin-error"] = true
				}
			}
		}
	}
	return cases
}

// ---------- (a) typestate of the command object, across a constructor and configuring helpers ----------
//
// The command object is followed from exec.CommandContext to Run through at most one constructor function (an unexported
// function all of whose returns return the created command, called at exactly one site) and through unexported helpers
// that receive the command as an argument. Every store to one of its fields found on the way is a "set"; it is placed
// at the instruction of the function that runs the command through which it takes effect (the store itself, or the call
// of the helper / constructor), and it is unconditional when, inside each helper on the chain, it lies on every path to
// the helper's returns (its block dominates every return block). The values stored are read in the frame of the function
// that runs the command: a helper parameter stands for the argument bound to it at the (single) call.
//
// Soundness: a field of the command holds at Run what the last store before Run wrote. The rule requires (1) one
// unconditional set placed before Run and (2) that EVERY set of that field anywhere on the chain stores an acceptable
// value, so whichever store is the last one, the field is acceptable at Run. Helpers are static callees (no dynamic
// dispatch), parameters are immutable, so binding a parameter to its argument states the same value.

type c17Set struct {
	field  string
	val    ssa.Value
	bind   map[*ssa.Parameter]ssa.Value
	at     ssa.Instruction // in the function that runs the command
	uncond bool
	site   string
}

func c17Resolve(v ssa.Value, bind map[*ssa.Parameter]ssa.Value) ssa.Value {
	for i := 0; i < 6; i++ {
		v = unwrap(v)
		p, ok := v.(*ssa.Parameter)
		if !ok {
			return v
		}
		a, ok := bind[p]
		if !ok {
			return v
		}
		v = a
	}
	return v
}

// c17OnEveryPathOut: in is executed on every path from fn's entry to any of its returns.
func c17OnEveryPathOut(fn *ssa.Function, in ssa.Instruction) bool {
	n := 0
	for _, b := range fn.Blocks {
		r, ok := blockTerm(b).(*ssa.Return)
		if !ok {
			continue
		}
		n++
		if b == in.Block() {
			if instrIndex(in) > instrIndex(r) {
				return false
			}
			continue
		}
		if !in.Block().Dominates(b) {
			return false
		}
	}
	return n > 0
}

func c17CollectSets(w *World, v ssa.Value, fn *ssa.Function, bind map[*ssa.Parameter]ssa.Value, at ssa.Instruction, uncond bool, depth int, out *[]c17Set, escapes *[]string) {
	refs := v.Referrers()
	if refs == nil {
		return
	}
	top := at == nil
	for _, r := range *refs {
		switch x := r.(type) {
		case *ssa.FieldAddr:
			if x.X != v || x.Referrers() == nil {
				continue
			}
			for _, rr := range *x.Referrers() {
				st, ok := rr.(*ssa.Store)
				if !ok || st.Addr != ssa.Value(x) {
					continue
				}
				s := c17Set{field: fieldName(v.Type(), x.Field), val: st.Val, bind: bind, at: at, uncond: uncond, site: w.InstrPos(st)}
				if top {
					s.at = st
				} else {
					s.uncond = uncond && c17OnEveryPathOut(fn, st)
				}
				*out = append(*out, s)
			}
		case *ssa.Call:
			h := staticCallee(x)
			for i, a := range x.Call.Args {
				if a != v {
					continue
				}
				if h == nil || h.Blocks == nil || !w.IsProductFn(h) || len(h.Params) != len(x.Call.Args) {
					continue // methods of exec.Cmd itself (Run, ...) and foreign functions: os/exec is trusted
				}
				if depth >= 2 {
					*escapes = append(*escapes, "the command is passed on to "+fnName(h)+" (helpers are followed two levels deep)")
					continue
				}
				nb := map[*ssa.Parameter]ssa.Value{}
				for p, q := range bind {
					nb[p] = q
				}
				for j, p := range h.Params {
					nb[p] = x.Call.Args[j]
				}
				nat, nun := at, uncond
				if top {
					nat = x
				} else {
					nun = uncond && c17OnEveryPathOut(fn, x)
				}
				c17CollectSets(w, h.Params[i], h, nb, nat, nun, depth+1, out, escapes)
			}
		}
	}
}

// c17Cmd: what the typestate rule resolved, for the rules on the commander's outputs.
type c17Cmd struct {
	OUT       *ssa.Function // the function that runs the command
	stdoutBuf *ssa.Alloc    // the buffer behind Stdout
	ran       []string      // the facts that say the process was started and exited successfully
	stderrBuf []*ssa.Alloc  // the buffer(s) behind Stderr, one per acceptable store to the field
	done      *ssa.Call     // the call after which the process has exited and its output is complete: Run, or Wait after Start
}

// c17CommandTypestate checks clause (a) and returns the function that runs the command and the printed form of the
// buffer behind its Stdout.
func c17CommandTypestate(c *Ctx, CRE *ssa.Function, cmdCall *ssa.Call) *c17Cmd {
	w := c.W
	site := w.InstrPos(cmdCall)
	OUT := CRE
	var cmdV ssa.Value = cmdCall
	var sets []c17Set
	var escapes []string
	ctxBind := map[*ssa.Parameter]ssa.Value{}
	// the anchor of the typestate: Run, or Start when the command is started and waited for separately (Run is Start
	// followed by Wait: the fields must be in place when the process starts, and the process has exited successfully
	// when both returned nil)
	var ran []string
	var done *ssa.Call
	findRun := func(fn *ssa.Function, v ssa.Value) *ssa.Call {
		var run, start, wait *ssa.Call
		for _, ci := range allCalls(fn) {
			call, ok := ci.(*ssa.Call)
			if !ok || len(call.Call.Args) == 0 || call.Call.Args[0] != v {
				continue
			}
			switch calleeName(call) {
			case "(*os/exec.Cmd).Run":
				run = call
			case "(*os/exec.Cmd).Start":
				start = call
			case "(*os/exec.Cmd).Wait":
				wait = call
			}
		}
		if run != nil && start == nil && wait == nil {
			ran = []string{"EQ(" + desc(run) + ",nil)"}
			done = run
			return run
		}
		if run == nil && start != nil && wait != nil {
			ran = []string{"EQ(" + desc(start) + ",nil)", "EQ(" + desc(wait) + ",nil)"}
			done = wait
			return start
		}
		if run != nil || start != nil || wait != nil {
			return nil
		}
		// the command is run by a module helper it is handed to (`err := runCommand(cmd)`): the helper runs its parameter
		// (Run, or Start + Wait), writes none of its fields, and every success-capable exit of it lies behind the nil
		// result of the run — the call of the helper then stands for Run
		for _, ci := range allCalls(fn) {
			H, ok := ci.(*ssa.Call)
			if !ok {
				continue
			}
			g := staticCallee(H)
			if g == nil || g.Blocks == nil || !w.IsProductFn(g) || g.Signature.Results().Len() != 1 || !isErrorType(g.Signature.Results().At(0).Type()) {
				continue
			}
			for i, a := range H.Call.Args {
				if a != v || i >= len(g.Params) {
					continue
				}
				p := g.Params[i]
				var grun, gstart, gwait *ssa.Call
				clean := true
				for _, gb := range g.Blocks {
					for _, in := range gb.Instrs {
						switch x := in.(type) {
						case *ssa.Call:
							if len(x.Call.Args) > 0 && x.Call.Args[0] == ssa.Value(p) {
								switch calleeName(x) {
								case "(*os/exec.Cmd).Run":
									grun = x
								case "(*os/exec.Cmd).Start":
									gstart = x
								case "(*os/exec.Cmd).Wait":
									gwait = x
								default:
									clean = false
								}
							}
						case *ssa.FieldAddr:
							if x.X == ssa.Value(p) && x.Referrers() != nil {
								for _, r := range *x.Referrers() {
									if st, isSt := r.(*ssa.Store); isSt && st.Addr == ssa.Value(x) {
										clean = false
									}
								}
							}
						}
					}
				}
				var need []string
				switch {
				case grun != nil && gstart == nil && gwait == nil:
					need = []string{"EQ(" + desc(grun) + ",nil)"}
				case grun == nil && gstart != nil && gwait != nil:
					need = []string{"EQ(" + desc(gstart) + ",nil)", "EQ(" + desc(gwait) + ",nil)"}
				}
				if !clean || need == nil {
					continue
				}
				sum := w.Summarize(g, Mode{Kind: mErr})
				if sum == nil || !sum.Complete {
					continue
				}
				all := true
				for _, l := range need {
					if !labelHas(sum.Checked, l) {
						all = false
					}
				}
				if all {
					c.SeenFn(g.String())
					ran = []string{"EQ(" + desc(H) + ",nil)"}
					done = H
					return H
				}
			}
		}
		return nil
	}
	run := findRun(CRE, cmdCall)
	if run == nil && !token.IsExported(CRE.Name()) {
		// a constructor: every return returns the created command; it is called at exactly one site
		isCtor := CRE.Signature.Results().Len() == 1
		for _, b := range CRE.Blocks {
			if r, ok := blockTerm(b).(*ssa.Return); ok && (len(r.Results) != 1 || r.Results[0] != ssa.Value(cmdCall)) {
				isCtor = false
			}
		}
		var sites []*ssa.Call
		var holder *ssa.Function
		if isCtor {
			for _, fn := range w.Funcs {
				for _, ci := range allCalls(fn) {
					if staticCallee(ci) == CRE {
						if call, ok := ci.(*ssa.Call); ok {
							sites = append(sites, call)
							holder = fn
						} else {
							isCtor = false
						}
					}
				}
			}
		}
		if isCtor && len(sites) == 1 && len(sites[0].Call.Args) == len(CRE.Params) {
			for j, p := range CRE.Params {
				ctxBind[p] = sites[0].Call.Args[j]
			}
			c.SeenFn(CRE.String())
			c17collectCtor(w, cmdCall, CRE, ctxBind, sites[0], &sets, &escapes)
			OUT, cmdV = holder, sites[0]
			run = findRun(OUT, cmdV)
		}
	}
	{
		cv := c17Resolve(cmdCall.Call.Args[0], ctxBind)
		_, isParam := cv.(*ssa.Parameter)
		okCtx := strings.HasPrefix(desc(cv), "param:") && (!isParam || cv.Parent() == OUT)
		c.Check(okCtx, "command/context", "the process is bound to the caller's context", site, "context is "+desc(cv))
	}
	if run == nil {
		c.Bad("command/run", "the command is run with Run (start + wait)", site, "no Run on the created command")
		return nil
	}
	c17CollectSets(w, cmdV, OUT, map[*ssa.Parameter]ssa.Value{}, nil, true, 0, &sets, &escapes)
	before := func(s c17Set) bool {
		if !s.uncond || s.at == nil {
			return false
		}
		if s.at.Block() == run.Block() {
			return instrIndex(s.at) < instrIndex(run)
		}
		return s.at.Block().Dominates(run.Block())
	}
	// decide(field, accept): one unconditional set before Run, and every set of the field is acceptable
	decide := func(field string, accept func(s c17Set) (bool, string)) (bool, string) {
		placed := false
		detail := field + " is not set unconditionally before Run"
		for _, s := range sets {
			if s.field != field {
				continue
			}
			ok, d := accept(s)
			if !ok {
				return false, d + " (" + s.site + ")"
			}
			if before(s) {
				placed = true
				detail = d
			}
		}
		if len(escapes) > 0 {
			return false, escapes[0]
		}
		return placed, detail
	}
	var stdoutBuf *ssa.Alloc
	var stderrBuf []*ssa.Alloc
	for _, stream := range []string{"Stdout", "Stderr"} {
		stream := stream
		ok, detail := decide(stream, func(s c17Set) (bool, string) {
			// the module's limiter constructor over a buffer local to the function that runs the command, positive constant cap
			call, isCall := c17Resolve(s.val, s.bind).(*ssa.Call)
			if !isCall {
				return false, stream + " is " + desc(s.val)
			}
			g := staticCallee(call)
			if g == nil || !w.IsProductFn(g) || len(call.Call.Args) != 2 || !c17IsLimiterCtor(w, g) {
				return false, stream + " is " + desc(s.val)
			}
			buf, isLocal := c17Resolve(call.Call.Args[0], s.bind).(*ssa.Alloc)
			k, isK := c17Resolve(call.Call.Args[1], s.bind).(*ssa.Const)
			if !isLocal || !isK || buf.Parent() != OUT || namedOf(buf.Type()) != "bytes.Buffer" {
				return false, stream + " is " + desc(s.val)
			}
			var v int64
			fmt.Sscan(constString(k), &v)
			if v <= 0 {
				return false, fmt.Sprintf("%s is %s (cap %d)", stream, desc(s.val), v)
			}
			if stream == "Stdout" {
				stdoutBuf = buf
			} else {
				stderrBuf = append(stderrBuf, buf)
			}
			return true, fmt.Sprintf("cap %d", v)
		})
		c.Evals++
		c.Check(ok, "command/"+strings.ToLower(stream)+"-capped", "typestate: before Run, "+stream+" is the module's limited writer over a local buffer with a positive constant cap", w.InstrPos(run), detail)
	}
	{
		ok, detail := decide("WaitDelay", func(s c17Set) (bool, string) {
			k, isK := c17Resolve(s.val, s.bind).(*ssa.Const)
			var v int64
			if isK {
				fmt.Sscan(constString(k), &v)
			}
			if !isK || v <= 0 {
				return false, "WaitDelay is " + desc(s.val)
			}
			return true, "WaitDelay " + constString(k)
		})
		if !ok && strings.HasSuffix(detail, "not set unconditionally before Run") {
			detail = "WaitDelay is not set unconditionally before Run (a descendant holding the pipes delays the return without bound)"
		}
		c.Evals++
		c.Check(ok, "command/wait-delay", "typestate: before Run, on every path, WaitDelay is a positive constant", w.InstrPos(run), detail)
	}
	{
		ok, _ := decide("Stdin", func(s c17Set) (bool, string) {
			call, isCall := c17Resolve(s.val, s.bind).(*ssa.Call)
			if !isCall || calleeName(call) != "bytes.NewReader" || len(call.Call.Args) != 1 {
				return false, ""
			}
			src := c17Resolve(call.Call.Args[0], s.bind)
			_, isParam := src.(*ssa.Parameter)
			return strings.HasPrefix(desc(src), "param:") && (!isParam || src.Parent() == OUT), ""
		})
		c.Check(ok, "command/stdin", "typestate: before Run, Stdin is a reader over the request bytes", w.InstrPos(run), "Stdin is not the request")
	}
	return &c17Cmd{OUT: OUT, stdoutBuf: stdoutBuf, ran: ran, stderrBuf: stderrBuf, done: done}
}

// c17collectCtor collects the sets made inside the constructor: they take effect at the constructor's call in the
// function that runs the command, and are unconditional when they lie on every path to the constructor's returns.
func c17collectCtor(w *World, cmdCall *ssa.Call, CRE *ssa.Function, bind map[*ssa.Parameter]ssa.Value, at *ssa.Call, out *[]c17Set, escapes *[]string) {
	var inner []c17Set
	c17CollectSets(w, cmdCall, CRE, bind, nil, true, 1, &inner, escapes)
	for _, s := range inner {
		// s.at is the instruction of the constructor through which the set takes effect
		s.uncond = s.uncond && c17OnEveryPathOut(CRE, s.at)
		s.at = at
		*out = append(*out, s)
	}
}

// ---------- the runner behind a forwarding wrapper of the commander call ----------

// c17LiftRunner: when the function that invokes the commander only forwards the commander's three results (every
// return returns exactly the three extracted results of that one call, in order), is unexported, is never used as a
// value and is called at exactly one site, the runner is the function holding that site and the wrapper's call stands
// for the commander's call. Soundness: on every path the wrapper's results ARE the commander's results (same SSA
// values), so a fact about the k-th result of the wrapper call is the same fact about the k-th result of the process;
// one invoking function with one call site keeps "all protocol commands go through the same validation".
func c17LiftRunner(c *Ctx, RUN *ssa.Function, oc *ssa.Call) (*ssa.Function, *ssa.Call) {
	w := c.W
	for depth := 0; depth < 2; depth++ {
		tup, ok := oc.Type().(*types.Tuple)
		if !ok || token.IsExported(RUN.Name()) || RUN.Signature.Results().Len() != tup.Len() {
			return RUN, oc
		}
		for _, b := range RUN.Blocks {
			r, ok := blockTerm(b).(*ssa.Return)
			if !ok {
				continue
			}
			if len(r.Results) != tup.Len() {
				return RUN, oc
			}
			for k, v := range r.Results {
				e, ok := v.(*ssa.Extract)
				if !ok || e.Tuple != ssa.Value(oc) || e.Index != k {
					return RUN, oc
				}
			}
		}
		var sites []*ssa.Call
		var holder *ssa.Function
		for _, fn := range w.Funcs {
			for _, b := range fn.Blocks {
				for _, in := range b.Instrs {
					if ci, ok := in.(ssa.CallInstruction); ok && staticCallee(ci) == RUN {
						call, isCall := ci.(*ssa.Call)
						if !isCall {
							return RUN, oc // go / defer
						}
						sites = append(sites, call)
						holder = fn
						continue
					}
					// used as a value (stored, passed, bound in a closure): callers unknown
					for _, op := range in.Operands(nil) {
						if *op == ssa.Value(RUN) {
							if ci, ok := in.(ssa.CallInstruction); !ok || ci.Common().Value != ssa.Value(RUN) {
								return RUN, oc
							}
						}
					}
				}
			}
		}
		if len(sites) != 1 || holder == RUN {
			return RUN, oc
		}
		c.SeenFn(RUN.String())
		RUN, oc = holder, sites[0]
	}
	return RUN, oc
}

// ---------- the commander's outputs ----------

// c17OutputOnSuccess: every way of returning from the function that runs the command either surely fails (its error
// result is non-nil there) or returns the bytes of the buffer behind Stdout under the facts that say the process
// exited successfully. A return whose operands are phis of one block that leads straight to it (single exit with
// named results / result locals) is decided per incoming edge, with the operands of that edge taken together.
//
// An edge counts as surely failing only when the error operand is non-nil by construction (errors.New, fmt.Errorf, an
// interface conversion, a module function without success exit), is known non-nil by a branch fact on every path
// (`NE(v,nil)`), or is the result of an unexported helper all of whose own ways of returning are surely failing in
// that sense (with the helper's parameters replaced by the arguments: `return wrapIfTimeout(ctx, err)`). Everything
// else is treated as a success and must satisfy the requirement, so the rule errs towards alarm.
func c17OutputOnSuccess(c *Ctx, cmd *c17Cmd) bool {
	w := c.W
	OUT := cmd.OUT
	if cmd.stdoutBuf == nil || len(cmd.ran) == 0 {
		return false
	}
	fi := w.Info(OUT)
	nres := OUT.Signature.Results().Len()
	if nres < 2 || !isErrorType(OUT.Signature.Results().At(nres-1).Type()) {
		return false
	}
	factsAt := func(b *ssa.BasicBlock) map[string]string {
		if b.Index == 0 {
			return map[string]string{}
		}
		g, ok := fi.mustPassBetween([]int{0}, map[int]bool{b.Index: true})
		if !ok {
			return nil
		}
		return g
	}
	failing := func(ev ssa.Value, g map[string]string, at *ssa.BasicBlock) bool {
		if fi.nonNil(ev, at) || c17Has(g, "NE("+desc(ev)+",nil)") {
			return true
		}
		call, ok := ev.(*ssa.Call)
		if !ok {
			return false
		}
		h := staticCallee(call)
		if h == nil || h.Blocks == nil || !w.IsProductFn(h) || token.IsExported(h.Name()) || len(h.Params) != len(call.Call.Args) || h.Signature.Results().Len() != 1 {
			return false
		}
		names := make([]string, len(h.Params))
		descs := make([]string, len(h.Params))
		for i, p := range h.Params {
			names[i] = p.Name()
			descs[i] = desc(call.Call.Args[i])
		}
		var leaves []c17Leaf
		c17Leaves(c, h, 0, g, func(l string) string { return substParams(l, names, descs) }, []*ssa.Function{h}, &leaves)
		for _, lf := range leaves {
			if !w.Info(lf.fn).nonNil(lf.val, lf.site.Block()) && !c17Has(lf.g, "NE("+lf.frame(desc(lf.val))+",nil)") {
				return false
			}
		}
		return len(leaves) > 0
	}
	successes := 0
	decide := func(vals []ssa.Value, g map[string]string, at *ssa.BasicBlock) bool {
		c.Evals++
		if failing(vals[nres-1], g, at) {
			return true
		}
		successes++
		call, ok := unwrap(vals[0]).(*ssa.Call)
		if !ok || calleeName(call) != "(*bytes.Buffer).Bytes" || len(call.Call.Args) != 1 || call.Call.Args[0] != ssa.Value(cmd.stdoutBuf) {
			return false
		}
		for _, l := range cmd.ran {
			if !c17Has(g, l) {
				return false
			}
		}
		return true
	}
	for _, b := range OUT.Blocks {
		r, ok := blockTerm(b).(*ssa.Return)
		if !ok {
			continue
		}
		if len(r.Results) != nres {
			return false
		}
		g := factsAt(b)
		if g == nil {
			continue
		}
		// the block of the returned phis, if any
		var pb *ssa.BasicBlock
		split := true
		for _, v := range r.Results {
			if p, ok := v.(*ssa.Phi); ok {
				if pb != nil && p.Block() != pb {
					split = false
				}
				pb = p.Block()
			}
		}
		if pb == nil || !split || !c17StraightTo(pb, b) {
			if !decide(r.Results, g, b) {
				return false
			}
			continue
		}
		for i, pred := range pb.Preds {
			pg := factsAt(pred)
			if pg == nil {
				continue
			}
			eg := map[string]string{}
			for l, s := range g {
				eg[l] = s
			}
			for l, s := range pg {
				eg[l] = s
			}
			if iff, ok := blockTerm(pred).(*ssa.If); ok && len(pred.Succs) == 2 && pred.Succs[0] != pred.Succs[1] {
				l := condLabel(iff.Cond, pred.Succs[0] == pb)
				eg[l] = w.InstrPos(iff)
				if tw, ok := labelTwin(l); ok {
					eg[tw] = w.InstrPos(iff)
				}
			}
			vals := make([]ssa.Value, nres)
			for k, v := range r.Results {
				vals[k] = v
				if p, ok := v.(*ssa.Phi); ok && p.Block() == pb {
					vals[k] = p.Edges[i]
				}
			}
			if !decide(vals, eg, pred) {
				return false
			}
		}
	}
	return successes > 0
}

// c17DecodeWrapper: call is a call of an unexported module function of the form
//
//	func h(..., b []byte, ...) (T, error) { var x T; err := json.Unmarshal(b, &x); return x, err }
//
// i.e. exactly one json.Unmarshal, of a parameter into a local, and every return returns (the local loaded after the
// decode, the decoder's error itself). Then the call's error is nil iff the decode of that argument succeeded and its
// first result is the decoded object: facts about the call's results are facts about json.Unmarshal(arg, &x).
// Returns the index of the argument that is decoded.
func c17DecodeWrapper(w *World, call *ssa.Call) (int, bool) {
	h := staticCallee(call)
	if h == nil || h.Blocks == nil || !w.IsProductFn(h) || token.IsExported(h.Name()) || len(h.Params) != len(call.Call.Args) {
		return 0, false
	}
	res := h.Signature.Results()
	if res.Len() != 2 || !isErrorType(res.At(1).Type()) {
		return 0, false
	}
	ums := findCalls(h, "encoding/json.Unmarshal")
	if len(ums) != 1 {
		return 0, false
	}
	um, ok := ums[0].(*ssa.Call)
	if !ok || len(um.Call.Args) != 2 {
		return 0, false
	}
	src := -1
	for i, p := range h.Params {
		if unwrap(um.Call.Args[0]) == ssa.Value(p) {
			src = i
		}
	}
	target, isAlloc := unwrap(um.Call.Args[1]).(*ssa.Alloc)
	if src < 0 || !isAlloc {
		return 0, false
	}
	// nothing but the decoder writes the local
	if refs := target.Referrers(); refs != nil {
		for _, r := range *refs {
			switch x := r.(type) {
			case *ssa.Store:
				return 0, false
			case *ssa.FieldAddr:
				if addrWritten(x, 0) {
					return 0, false
				}
			case *ssa.IndexAddr:
				return 0, false
			}
		}
	}
	n := 0
	for _, b := range h.Blocks {
		r, ok := blockTerm(b).(*ssa.Return)
		if !ok {
			continue
		}
		n++
		if len(r.Results) != 2 || r.Results[1] != ssa.Value(um) {
			return 0, false
		}
		ld, ok := r.Results[0].(*ssa.UnOp)
		if !ok || ld.Op != token.MUL || ld.X != ssa.Value(target) {
			return 0, false
		}
		// loaded after the decode
		if ld.Block() == um.Block() {
			if instrIndex(ld) < instrIndex(um) {
				return 0, false
			}
		} else if !um.Block().Dominates(ld.Block()) {
			return 0, false
		}
	}
	return src, n > 0
}

// c17DecodeInto: call is a call of an unexported module function whose only result is the error of its one
// json.Unmarshal(param src, param dst) on every return (`func decode(b []byte, v any) error { return json.Unmarshal(b, v) }`,
// possibly with logging around it): the call's error is that decoder's error.
func c17DecodeInto(w *World, call *ssa.Call) (int, int, bool) {
	h := staticCallee(call)
	if h == nil || h.Blocks == nil || !w.IsProductFn(h) || token.IsExported(h.Name()) || len(h.Params) != len(call.Call.Args) {
		return 0, 0, false
	}
	if res := h.Signature.Results(); res.Len() != 1 || !isErrorType(res.At(0).Type()) {
		return 0, 0, false
	}
	ums := findCalls(h, "encoding/json.Unmarshal")
	if len(ums) != 1 {
		return 0, 0, false
	}
	um, ok := ums[0].(*ssa.Call)
	if !ok || len(um.Call.Args) != 2 {
		return 0, 0, false
	}
	src, dst := -1, -1
	for i, p := range h.Params {
		if unwrap(um.Call.Args[0]) == ssa.Value(p) {
			src = i
		}
		if unwrap(um.Call.Args[1]) == ssa.Value(p) {
			dst = i
		}
	}
	if src < 0 || dst < 0 {
		return 0, 0, false
	}
	n := 0
	for _, b := range h.Blocks {
		if r, ok := blockTerm(b).(*ssa.Return); ok {
			n++
			if len(r.Results) != 1 || r.Results[0] != ssa.Value(um) {
				return 0, 0, false
			}
		}
	}
	return src, dst, n > 0
}

// ---------- (d) third pass: mandatory fields checked by one loop over a fixed table ----------
//
// Class of rewrite: "a chain of `if x_i == K { fail }` becomes a table {x_0, ..., x_n-1} (rows possibly carrying more
// columns, e.g. the name to report) and ONE loop that applies the same test to every row". The chain's must-pass facts
// NE(x_i,K) are recovered from the loop by an inductive argument instead of being read off n branch edges:
//
//	(T) the table is a local array (or the backing array of a slice literal / of a variadic argument list): every
//	    cell is stored at most once, at a constant index, by a store that is executed before the first read (it
//	    strictly dominates the loop header, resp. the call the table is handed to); its address never escapes: it is
//	    only indexed for reading, loaded as a whole (a copy), measured with len, or - as a slice - handed to module
//	    functions that in turn only read that parameter. So at every read, cell (i, f) holds the one value stored there.
//	(I) the loop counts: its header tests J < N and leaves when false; J is 0 whenever the header is entered through
//	    a "restart" edge (phi edge 0, or -1 for the pre-incremented form go/ssa emits for `range`) and J+1 of the
//	    previous evaluation through every other edge; N is the number of rows (the array length as a constant, or len
//	    of the full slice of it / of the parameter).
//	(B) with the edge E of a test `row(J).f op K` removed, no path leads from a successor of the header back to the
//	    header except through restart edges: every iteration that continues the count has passed E with the row J.
//	(X) with the header's exhaustion edge (J >= N) removed, the function has no success-capable exit (engine E1, the
//	    mode of the caller's must-pass fact): a successful call has left the loop through that edge at least once.
//
// Then on every success exit: at the last passage of the exhaustion edge J >= N; J was 0 at the last restart and
// grew by one per continuation, so the header was evaluated with J = 0, 1, ..., N-1 and each time went into the
// body and came back (J grew), by (B) through E with row J; by (T) row J's cell f is the value v_J stored there:
// fact op(v_J, K) for every row - the same labels the if-chain produced. A missing row yields no fact for its value, a
// loop that stops early / skips rows / starts elsewhere fails (I), (B) or (X): the obligation then fails as before.
//
// The facts are composed through calls like the engine's own: a module callee whose success fact (`err == nil`,
// `T(...)`/`F(...)`) holds on every success exit of the caller contributes its facts with its parameters replaced by
// the arguments. A loop over a *parameter* (the table is built by the caller: `check(fields ...field)`) yields a
// quantified fact "every element of parameter #k satisfies op(e.f, K)", instantiated at the call site with the rows
// of the caller's table (or lifted when the caller passes on its own read-only parameter).
//
// The value v_J is read when the table is built, not when it is tested (unlike the if-chain). A row fact is
// therefore only produced when v_J is a constant, a parameter or a load from an object that nothing in the function
// may write after that load (no store through, no call receiving - formatting and logging calls apart -, no closure
// capturing its root pointer).

type c17CellKey struct{ row, field int } // field -1: the element itself

type c17Tab struct {
	arr    *ssa.Alloc
	n      int
	cells  map[c17CellKey]ssa.Value
	stores []ssa.Instruction // the stores that initialise the array
}

type c17Quant struct {
	param int    // index in fn.Params
	field int    // -1: the element itself
	op    string // NE / EQ
	k     string // printed constant
	site  string
}

func c17ConstInt(v ssa.Value) (int64, bool) {
	k, ok := v.(*ssa.Const)
	if !ok || k.Value == nil || k.Value.Kind() != constant.Int {
		return 0, false
	}
	return constant.Int64Val(k.Value)
}

// c17Before: a is executed before b whenever b is executed (same block earlier, or a's block strictly dominates b's).
func c17Before(a, b ssa.Instruction) bool {
	if a.Block() == b.Block() {
		return instrIndex(a) < instrIndex(b)
	}
	return a.Block().Dominates(b.Block())
}

// c17ReadOnlyAddr: the address is only loaded from (directly or through field / element addresses).
func c17ReadOnlyAddr(v ssa.Value, depth int) bool {
	refs := v.Referrers()
	if refs == nil || depth > 4 {
		return false
	}
	for _, r := range *refs {
		switch x := r.(type) {
		case *ssa.UnOp:
			if x.Op != token.MUL {
				return false
			}
		case *ssa.FieldAddr:
			if !c17ReadOnlyAddr(x, depth+1) {
				return false
			}
		case *ssa.IndexAddr:
			if x.X != v || !c17ReadOnlyAddr(x, depth+1) {
				return false
			}
		case *ssa.DebugRef:
		default:
			return false
		}
	}
	return true
}

// c17ReadOnlySlice: the slice value is only indexed for reading, measured, or handed to module functions that only
// read the parameter it is bound to.
func c17ReadOnlySlice(w *World, s ssa.Value, depth int) bool {
	refs := s.Referrers()
	if refs == nil || depth > 3 {
		return false
	}
	for _, r := range *refs {
		switch x := r.(type) {
		case *ssa.IndexAddr:
			if x.X != s || !c17ReadOnlyAddr(x, 0) {
				return false
			}
		case *ssa.Call:
			if b, ok := x.Call.Value.(*ssa.Builtin); ok && (b.Name() == "len" || b.Name() == "cap") {
				continue
			}
			h := staticCallee(x)
			if h == nil || h.Blocks == nil || !w.IsProductFn(h) || len(h.Params) != len(x.Call.Args) || x.Call.Value == s {
				return false
			}
			for i, a := range x.Call.Args {
				if a == s && !c17ReadOnlySlice(w, h.Params[i], depth+1) {
					return false
				}
			}
		case *ssa.DebugRef:
		default:
			return false
		}
	}
	return true
}

// c17TempStruct: v is the one load of a local struct whose fields are each stored at most once, all in v's block
// before v: the fields of the value loaded.
func c17TempStruct(v ssa.Value) map[int]ssa.Value {
	ld, ok := v.(*ssa.UnOp)
	if !ok || ld.Op != token.MUL {
		return nil
	}
	tmp, ok := ld.X.(*ssa.Alloc)
	if !ok || tmp.Referrers() == nil {
		return nil
	}
	if _, isStruct := ld.Type().Underlying().(*types.Struct); !isStruct {
		return nil
	}
	out := map[int]ssa.Value{}
	for _, r := range *tmp.Referrers() {
		switch x := r.(type) {
		case *ssa.UnOp:
			if x != ld {
				return nil
			}
		case *ssa.FieldAddr:
			if x.Referrers() == nil || len(*x.Referrers()) != 1 {
				return nil
			}
			st, ok := (*x.Referrers())[0].(*ssa.Store)
			if !ok || st.Addr != ssa.Value(x) || st.Block() != ld.Block() || instrIndex(st) > instrIndex(ld) {
				return nil
			}
			if _, dup := out[x.Field]; dup {
				return nil
			}
			out[x.Field] = st.Val
		case *ssa.DebugRef:
		default:
			return nil
		}
	}
	return out
}

// c17TableOf resolves a local array as a fixed table, condition (T) except for the placement of the stores, which
// the user checks against its reads. nil when the array is not such a table.
func c17TableOf(w *World, a *ssa.Alloc) *c17Tab {
	pt, ok := a.Type().Underlying().(*types.Pointer)
	if !ok || a.Referrers() == nil {
		return nil
	}
	arr, ok := pt.Elem().Underlying().(*types.Array)
	if !ok || arr.Len() > 64 {
		return nil
	}
	_, structElem := arr.Elem().Underlying().(*types.Struct)
	t := &c17Tab{arr: a, n: int(arr.Len()), cells: map[c17CellKey]ssa.Value{}}
	written := map[c17CellKey]bool{}
	mark := func(k c17CellKey) bool {
		if written[k] || written[c17CellKey{k.row, -2}] || (k.field == -2 && c17RowTouched(written, k.row)) {
			return false
		}
		written[k] = true
		return true
	}
	for _, r := range *a.Referrers() {
		switch x := r.(type) {
		case *ssa.IndexAddr:
			if x.X != ssa.Value(a) {
				return nil
			}
			if c17ReadOnlyAddr(x, 0) {
				continue
			}
			i64, isK := c17ConstInt(x.Index)
			if !isK || i64 < 0 || i64 >= arr.Len() {
				return nil
			}
			row := int(i64)
			for _, rr := range *x.Referrers() {
				switch y := rr.(type) {
				case *ssa.Store:
					// the whole element (-2 marks the row as written as a whole)
					if y.Addr != ssa.Value(x) || !mark(c17CellKey{row, -2}) {
						return nil
					}
					t.stores = append(t.stores, y)
					if !structElem {
						t.cells[c17CellKey{row, -1}] = y.Val
					} else if fs := c17TempStruct(y.Val); fs != nil && c17Before(y.Val.(*ssa.UnOp), y) {
						for f, v := range fs {
							t.cells[c17CellKey{row, f}] = v
						}
					}
				case *ssa.FieldAddr:
					if y.Referrers() == nil || len(*y.Referrers()) != 1 {
						return nil
					}
					st, ok := (*y.Referrers())[0].(*ssa.Store)
					if !ok || st.Addr != ssa.Value(y) || !mark(c17CellKey{row, y.Field}) {
						return nil
					}
					t.stores = append(t.stores, st)
					t.cells[c17CellKey{row, y.Field}] = st.Val
				case *ssa.DebugRef:
				default:
					return nil
				}
			}
		case *ssa.UnOp:
			if x.Op != token.MUL {
				return nil
			}
		case *ssa.Slice:
			if x.X != ssa.Value(a) || x.Low != nil || x.High != nil || x.Max != nil || !c17ReadOnlySlice(w, x, 0) {
				return nil
			}
		case *ssa.DebugRef:
		default:
			return nil
		}
	}
	return t
}

func c17RowTouched(written map[c17CellKey]bool, row int) bool {
	for k := range written {
		if k.row == row {
			return true
		}
	}
	return false
}

// c17TableBase: the array (Alloc) or slice parameter whose elements v gives access to: the array itself, a load of
// it, its full slice, or a parameter of slice type.
func c17TableBase(v ssa.Value) ssa.Value {
	switch x := v.(type) {
	case *ssa.Alloc:
		return x
	case *ssa.UnOp:
		if al, ok := x.X.(*ssa.Alloc); ok && x.Op == token.MUL {
			if _, isArr := x.Type().Underlying().(*types.Array); isArr {
				return al
			}
		}
	case *ssa.Slice:
		if al, ok := x.X.(*ssa.Alloc); ok && x.Low == nil && x.High == nil && x.Max == nil {
			return al
		}
	case *ssa.Parameter:
		if _, isSlice := x.Type().Underlying().(*types.Slice); isSlice {
			return x
		}
	}
	return nil
}

// c17ElemRead: v is the element at index idx of the table base, read from the table's memory by instruction `read`
// (possibly through a local that holds a copy of it).
func c17ElemRead(v ssa.Value, depth int) (base, idx ssa.Value, read ssa.Instruction, ok bool) {
	if depth > 3 {
		return
	}
	switch x := v.(type) {
	case *ssa.Index:
		if ld, isLd := x.X.(*ssa.UnOp); isLd && ld.Op == token.MUL {
			if b := c17TableBase(ld); b != nil {
				return b, x.Index, ld, true
			}
		}
	case *ssa.UnOp:
		if x.Op != token.MUL {
			return
		}
		switch p := x.X.(type) {
		case *ssa.IndexAddr:
			if b := c17TableBase(p.X); b != nil {
				return b, p.Index, x, true
			}
		case *ssa.Alloc:
			// a local copy: stored once as a whole, before this load, never written otherwise
			if sv := singleStore(p); sv != nil {
				for _, r := range *p.Referrers() {
					if st, isSt := r.(*ssa.Store); isSt && st.Addr == ssa.Value(p) && !c17Before(st, x) {
						return
					}
				}
				return c17ElemRead(sv, depth+1)
			}
		}
	}
	return
}

// c17CellRead: v is cell (idx, field) of the table base (field -1: the element itself).
func c17CellRead(v ssa.Value) (base, idx ssa.Value, field int, read ssa.Instruction, ok bool) {
	if b, i, rd, ok := c17ElemRead(v, 0); ok {
		return b, i, -1, rd, true
	}
	switch x := v.(type) {
	case *ssa.Field:
		if b, i, rd, ok := c17ElemRead(x.X, 0); ok {
			return b, i, x.Field, rd, true
		}
	case *ssa.UnOp:
		fa, isFa := x.X.(*ssa.FieldAddr)
		if x.Op != token.MUL || !isFa {
			return
		}
		switch p := fa.X.(type) {
		case *ssa.IndexAddr:
			if b := c17TableBase(p.X); b != nil {
				return b, p.Index, fa.Field, x, true
			}
		case *ssa.Alloc:
			if sv := singleStore(p); sv != nil {
				for _, r := range *p.Referrers() {
					if st, isSt := r.(*ssa.Store); isSt && st.Addr == ssa.Value(p) && !c17Before(st, x) {
						return
					}
				}
				if b, i, rd, ok := c17ElemRead(sv, 1); ok {
					return b, i, fa.Field, rd, true
				}
			}
		}
	}
	return
}

// c17CountLoop: condition (I).
type c17CountLoop struct {
	H       *ssa.BasicBlock
	J       ssa.Value
	bound   ssa.Value
	restart map[edgeKey]bool
}

func c17CountLoops(fn *ssa.Function) []c17CountLoop {
	var out []c17CountLoop
	for _, H := range fn.Blocks {
		iff, ok := blockTerm(H).(*ssa.If)
		if !ok || len(H.Succs) != 2 || H.Succs[0] == H.Succs[1] {
			continue
		}
		bo, ok := iff.Cond.(*ssa.BinOp)
		if !ok || bo.Op != token.LSS {
			continue
		}
		J := bo.X
		var phi *ssa.Phi
		pre := false
		if p, ok := J.(*ssa.Phi); ok && p.Block() == H {
			phi = p
		} else if add, ok := J.(*ssa.BinOp); ok && add.Op == token.ADD && add.Block() == H {
			if one, isK := c17ConstInt(add.Y); isK && one == 1 {
				if p, ok := add.X.(*ssa.Phi); ok && p.Block() == H {
					phi, pre = p, true
				}
			}
		}
		if phi == nil || len(phi.Edges) != len(H.Preds) {
			continue
		}
		lp := c17CountLoop{H: H, J: J, bound: bo.Y, restart: map[edgeKey]bool{}}
		good, nCont, nRestart := true, 0, 0
		for i, e := range phi.Edges {
			cont := false
			if pre {
				cont = e == J
			} else if add, ok := e.(*ssa.BinOp); ok && add.Op == token.ADD {
				if one, isK := c17ConstInt(add.Y); isK && one == 1 && add.X == J {
					cont = true
				}
				if one, isK := c17ConstInt(add.X); isK && one == 1 && add.Y == J {
					cont = true
				}
			}
			if cont {
				nCont++
				continue
			}
			k, isK := c17ConstInt(e)
			if !isK || (pre && k != -1) || (!pre && k != 0) {
				good = false
				break
			}
			nRestart++
			for j, s := range H.Preds[i].Succs {
				if s == H {
					lp.restart[edgeKey{H.Preds[i].Index, j}] = true
				}
			}
		}
		// a predecessor that is both a restart and a continuation (two edges into the header) would be cut entirely
		// by the restart set: excluded by requiring distinct predecessors
		seen := map[*ssa.BasicBlock]bool{}
		for _, p := range H.Preds {
			if seen[p] {
				good = false
			}
			seen[p] = true
		}
		if good && nCont > 0 && nRestart > 0 {
			out = append(out, lp)
		}
	}
	return out
}

// c17StableValue: the value read when the table was built is still what its printed form says when the table is
// tested (see the section comment).
func c17StableValue(fn *ssa.Function, v ssa.Value) bool {
	switch x := v.(type) {
	case *ssa.Const, *ssa.Parameter:
		return true
	case *ssa.UnOp:
		if x.Op != token.MUL {
			return false
		}
		root := c17AddrRoot(x.X)
		switch root.(type) {
		case *ssa.Parameter, *ssa.Alloc, *ssa.Call:
		default:
			return false
		}
		// instructions that may run after the load
		after := map[*ssa.BasicBlock]bool{}
		stack := append([]*ssa.BasicBlock{}, x.Block().Succs...)
		for len(stack) > 0 {
			b := stack[len(stack)-1]
			stack = stack[:len(stack)-1]
			if after[b] {
				continue
			}
			after[b] = true
			stack = append(stack, b.Succs...)
		}
		for _, b := range fn.Blocks {
			for i, in := range b.Instrs {
				late := after[b] || (b == x.Block() && i > instrIndex(x))
				switch y := in.(type) {
				case *ssa.Store:
					if late && c17AddrRoot(y.Addr) == root {
						return false
					}
					if c17AddrRoot(unwrap(y.Val)) == root && c17PointerLike(y.Val.Type()) && !onlyFormatted(y, 0) {
						return false // the object's address is stored somewhere (other than in the argument list of a formatting call)
					}
				case *ssa.MakeClosure:
					for _, bv := range y.Bindings {
						if c17AddrRoot(unwrap(bv)) == root {
							return false
						}
					}
				case ssa.CallInstruction:
					_, deferred := in.(*ssa.Defer)
					_, spawned := in.(*ssa.Go)
					if (!late && !deferred && !spawned) || isFormattingCall(y) {
						continue // fmt / logger calls render the object, they do not write it
					}
					ops := append([]ssa.Value{}, y.Common().Args...)
					if y.Common().Value != nil {
						ops = append(ops, y.Common().Value)
					}
					for _, a := range ops {
						if c17PointerLike(a.Type()) && c17AddrRoot(unwrap(a)) == root {
							return false
						}
					}
				}
			}
		}
		return true
	}
	return false
}

func c17PointerLike(t types.Type) bool {
	switch t.Underlying().(type) {
	case *types.Pointer, *types.Interface, *types.Slice, *types.Map, *types.Signature, *types.Chan:
		return true
	}
	return false
}

// c17AddrRoot: the pointer an address is derived from by field / element selection only.
func c17AddrRoot(v ssa.Value) ssa.Value {
	for i := 0; i < 8; i++ {
		switch x := v.(type) {
		case *ssa.FieldAddr:
			v = x.X
		case *ssa.IndexAddr:
			v = x.X
		default:
			return v
		}
	}
	return v
}

// c17RowFacts: the facts op(v_i, k) for the rows of a table whose stores all precede `read`.
func c17RowFacts(fn *ssa.Function, t *c17Tab, field int, op, k, site string, read ssa.Instruction, out map[string]string) {
	for _, st := range t.stores {
		if !c17Before(st, read) {
			return
		}
	}
	for row := 0; row < t.n; row++ {
		v, ok := t.cells[c17CellKey{row, field}]
		if !ok || !c17StableValue(fn, v) {
			continue
		}
		out[op+"("+desc(v)+","+k+")"] = site
	}
}

// c17LoopFacts: the facts conditions (T), (I), (B), (X) give for the loops of fn: row facts for local tables,
// quantified facts for loops over a read-only slice parameter.
func c17LoopFacts(c *Ctx, fn *ssa.Function, mode Mode) (map[string]string, []c17Quant) {
	w := c.W
	fi := w.Info(fn)
	facts := map[string]string{}
	var quants []c17Quant
	for _, lp := range c17CountLoops(fn) {
		H := lp.H
		c.Evals++
		// (X)
		if fi.successWitness(mode, entryState(), map[edgeKey]bool{{H.Index, 1}: true}) != nil {
			continue
		}
		for bi := range loopBlocks(H) {
			G := fn.Blocks[bi]
			iff, ok := blockTerm(G).(*ssa.If)
			if !ok || G == H || len(G.Succs) != 2 || G.Succs[0] == G.Succs[1] {
				continue
			}
			bo, ok := iff.Cond.(*ssa.BinOp)
			if !ok || (bo.Op != token.EQL && bo.Op != token.NEQ) {
				continue
			}
			x, kv := bo.X, bo.Y
			if _, isK := x.(*ssa.Const); isK {
				x, kv = kv, x
			}
			kc, isK := kv.(*ssa.Const)
			if !isK || isNilConst(kc) {
				continue
			}
			base, idx, field, read, ok := c17CellRead(x)
			if !ok || idx != lp.J {
				continue
			}
			// (I): the bound is the number of rows of this very table
			var tab *c17Tab
			pidx := -1
			switch b := base.(type) {
			case *ssa.Alloc:
				tab = c17TableOf(w, b)
				if tab == nil {
					continue
				}
				if n, isN := c17ConstInt(lp.bound); isN {
					if int(n) != tab.n {
						continue
					}
				} else if lc, isCall := lp.bound.(*ssa.Call); !isCall || calleeName(lc) != "builtin:len" || len(lc.Call.Args) != 1 || c17TableBase(lc.Call.Args[0]) != base {
					continue
				}
				// the table is complete before the loop is entered
				placed := true
				for _, st := range tab.stores {
					if st.Block() == H || !st.Block().Dominates(H) {
						placed = false
					}
				}
				if !placed {
					continue
				}
			case *ssa.Parameter:
				lc, isCall := lp.bound.(*ssa.Call)
				if !isCall || calleeName(lc) != "builtin:len" || len(lc.Call.Args) != 1 || lc.Call.Args[0] != base || !c17ReadOnlySlice(w, b, 0) {
					continue
				}
				for i, p := range fn.Params {
					if p == b {
						pidx = i
					}
				}
				if pidx < 0 {
					continue
				}
			default:
				continue
			}
			for j := 0; j < 2; j++ {
				// (B)
				cut := map[edgeKey]bool{{G.Index, j}: true}
				for e := range lp.restart {
					cut[e] = true
				}
				c.Evals++
				if fi.reachHit([]state{{H.Succs[0].Index, 0, -1}, {H.Succs[1].Index, 0, -1}}, cut, map[int]bool{H.Index: true}) {
					continue
				}
				op := bo.Op
				if j == 1 {
					op = negOp(op)
				}
				if tab != nil {
					c17RowFacts(fn, tab, field, opName(op), desc(kc), w.InstrPos(iff), read, facts)
				} else {
					quants = append(quants, c17Quant{param: pidx, field: field, op: opName(op), k: desc(kc), site: w.InstrPos(iff)})
				}
			}
		}
	}
	return facts, quants
}

// c17TableFacts: the table facts that hold on every success exit of fn under mode, in fn's frame, composed through
// the module callees whose success is a must-pass fact of every success exit of fn.
func c17TableFacts(c *Ctx, fn *ssa.Function, mode Mode, busy map[*ssa.Function]bool, depth int) (map[string]string, []c17Quant) {
	w := c.W
	if fn == nil || fn.Blocks == nil || depth > 3 || busy[fn] {
		return map[string]string{}, nil
	}
	busy[fn] = true
	defer delete(busy, fn)
	facts, quants := c17LoopFacts(c, fn, mode)
	sum := w.Summarize(fn, mode)
	if sum == nil || !sum.Complete {
		return facts, quants
	}
	for _, ci := range allCalls(fn) {
		x, ok := ci.(*ssa.Call)
		if !ok {
			continue
		}
		h := staticCallee(x)
		if h == nil || h == fn || h.Blocks == nil || !w.IsProductFn(h) || len(h.Params) != len(x.Call.Args) {
			continue
		}
		res := h.Signature.Results()
		var modes []Mode
		var labels []string
		switch {
		case res.Len() == 1 && isErrorType(res.At(0).Type()):
			modes, labels = []Mode{{Kind: mErr}}, []string{"EQ(" + desc(x) + ",nil)"}
		case res.Len() > 1 && isErrorType(res.At(res.Len()-1).Type()):
			modes, labels = []Mode{{Kind: mErr}}, []string{"EQ(" + c17ResultDesc(x, res.Len()-1) + ",nil)"}
		case res.Len() == 1 && isBoolType(res.At(0).Type()):
			modes, labels = []Mode{{Kind: mBool, Want: true}, {Kind: mBool, Want: false}}, []string{"T(" + desc(x) + ")", "F(" + desc(x) + ")"}
		}
		for mi, hm := range modes {
			if !c17Has(sum.Checked, labels[mi]) {
				continue
			}
			c.SeenFn(h.String())
			hf, hq := c17TableFacts(c, h, hm, busy, depth+1)
			names := make([]string, len(h.Params))
			descs := make([]string, len(h.Params))
			for i, p := range h.Params {
				names[i] = p.Name()
				descs[i] = desc(x.Call.Args[i])
			}
			for l, s := range hf {
				facts[substParams(l, names, descs)] = s
			}
			for _, q := range hq {
				switch b := c17TableBase(x.Call.Args[q.param]).(type) {
				case *ssa.Alloc:
					// the caller's table, complete before the call
					if tab := c17TableOf(w, b); tab != nil {
						c17RowFacts(fn, tab, q.field, q.op, q.k, q.site, x, facts)
					}
				case *ssa.Parameter:
					// the caller's own read-only parameter, handed on
					if ssa.Value(b) == x.Call.Args[q.param] && c17ReadOnlySlice(w, b, 0) {
						for i, p := range fn.Params {
							if p == b {
								quants = append(quants, c17Quant{param: i, field: q.field, op: q.op, k: q.k, site: q.site})
							}
						}
					}
				}
			}
		}
	}
	return facts, quants
}

// ---------- the commander's outputs on failure: the captured stderr reaches the error mapping ----------

// Clause: "a failing process yields the plugin's own structured error when it printed one". The runner can only do
// that (runner/error-mapping/*) when the function that runs the command hands it what the process printed on its
// standard error on EVERY failing way of returning: an exit that fails but returns nil (or anything else) in that
// result makes the mapping see an empty stderr, and the caller gets the executable-file error in place of the plugin's
// own RequestError - whatever the mapping does. Hence, as a necessary condition of the clause:
//
//	(consumer)      the result of the commander that the runner decodes as the structured error is result #k: read off
//	                the dataflow - the source operand of every json.Unmarshal whose target is a proto.RequestError object
//	                is followed back (through parameters of helpers to the arguments at their call sites, through phis) to
//	                an extracted result of the commander's call; neither position nor name decide;
//	(every exit)    every way of returning from the function that runs the command which lies after Run (after Wait for
//	                Start + Wait) and whose error operand is not provably nil returns as result #k the captured standard
//	                error: Bytes() (or []byte(String())) of THE buffer the limited writer in cmd.Stderr wraps, taken after
//	                Run returned (bytes.Buffer.Bytes() is a view of the contents at the time of the call: taken before
//	                Run it stays empty);
//	(buffer-intact) nothing empties or drains that buffer between Run and the place where its bytes are taken.
//
// Exempt: exits that cannot be reached from Run (argument checks; the failure of Start: no process, nothing printed),
// and exits whose error operand is the nil constant or a value known nil by a branch fact on every path to the exit
// (the mapping is not consulted for a nil error).
//
// Ways of returning are the same as for runner/output-on-success: a return statement, or - when the operands are phis
// of one block that leads straight to the return (single exit, named results, result locals) - each incoming edge of
// that block with the operands of that edge taken together and the facts of that edge.
//
// Equivalent shapes accepted for the value: the Bytes() call in the return statement or held in a local computed
// anywhere after Run (one local shared by several failing arms, computed before the error test), a phi all of whose
// edges are accepted, a single-store local, bytes.Clone / slices.Clone of an accepted value, []byte(buf.String()), the
// result of an unexported helper all of whose returns give an accepted value (its parameters bound to the arguments:
// `captured(&stderr)`), a buffer handed to the limiter through a constructor / configuring helper (the typestate rule
// resolves the buffer). The success exit may return anything (nil or the captured bytes).
func c17StderrOnFailure(c *Ctx, cmd *c17Cmd, RUN *ssa.Function, oc *ssa.Call) {
	w := c.W
	OUT := cmd.OUT
	const key = "runner/stderr-on-failure"
	const rule = "every way of returning from the function that runs the command that lies after Run (Wait) and can carry a non-nil error returns, in the result the runner decodes as the plugin's structured error, the captured standard error: Bytes() of the buffer behind cmd.Stderr, taken after Run returned"
	// (consumer)
	k, why := c17StderrIndex(c, oc)
	const ruleK = "the runner decodes exactly one result of the commander as the plugin's structured error (json.Unmarshal into a proto.RequestError): that result is the stderr result"
	if k < 0 {
		c.Unk(key+"/consumer", ruleK, w.FnPos(RUN), why)
		return
	}
	c.OK(key+"/consumer", ruleK, w.InstrPos(oc))
	nres := OUT.Signature.Results().Len()
	if cmd.done == nil || len(cmd.stderrBuf) == 0 {
		c.Unk(key, rule, w.FnPos(OUT), "the buffer behind cmd.Stderr or the Run call was not resolved (see command/stderr-capped, command/run)")
		return
	}
	for _, b := range cmd.stderrBuf {
		if b != cmd.stderrBuf[0] {
			c.Unk(key, rule, w.FnPos(OUT), "cmd.Stderr is set over more than one buffer")
			return
		}
	}
	buf := cmd.stderrBuf[0]
	if k >= nres-1 || nres < 2 || !isErrorType(OUT.Signature.Results().At(nres-1).Type()) || !isByteSlice(OUT.Signature.Results().At(k).Type()) {
		c.Unk(key, rule, w.FnPos(OUT), fmt.Sprintf("result #%d of %s is not a byte slice followed by an error result", k, fnName(OUT)))
		return
	}
	done := cmd.done
	fi := w.Info(OUT)
	// blocks that can be entered after Run returned
	after := map[*ssa.BasicBlock]bool{}
	{
		work := append([]*ssa.BasicBlock{}, done.Block().Succs...)
		for len(work) > 0 {
			b := work[len(work)-1]
			work = work[:len(work)-1]
			if after[b] {
				continue
			}
			after[b] = true
			work = append(work, b.Succs...)
		}
	}
	factsAt := func(b *ssa.BasicBlock) map[string]string {
		if b.Index == 0 {
			return map[string]string{}
		}
		g, ok := fi.mustPassBetween([]int{0}, map[int]bool{b.Index: true})
		if !ok {
			return nil
		}
		return g
	}
	// status of a value as "the captured stderr": 0 accepted, 1 certainly not (why), 2 not decided (why)
	const (
		acc = iota
		no
		unk
	)
	var captured func(v ssa.Value, bind map[*ssa.Parameter]ssa.Value, afterRun func(ssa.Instruction) bool, depth int) (int, string)
	captured = func(v ssa.Value, bind map[*ssa.Parameter]ssa.Value, afterRun func(ssa.Instruction) bool, depth int) (int, string) {
		c.Evals++
		v = c17Resolve(v, bind)
		if depth > 6 {
			return unk, "the value is too deeply nested to follow: " + trunc(desc(v), 80)
		}
		worst := func(vals []ssa.Value, nb map[*ssa.Parameter]ssa.Value, ar func(ssa.Instruction) bool) (int, string) {
			st, d := acc, ""
			for _, e := range vals {
				if e == v {
					continue
				}
				s1, d1 := captured(e, nb, ar, depth+1)
				if s1 == no || (s1 == unk && st == acc) {
					st, d = s1, d1
				}
				if st == no {
					break
				}
			}
			return st, d
		}
		switch x := v.(type) {
		case *ssa.Const:
			if x.IsNil() {
				return no, "nil is returned in place of the captured stderr: what the plugin printed is discarded"
			}
			return no, "the constant " + desc(x) + " is returned in place of the captured stderr"
		case *ssa.Phi:
			if len(x.Edges) == 0 {
				return unk, "empty phi"
			}
			return worst(x.Edges, bind, afterRun)
		case *ssa.UnOp:
			if al, ok := x.X.(*ssa.Alloc); ok && x.Op == token.MUL {
				if sv := singleStore(al); sv != nil {
					return captured(sv, bind, afterRun, depth+1)
				}
			}
		case *ssa.Extract:
			if call, ok := x.Tuple.(*ssa.Call); ok {
				if h := staticCallee(call); h != nil && h.Blocks != nil && w.IsProductFn(h) && !token.IsExported(h.Name()) && len(h.Params) == len(call.Call.Args) && depth < 3 {
					return c17ThroughHelper(call, h, x.Index, bind, afterRun, captured)
				}
			}
		case *ssa.Call:
			switch calleeName(x) {
			case "(*bytes.Buffer).Bytes", "(*bytes.Buffer).String":
				if len(x.Call.Args) != 1 {
					break
				}
				if src := c17Resolve(x.Call.Args[0], bind); src != ssa.Value(buf) {
					return no, "the bytes of " + desc(src) + " are returned, which is not the buffer behind cmd.Stderr"
				}
				if !afterRun(x) {
					return no, "the bytes of the buffer behind cmd.Stderr are taken at " + w.InstrPos(x) + ", not after Run returned on every path (a view taken before the process wrote stays empty)"
				}
				return acc, ""
			case "bytes.Clone", "slices.Clone":
				if len(x.Call.Args) == 1 {
					return captured(x.Call.Args[0], bind, afterRun, depth+1)
				}
			}
			if h := staticCallee(x); h != nil && h.Blocks != nil && w.IsProductFn(h) && !token.IsExported(h.Name()) && len(h.Params) == len(x.Call.Args) && h.Signature.Results().Len() == 1 && depth < 3 {
				return c17ThroughHelper(x, h, 0, bind, afterRun, captured)
			}
		}
		return unk, "cannot tell that " + trunc(desc(v), 100) + " is the captured stderr"
	}
	afterRunOUT := func(in ssa.Instruction) bool { return c17Before(done, in) }
	nFailing := 0
	decide := func(vals []ssa.Value, g map[string]string, site ssa.Instruction) {
		ev := vals[nres-1]
		if isNilConst(ev) || c17Has(g, "EQ("+desc(ev)+",nil)") {
			return // surely a nil error: the mapping is not consulted
		}
		nFailing++
		st, d := captured(vals[k], map[*ssa.Parameter]ssa.Value{}, afterRunOUT, 0)
		switch st {
		case acc:
			c.OK(key, rule, w.InstrPos(site))
		case no:
			c.Bad(key, rule, w.InstrPos(site), fmt.Sprintf("this exit can return the error %s, and as result #%d: %s", trunc(desc(ev), 60), k, d))
		default:
			c.Unk(key, rule, w.InstrPos(site), fmt.Sprintf("this exit can return the error %s, and as result #%d: %s", trunc(desc(ev), 60), k, d))
		}
	}
	for _, b := range OUT.Blocks {
		r, ok := blockTerm(b).(*ssa.Return)
		if !ok {
			continue
		}
		if len(r.Results) != nres {
			c.Unk(key, rule, w.InstrPos(r), "a return with an unexpected number of operands")
			return
		}
		g := factsAt(b)
		if g == nil {
			continue // unreachable
		}
		var pb *ssa.BasicBlock
		split := true
		for _, v := range r.Results {
			if p, ok := v.(*ssa.Phi); ok {
				if pb != nil && p.Block() != pb {
					split = false
				}
				pb = p.Block()
			}
		}
		if pb == nil || !split || !c17StraightTo(pb, b) {
			if b == done.Block() || after[b] {
				decide(r.Results, g, r)
			}
			continue
		}
		for i, pred := range pb.Preds {
			pg := factsAt(pred)
			if pg == nil {
				continue
			}
			if pred != done.Block() && !after[pred] {
				continue // this way of returning does not pass Run
			}
			eg := map[string]string{}
			for l, s := range g {
				eg[l] = s
			}
			for l, s := range pg {
				eg[l] = s
			}
			if iff, ok := blockTerm(pred).(*ssa.If); ok && len(pred.Succs) == 2 && pred.Succs[0] != pred.Succs[1] {
				l := condLabel(iff.Cond, pred.Succs[0] == pb)
				eg[l] = w.InstrPos(iff)
				if tw, ok := labelTwin(l); ok {
					eg[tw] = w.InstrPos(iff)
				}
			}
			vals := make([]ssa.Value, nres)
			for j, v := range r.Results {
				vals[j] = v
				if p, ok := v.(*ssa.Phi); ok && p.Block() == pb {
					vals[j] = p.Edges[i]
				}
			}
			var site ssa.Instruction = r
			if t := blockTerm(pred); t != nil && t.Pos().IsValid() {
				site = t
			}
			decide(vals, eg, site)
		}
	}
	if nFailing == 0 {
		c.Unk(key, rule, w.FnPos(OUT), "no failing way of returning after Run was found: the rule no longer matches the code it was written for")
	}
	// (buffer-intact)
	const ruleI = "nothing empties or drains the buffer behind cmd.Stderr between Run and the place where its bytes are taken"
	drains := map[string]bool{}
	for _, m := range []string{"Reset", "Truncate", "Next", "Read", "ReadByte", "ReadBytes", "ReadRune", "ReadString", "WriteTo"} {
		drains["(*bytes.Buffer)."+m] = true
	}
	var takes []ssa.Instruction // where the bytes are taken in OUT
	if refs := buf.Referrers(); refs != nil {
		for _, r := range *refs {
			if call, ok := r.(*ssa.Call); ok {
				if n := calleeName(call); n == "(*bytes.Buffer).Bytes" || n == "(*bytes.Buffer).String" {
					takes = append(takes, call)
				}
			}
		}
	}
	okIntact, dIntact := true, ""
	var scan func(v ssa.Value, fn *ssa.Function, depth int, inOUT bool)
	scan = func(v ssa.Value, fn *ssa.Function, depth int, inOUT bool) {
		refs := v.Referrers()
		if refs == nil {
			return
		}
		for _, r := range *refs {
			ci, ok := r.(ssa.CallInstruction)
			if !ok {
				continue
			}
			if _, isDefer := ci.(*ssa.Defer); isDefer {
				continue // runs when the function returns: the bytes were taken before
			}
			if inOUT && !(ci.Block() == done.Block() && instrIndex(ci) > instrIndex(done)) && !after[ci.Block()] {
				continue // before Run
			}
			if drains[calleeName(ci)] && len(ci.Common().Args) > 0 && ci.Common().Args[0] == v {
				harmful := !inOUT
				for _, t := range takes {
					if !c17Before(t, ci) {
						harmful = true
					}
				}
				if harmful {
					okIntact, dIntact = false, calleeName(ci)+" at "+w.InstrPos(ci)+" may run after Run and before the bytes are taken"
				}
				continue
			}
			if h := staticCallee(ci); h != nil && h.Blocks != nil && w.IsProductFn(h) && len(h.Params) == len(ci.Common().Args) && depth < 2 {
				for j, a := range ci.Common().Args {
					if a == v {
						scan(h.Params[j], h, depth+1, false)
					}
				}
			}
		}
	}
	scan(buf, OUT, 0, true)
	c.Evals++
	c.Check(okIntact, key+"/buffer-intact", ruleI, w.InstrPos(done), dIntact)
	c.MinCount(key, 3, "obligations on the captured stderr (consumer, failing exits, buffer intact)")
}

// c17ThroughHelper: the idx-th result of a call of the unexported helper h is accepted when every return of h gives an
// accepted value there, with h's parameters bound to the arguments of the call. A value computed inside the helper is
// computed while the call runs: it is "after Run" iff the call is.
func c17ThroughHelper(call *ssa.Call, h *ssa.Function, idx int, bind map[*ssa.Parameter]ssa.Value, afterRun func(ssa.Instruction) bool,
	captured func(ssa.Value, map[*ssa.Parameter]ssa.Value, func(ssa.Instruction) bool, int) (int, string)) (int, string) {
	nb := map[*ssa.Parameter]ssa.Value{}
	for p, q := range bind {
		nb[p] = q
	}
	for j, p := range h.Params {
		nb[p] = c17Resolve(call.Call.Args[j], bind)
	}
	callAfter := afterRun(call)
	inner := func(ssa.Instruction) bool { return callAfter }
	st, d, n := 0, "", 0
	for _, b := range h.Blocks {
		r, ok := blockTerm(b).(*ssa.Return)
		if !ok || len(r.Results) <= idx {
			continue
		}
		n++
		s1, d1 := captured(r.Results[idx], nb, inner, 4)
		if s1 == 1 || (s1 == 2 && st == 0) {
			st, d = s1, d1+" (in "+fnName(h)+")"
		}
	}
	if n == 0 {
		return 2, "no return found in " + fnName(h)
	}
	return st, d
}

// c17StderrIndex: which result of the commander's call the runner decodes as the plugin's structured error. Every
// json.Unmarshal of the package whose target is (or, through a parameter, is bound at a call site to) a local
// proto.RequestError object is a consumer; its source is followed back to an extracted result of oc through parameters
// of module helpers (all their call sites) and phis. All consumers that reach oc must agree.
func c17StderrIndex(c *Ctx, oc *ssa.Call) (int, string) {
	w := c.W
	sitesOf := func(fn *ssa.Function) []ssa.CallInstruction {
		var out []ssa.CallInstruction
		for _, g := range w.Funcs {
			for _, ci := range allCalls(g) {
				if staticCallee(ci) == fn && len(ci.Common().Args) == len(fn.Params) {
					out = append(out, ci)
				}
			}
		}
		return out
	}
	paramIdx := func(fn *ssa.Function, p *ssa.Parameter) int {
		for i, q := range fn.Params {
			if q == p {
				return i
			}
		}
		return -1
	}
	found := map[int]bool{}
	var src func(fn *ssa.Function, v ssa.Value, depth int)
	src = func(fn *ssa.Function, v ssa.Value, depth int) {
		c.Evals++
		v = unwrap(v)
		if depth > 4 {
			return
		}
		switch x := v.(type) {
		case *ssa.Extract:
			if x.Tuple == ssa.Value(oc) {
				found[x.Index] = true
			}
		case *ssa.Phi:
			for _, e := range x.Edges {
				if e != v {
					src(fn, e, depth+1)
				}
			}
		case *ssa.Parameter:
			if i := paramIdx(fn, x); i >= 0 {
				for _, ci := range sitesOf(fn) {
					src(ci.Parent(), ci.Common().Args[i], depth+1)
				}
			}
		}
	}
	isReqErr := func(v ssa.Value) bool {
		al, ok := unwrap(v).(*ssa.Alloc)
		return ok && namedOf(al.Type()) == "ngo/plugin/proto.RequestError"
	}
	n := 0
	for _, fn := range w.FuncsOfPkg("plugin") {
		for _, ci := range findCalls(fn, "encoding/json.Unmarshal") {
			args := ci.Common().Args
			if len(args) != 2 {
				continue
			}
			if isReqErr(args[1]) {
				n++
				src(fn, args[0], 0)
				continue
			}
			// a forwarding decoder: target and source are parameters, bound at the call sites
			dp, ok1 := unwrap(args[1]).(*ssa.Parameter)
			sp, ok2 := unwrap(args[0]).(*ssa.Parameter)
			if !ok1 || !ok2 {
				continue
			}
			di, si := paramIdx(fn, dp), paramIdx(fn, sp)
			if di < 0 || si < 0 {
				continue
			}
			for _, site := range sitesOf(fn) {
				if isReqErr(site.Common().Args[di]) {
					n++
					src(site.Parent(), site.Common().Args[si], 1)
				}
			}
		}
	}
	if len(found) == 1 {
		for k := range found {
			return k, ""
		}
	}
	if len(found) == 0 {
		return -1, fmt.Sprintf("%d decode(s) into a proto.RequestError found, none of them reads a result of the commander's call", n)
	}
	return -1, "the decodes into a proto.RequestError read different results of the commander's call"
}
