package main

// C17, second pass: the error mapping of the runner is decided on the runner's *flattened* ways of returning
// rather than on where a statement sits.
//
// A "leaf" is one way in which the runner can hand an error value to its caller: a return statement of the runner
// itself, or - when the operand of that return is the result of an unexported module helper, returned unchanged -
// a return statement of that helper (recursively), or one incoming edge of a phi that is returned (single exit with
// an error local). Each leaf carries the facts that hold on every path that leaves through it, all spelled in the
// runner's frame (the helper's parameters replaced by the printed form of the arguments at the call site), i.e. the
// facts one would read off the runner's own return statement had the helpers been inlined.
//
// Soundness of reading the mapping off the leaves: the value a leaf stands for reaches the runner's caller
// unchanged (only `return f(...)`, `x := f(...); ...; return x` and phis of such are followed: no wrapping, no
// conversion), so its dynamic type is the one the runner returns; a path that leaves through the leaf crosses every
// must-pass edge of every frame on the chain (the call site lies on every path to the return that uses its result,
// SSA dominance), so the union of the per-frame must-pass facts holds on it; parameters are immutable SSA values, so
// replacing `param:x` by the argument's printed form states the same fact about the same value.

import (
	"fmt"
	"go/token"
	"go/types"
	"strings"

	"golang.org/x/tools/go/ssa"
)

type c17Leaf struct {
	fn    *ssa.Function       // function holding the return the value comes from
	val   ssa.Value           // the operand (a value of fn)
	g     map[string]string   // facts on every path through this leaf, in the runner's frame
	frame func(string) string // rewrites a printed form of fn into the runner's frame
	site  ssa.Instruction     // the return (for positions)
	chain []*ssa.Function     // helpers followed, outermost first
}

func c17Has(m map[string]string, l string) bool { _, ok := m[l]; return ok }

// c17Leaves enumerates the leaves of fn's k-th result (see the file comment). base are the facts already known
// (runner frame), frame rewrites fn's printed forms into the runner's frame.
func c17Leaves(c *Ctx, fn *ssa.Function, k int, base map[string]string, frame func(string) string, chain []*ssa.Function, out *[]c17Leaf) {
	w := c.W
	fi := w.Info(fn)
	framed := func(g map[string]string) map[string]string {
		m := map[string]string{}
		for l, s := range base {
			m[l] = s
		}
		for l, s := range g {
			m[frame(l)] = s
		}
		return m
	}
	factsAt := func(b *ssa.BasicBlock) map[string]string {
		if b.Index == 0 {
			return map[string]string{}
		}
		g, ok := fi.mustPassBetween([]int{0}, map[int]bool{b.Index: true})
		if !ok {
			return nil // unreachable
		}
		return g
	}
	var expand func(v ssa.Value, g map[string]string, r *ssa.Return, depth int)
	expand = func(v ssa.Value, g map[string]string, r *ssa.Return, depth int) {
		c.Evals++
		switch x := v.(type) {
		case *ssa.Phi:
			// one leaf per incoming edge: the facts at the predecessor, the fact of the edge taken, and (still) the
			// facts of the block that returns. Only a phi whose block reaches the return without a further branch is
			// split (otherwise an edge of the phi need not be a way of returning at all).
			if depth < 4 && c17StraightTo(x.Block(), r.Block()) {
				for i, e := range x.Edges {
					pred := x.Block().Preds[i]
					pg := factsAt(pred)
					if pg == nil {
						continue
					}
					eg := map[string]string{}
					for l, s := range g {
						eg[l] = s
					}
					for l, s := range framed(pg) {
						eg[l] = s
					}
					if iff, ok := blockTerm(pred).(*ssa.If); ok && len(pred.Succs) == 2 && pred.Succs[0] != pred.Succs[1] {
						l := condLabel(iff.Cond, pred.Succs[0] == x.Block())
						eg[frame(l)] = w.InstrPos(iff)
						if tw, ok := labelTwin(l); ok {
							eg[frame(tw)] = w.InstrPos(iff)
						}
					}
					expand(e, eg, r, depth+1)
				}
				return
			}
		case *ssa.Call:
			h := staticCallee(x)
			if h != nil && h.Blocks != nil && w.IsProductFn(h) && !token.IsExported(h.Name()) && len(h.Params) == len(x.Call.Args) && len(chain) < 3 && !c17InChain(chain, h) && h != fn {
				if res := h.Signature.Results(); res.Len() == 1 && types.Identical(res.At(0).Type(), v.Type()) {
					names := make([]string, len(h.Params))
					descs := make([]string, len(h.Params))
					for i, p := range h.Params {
						names[i] = p.Name()
						descs[i] = frame(desc(x.Call.Args[i]))
					}
					c.SeenFn(h.String())
					sub := func(l string) string { return substParams(l, names, descs) }
					c17Leaves(c, h, 0, g, sub, append(append([]*ssa.Function{}, chain...), h), out)
					return
				}
			}
		}
		*out = append(*out, c17Leaf{fn: fn, val: v, g: g, frame: frame, site: r, chain: chain})
	}
	for _, b := range fn.Blocks {
		r, ok := blockTerm(b).(*ssa.Return)
		if !ok || len(r.Results) <= k {
			continue
		}
		g := factsAt(b)
		if g == nil {
			continue
		}
		expand(r.Results[k], framed(g), r, 0)
	}
}

func c17InChain(chain []*ssa.Function, h *ssa.Function) bool {
	for _, f := range chain {
		if f == h {
			return true
		}
	}
	return false
}

// c17StraightTo: from is to, or reaches it through unconditional jumps only.
func c17StraightTo(from, to *ssa.BasicBlock) bool {
	for i := 0; i < 8; i++ {
		if from == to {
			return true
		}
		if len(from.Succs) != 1 {
			return false
		}
		from = from.Succs[0]
	}
	return false
}

// c17ResultDesc: the printed form of the k-th result of a tuple-valued call, as it appears in edge labels.
func c17ResultDesc(call *ssa.Call, k int) string {
	if refs := call.Referrers(); refs != nil {
		for _, r := range *refs {
			if e, ok := r.(*ssa.Extract); ok && e.Index == k {
				return desc(e)
			}
		}
	}
	if tup, ok := call.Type().(*types.Tuple); ok && k < tup.Len() && isErrorType(tup.At(k).Type()) {
		return desc(call) + "#err"
	}
	return desc(call) + "#" + string(rune('0'+k))
}

// c17ErrorMapping decides the four cases of the runner's error mapping on its leaves.
//
//	executable        a leaf of dynamic type *PluginExecutableFileError whose facts contain  process err != nil  and  len(stderr) == 0
//	malformed-stderr  a leaf of dynamic type *PluginMalformedError whose facts contain  process err != nil,  len(stderr) != 0  and
//	                  json.Unmarshal(stderr, X) err != nil
//	plugin-error      a leaf that is the RequestError object X itself (a load of the local the decoder wrote to) whose facts contain
//	                  process err != nil  and  json.Unmarshal(stderr, &X) err == nil
//	malformed-stdout  a leaf of dynamic type *PluginMalformedError whose facts contain  process err == nil  and
//	                  json.Unmarshal(stdout, response) err != nil
//
// The dynamic type of a leaf is the static type of the operand of its interface conversion (a concrete type), which is
// also right when the object was built by a constructor function returning that concrete type.
func c17ErrorMapping(c *Ctx, RUN *ssa.Function, oc *ssa.Call, respP string) map[string]bool {
	stdoutD, stderrD, errD := c17ResultDesc(oc, 0), c17ResultDesc(oc, 1), c17ResultDesc(oc, 2)
	var leaves []c17Leaf
	k := -1
	for i := 0; i < RUN.Signature.Results().Len(); i++ {
		if isErrorType(RUN.Signature.Results().At(i).Type()) {
			k = i
		}
	}
	cases := map[string]bool{}
	if k < 0 {
		return cases
	}
	c17Leaves(c, RUN, k, map[string]string{}, func(l string) string { return l }, nil, &leaves)
	umLabel := func(g map[string]string, op, src string) bool {
		for l := range g {
			if strings.HasPrefix(l, op+"(call:encoding/json.Unmarshal("+src+",") && strings.HasSuffix(l, ")#err,nil)") {
				return true
			}
		}
		return false
	}
	for _, lf := range leaves {
		mi, ok := lf.val.(*ssa.MakeInterface)
		if !ok {
			continue
		}
		g := lf.g
		// calls, in the leaf's function, of a decode wrapper applied to stderr (see c17DecodeWrapper): the wrapper's error
		// IS the error of json.Unmarshal(stderr, &X) and its first result IS X
		var wrapped []*ssa.Call
		for _, ci := range allCalls(lf.fn) {
			if wc, ok := ci.(*ssa.Call); ok {
				if src, ok := c17DecodeWrapper(c.W, wc); ok && lf.frame(desc(wc.Call.Args[src])) == stderrD {
					wrapped = append(wrapped, wc)
				}
			}
		}
		failed := c17Has(g, "NE("+errD+",nil)")
		succeeded := c17Has(g, "EQ("+errD+",nil)")
		switch namedOf(mi.X.Type()) {
		case "ngo/plugin.PluginExecutableFileError":
			if failed && c17Has(g, "EQ(len("+stderrD+"),const:0)") {
				cases["executable"] = true
			}
		case "ngo/plugin.PluginMalformedError":
			undecodable := umLabel(g, "NE", stderrD)
			for _, wc := range wrapped {
				if c17Has(g, "NE("+lf.frame(c17ResultDesc(wc, 1))+",nil)") {
					undecodable = true
				}
			}
			if failed && c17Has(g, "NE(len("+stderrD+"),const:0)") && undecodable {
				cases["malformed-stderr"] = true
			}
			replyUndecodable := c17Has(g, "NE(call:encoding/json.Unmarshal("+stdoutD+","+respP+")#err,nil)")
			for _, ci := range allCalls(lf.fn) {
				// ... or the error of a helper that is `return json.Unmarshal(stdout, response)` (see c17DecodeInto)
				if wc, ok := ci.(*ssa.Call); ok && !replyUndecodable {
					if src, dst, ok := c17DecodeInto(c.W, wc); ok && lf.frame(desc(wc.Call.Args[src])) == stdoutD && lf.frame(desc(wc.Call.Args[dst])) == respP {
						replyUndecodable = c17Has(g, "NE("+lf.frame(desc(wc))+",nil)")
					}
				}
			}
			if succeeded && !failed && replyUndecodable {
				cases["malformed-stdout"] = true
			}
		case "ngo/plugin/proto.RequestError":
			// the decoded error object: the value returned is (a load of) the local the decoder of stderr wrote to
			if !failed {
				continue
			}
			// ... or the object a decode wrapper of stderr returned, under the wrapper's err == nil
			for _, wc := range wrapped {
				if e, ok := mi.X.(*ssa.Extract); ok && e.Tuple == ssa.Value(wc) && e.Index == 0 && c17Has(g, "EQ("+lf.frame(c17ResultDesc(wc, 1))+",nil)") {
					cases["plugin-error"] = true
				}
			}
			al, _ := unwrapLoadAlloc(mi.X)
			if al == nil {
				continue
			}
			for _, ci := range findCalls(lf.fn, "encoding/json.Unmarshal") {
				um, ok := ci.(*ssa.Call)
				if !ok || len(um.Call.Args) != 2 || unwrap(um.Call.Args[1]) != ssa.Value(al) {
					continue
				}
				if lf.frame(desc(um.Call.Args[0])) == stderrD && c17Has(g, "EQ("+lf.frame(desc(um))+",nil)") {
					cases["plugin-error"] = true
				}
			}
		}
	}
	return cases
}

// ---------- (a) typestate of the command object, across a constructor and configuring helpers ----------
//
// The command object is followed from exec.CommandContext to Run through at most one constructor function (an unexported
// function all of whose returns return the created command, called at exactly one site) and through unexported helpers
// that receive the command as an argument. Every store to one of its fields found on the way is a "set"; it is placed
// at the instruction of the function that runs the command through which it takes effect (the store itself, or the call
// of the helper / constructor), and it is unconditional when, inside each helper on the chain, it lies on every path to
// the helper's returns (its block dominates every return block). The values stored are read in the frame of the function
// that runs the command: a helper parameter stands for the argument bound to it at the (single) call.
//
// Soundness: a field of the command holds at Run what the last store before Run wrote. The rule requires (1) one
// unconditional set placed before Run and (2) that EVERY set of that field anywhere on the chain stores an acceptable
// value, so whichever store is the last one, the field is acceptable at Run. Helpers are static callees (no dynamic
// dispatch), parameters are immutable, so binding a parameter to its argument states the same value.

type c17Set struct {
	field  string
	val    ssa.Value
	bind   map[*ssa.Parameter]ssa.Value
	at     ssa.Instruction // in the function that runs the command
	uncond bool
	site   string
}

func c17Resolve(v ssa.Value, bind map[*ssa.Parameter]ssa.Value) ssa.Value {
	for i := 0; i < 6; i++ {
		v = unwrap(v)
		p, ok := v.(*ssa.Parameter)
		if !ok {
			return v
		}
		a, ok := bind[p]
		if !ok {
			return v
		}
		v = a
	}
	return v
}

// c17OnEveryPathOut: in is executed on every path from fn's entry to any of its returns.
func c17OnEveryPathOut(fn *ssa.Function, in ssa.Instruction) bool {
	n := 0
	for _, b := range fn.Blocks {
		r, ok := blockTerm(b).(*ssa.Return)
		if !ok {
			continue
		}
		n++
		if b == in.Block() {
			if instrIndex(in) > instrIndex(r) {
				return false
			}
			continue
		}
		if !in.Block().Dominates(b) {
			return false
		}
	}
	return n > 0
}

func c17CollectSets(w *World, v ssa.Value, fn *ssa.Function, bind map[*ssa.Parameter]ssa.Value, at ssa.Instruction, uncond bool, depth int, out *[]c17Set, escapes *[]string) {
	refs := v.Referrers()
	if refs == nil {
		return
	}
	top := at == nil
	for _, r := range *refs {
		switch x := r.(type) {
		case *ssa.FieldAddr:
			if x.X != v || x.Referrers() == nil {
				continue
			}
			for _, rr := range *x.Referrers() {
				st, ok := rr.(*ssa.Store)
				if !ok || st.Addr != ssa.Value(x) {
					continue
				}
				s := c17Set{field: fieldName(v.Type(), x.Field), val: st.Val, bind: bind, at: at, uncond: uncond, site: w.InstrPos(st)}
				if top {
					s.at = st
				} else {
					s.uncond = uncond && c17OnEveryPathOut(fn, st)
				}
				*out = append(*out, s)
			}
		case *ssa.Call:
			h := staticCallee(x)
			for i, a := range x.Call.Args {
				if a != v {
					continue
				}
				if h == nil || h.Blocks == nil || !w.IsProductFn(h) || len(h.Params) != len(x.Call.Args) {
					continue // methods of exec.Cmd itself (Run, ...) and foreign functions: os/exec is trusted
				}
				if depth >= 2 {
					*escapes = append(*escapes, "the command is passed on to "+fnName(h)+" (helpers are followed two levels deep)")
					continue
				}
				nb := map[*ssa.Parameter]ssa.Value{}
				for p, q := range bind {
					nb[p] = q
				}
				for j, p := range h.Params {
					nb[p] = x.Call.Args[j]
				}
				nat, nun := at, uncond
				if top {
					nat = x
				} else {
					nun = uncond && c17OnEveryPathOut(fn, x)
				}
				c17CollectSets(w, h.Params[i], h, nb, nat, nun, depth+1, out, escapes)
			}
		}
	}
}

// c17Cmd: what the typestate rule resolved, for the rules on the commander's outputs.
type c17Cmd struct {
	OUT       *ssa.Function // the function that runs the command
	stdoutBuf *ssa.Alloc    // the buffer behind Stdout
	ran       []string      // the facts that say the process was started and exited successfully
}

// c17CommandTypestate checks clause (a) and returns the function that runs the command and the printed form of the
// buffer behind its Stdout.
func c17CommandTypestate(c *Ctx, CRE *ssa.Function, cmdCall *ssa.Call) *c17Cmd {
	w := c.W
	site := w.InstrPos(cmdCall)
	OUT := CRE
	var cmdV ssa.Value = cmdCall
	var sets []c17Set
	var escapes []string
	ctxBind := map[*ssa.Parameter]ssa.Value{}
	// the anchor of the typestate: Run, or Start when the command is started and waited for separately (Run is Start
	// followed by Wait: the fields must be in place when the process starts, and the process has exited successfully
	// when both returned nil)
	var ran []string
	findRun := func(fn *ssa.Function, v ssa.Value) *ssa.Call {
		var run, start, wait *ssa.Call
		for _, ci := range allCalls(fn) {
			call, ok := ci.(*ssa.Call)
			if !ok || len(call.Call.Args) == 0 || call.Call.Args[0] != v {
				continue
			}
			switch calleeName(call) {
			case "(*os/exec.Cmd).Run":
				run = call
			case "(*os/exec.Cmd).Start":
				start = call
			case "(*os/exec.Cmd).Wait":
				wait = call
			}
		}
		if run != nil && start == nil && wait == nil {
			ran = []string{"EQ(" + desc(run) + ",nil)"}
			return run
		}
		if run == nil && start != nil && wait != nil {
			ran = []string{"EQ(" + desc(start) + ",nil)", "EQ(" + desc(wait) + ",nil)"}
			return start
		}
		return nil
	}
	run := findRun(CRE, cmdCall)
	if run == nil && !token.IsExported(CRE.Name()) {
		// a constructor: every return returns the created command; it is called at exactly one site
		isCtor := CRE.Signature.Results().Len() == 1
		for _, b := range CRE.Blocks {
			if r, ok := blockTerm(b).(*ssa.Return); ok && (len(r.Results) != 1 || r.Results[0] != ssa.Value(cmdCall)) {
				isCtor = false
			}
		}
		var sites []*ssa.Call
		var holder *ssa.Function
		if isCtor {
			for _, fn := range w.Funcs {
				for _, ci := range allCalls(fn) {
					if staticCallee(ci) == CRE {
						if call, ok := ci.(*ssa.Call); ok {
							sites = append(sites, call)
							holder = fn
						} else {
							isCtor = false
						}
					}
				}
			}
		}
		if isCtor && len(sites) == 1 && len(sites[0].Call.Args) == len(CRE.Params) {
			for j, p := range CRE.Params {
				ctxBind[p] = sites[0].Call.Args[j]
			}
			c.SeenFn(CRE.String())
			c17collectCtor(w, cmdCall, CRE, ctxBind, sites[0], &sets, &escapes)
			OUT, cmdV = holder, sites[0]
			run = findRun(OUT, cmdV)
		}
	}
	{
		cv := c17Resolve(cmdCall.Call.Args[0], ctxBind)
		_, isParam := cv.(*ssa.Parameter)
		okCtx := strings.HasPrefix(desc(cv), "param:") && (!isParam || cv.Parent() == OUT)
		c.Check(okCtx, "command/context", "the process is bound to the caller's context", site, "context is "+desc(cv))
	}
	if run == nil {
		c.Bad("command/run", "the command is run with Run (start + wait)", site, "no Run on the created command")
		return nil
	}
	c17CollectSets(w, cmdV, OUT, map[*ssa.Parameter]ssa.Value{}, nil, true, 0, &sets, &escapes)
	before := func(s c17Set) bool {
		if !s.uncond || s.at == nil {
			return false
		}
		if s.at.Block() == run.Block() {
			return instrIndex(s.at) < instrIndex(run)
		}
		return s.at.Block().Dominates(run.Block())
	}
	// decide(field, accept): one unconditional set before Run, and every set of the field is acceptable
	decide := func(field string, accept func(s c17Set) (bool, string)) (bool, string) {
		placed := false
		detail := field + " is not set unconditionally before Run"
		for _, s := range sets {
			if s.field != field {
				continue
			}
			ok, d := accept(s)
			if !ok {
				return false, d + " (" + s.site + ")"
			}
			if before(s) {
				placed = true
				detail = d
			}
		}
		if len(escapes) > 0 {
			return false, escapes[0]
		}
		return placed, detail
	}
	var stdoutBuf *ssa.Alloc
	for _, stream := range []string{"Stdout", "Stderr"} {
		stream := stream
		ok, detail := decide(stream, func(s c17Set) (bool, string) {
			// the module's limiter constructor over a buffer local to the function that runs the command, positive constant cap
			call, isCall := c17Resolve(s.val, s.bind).(*ssa.Call)
			if !isCall {
				return false, stream + " is " + desc(s.val)
			}
			g := staticCallee(call)
			if g == nil || !w.IsProductFn(g) || len(call.Call.Args) != 2 || !c17IsLimiterCtor(w, g) {
				return false, stream + " is " + desc(s.val)
			}
			buf, isLocal := c17Resolve(call.Call.Args[0], s.bind).(*ssa.Alloc)
			k, isK := c17Resolve(call.Call.Args[1], s.bind).(*ssa.Const)
			if !isLocal || !isK || buf.Parent() != OUT || namedOf(buf.Type()) != "bytes.Buffer" {
				return false, stream + " is " + desc(s.val)
			}
			var v int64
			fmt.Sscan(constString(k), &v)
			if v <= 0 {
				return false, fmt.Sprintf("%s is %s (cap %d)", stream, desc(s.val), v)
			}
			if stream == "Stdout" {
				stdoutBuf = buf
			}
			return true, fmt.Sprintf("cap %d", v)
		})
		c.Evals++
		c.Check(ok, "command/"+strings.ToLower(stream)+"-capped", "typestate: before Run, "+stream+" is the module's limited writer over a local buffer with a positive constant cap", w.InstrPos(run), detail)
	}
	{
		ok, detail := decide("WaitDelay", func(s c17Set) (bool, string) {
			k, isK := c17Resolve(s.val, s.bind).(*ssa.Const)
			var v int64
			if isK {
				fmt.Sscan(constString(k), &v)
			}
			if !isK || v <= 0 {
				return false, "WaitDelay is " + desc(s.val)
			}
			return true, "WaitDelay " + constString(k)
		})
		if !ok && strings.HasSuffix(detail, "not set unconditionally before Run") {
			detail = "WaitDelay is not set unconditionally before Run (a descendant holding the pipes delays the return without bound)"
		}
		c.Evals++
		c.Check(ok, "command/wait-delay", "typestate: before Run, on every path, WaitDelay is a positive constant", w.InstrPos(run), detail)
	}
	{
		ok, _ := decide("Stdin", func(s c17Set) (bool, string) {
			call, isCall := c17Resolve(s.val, s.bind).(*ssa.Call)
			if !isCall || calleeName(call) != "bytes.NewReader" || len(call.Call.Args) != 1 {
				return false, ""
			}
			src := c17Resolve(call.Call.Args[0], s.bind)
			_, isParam := src.(*ssa.Parameter)
			return strings.HasPrefix(desc(src), "param:") && (!isParam || src.Parent() == OUT), ""
		})
		c.Check(ok, "command/stdin", "typestate: before Run, Stdin is a reader over the request bytes", w.InstrPos(run), "Stdin is not the request")
	}
	return &c17Cmd{OUT: OUT, stdoutBuf: stdoutBuf, ran: ran}
}

// c17collectCtor collects the sets made inside the constructor: they take effect at the constructor's call in the
// function that runs the command, and are unconditional when they lie on every path to the constructor's returns.
func c17collectCtor(w *World, cmdCall *ssa.Call, CRE *ssa.Function, bind map[*ssa.Parameter]ssa.Value, at *ssa.Call, out *[]c17Set, escapes *[]string) {
	var inner []c17Set
	c17CollectSets(w, cmdCall, CRE, bind, nil, true, 1, &inner, escapes)
	for _, s := range inner {
		// s.at is the instruction of the constructor through which the set takes effect
		s.uncond = s.uncond && c17OnEveryPathOut(CRE, s.at)
		s.at = at
		*out = append(*out, s)
	}
}

// ---------- the runner behind a forwarding wrapper of the commander call ----------

// c17LiftRunner: when the function that invokes the commander only forwards the commander's three results (every
// return returns exactly the three extracted results of that one call, in order), is unexported, is never used as a
// value and is called at exactly one site, the runner is the function holding that site and the wrapper's call stands
// for the commander's call. Soundness: on every path the wrapper's results ARE the commander's results (same SSA
// values), so a fact about the k-th result of the wrapper call is the same fact about the k-th result of the process;
// one invoking function with one call site keeps "all protocol commands go through the same validation".
func c17LiftRunner(c *Ctx, RUN *ssa.Function, oc *ssa.Call) (*ssa.Function, *ssa.Call) {
	w := c.W
	for depth := 0; depth < 2; depth++ {
		tup, ok := oc.Type().(*types.Tuple)
		if !ok || token.IsExported(RUN.Name()) || RUN.Signature.Results().Len() != tup.Len() {
			return RUN, oc
		}
		for _, b := range RUN.Blocks {
			r, ok := blockTerm(b).(*ssa.Return)
			if !ok {
				continue
			}
			if len(r.Results) != tup.Len() {
				return RUN, oc
			}
			for k, v := range r.Results {
				e, ok := v.(*ssa.Extract)
				if !ok || e.Tuple != ssa.Value(oc) || e.Index != k {
					return RUN, oc
				}
			}
		}
		var sites []*ssa.Call
		var holder *ssa.Function
		for _, fn := range w.Funcs {
			for _, b := range fn.Blocks {
				for _, in := range b.Instrs {
					if ci, ok := in.(ssa.CallInstruction); ok && staticCallee(ci) == RUN {
						call, isCall := ci.(*ssa.Call)
						if !isCall {
							return RUN, oc // go / defer
						}
						sites = append(sites, call)
						holder = fn
						continue
					}
					// used as a value (stored, passed, bound in a closure): callers unknown
					for _, op := range in.Operands(nil) {
						if *op == ssa.Value(RUN) {
							if ci, ok := in.(ssa.CallInstruction); !ok || ci.Common().Value != ssa.Value(RUN) {
								return RUN, oc
							}
						}
					}
				}
			}
		}
		if len(sites) != 1 || holder == RUN {
			return RUN, oc
		}
		c.SeenFn(RUN.String())
		RUN, oc = holder, sites[0]
	}
	return RUN, oc
}

// ---------- the commander's outputs ----------

// c17OutputOnSuccess: every way of returning from the function that runs the command either surely fails (its error
// result is non-nil there) or returns the bytes of the buffer behind Stdout under the facts that say the process
// exited successfully. A return whose operands are phis of one block that leads straight to it (single exit with
// named results / result locals) is decided per incoming edge, with the operands of that edge taken together.
//
// An edge counts as surely failing only when the error operand is non-nil by construction (errors.New, fmt.Errorf, an
// interface conversion, a module function without success exit), is known non-nil by a branch fact on every path
// (`NE(v,nil)`), or is the result of an unexported helper all of whose own ways of returning are surely failing in
// that sense (with the helper's parameters replaced by the arguments: `return wrapIfTimeout(ctx, err)`). Everything
// else is treated as a success and must satisfy the requirement, so the rule errs towards alarm.
func c17OutputOnSuccess(c *Ctx, cmd *c17Cmd) bool {
	w := c.W
	OUT := cmd.OUT
	if cmd.stdoutBuf == nil || len(cmd.ran) == 0 {
		return false
	}
	fi := w.Info(OUT)
	nres := OUT.Signature.Results().Len()
	if nres < 2 || !isErrorType(OUT.Signature.Results().At(nres-1).Type()) {
		return false
	}
	factsAt := func(b *ssa.BasicBlock) map[string]string {
		if b.Index == 0 {
			return map[string]string{}
		}
		g, ok := fi.mustPassBetween([]int{0}, map[int]bool{b.Index: true})
		if !ok {
			return nil
		}
		return g
	}
	failing := func(ev ssa.Value, g map[string]string, at *ssa.BasicBlock) bool {
		if fi.nonNil(ev, at) || c17Has(g, "NE("+desc(ev)+",nil)") {
			return true
		}
		call, ok := ev.(*ssa.Call)
		if !ok {
			return false
		}
		h := staticCallee(call)
		if h == nil || h.Blocks == nil || !w.IsProductFn(h) || token.IsExported(h.Name()) || len(h.Params) != len(call.Call.Args) || h.Signature.Results().Len() != 1 {
			return false
		}
		names := make([]string, len(h.Params))
		descs := make([]string, len(h.Params))
		for i, p := range h.Params {
			names[i] = p.Name()
			descs[i] = desc(call.Call.Args[i])
		}
		var leaves []c17Leaf
		c17Leaves(c, h, 0, g, func(l string) string { return substParams(l, names, descs) }, []*ssa.Function{h}, &leaves)
		for _, lf := range leaves {
			if !w.Info(lf.fn).nonNil(lf.val, lf.site.Block()) && !c17Has(lf.g, "NE("+lf.frame(desc(lf.val))+",nil)") {
				return false
			}
		}
		return len(leaves) > 0
	}
	successes := 0
	decide := func(vals []ssa.Value, g map[string]string, at *ssa.BasicBlock) bool {
		c.Evals++
		if failing(vals[nres-1], g, at) {
			return true
		}
		successes++
		call, ok := unwrap(vals[0]).(*ssa.Call)
		if !ok || calleeName(call) != "(*bytes.Buffer).Bytes" || len(call.Call.Args) != 1 || call.Call.Args[0] != ssa.Value(cmd.stdoutBuf) {
			return false
		}
		for _, l := range cmd.ran {
			if !c17Has(g, l) {
				return false
			}
		}
		return true
	}
	for _, b := range OUT.Blocks {
		r, ok := blockTerm(b).(*ssa.Return)
		if !ok {
			continue
		}
		if len(r.Results) != nres {
			return false
		}
		g := factsAt(b)
		if g == nil {
			continue
		}
		// the block of the returned phis, if any
		var pb *ssa.BasicBlock
		split := true
		for _, v := range r.Results {
			if p, ok := v.(*ssa.Phi); ok {
				if pb != nil && p.Block() != pb {
					split = false
				}
				pb = p.Block()
			}
		}
		if pb == nil || !split || !c17StraightTo(pb, b) {
			if !decide(r.Results, g, b) {
				return false
			}
			continue
		}
		for i, pred := range pb.Preds {
			pg := factsAt(pred)
			if pg == nil {
				continue
			}
			eg := map[string]string{}
			for l, s := range g {
				eg[l] = s
			}
			for l, s := range pg {
				eg[l] = s
			}
			if iff, ok := blockTerm(pred).(*ssa.If); ok && len(pred.Succs) == 2 && pred.Succs[0] != pred.Succs[1] {
				l := condLabel(iff.Cond, pred.Succs[0] == pb)
				eg[l] = w.InstrPos(iff)
				if tw, ok := labelTwin(l); ok {
					eg[tw] = w.InstrPos(iff)
				}
			}
			vals := make([]ssa.Value, nres)
			for k, v := range r.Results {
				vals[k] = v
				if p, ok := v.(*ssa.Phi); ok && p.Block() == pb {
					vals[k] = p.Edges[i]
				}
			}
			if !decide(vals, eg, pred) {
				return false
			}
		}
	}
	return successes > 0
}

// c17DecodeWrapper: call is a call of an unexported module function of the form
//
//	func h(..., b []byte, ...) (T, error) { var x T; err := json.Unmarshal(b, &x); return x, err }
//
// i.e. exactly one json.Unmarshal, of a parameter into a local, and every return returns (the local loaded after the
// decode, the decoder's error itself). Then the call's error is nil iff the decode of that argument succeeded and its
// first result is the decoded object: facts about the call's results are facts about json.Unmarshal(arg, &x).
// Returns the index of the argument that is decoded.
func c17DecodeWrapper(w *World, call *ssa.Call) (int, bool) {
	h := staticCallee(call)
	if h == nil || h.Blocks == nil || !w.IsProductFn(h) || token.IsExported(h.Name()) || len(h.Params) != len(call.Call.Args) {
		return 0, false
	}
	res := h.Signature.Results()
	if res.Len() != 2 || !isErrorType(res.At(1).Type()) {
		return 0, false
	}
	ums := findCalls(h, "encoding/json.Unmarshal")
	if len(ums) != 1 {
		return 0, false
	}
	um, ok := ums[0].(*ssa.Call)
	if !ok || len(um.Call.Args) != 2 {
		return 0, false
	}
	src := -1
	for i, p := range h.Params {
		if unwrap(um.Call.Args[0]) == ssa.Value(p) {
			src = i
		}
	}
	target, isAlloc := unwrap(um.Call.Args[1]).(*ssa.Alloc)
	if src < 0 || !isAlloc {
		return 0, false
	}
	// nothing but the decoder writes the local
	if refs := target.Referrers(); refs != nil {
		for _, r := range *refs {
			switch x := r.(type) {
			case *ssa.Store:
				return 0, false
			case *ssa.FieldAddr:
				if addrWritten(x, 0) {
					return 0, false
				}
			case *ssa.IndexAddr:
				return 0, false
			}
		}
	}
	n := 0
	for _, b := range h.Blocks {
		r, ok := blockTerm(b).(*ssa.Return)
		if !ok {
			continue
		}
		n++
		if len(r.Results) != 2 || r.Results[1] != ssa.Value(um) {
			return 0, false
		}
		ld, ok := r.Results[0].(*ssa.UnOp)
		if !ok || ld.Op != token.MUL || ld.X != ssa.Value(target) {
			return 0, false
		}
		// loaded after the decode
		if ld.Block() == um.Block() {
			if instrIndex(ld) < instrIndex(um) {
				return 0, false
			}
		} else if !um.Block().Dominates(ld.Block()) {
			return 0, false
		}
	}
	return src, n > 0
}

// c17DecodeInto: call is a call of an unexported module function whose only result is the error of its one
// json.Unmarshal(param src, param dst) on every return (`func decode(b []byte, v any) error { return json.Unmarshal(b, v) }`,
// possibly with logging around it): the call's error is that decoder's error.
func c17DecodeInto(w *World, call *ssa.Call) (int, int, bool) {
	h := staticCallee(call)
	if h == nil || h.Blocks == nil || !w.IsProductFn(h) || token.IsExported(h.Name()) || len(h.Params) != len(call.Call.Args) {
		return 0, 0, false
	}
	if res := h.Signature.Results(); res.Len() != 1 || !isErrorType(res.At(0).Type()) {
		return 0, 0, false
	}
	ums := findCalls(h, "encoding/json.Unmarshal")
	if len(ums) != 1 {
		return 0, 0, false
	}
	um, ok := ums[0].(*ssa.Call)
	if !ok || len(um.Call.Args) != 2 {
		return 0, 0, false
	}
	src, dst := -1, -1
	for i, p := range h.Params {
		if unwrap(um.Call.Args[0]) == ssa.Value(p) {
			src = i
		}
		if unwrap(um.Call.Args[1]) == ssa.Value(p) {
			dst = i
		}
	}
	if src < 0 || dst < 0 {
		return 0, 0, false
	}
	n := 0
	for _, b := range h.Blocks {
		if r, ok := blockTerm(b).(*ssa.Return); ok {
			n++
			if len(r.Results) != 1 || r.Results[0] != ssa.Value(um) {
				return 0, 0, false
			}
		}
	}
	return src, dst, n > 0
}
