package main

// Helpers of the C18 rule set: decisions that do not depend on WHERE a check is written (which function of the
// signer's call tree, which control-flow shape, hand-written loop or library call), only on WHAT is checked.

import (
	"fmt"
	"go/constant"
	"go/token"
	"go/types"
	"strings"

	"golang.org/x/tools/go/ssa"
)

// ---------- frames ---------------------------------------------------------------------------------------------
//
// c18Frame renders values of the functions on the static call tree of a root function in the ROOT's frame: every
// "param:<name>" of a helper is replaced by the rendering of the argument at the helper's call site (recursively up to
// the root). This is the substitution the gate engine applies to the labels of a callee's summary (summarizeCall), so
// an anchor found in a helper ("the Envelope.Verify call", "the decode of the verified payload") is spelled exactly
// like the composed facts of the root's exits that mention it.
//
// Soundness: the rendering is only defined when the helper has exactly ONE static call site on the tree — then the
// parameter IS that argument on every execution that comes from the root. With two call sites the frame is ambiguous
// and the rendering is poisoned ("?ambiguous-frame"), which matches no fact: the obligation stays open.

type c18Subst struct {
	names, descs []string
	ok           bool
}

type c18Frame struct {
	w     *World
	root  *ssa.Function
	tree  []*ssa.Function
	sites map[*ssa.Function][]*ssa.Call
	memo  map[*ssa.Function]*c18Subst
	busy  map[*ssa.Function]bool
}

func newC18Frame(w *World, root *ssa.Function) *c18Frame {
	fr := &c18Frame{w: w, root: root, tree: w.moduleCallees(root), sites: map[*ssa.Function][]*ssa.Call{}, memo: map[*ssa.Function]*c18Subst{}, busy: map[*ssa.Function]bool{}}
	for _, f := range fr.tree {
		for _, ci := range allCalls(f) {
			if g := staticCallee(ci); g != nil && g != fr.root {
				if call, ok := ci.(*ssa.Call); ok {
					fr.sites[g] = append(fr.sites[g], call)
				} else {
					fr.sites[g] = append(fr.sites[g], nil) // defer / go: a second, unanalysed way in
				}
			}
		}
	}
	return fr
}

func (fr *c18Frame) subst(f *ssa.Function) *c18Subst {
	if f == fr.root {
		return &c18Subst{ok: true}
	}
	if s, ok := fr.memo[f]; ok {
		return s
	}
	if fr.busy[f] {
		return &c18Subst{}
	}
	fr.busy[f] = true
	defer delete(fr.busy, f)
	s := &c18Subst{}
	fr.memo[f] = s
	ss := fr.sites[f]
	if len(ss) != 1 || ss[0] == nil || len(ss[0].Call.Args) != len(f.Params) {
		return s
	}
	call := ss[0]
	up := fr.subst(call.Parent())
	if !up.ok {
		return s
	}
	for i, p := range f.Params {
		s.names = append(s.names, p.Name())
		s.descs = append(s.descs, fr.str(call.Parent(), desc(call.Call.Args[i])))
	}
	s.ok = true
	return s
}

// str: a rendering made in f's frame, in the root's frame.
func (fr *c18Frame) str(f *ssa.Function, d string) string {
	if f == nil || f == fr.root {
		return d
	}
	s := fr.subst(f)
	if !s.ok {
		return "?ambiguous-frame:" + d
	}
	return substParams(d, s.names, s.descs)
}

// val: desc(v) in the root's frame.
func (fr *c18Frame) val(v ssa.Value) string {
	return fr.str(v.Parent(), desc(v))
}

// guards: the facts on every path from the root's entry to the instruction: those inside its own function (in the root's
// frame) and, for a helper, those on the way to its call site, recursively.
func (fr *c18Frame) guards(in ssa.Instruction) map[string]string {
	out := map[string]string{}
	for depth := 0; in != nil && depth < 8; depth++ {
		f := in.Parent()
		for l, site := range fr.w.Info(f).GuardsOf(in) {
			out[fr.str(f, l)] = site
		}
		if f == fr.root {
			return out
		}
		if s := fr.subst(f); !s.ok {
			return map[string]string{}
		}
		in = fr.sites[f][0]
	}
	return out
}

// c18LocalObject: the address is (a part of) a variable the function itself allocated.
func c18LocalObject(addr ssa.Value) bool {
	for i := 0; i < 6; i++ {
		switch x := addr.(type) {
		case *ssa.FieldAddr:
			addr = x.X
		case *ssa.IndexAddr:
			addr = x.X
		case *ssa.Alloc:
			return true
		default:
			return false
		}
	}
	return false
}

// calls: every plain call on the tree (root first, then helpers in call order).
func (fr *c18Frame) calls() []*ssa.Call {
	var out []*ssa.Call
	for _, f := range fr.tree {
		if f.Parent() != nil {
			continue // closures have their own free variables; anchors are not looked for there
		}
		for _, ci := range allCalls(f) {
			if call, ok := ci.(*ssa.Call); ok {
				out = append(out, call)
			}
		}
	}
	return out
}

// ---------- dispatch: what Sign / SignBlob hand back -----------------------------------------------------------------
//
// c18ReturnsCheckedCall decides clause (c) on values instead of on the spelling of the exit: at a success-capable exit
// the triple (signature, signer info, error) is traced back through phis. Phis of ONE block select the same incoming
// edge, so they are expanded in lockstep: each expansion is one way the triple can have been formed ("case"). The exit
// is accepted when, in every case that can be a success,
//   - signature and signer info are results #0 and #1 of ONE call C of the envelope path or of the raw path,
//   - C's error result is an error the exit knows to be nil: it is the error operand returned (success means it is
//     nil), or a value a must-pass branch edge to the exit compared with nil,
//   - C itself is executed only under the capability that belongs to its path.
// A case whose deciding error is provably non-nil on its incoming edge (constructed error, or the failing edge of a
// nil test of that very value) cannot be a success and is dropped.
//
// Why this is right for merged exits (`switch {case A: x, err = f(); case B: x, err = g()}; if err != nil {fail}; return x`):
// on a success the merged err is nil; merged err and merged x come from the same edge, i.e. from the same call; that
// call returned a nil error, so x is what the checked path returned — the clause the single-exit-per-path spelling
// states per exit. Phis of different blocks are expanded independently (all combinations): a superset of the feasible
// cases, never a subset.

type c18Case struct {
	vals []ssa.Value // [0] signature, [1] signer info, [2:] errors known nil on success
}

func c18ReturnsCheckedCall(w *World, fn *ssa.Function, ex *ExitSum, paths map[*ssa.Function]string) (bool, string) {
	fi := w.Info(fn)
	r := ex.Ret
	if len(r.Results) != 3 {
		return false, "not a (signature, signer info, error) exit"
	}
	start := c18Case{vals: []ssa.Value{r.Results[0], r.Results[1]}}
	if !isNilConst(r.Results[2]) {
		start.vals = append(start.vals, r.Results[2])
	}
	for _, v := range c18MustNil(fi, r.Block()) {
		if isErrorType(v.Type()) {
			start.vals = append(start.vals, v)
		}
	}
	if len(start.vals) < 3 {
		return false, "no error value decides this exit"
	}
	if ex.Pred >= 0 {
		// the summary distinguishes this exit by the incoming edge of the return block
		if n, feasible := c18TakeEdge(fi, start, r.Block(), ex.Pred); feasible {
			start = n
		} else {
			return true, "" // no success through this edge
		}
	}
	budget := 64
	accepted := 0
	var rec func(cs c18Case, depth int) (bool, string)
	rec = func(cs c18Case, depth int) (bool, string) {
		budget--
		if budget < 0 || depth > 6 {
			return false, "the returned values are merged too deeply to follow"
		}
		var blk *ssa.BasicBlock
		for _, v := range cs.vals {
			if p, ok := v.(*ssa.Phi); ok {
				blk = p.Block()
				break
			}
		}
		if blk == nil {
			ok, why := c18AcceptCase(w, fi, cs, paths)
			if ok {
				accepted++
			}
			return ok, why
		}
		for i := range blk.Preds {
			n, feasible := c18TakeEdge(fi, cs, blk, i)
			if !feasible {
				continue
			}
			if ok, why := rec(n, depth+1); !ok {
				return false, why
			}
		}
		return true, ""
	}
	if ok, why := rec(start, 0); !ok {
		return false, why
	}
	if accepted == 0 {
		return false, "no way to form the returned values was found"
	}
	return true, ""
}

// c18TakeEdge replaces the phis of block blk by their operand on incoming edge i. feasible=false: on that edge one of
// the errors that must be nil is provably non-nil.
func c18TakeEdge(fi *FnInfo, cs c18Case, blk *ssa.BasicBlock, i int) (c18Case, bool) {
	pred := blk.Preds[i]
	out := c18Case{vals: make([]ssa.Value, len(cs.vals))}
	for k, v := range cs.vals {
		out.vals[k] = v
		if p, ok := v.(*ssa.Phi); ok && p.Block() == blk && i < len(p.Edges) {
			out.vals[k] = p.Edges[i]
			if k >= 2 && (fi.nonNil(p.Edges[i], pred) || c18EdgeSaysNonNil(pred, blk, p.Edges[i])) {
				return out, false
			}
		}
	}
	return out, true
}

// c18EdgeSaysNonNil: the edge pred→succ is the branch edge of a nil test of v on which v != nil.
func c18EdgeSaysNonNil(pred, succ *ssa.BasicBlock, v ssa.Value) bool {
	iff, ok := blockTerm(pred).(*ssa.If)
	if !ok || len(pred.Succs) != 2 || pred.Succs[0] == pred.Succs[1] {
		return false
	}
	return condImpliesNonNil(iff.Cond, pred.Succs[0] == succ, v)
}

// c18MustNil: the values some must-pass branch edge between the entry and block b compares with nil (and finds nil).
func c18MustNil(fi *FnInfo, b *ssa.BasicBlock) []ssa.Value {
	var out []ssa.Value
	if b.Index == 0 {
		return nil
	}
	targets := map[int]bool{b.Index: true}
	if !fi.reachHit(entryState(), nil, targets) {
		return nil
	}
	for _, q := range fi.Fn.Blocks {
		iff, isIf := blockTerm(q).(*ssa.If)
		if !isIf || len(q.Succs) != 2 {
			continue
		}
		for j := 0; j < 2; j++ {
			if fi.reachHit(entryState(), map[edgeKey]bool{{q.Index, j}: true}, targets) {
				continue
			}
			if v := c18NilTested(iff.Cond, j == 0); v != nil {
				out = append(out, v)
			}
		}
	}
	return out
}

// c18NilTested: cond evaluating to truth means `v == nil`; returns v.
func c18NilTested(cond ssa.Value, truth bool) ssa.Value {
	for {
		u, ok := cond.(*ssa.UnOp)
		if !ok || u.Op != token.NOT {
			break
		}
		truth = !truth
		cond = u.X
	}
	bo, ok := cond.(*ssa.BinOp)
	if !ok || (bo.Op != token.EQL && bo.Op != token.NEQ) {
		return nil
	}
	var o ssa.Value
	if isNilConst(bo.Y) {
		o = bo.X
	} else if isNilConst(bo.X) {
		o = bo.Y
	} else {
		return nil
	}
	if (bo.Op == token.EQL) != truth {
		return nil
	}
	return o
}

func c18AcceptCase(w *World, fi *FnInfo, cs c18Case, paths map[*ssa.Function]string) (bool, string) {
	e0, ok0 := cs.vals[0].(*ssa.Extract)
	e1, ok1 := cs.vals[1].(*ssa.Extract)
	if !ok0 || !ok1 || e0.Index != 0 || e1.Index != 1 || e0.Tuple != e1.Tuple {
		return false, fmt.Sprintf("returns (%s, %s): not results #0 and #1 of one call", trunc(desc(cs.vals[0]), 120), trunc(desc(cs.vals[1]), 120))
	}
	call, ok := e0.Tuple.(*ssa.Call)
	if !ok {
		return false, "the returned values are not results of a call"
	}
	g := staticCallee(call)
	capLabel, isPath := paths[g]
	if g == nil || !isPath {
		return false, "returns the results of " + calleeName(call) + ", which is neither the envelope path nor the raw path"
	}
	decided := false
	for _, v := range cs.vals[2:] {
		if ee, ok := v.(*ssa.Extract); ok && ee.Tuple == ssa.Value(call) && isErrorType(ee.Type()) {
			decided = true
		}
	}
	if !decided {
		return false, "the error of " + calleeName(call) + " does not decide this exit"
	}
	if _, has := hasLabel(fi.GuardsOf(call), "T(call:(*pfw/plugin.GetMetadataResponse).HasCapability(", capLabel); !has {
		return false, calleeName(call) + " is not called under its capability"
	}
	return true, ""
}

// ---------- the unknown-field scan: library forms ----------------------------------------------------------------------

// c18ConstStringList: v is (a load of) a list of string constants that nothing can change: a slice literal of constants
// used in place, or a package-level variable initialised once with such a literal and otherwise only read through
// len / range / index reads / slices.Contains. Returns its elements.
func c18ConstStringList(w *World, v ssa.Value) ([]string, bool) {
	if u, ok := v.(*ssa.UnOp); ok && u.Op == token.MUL {
		g, ok := u.X.(*ssa.Global)
		if !ok || g.Pkg == nil {
			return nil, false
		}
		var init ssa.Value
		stores := 0
		for _, f := range w.Funcs {
			for _, b := range f.Blocks {
				for _, in := range b.Instrs {
					for _, op := range in.Operands(nil) {
						if *op != ssa.Value(g) {
							continue
						}
						switch x := in.(type) {
						case *ssa.Store:
							if x.Addr != ssa.Value(g) {
								return nil, false // the variable's address is stored somewhere
							}
							stores++
							if f.Name() == "init" && f.Pkg == g.Pkg && f.Parent() == nil && f.Signature.Recv() == nil {
								init = x.Val
							} else {
								return nil, false
							}
						case *ssa.UnOp:
							if x.Op != token.MUL || !c18ReadOnlyUses(x, 0) {
								return nil, false
							}
						default:
							return nil, false // address taken
						}
					}
				}
			}
		}
		if stores != 1 || init == nil {
			return nil, false
		}
		// the literal's backing array has no other name: the slice value is used by that one store only
		if sl, ok := init.(*ssa.Slice); !ok || sl.Referrers() == nil || len(*sl.Referrers()) != 1 {
			return nil, false
		}
		return c18SliceLitStrings(init)
	}
	return c18SliceLitStrings(v)
}

// c18ReadOnlyUses: the slice value is only measured, ranged over, read by index or handed to slices.Contains.
func c18ReadOnlyUses(v ssa.Value, depth int) bool {
	refs := v.Referrers()
	if refs == nil || depth > 3 {
		return refs == nil
	}
	for _, r := range *refs {
		switch x := r.(type) {
		case *ssa.DebugRef:
		case *ssa.Range:
		case *ssa.Index:
		case *ssa.IndexAddr:
			for _, rr := range *x.Referrers() {
				if u, ok := rr.(*ssa.UnOp); !ok || u.Op != token.MUL {
					return false
				}
			}
		case *ssa.Call:
			n := calleeName(x)
			if n == "builtin:len" || (n == "slices.Contains" && len(x.Call.Args) == 2 && x.Call.Args[0] == v) {
				continue
			}
			return false
		default:
			return false
		}
	}
	return true
}

// c18SliceLitStrings: v is `[]string{"a", "b", …}` (a full slice of a local array whose every element is stored once, a constant).
func c18SliceLitStrings(v ssa.Value) ([]string, bool) {
	sl, ok := v.(*ssa.Slice)
	if !ok || sl.Low != nil || sl.High != nil || sl.Max != nil {
		return nil, false
	}
	al, ok := sl.X.(*ssa.Alloc)
	if !ok {
		return nil, false
	}
	pt, ok := al.Type().Underlying().(*types.Pointer)
	if !ok {
		return nil, false
	}
	arr, ok := pt.Elem().Underlying().(*types.Array)
	if !ok || arr.Len() > 64 {
		return nil, false
	}
	out := make([]string, arr.Len())
	set := make([]int, arr.Len())
	for _, r := range *al.Referrers() {
		switch x := r.(type) {
		case *ssa.Slice:
			if x != sl {
				return nil, false
			}
		case *ssa.IndexAddr:
			k, ok := x.Index.(*ssa.Const)
			if !ok || k.Value == nil {
				return nil, false
			}
			idx, exact := constant.Int64Val(constant.ToInt(k.Value))
			if !exact || idx < 0 || idx >= int64(len(out)) {
				return nil, false
			}
			for _, rr := range *x.Referrers() {
				st, ok := rr.(*ssa.Store)
				if !ok || st.Addr != ssa.Value(x) {
					return nil, false
				}
				kc, ok := st.Val.(*ssa.Const)
				if !ok || kc.Value == nil || kc.Value.Kind() != constant.String {
					return nil, false
				}
				out[idx] = constant.StringVal(kc.Value)
				set[idx]++
			}
		case *ssa.DebugRef:
		default:
			return nil, false
		}
	}
	for _, n := range set {
		if n != 1 {
			return nil, false
		}
	}
	return out, true
}

// c18MembershipPredicate: pred is `func(k K, …) bool { return slices.Contains(<constant list>, k) }` (any number of
// return statements, each of that form). Returns the list: pred(k, …) is true exactly for its elements.
func c18MembershipPredicate(w *World, v ssa.Value) ([]string, bool) {
	var pred *ssa.Function
	switch x := v.(type) {
	case *ssa.Function:
		pred = x
	case *ssa.MakeClosure:
		pred, _ = x.Fn.(*ssa.Function)
	}
	if pred == nil || pred.Blocks == nil || len(pred.Params) == 0 {
		return nil, false
	}
	var list []string
	n := 0
	for _, b := range pred.Blocks {
		r, ok := blockTerm(b).(*ssa.Return)
		if !ok {
			continue
		}
		if len(r.Results) != 1 {
			return nil, false
		}
		call, ok := r.Results[0].(*ssa.Call)
		if !ok || calleeName(call) != "slices.Contains" || len(call.Call.Args) != 2 || call.Call.Args[1] != ssa.Value(pred.Params[0]) {
			return nil, false
		}
		l, ok := c18ConstStringList(w, call.Call.Args[0])
		if !ok || (n > 0 && strings.Join(l, "\x00") != strings.Join(list, "\x00")) {
			return nil, false
		}
		list = l
		n++
	}
	return list, n > 0
}

// c18MapOrigin strips loads and the value half of a comma-ok assertion: the object that IS the map.
func c18MapOrigin(v ssa.Value) ssa.Value {
	for i := 0; i < 4; i++ {
		switch x := v.(type) {
		case *ssa.UnOp:
			if x.Op == token.MUL {
				v = x.X
				continue
			}
		case *ssa.Extract:
			if ta, ok := x.Tuple.(*ssa.TypeAssert); ok && x.Index == 0 {
				return ta
			}
		case *ssa.ChangeType:
			v = x.X
			continue
		}
		break
	}
	return v
}

// c18HasKeyLoop: the function ranges over its (map) parameter — the loop scan/keyset-complete holds to "appends every key".
func c18HasKeyLoop(g *ssa.Function) bool {
	if g.Blocks == nil || len(g.Params) != 1 {
		return false
	}
	for _, rl := range rangeLoops(g) {
		if rl.X == ssa.Value(g.Params[0]) {
			return true
		}
	}
	return false
}

// c18ReportedMaps: the maps ALL of whose keys are elements of slice value v, and how each got there
// ("helper": through a module function handed the map, "library": maps.Keys collected by slices.AppendSeq / slices.Collect).
//
//	append(x, y...)                       keys(x) ∪ keys(y)
//	slices.AppendSeq(x, maps.Keys(m))     keys(x) ∪ {m}
//	slices.Collect(maps.Keys(m))          {m}
//	h(m), h a module function             {m}   (h is held to "reports every key" by scan/keyset-complete)
//
// Anything else contributes nothing (a level that is not seen is reported as missing).
func c18ReportedMaps(w *World, v ssa.Value, out map[ssa.Value]string, depth int) {
	if depth > 8 {
		return
	}
	call, ok := v.(*ssa.Call)
	if !ok {
		return
	}
	seqMap := func(s ssa.Value) ssa.Value {
		if kc, ok := s.(*ssa.Call); ok && calleeName(kc) == "maps.Keys" && len(kc.Call.Args) == 1 {
			return c18MapOrigin(kc.Call.Args[0])
		}
		return nil
	}
	switch n := calleeName(call); {
	case n == "builtin:append":
		for _, a := range call.Call.Args {
			c18ReportedMaps(w, a, out, depth+1)
		}
	case n == "slices.AppendSeq" && len(call.Call.Args) == 2:
		c18ReportedMaps(w, call.Call.Args[0], out, depth+1)
		if m := seqMap(call.Call.Args[1]); m != nil {
			out[m] = "library"
		}
	case n == "slices.Collect" && len(call.Call.Args) == 1:
		if m := seqMap(call.Call.Args[0]); m != nil {
			out[m] = "library"
		}
	default:
		if g := staticCallee(call); g != nil && w.IsProductFn(g) && len(call.Call.Args) == 1 {
			if _, isMap := call.Call.Args[0].Type().Underlying().(*types.Map); isMap && c18HasKeyLoop(g) {
				out[c18MapOrigin(call.Call.Args[0])] = "helper"
			}
		}
	}
}

// ---------- the unknown-field scan: filter while collecting ------------------------------------------------------------
//
// The scan may be written as "delete the known keys, then collect what is left" or as "range over the map and collect
// every key that is not a known one" (switch / if chain / slices.Contains over a constant list), into one accumulator
// for both levels or into one per level. What the clause needs is the same in every spelling:
//
//	the slice returned has an element for every key of the map, except keys that are members of a CONSTANT set,
//
// and that constant set is then held to the same condition as the keys of the delete statements (JSON names of
// ocispec.Descriptor at the descriptor level, "targetArtifact" at the payload level).
//
// c18KeyCollector decides the first half for one function G and one map (given by isM on the ranged operand):
//
//	(L1) G has a `range` loop over the map;
//	(L2) the loop is left only through its header (no break / return / goto out of the body): every key gets an iteration;
//	(L3) the body has append sites whose appended elements include the range key;
//	(L4) an iteration that reaches the next one without passing such a site has passed the true edge of
//	     `key == <string constant>` (or of slices.Contains(<constant list>, key)): the key is one of the constants F;
//	(L5) what those sites appended is still in the slice returned: a forward must-analysis over G keeps, per program
//	     point, the set S of slice values that were obtained from the result of the LATEST site execution by growth steps
//	     only (append with the value as base or as spread operand, phi selecting such a value, slices.AppendSeq/Grow/Clip);
//	     a site whose base is not in S empties S (the earlier keys are lost), any other definition of a value takes it
//	     out of S; every return must return a member of S (or no site can have run on any path to it);
//	(L6) no return is reachable from the entry without leaving the loop through its header: the loop is not bypassed.
//
// Under (L1)–(L6), for every key k of the map with k ∉ F some site appended k in k's iteration (L2, L4), and the value
// returned descends from that site's result through growth steps only (L5, L6), so it has one element per such key: it
// is empty only if every key of the map is in F. (Elements can be overwritten through an alias of the backing array, never
// removed: the consumer of the scan tests len(result), which only growth steps change.)

type c18Collect struct {
	ok     bool
	filter []string // F
	why    string
}

func c18KeyCollector(w *World, G *ssa.Function, isM func(ssa.Value) bool) c18Collect {
	last := c18Collect{why: "no range loop over the map"}
	for _, rl := range rangeLoops(G) {
		if _, isMap := rl.X.Type().Underlying().(*types.Map); !isMap || !isM(rl.X) {
			continue
		}
		last = c18CollectLoop(w, G, rl)
		if last.ok {
			return last
		}
	}
	return last
}

func c18IsRangeKey(v ssa.Value, rl rangeLoop) bool {
	if ct, ok := v.(*ssa.ChangeType); ok {
		v = ct.X
	}
	ex, ok := v.(*ssa.Extract)
	return ok && ex.Tuple == ssa.Value(rl.Next) && ex.Index == 1
}

// c18AppendsKey: call is append(base, e1, …, en) (or append(base, lit...)) with one of the e_i the range key of rl.
func c18AppendsKey(call *ssa.Call, rl rangeLoop) bool {
	if calleeName(call) != "builtin:append" || len(call.Call.Args) != 2 {
		return false
	}
	sl, ok := call.Call.Args[1].(*ssa.Slice)
	if !ok {
		return false
	}
	al, ok := sl.X.(*ssa.Alloc)
	if !ok || al.Referrers() == nil {
		return false
	}
	for _, r := range *al.Referrers() {
		ia, ok := r.(*ssa.IndexAddr)
		if !ok || ia.Referrers() == nil {
			continue
		}
		for _, rr := range *ia.Referrers() {
			if st, ok := rr.(*ssa.Store); ok && st.Addr == ssa.Value(ia) && c18IsRangeKey(st.Val, rl) {
				return true
			}
		}
	}
	return false
}

// c18KeyIsConst: cond evaluating to truth means "the range key of rl is one of the returned string constants".
func c18KeyIsConst(w *World, cond ssa.Value, truth bool, rl rangeLoop) ([]string, bool) {
	return c18IsOneOfConsts(w, cond, truth, func(v ssa.Value) bool { return c18IsRangeKey(v, rl) }, 0)
}

// c18IsOneOfConsts: cond evaluating to truth means "the value recognised by isKey is one of the returned string
// constants": `key == "c"`, `key != "c"` negated, slices.Contains(<constant list>, key), or a module predicate p(key)
// that returns true only for constants (c18PredicateConsts).
func c18IsOneOfConsts(w *World, cond ssa.Value, truth bool, isKey func(ssa.Value) bool, depth int) ([]string, bool) {
	for {
		u, ok := cond.(*ssa.UnOp)
		if !ok || u.Op != token.NOT {
			break
		}
		truth = !truth
		cond = u.X
	}
	switch x := cond.(type) {
	case *ssa.BinOp:
		if (x.Op != token.EQL && x.Op != token.NEQ) || (x.Op == token.EQL) != truth {
			return nil, false
		}
		var k *ssa.Const
		if isKey(x.X) {
			k, _ = x.Y.(*ssa.Const)
		} else if isKey(x.Y) {
			k, _ = x.X.(*ssa.Const)
		}
		if k == nil || k.Value == nil || k.Value.Kind() != constant.String {
			return nil, false
		}
		return []string{constant.StringVal(k.Value)}, true
	case *ssa.Call:
		if !truth {
			return nil, false
		}
		if calleeName(x) == "slices.Contains" && len(x.Call.Args) == 2 && isKey(x.Call.Args[1]) {
			return c18ConstStringList(w, x.Call.Args[0])
		}
		if g := staticCallee(x); g != nil && w.IsProductFn(g) && g.Blocks != nil && len(g.FreeVars) == 0 && depth < 2 {
			idx := -1
			for i, a := range x.Call.Args {
				if isKey(a) {
					if idx >= 0 {
						return nil, false
					}
					idx = i
				}
			}
			if idx >= 0 && idx < len(g.Params) {
				return c18PredicateConsts(w, g, idx, depth+1)
			}
		}
	}
	return nil, false
}

// c18PredicateConsts: the module predicate g returns true ONLY when its parameter #idx is one of the returned string
// constants. Decided on g's CFG: E = the branch edges on which the parameter is known to be one of the constants
// (c18IsOneOfConsts on the branch condition). A return that can be reached without an edge of E must return a value
// that is itself false unless the parameter is a constant: the constant false, a comparison param == "c" (or another
// recognised condition), or a phi each of whose operands is such a value or arrives over an edge that cannot be reached
// without an edge of E.
func c18PredicateConsts(w *World, g *ssa.Function, idx int, depth int) ([]string, bool) {
	if g.Signature.Results().Len() != 1 || !types.Identical(g.Signature.Results().At(0).Type().Underlying(), types.Typ[types.Bool]) {
		return nil, false
	}
	param := ssa.Value(g.Params[idx])
	isKey := func(v ssa.Value) bool {
		if ct, ok := v.(*ssa.ChangeType); ok {
			v = ct.X
		}
		return v == param
	}
	var consts []string
	reachB := map[int]bool{0: true}
	reachE := map[edgeKey]bool{}
	stack := []*ssa.BasicBlock{g.Blocks[0]}
	for len(stack) > 0 {
		b := stack[len(stack)-1]
		stack = stack[:len(stack)-1]
		iff, isIf := blockTerm(b).(*ssa.If)
		for j, s := range b.Succs {
			if isIf && len(b.Succs) == 2 && b.Succs[0] != b.Succs[1] {
				if ks, ok := c18IsOneOfConsts(w, iff.Cond, j == 0, isKey, depth); ok {
					consts = append(consts, ks...)
					continue
				}
			}
			reachE[edgeKey{b.Index, j}] = true
			if !reachB[s.Index] {
				reachB[s.Index] = true
				stack = append(stack, s)
			}
		}
	}
	var safe func(v ssa.Value, d int) bool
	safe = func(v ssa.Value, d int) bool {
		if d > 6 {
			return false
		}
		if k, ok := v.(*ssa.Const); ok {
			return k.Value != nil && k.Value.Kind() == constant.Bool && !constant.BoolVal(k.Value)
		}
		if ph, ok := v.(*ssa.Phi); ok {
			for i, e := range ph.Edges {
				p := ph.Block().Preds[i]
				open := false
				for j, s := range p.Succs {
					if s == ph.Block() && reachE[edgeKey{p.Index, j}] {
						open = true
					}
				}
				if open && !safe(e, d+1) {
					return false
				}
			}
			return true
		}
		if ks, ok := c18IsOneOfConsts(w, v, true, isKey, depth); ok {
			consts = append(consts, ks...)
			return true
		}
		return false
	}
	n := 0
	for _, b := range g.Blocks {
		r, ok := blockTerm(b).(*ssa.Return)
		if !ok {
			continue
		}
		n++
		if reachB[b.Index] && (len(r.Results) != 1 || !safe(r.Results[0], 0)) {
			return nil, false
		}
	}
	return consts, n > 0
}

func c18CollectLoop(w *World, G *ssa.Function, rl rangeLoop) c18Collect {
	lb := loopBlocks(rl.Header)
	// (L2)
	for bi := range lb {
		b := G.Blocks[bi]
		if b == rl.Header {
			continue
		}
		for _, s := range b.Succs {
			if !lb[s.Index] {
				return c18Collect{why: "the loop over the map can be left from its body at " + w.InstrPos(blockTerm(b)) + ": later keys get no iteration"}
			}
		}
	}
	if len(rl.Header.Succs) != 2 || lb[rl.Header.Succs[1].Index] {
		return c18Collect{why: "unexpected loop shape"}
	}
	// (L3)
	sites := map[*ssa.Call]bool{}
	siteBlock := map[int]bool{}
	for bi := range lb {
		for _, in := range G.Blocks[bi].Instrs {
			if call, ok := in.(*ssa.Call); ok && c18AppendsKey(call, rl) {
				sites[call] = true
				siteBlock[bi] = true
			}
		}
	}
	if len(sites) == 0 {
		return c18Collect{why: "the loop over the map does not append its key"}
	}
	// (L4)
	var filter []string
	seen := map[int]bool{rl.Body.Index: true}
	stack := []*ssa.BasicBlock{rl.Body}
	for len(stack) > 0 {
		b := stack[len(stack)-1]
		stack = stack[:len(stack)-1]
		if siteBlock[b.Index] {
			continue // the key has been appended on this path
		}
		iff, isIf := blockTerm(b).(*ssa.If)
		for j, s := range b.Succs {
			if isIf && len(b.Succs) == 2 && b.Succs[0] != b.Succs[1] {
				if ks, ok := c18KeyIsConst(w, iff.Cond, j == 0, rl); ok {
					filter = append(filter, ks...)
					continue // on this edge the key is one of the constants
				}
			}
			if s == rl.Header {
				return c18Collect{why: "an iteration can skip the append at " + w.InstrPos(blockTerm(b)) + " without the key having been compared equal to a constant: some keys are not reported"}
			}
			if !seen[s.Index] {
				seen[s.Index] = true
				stack = append(stack, s)
			}
		}
	}
	// (L6)
	{
		seen := map[int]bool{0: true}
		stack := []*ssa.BasicBlock{G.Blocks[0]}
		for len(stack) > 0 {
			b := stack[len(stack)-1]
			stack = stack[:len(stack)-1]
			if _, isRet := blockTerm(b).(*ssa.Return); isRet {
				return c18Collect{why: "the return at " + w.InstrPos(blockTerm(b)) + " is reachable without running the loop over the map"}
			}
			for j, s := range b.Succs {
				if b == rl.Header && j == 1 {
					continue
				}
				if !seen[s.Index] {
					seen[s.Index] = true
					stack = append(stack, s)
				}
			}
		}
	}
	// (L5)
	if ok, why := c18AccumulatorKept(w, G, sites); !ok {
		return c18Collect{why: why}
	}
	return c18Collect{ok: true, filter: filter}
}

// c18AccSet: a set of slice values; top = "no site has run yet": every value qualifies.
type c18AccSet struct {
	set bool // the state has been computed
	top bool
	m   map[ssa.Value]bool
}

func (s c18AccSet) has(v ssa.Value) bool { return s.top || s.m[v] }

func (s c18AccSet) clone() c18AccSet {
	n := c18AccSet{set: s.set, top: s.top, m: map[ssa.Value]bool{}}
	for v := range s.m {
		n.m[v] = true
	}
	return n
}

func (s c18AccSet) equal(o c18AccSet) bool {
	if s.set != o.set || s.top != o.top || len(s.m) != len(o.m) {
		return false
	}
	for v := range s.m {
		if !o.m[v] {
			return false
		}
	}
	return true
}

// c18GrowthOperands: the operands v such that the instruction's value has every element of v.
func c18GrowthOperands(in ssa.Instruction) []ssa.Value {
	call, ok := in.(*ssa.Call)
	if !ok {
		return nil
	}
	switch calleeName(call) {
	case "builtin:append":
		return call.Call.Args
	case "slices.AppendSeq", "slices.Grow", "slices.Clip":
		if len(call.Call.Args) > 0 {
			return call.Call.Args[:1]
		}
	}
	return nil
}

// c18AccumulatorKept is the must-analysis (L5).
func c18AccumulatorKept(w *World, G *ssa.Function, sites map[*ssa.Call]bool) (bool, string) {
	out := make([]c18AccSet, len(G.Blocks))
	atRet := map[*ssa.Return]c18AccSet{}
	for round := 0; ; round++ {
		if round > 4*len(G.Blocks)+8 {
			return false, "the accumulator analysis did not stabilise"
		}
		changed := false
		for _, b := range G.Blocks {
			var in c18AccSet
			if b.Index == 0 {
				in = c18AccSet{set: true, top: true, m: map[ssa.Value]bool{}}
			}
			for i, p := range b.Preds {
				e := out[p.Index]
				if !e.set {
					continue
				}
				e = e.clone()
				if !e.top {
					// the phis of b are evaluated together, on the state of the edge
					add := []ssa.Value{}
					for _, ins := range b.Instrs {
						ph, ok := ins.(*ssa.Phi)
						if !ok {
							break
						}
						if i < len(ph.Edges) && e.m[ph.Edges[i]] {
							add = append(add, ph)
						}
					}
					for _, ins := range b.Instrs {
						ph, ok := ins.(*ssa.Phi)
						if !ok {
							break
						}
						delete(e.m, ph)
					}
					for _, v := range add {
						e.m[v] = true
					}
				}
				if !in.set {
					in = e
					continue
				}
				// meet: intersection (top is neutral)
				switch {
				case e.top:
				case in.top:
					in = e
				default:
					for v := range in.m {
						if !e.m[v] {
							delete(in.m, v)
						}
					}
				}
			}
			if !in.set {
				continue
			}
			s := in
			for _, ins := range b.Instrs {
				if _, isPhi := ins.(*ssa.Phi); isPhi {
					continue
				}
				if r, isRet := ins.(*ssa.Return); isRet {
					atRet[r] = s.clone()
					continue
				}
				v, isVal := ins.(ssa.Value)
				if !isVal {
					continue
				}
				if call, ok := ins.(*ssa.Call); ok && sites[call] {
					if s.has(call.Call.Args[0]) {
						s = c18AccSet{set: true, m: map[ssa.Value]bool{v: true}}
					} else {
						s = c18AccSet{set: true, m: map[ssa.Value]bool{}}
					}
					continue
				}
				if s.top {
					continue
				}
				grows := false
				for _, o := range c18GrowthOperands(ins) {
					if s.m[o] {
						grows = true
					}
				}
				if grows {
					s.m[v] = true
				} else {
					delete(s.m, v)
				}
			}
			if !s.equal(out[b.Index]) {
				out[b.Index] = s
				changed = true
			}
		}
		if !changed {
			break
		}
	}
	n := 0
	for _, b := range G.Blocks {
		r, ok := blockTerm(b).(*ssa.Return)
		if !ok {
			continue
		}
		s, reached := atRet[r]
		if !reached {
			continue // dead code
		}
		n++
		if len(r.Results) != 1 || !s.has(r.Results[0]) {
			return false, "the slice returned at " + w.InstrPos(r) + " need not hold the keys appended in the loop (the accumulator is reset, replaced or an older version of it is returned)"
		}
	}
	if n == 0 {
		return false, "no return"
	}
	return true, ""
}

// c18InnerMaps: the comma-ok assertions of <outer map>["targetArtifact"] to a map type in SC (the descriptor level).
func c18InnerMaps(SC *ssa.Function, outerMap ssa.Value) map[ssa.Value]bool {
	out := map[ssa.Value]bool{}
	if outerMap == nil {
		return out
	}
	for _, b := range SC.Blocks {
		for _, in := range b.Instrs {
			ta, ok := in.(*ssa.TypeAssert)
			if !ok || !ta.CommaOk {
				continue
			}
			if _, isMap := ta.AssertedType.Underlying().(*types.Map); !isMap {
				continue
			}
			x := ta.X
			if ex, ok := x.(*ssa.Extract); ok && ex.Index == 0 {
				x = ex.Tuple
			}
			if lk, ok := x.(*ssa.Lookup); ok && c18MapOrigin(lk.X) == outerMap && desc(lk.Index) == `const:"targetArtifact"` {
				out[ta] = true
			}
		}
	}
	return out
}

// ---------- raw path: where the response's certificate chain is parsed ----------------------------------------------------
//
// The loop that parses the chain may sit in the function that calls GenerateSignature or in a helper it calls, and the
// helper may be handed the chain, the whole response, or more than that. The loop is found by VALUE: a slice loop on
// the call tree whose ranged operand, rendered in the caller's frame, is <response>.CertificateChain.

// c18ChainLoopsAt lists those loops with the function holding each (the root itself or a helper).
type c18ChainSite struct {
	F    *ssa.Function
	Loop sliceLoop
}

func c18ChainLoopsAt(fr *c18Frame, chain string) []c18ChainSite {
	var out []c18ChainSite
	for _, f := range fr.tree {
		if f.Parent() != nil {
			continue
		}
		for _, sl := range sliceLoops(f) {
			if fr.val(sl.X) == chain {
				out = append(out, c18ChainSite{f, sl})
			}
		}
	}
	return out
}

// c18ChainLoopOK is the decision of c18ChainParser for a loop given by value instead of by "ranges over parameter 0":
// every completed iteration passes ParseCertificate(chain[i]) err == nil, the parsed certificate is stored per iteration,
// no success exit of F is reachable from inside the loop or around it, and result #retIdx of every success exit is the
// slice the certificates were stored in. It holds for the function that has the loop, whichever that is: with the loop
// in the caller of the plugin, "the parser fails closed" and "the caller tests the parser's error" are the same fact
// (there is no error to hand over), so one decision answers both obligations.
func c18ChainLoopOK(w *World, F *ssa.Function, sl sliceLoop, retIdx int) (bool, ssa.Value, string) {
	fi := w.Info(F)
	pn := desc(sl.X)
	labels, _ := fi.mustPassBetween([]int{sl.Body.Index}, map[int]bool{sl.Header.Index: true})
	_, gate := hasLabel(labels, "EQ(call:crypto/x509.ParseCertificate("+pn+"[", "#err,nil)")
	stored := false
	var dst ssa.Value
	for bi := range loopBlocks(sl.Header) {
		for _, in := range F.Blocks[bi].Instrs {
			switch x := in.(type) {
			case *ssa.Store:
				if strings.HasPrefix(desc(x.Val), "call:crypto/x509.ParseCertificate("+pn+"[") && strings.HasSuffix(desc(x.Val), "#0") {
					if ia, ok := x.Addr.(*ssa.IndexAddr); ok {
						stored, dst = true, ia.X
					}
				}
			case *ssa.Call:
				if bi, ok := x.Call.Value.(*ssa.Builtin); ok && bi.Name() == "append" && strings.Contains(desc(x.Call.Args[1]), "call:crypto/x509.ParseCertificate("+pn+"[") {
					stored, dst = true, x
				}
			}
		}
	}
	wit := fi.successWitness(Mode{Kind: mErr}, []state{{sl.Body.Index, 0, -1}}, backEdges(sl.Header))
	cut := map[edgeKey]bool{}
	cutInto(fi, sl.Header, cut)
	wit2 := fi.successWitness(Mode{Kind: mErr}, entryState(), cut)
	okRet := dst != nil
	s := w.Summarize(F, Mode{Kind: mErr})
	if len(s.Exits) == 0 {
		okRet = false
	}
	for _, ex := range s.Exits {
		if retIdx >= len(ex.Ret.Results) {
			okRet = false
			continue
		}
		r := ex.Ret.Results[retIdx]
		if dst != nil && r != dst {
			if ph, ok := r.(*ssa.Phi); !ok || !phiHas(ph, dst) {
				okRet = false
			}
		}
	}
	ok := gate && stored && wit == nil && wit2 == nil && okRet
	return ok, dst, fmt.Sprintf("parse gate per element=%v stored=%v success from inside loop=%v bypass=%v returns parsed slice=%v", gate, stored, wit != nil, wit2 != nil, okRet)
}

// c18InnerLevel: v is the descriptor-level map: the value half of one of the assertions `inner`, or a phi of that value
// and nil in which nil arrives only over the false edge of the ok-test of that very assertion or of the comma-ok lookup
// that feeds it (`if member, present := m["targetArtifact"]; present { d, _ = member.(map…) }`): nil stands for "there
// is no descriptor-level map", in which case that level has no keys to report.
func c18InnerLevel(v ssa.Value, inner map[ssa.Value]bool) bool {
	if inner[c18MapOrigin(v)] {
		return true
	}
	ph, ok := v.(*ssa.Phi)
	if !ok {
		return false
	}
	var ta *ssa.TypeAssert
	for _, e := range ph.Edges {
		if o, ok := c18MapOrigin(e).(*ssa.TypeAssert); ok && inner[o] && (ta == nil || ta == o) {
			ta = o
		} else if !isNilConst(e) {
			return false
		}
	}
	if ta == nil {
		return false
	}
	okOf := func(cond ssa.Value) bool {
		ex, isEx := cond.(*ssa.Extract)
		if !isEx || ex.Index != 1 {
			return false
		}
		if ex.Tuple == ssa.Value(ta) {
			return true
		}
		if x, isEx := ta.X.(*ssa.Extract); isEx && x.Tuple == ex.Tuple {
			_, isLookup := ex.Tuple.(*ssa.Lookup)
			return isLookup
		}
		return false
	}
	for i, e := range ph.Edges {
		if !isNilConst(e) {
			continue
		}
		p := ph.Block().Preds[i]
		iff, isIf := blockTerm(p).(*ssa.If)
		if !isIf || len(p.Succs) != 2 || p.Succs[1] != ph.Block() || p.Succs[0] == ph.Block() || !okOf(iff.Cond) {
			return false
		}
	}
	return true
}
