package main

// Helpers of the C18 rule set: decisions that do not depend on WHERE a check is written (which function of the
// signer's call tree, which control-flow shape, hand-written loop or library call), only on WHAT is checked.

import (
	"fmt"
	"go/constant"
	"go/token"
	"go/types"
	"sort"
	"strings"

	"golang.org/x/tools/go/ssa"
)

// ---------- frames ---------------------------------------------------------------------------------------------
//
// c18Frame renders values of the functions on the static call tree of a root function in the ROOT's frame: every
// "param:<name>" of a helper is replaced by the rendering of the argument at the helper's call site (recursively up to
// the root). This is the substitution the gate engine applies to the labels of a callee's summary (summarizeCall), so
// an anchor found in a helper ("the Envelope.Verify call", "the decode of the verified payload") is spelled exactly
// like the composed facts of the root's exits that mention it.
//
// Soundness: the rendering is only defined when the helper has exactly ONE static call site on the tree — then the
// parameter IS that argument on every execution that comes from the root. With two call sites the frame is ambiguous
// and the rendering is poisoned ("?ambiguous-frame"), which matches no fact: the obligation stays open.

type c18Subst struct {
	names, descs []string
	ok           bool
}

type c18Frame struct {
	w     *World
	root  *ssa.Function
	tree  []*ssa.Function
	sites map[*ssa.Function][]*ssa.Call
	memo  map[*ssa.Function]*c18Subst
	busy  map[*ssa.Function]bool
}

func newC18Frame(w *World, root *ssa.Function) *c18Frame {
	fr := &c18Frame{w: w, root: root, tree: w.moduleCallees(root), sites: map[*ssa.Function][]*ssa.Call{}, memo: map[*ssa.Function]*c18Subst{}, busy: map[*ssa.Function]bool{}}
	for _, f := range fr.tree {
		for _, ci := range allCalls(f) {
			if g := staticCallee(ci); g != nil && g != fr.root {
				if call, ok := ci.(*ssa.Call); ok {
					fr.sites[g] = append(fr.sites[g], call)
				} else {
					fr.sites[g] = append(fr.sites[g], nil) // defer / go: a second, unanalysed way in
				}
			}
		}
	}
	return fr
}

func (fr *c18Frame) subst(f *ssa.Function) *c18Subst {
	if f == fr.root {
		return &c18Subst{ok: true}
	}
	if s, ok := fr.memo[f]; ok {
		return s
	}
	if fr.busy[f] {
		return &c18Subst{}
	}
	fr.busy[f] = true
	defer delete(fr.busy, f)
	s := &c18Subst{}
	fr.memo[f] = s
	ss := fr.sites[f]
	if len(ss) != 1 || ss[0] == nil || len(ss[0].Call.Args) != len(f.Params) {
		return s
	}
	call := ss[0]
	up := fr.subst(call.Parent())
	if !up.ok {
		return s
	}
	for i, p := range f.Params {
		s.names = append(s.names, p.Name())
		s.descs = append(s.descs, fr.str(call.Parent(), desc(call.Call.Args[i])))
	}
	s.ok = true
	return s
}

// str: a rendering made in f's frame, in the root's frame.
func (fr *c18Frame) str(f *ssa.Function, d string) string {
	if f == nil || f == fr.root {
		return d
	}
	s := fr.subst(f)
	if !s.ok {
		return "?ambiguous-frame:" + d
	}
	return substParams(d, s.names, s.descs)
}

// val: desc(v) in the root's frame.
func (fr *c18Frame) val(v ssa.Value) string {
	return fr.str(v.Parent(), desc(v))
}

// guards: the facts on every path from the root's entry to the instruction: those inside its own function (in the root's
// frame) and, for a helper, those on the way to its call site, recursively.
func (fr *c18Frame) guards(in ssa.Instruction) map[string]string {
	out := map[string]string{}
	for depth := 0; in != nil && depth < 8; depth++ {
		f := in.Parent()
		for l, site := range fr.w.Info(f).GuardsOf(in) {
			out[fr.str(f, l)] = site
		}
		if f == fr.root {
			return out
		}
		if s := fr.subst(f); !s.ok {
			return map[string]string{}
		}
		in = fr.sites[f][0]
	}
	return out
}

// c18LocalObject: the address is (a part of) a variable the function itself allocated.
func c18LocalObject(addr ssa.Value) bool {
	for i := 0; i < 6; i++ {
		switch x := addr.(type) {
		case *ssa.FieldAddr:
			addr = x.X
		case *ssa.IndexAddr:
			addr = x.X
		case *ssa.Alloc:
			return true
		default:
			return false
		}
	}
	return false
}

// calls: every plain call on the tree (root first, then helpers in call order).
func (fr *c18Frame) calls() []*ssa.Call {
	var out []*ssa.Call
	for _, f := range fr.tree {
		if f.Parent() != nil {
			continue // closures have their own free variables; anchors are not looked for there
		}
		for _, ci := range allCalls(f) {
			if call, ok := ci.(*ssa.Call); ok {
				out = append(out, call)
			}
		}
	}
	return out
}

// ---------- dispatch: what Sign / SignBlob hand back -----------------------------------------------------------------
//
// c18ReturnsCheckedCall decides clause (c) on values instead of on the spelling of the exit: at a success-capable exit
// the triple (signature, signer info, error) is traced back through phis. Phis of ONE block select the same incoming
// edge, so they are expanded in lockstep: each expansion is one way the triple can have been formed ("case"). The exit
// is accepted when, in every case that can be a success,
//   - signature and signer info are results #0 and #1 of ONE call C of the envelope path or of the raw path,
//   - C's error result is an error the exit knows to be nil: it is the error operand returned (success means it is
//     nil), or a value a must-pass branch edge to the exit compared with nil,
//   - C itself is executed only under the capability that belongs to its path.
// A case whose deciding error is provably non-nil on its incoming edge (constructed error, or the failing edge of a
// nil test of that very value) cannot be a success and is dropped.
//
// Why this is right for merged exits (`switch {case A: x, err = f(); case B: x, err = g()}; if err != nil {fail}; return x`):
// on a success the merged err is nil; merged err and merged x come from the same edge, i.e. from the same call; that
// call returned a nil error, so x is what the checked path returned — the clause the single-exit-per-path spelling
// states per exit. Phis of different blocks are expanded independently (all combinations): a superset of the feasible
// cases, never a subset.

type c18Case struct {
	vals []ssa.Value // [0] signature, [1] signer info, [2:] errors known nil on success
}

// pathOf says whether a call IS one of the checked paths (by role, see c18RawPath) and under which capability label it
// has to be executed ("" = none: used for the helpers of a path, whose callers are held to the capability).
type c18PathOf func(call *ssa.Call) (capLabel string, isPath bool, why string)

func c18ReturnsCheckedCall(w *World, fn *ssa.Function, ex *ExitSum, paths c18PathOf) (bool, string) {
	fi := w.Info(fn)
	r := ex.Ret
	if len(r.Results) != 3 {
		return false, "not a (signature, signer info, error) exit"
	}
	start := c18Case{vals: []ssa.Value{r.Results[0], r.Results[1]}}
	if !isNilConst(r.Results[2]) {
		start.vals = append(start.vals, r.Results[2])
	}
	for _, v := range c18MustNil(fi, r.Block()) {
		if isErrorType(v.Type()) {
			start.vals = append(start.vals, v)
		}
	}
	if len(start.vals) < 3 {
		return false, "no error value decides this exit"
	}
	if ex.Pred >= 0 {
		// the summary distinguishes this exit by the incoming edge of the return block
		if n, feasible := c18TakeEdge(fi, start, r.Block(), ex.Pred); feasible {
			start = n
		} else {
			return true, "" // no success through this edge
		}
	}
	budget := 64
	accepted := 0
	var rec func(cs c18Case, depth int) (bool, string)
	rec = func(cs c18Case, depth int) (bool, string) {
		budget--
		if budget < 0 || depth > 6 {
			return false, "the returned values are merged too deeply to follow"
		}
		var blk *ssa.BasicBlock
		for _, v := range cs.vals {
			if p, ok := v.(*ssa.Phi); ok {
				blk = p.Block()
				break
			}
		}
		if blk == nil {
			ok, why := c18AcceptCase(w, fi, cs, paths)
			if ok {
				accepted++
			}
			return ok, why
		}
		for i := range blk.Preds {
			n, feasible := c18TakeEdge(fi, cs, blk, i)
			if !feasible {
				continue
			}
			if ok, why := rec(n, depth+1); !ok {
				return false, why
			}
		}
		return true, ""
	}
	if ok, why := rec(start, 0); !ok {
		return false, why
	}
	if accepted == 0 {
		return false, "no way to form the returned values was found"
	}
	return true, ""
}

// c18TakeEdge replaces the phis of block blk by their operand on incoming edge i. feasible=false: on that edge one of
// the errors that must be nil is provably non-nil.
func c18TakeEdge(fi *FnInfo, cs c18Case, blk *ssa.BasicBlock, i int) (c18Case, bool) {
	pred := blk.Preds[i]
	out := c18Case{vals: make([]ssa.Value, len(cs.vals))}
	for k, v := range cs.vals {
		out.vals[k] = v
		if p, ok := v.(*ssa.Phi); ok && p.Block() == blk && i < len(p.Edges) {
			out.vals[k] = p.Edges[i]
			if k >= 2 && (fi.nonNil(p.Edges[i], pred) || c18EdgeSaysNonNil(pred, blk, p.Edges[i])) {
				return out, false
			}
		}
	}
	return out, true
}

// c18EdgeSaysNonNil: the edge pred→succ is the branch edge of a nil test of v on which v != nil.
func c18EdgeSaysNonNil(pred, succ *ssa.BasicBlock, v ssa.Value) bool {
	iff, ok := blockTerm(pred).(*ssa.If)
	if !ok || len(pred.Succs) != 2 || pred.Succs[0] == pred.Succs[1] {
		return false
	}
	return condImpliesNonNil(iff.Cond, pred.Succs[0] == succ, v)
}

// c18MustNil: the values some must-pass branch edge between the entry and block b compares with nil (and finds nil).
func c18MustNil(fi *FnInfo, b *ssa.BasicBlock) []ssa.Value {
	var out []ssa.Value
	if b.Index == 0 {
		return nil
	}
	targets := map[int]bool{b.Index: true}
	if !fi.reachHit(entryState(), nil, targets) {
		return nil
	}
	for _, q := range fi.Fn.Blocks {
		iff, isIf := blockTerm(q).(*ssa.If)
		if !isIf || len(q.Succs) != 2 {
			continue
		}
		for j := 0; j < 2; j++ {
			if fi.reachHit(entryState(), map[edgeKey]bool{{q.Index, j}: true}, targets) {
				continue
			}
			if v := c18NilTested(iff.Cond, j == 0); v != nil {
				out = append(out, v)
			}
		}
	}
	return out
}

// c18NilTested: cond evaluating to truth means `v == nil`; returns v.
func c18NilTested(cond ssa.Value, truth bool) ssa.Value {
	for {
		u, ok := cond.(*ssa.UnOp)
		if !ok || u.Op != token.NOT {
			break
		}
		truth = !truth
		cond = u.X
	}
	bo, ok := cond.(*ssa.BinOp)
	if !ok || (bo.Op != token.EQL && bo.Op != token.NEQ) {
		return nil
	}
	var o ssa.Value
	if isNilConst(bo.Y) {
		o = bo.X
	} else if isNilConst(bo.X) {
		o = bo.Y
	} else {
		return nil
	}
	if (bo.Op == token.EQL) != truth {
		return nil
	}
	return o
}

func c18AcceptCase(w *World, fi *FnInfo, cs c18Case, paths c18PathOf) (bool, string) {
	e0, ok0 := cs.vals[0].(*ssa.Extract)
	e1, ok1 := cs.vals[1].(*ssa.Extract)
	if !ok0 || !ok1 || e0.Index != 0 || e1.Index != 1 || e0.Tuple != e1.Tuple {
		return false, fmt.Sprintf("returns (%s, %s): not results #0 and #1 of one call", trunc(desc(cs.vals[0]), 120), trunc(desc(cs.vals[1]), 120))
	}
	call, ok := e0.Tuple.(*ssa.Call)
	if !ok {
		return false, "the returned values are not results of a call"
	}
	capLabel, isPath, whyNot := paths(call)
	if !isPath {
		if whyNot != "" {
			whyNot = " (" + whyNot + ")"
		}
		return false, "returns the results of " + calleeName(call) + ", which is neither the envelope path nor the raw path" + whyNot
	}
	decided := false
	for _, v := range cs.vals[2:] {
		if ee, ok := v.(*ssa.Extract); ok && ee.Tuple == ssa.Value(call) && isErrorType(ee.Type()) {
			decided = true
		}
	}
	if !decided {
		return false, "the error of " + calleeName(call) + " does not decide this exit"
	}
	if capLabel == "" {
		return true, ""
	}
	if _, has := hasLabel(fi.GuardsOf(call), "T(call:(*pfw/plugin.GetMetadataResponse).HasCapability(", capLabel); !has {
		return false, calleeName(call) + " is not called under its capability"
	}
	return true, ""
}

// ---------- the unknown-field scan: library forms ----------------------------------------------------------------------

// c18ConstStringList: v is (a load of) a list of string constants that nothing can change: a slice literal of constants
// used in place or held in a local, or a package-level variable initialised once with such a literal, or a slice of an
// array of constants; in each case only read: len / range / index reads / slices.Contains, Index, BinarySearch / a module
// helper that only reads its parameter. bind: v may be a parameter of the helper under analysis that stands for an
// argument of the call (see c18Bind). Returns its elements.
func c18ConstStringList(w *World, v ssa.Value, bind c18Bind) ([]string, bool) {
	v = bind.of(v)
	if u, ok := v.(*ssa.UnOp); ok && u.Op == token.MUL {
		g, ok := u.X.(*ssa.Global)
		if !ok || g.Pkg == nil {
			return nil, false
		}
		var init ssa.Value
		stores := 0
		for _, f := range w.Funcs {
			for _, b := range f.Blocks {
				for _, in := range b.Instrs {
					for _, op := range in.Operands(nil) {
						if *op != ssa.Value(g) {
							continue
						}
						switch x := in.(type) {
						case *ssa.Store:
							if x.Addr != ssa.Value(g) {
								return nil, false // the variable's address is stored somewhere
							}
							stores++
							if f.Name() == "init" && f.Pkg == g.Pkg && f.Parent() == nil && f.Signature.Recv() == nil {
								init = x.Val
							} else {
								return nil, false
							}
						case *ssa.UnOp:
							if x.Op != token.MUL || !c18ReadOnlyUses(x, 0) {
								return nil, false
							}
						default:
							return nil, false // address taken
						}
					}
				}
			}
		}
		if stores != 1 || init == nil {
			return nil, false
		}
		// the literal's backing array has no other name: the slice value is used by that one store only
		if sl, ok := init.(*ssa.Slice); !ok || sl.Referrers() == nil || len(*sl.Referrers()) != 1 {
			return nil, false
		}
		return c18SliceLitStrings(init)
	}
	// a literal of the function itself: its elements are constants and nothing writes through the slice value
	// (the literal may be held in a local and used several times; it must then only be read)
	if l, ok := c18SliceLitStrings(v); ok {
		if !c18ReadOnlyUses(v, 0) {
			return nil, false
		}
		return l, true
	}
	// a slice of an array of constants (`known[:]`), see c18ConstArray
	if sl, ok := v.(*ssa.Slice); ok && c18ReadOnlyUses(sl, 0) {
		return c18ConstArray(w, sl.X)
	}
	return nil, false
}

// c18ListReaders: library functions that only read the list they are handed as first argument.
var c18ListReaders = map[string]bool{"slices.Contains": true, "slices.Index": true, "slices.BinarySearch": true, "sort.SearchStrings": true}

// c18ReadOnlyUses: the slice value is only measured, ranged over, read by index or handed to slices.Contains.
func c18ReadOnlyUses(v ssa.Value, depth int) bool {
	refs := v.Referrers()
	if refs == nil || depth > 3 {
		return refs == nil
	}
	for _, r := range *refs {
		switch x := r.(type) {
		case *ssa.DebugRef:
		case *ssa.Range:
		case *ssa.Index:
		case *ssa.IndexAddr:
			for _, rr := range *x.Referrers() {
				if u, ok := rr.(*ssa.UnOp); !ok || u.Op != token.MUL {
					return false
				}
			}
		case *ssa.Call:
			n := calleeName(x)
			if n == "builtin:len" || (c18ListReaders[n] && len(x.Call.Args) == 2 && x.Call.Args[0] == v && x.Call.Args[1] != v) {
				continue
			}
			// handed to a module helper that only reads it (`contains(known, key)`)
			if c18ReadOnlyCallee(x, v, depth, c18ReadOnlyUses) {
				continue
			}
			return false
		default:
			return false
		}
	}
	return true
}

// c18SliceLitStrings: v is `[]string{"a", "b", …}` (a full slice of a local array whose every element is stored once, a constant).
func c18SliceLitStrings(v ssa.Value) ([]string, bool) {
	sl, ok := v.(*ssa.Slice)
	if !ok || sl.Low != nil || sl.High != nil || sl.Max != nil {
		return nil, false
	}
	al, ok := sl.X.(*ssa.Alloc)
	if !ok {
		return nil, false
	}
	pt, ok := al.Type().Underlying().(*types.Pointer)
	if !ok {
		return nil, false
	}
	arr, ok := pt.Elem().Underlying().(*types.Array)
	if !ok || arr.Len() > 64 {
		return nil, false
	}
	out := make([]string, arr.Len())
	set := make([]int, arr.Len())
	for _, r := range *al.Referrers() {
		switch x := r.(type) {
		case *ssa.Slice:
			if x != sl {
				return nil, false
			}
		case *ssa.IndexAddr:
			k, ok := x.Index.(*ssa.Const)
			if !ok || k.Value == nil {
				return nil, false
			}
			idx, exact := constant.Int64Val(constant.ToInt(k.Value))
			if !exact || idx < 0 || idx >= int64(len(out)) {
				return nil, false
			}
			for _, rr := range *x.Referrers() {
				st, ok := rr.(*ssa.Store)
				if !ok || st.Addr != ssa.Value(x) {
					return nil, false
				}
				kc, ok := st.Val.(*ssa.Const)
				if !ok || kc.Value == nil || kc.Value.Kind() != constant.String {
					return nil, false
				}
				out[idx] = constant.StringVal(kc.Value)
				set[idx]++
			}
		case *ssa.DebugRef:
		default:
			return nil, false
		}
	}
	for _, n := range set {
		if n != 1 {
			return nil, false
		}
	}
	return out, true
}

// c18MembershipPredicate: pred is `func(k K, …) bool { return slices.Contains(<constant list>, k) }` (any number of
// return statements, each of that form). Returns the list: pred(k, …) is true exactly for its elements.
func c18MembershipPredicate(w *World, v ssa.Value) ([]string, bool) {
	var pred *ssa.Function
	switch x := v.(type) {
	case *ssa.Function:
		pred = x
	case *ssa.MakeClosure:
		pred, _ = x.Fn.(*ssa.Function)
	}
	if pred == nil || pred.Blocks == nil || len(pred.Params) == 0 {
		return nil, false
	}
	var list []string
	n := 0
	for _, b := range pred.Blocks {
		r, ok := blockTerm(b).(*ssa.Return)
		if !ok {
			continue
		}
		if len(r.Results) != 1 {
			return nil, false
		}
		call, ok := r.Results[0].(*ssa.Call)
		if !ok || calleeName(call) != "slices.Contains" || len(call.Call.Args) != 2 || call.Call.Args[1] != ssa.Value(pred.Params[0]) {
			return nil, false
		}
		l, ok := c18ConstStringList(w, call.Call.Args[0], nil)
		if !ok || (n > 0 && strings.Join(l, "\x00") != strings.Join(list, "\x00")) {
			return nil, false
		}
		list = l
		n++
	}
	return list, n > 0
}

// c18MapOrigin strips loads and the value half of a comma-ok assertion: the object that IS the map.
func c18MapOrigin(v ssa.Value) ssa.Value {
	for i := 0; i < 4; i++ {
		switch x := v.(type) {
		case *ssa.UnOp:
			if x.Op == token.MUL {
				v = x.X
				continue
			}
		case *ssa.Extract:
			if ta, ok := x.Tuple.(*ssa.TypeAssert); ok && x.Index == 0 {
				return ta
			}
		case *ssa.ChangeType:
			v = x.X
			continue
		}
		break
	}
	return v
}

// c18HasKeyLoop: the function ranges over its (map) parameter — the loop scan/keyset-complete holds to "appends every key".
func c18HasKeyLoop(g *ssa.Function) bool {
	if g.Blocks == nil || len(g.Params) != 1 {
		return false
	}
	for _, rl := range rangeLoops(g) {
		if rl.X == ssa.Value(g.Params[0]) {
			return true
		}
	}
	return false
}

// c18ReportedMaps: the maps ALL of whose keys are elements of slice value v, and how each got there
// ("helper": through a module function handed the map, "library": maps.Keys collected by slices.AppendSeq / slices.Collect).
//
//	append(x, y...)                       keys(x) ∪ keys(y)
//	slices.AppendSeq(x, maps.Keys(m))     keys(x) ∪ {m}
//	slices.Collect(maps.Keys(m))          {m}
//	h(m), h a module function             {m}   (h is held to "reports every key" by scan/keyset-complete)
//	h(…, m, …), h a filtering collector   {m}   minus the constants of h's filter (see c18Collectors)
//
// Anything else contributes nothing (a level that is not seen is reported as missing).

// c18Collectors: the filter-while-collecting loop of a level may sit in a helper of the scan (`unknownKeys(descriptor,
// known)` once per level) instead of in the scan itself. The helper is judged by the same decision as a loop of the
// scan (c18KeyCollector L1–L6, with the map PARAMETER as the map and the helper's other parameters standing for the
// arguments of the call, so that a table of known keys handed to the helper is judged as the caller's table): its
// result has an element for every key of the argument map except the constants of its filter. filter: those constants
// per argument map (they are keys taken out of the report at that map's level); fns: the helpers accepted this way.
type c18Collectors struct {
	filter map[ssa.Value][]string
	fns    map[*ssa.Function]bool
}

func c18ReportedMaps(w *World, v ssa.Value, out map[ssa.Value]string, cols *c18Collectors, depth int) {
	c18ReportedInto(w, v, out, cols, depth, map[*ssa.Phi]bool{})
}

// c18ReportedInto adds to out the maps all of whose keys are elements of v. top: v is a phi under evaluation (a
// loop-carried accumulator seen from inside its own cycle), which stands for "every map" in the intersection below.
//
//	phi(e1, …, en)                        ∩ keys(e_i)   — whichever edge was taken, the value holds these maps' keys.
//
// For the accumulator of a loop, `acc = phi(init, append(acc, k))`, this gives keys(init): what was gathered before the
// loop is still there after it (induction over the iterations: append only grows its first operand).
func c18ReportedInto(w *World, v ssa.Value, out map[ssa.Value]string, cols *c18Collectors, depth int, busy map[*ssa.Phi]bool) (top bool) {
	if depth > 8 {
		return false
	}
	if ph, isPhi := v.(*ssa.Phi); isPhi {
		if busy[ph] {
			return true
		}
		busy[ph] = true
		defer delete(busy, ph)
		var acc map[ssa.Value]string
		for _, e := range ph.Edges {
			sub := map[ssa.Value]string{}
			if c18ReportedInto(w, e, sub, cols, depth+1, busy) {
				continue
			}
			if acc == nil {
				acc = sub
				continue
			}
			for m := range acc {
				if _, both := sub[m]; !both {
					delete(acc, m)
				}
			}
		}
		if acc == nil {
			return true
		}
		for m, how := range acc {
			out[m] = how
		}
		return false
	}
	call, ok := v.(*ssa.Call)
	if !ok {
		return false
	}
	seqMap := func(s ssa.Value) ssa.Value {
		if kc, ok := s.(*ssa.Call); ok && calleeName(kc) == "maps.Keys" && len(kc.Call.Args) == 1 {
			return c18MapOrigin(kc.Call.Args[0])
		}
		return nil
	}
	switch n := calleeName(call); {
	case n == "builtin:append":
		for _, a := range call.Call.Args {
			if c18ReportedInto(w, a, out, cols, depth+1, busy) {
				top = true
			}
		}
		return top
	case n == "slices.AppendSeq" && len(call.Call.Args) == 2:
		top = c18ReportedInto(w, call.Call.Args[0], out, cols, depth+1, busy)
		if m := seqMap(call.Call.Args[1]); m != nil {
			out[m] = "library"
		}
		return top
	case n == "slices.Collect" && len(call.Call.Args) == 1:
		if m := seqMap(call.Call.Args[0]); m != nil {
			out[m] = "library"
		}
	default:
		// a collector first (a plain key-set helper is one with an empty filter); a helper that is not one but ranges over
		// its map parameter is still counted as reporting that map and is then held to "appends every key
		// unconditionally" by scan/keyset-complete, which tells what is wrong with it
		g := staticCallee(call)
		if g == nil || !w.IsProductFn(g) {
			return false
		}
		found := false
		if g.Blocks != nil && len(g.FreeVars) == 0 && len(call.Call.Args) == len(g.Params) && cols != nil {
			bind := c18Bind{}
			for i, a := range call.Call.Args {
				bind[g.Params[i]] = a
			}
			for i, a := range call.Call.Args {
				if _, isMap := a.Type().Underlying().(*types.Map); !isMap {
					continue
				}
				p := ssa.Value(g.Params[i])
				if col := c18KeyCollector(w, g, func(x ssa.Value) bool { return x == p }, bind); col.ok {
					m := c18MapOrigin(a)
					out[m] = "collector"
					cols.filter[m] = append(cols.filter[m], col.filter...)
					cols.fns[g] = true
					found = true
				}
			}
		}
		if !found && len(call.Call.Args) == 1 {
			if _, isMap := call.Call.Args[0].Type().Underlying().(*types.Map); isMap && c18HasKeyLoop(g) {
				out[c18MapOrigin(call.Call.Args[0])] = "helper"
			}
		}
	}
	return false
}

// ---------- constant key tables -----------------------------------------------------------------------------------------
//
// The known keys may be spelled in the code that tests them (`switch`, `==` chain) or be held in a TABLE that the code
// consults: a slice, an array or a map (set), local or package-level, tested by slices.Contains / slices.Index /
// slices.BinarySearch, by a lookup `table[key]` (comma-ok, or the value of a bool-valued set), by a hand-written loop
// `for _, n := range table { if n == key … }`, or used to drive the removal (`for _, n := range table { delete(m, n) }`).
// For the property the spelling is irrelevant: what matters is the SET of strings the table can hold while the
// program runs. The helpers below return a finite set of string constants that is a superset of that set
// at every moment of every execution; the caller holds every element of it to the condition on known keys (JSON name of
// an ocispec.Descriptor field / "targetArtifact"). A superset is the safe direction: a key is taken out of the report
// only if it is in the table, hence only if it is one of the constants returned.

// c18Bind: what the parameters of a helper stand for during the one call under analysis (parameter → argument).
type c18Bind map[ssa.Value]ssa.Value

func (b c18Bind) of(v ssa.Value) ssa.Value {
	if a, ok := b[v]; ok && a != nil {
		return a
	}
	return v
}

// c18ReadOnlyCallee: the value is argument #i (only) of a call to a function with a body, whose parameter #i is in turn
// only read (readOnly decides that for the parameter).
func c18ReadOnlyCallee(call *ssa.Call, v ssa.Value, depth int, readOnly func(ssa.Value, int) bool) bool {
	g := staticCallee(call)
	if g == nil || g.Blocks == nil || len(g.FreeVars) != 0 || len(g.Params) != len(call.Call.Args) || depth > 2 {
		return false
	}
	idx := -1
	for i, a := range call.Call.Args {
		if a == v {
			if idx >= 0 {
				return false
			}
			idx = i
		}
	}
	return idx >= 0 && readOnly(g.Params[idx], depth+1)
}

// c18ConstMapKeys: v is a map whose key set is always a subset of the returned constants:
//   - a map made by the function itself (literal or make), the result of a constructor function (c18MapFromConstructor)
//     — or (a load of) a package-level map variable that is assigned exactly once, in a package initialiser, such a map;
//   - every insertion into that map has a key that is a string constant (or an element of another constant table), and
//     insertions into a package-level map are made by init functions only;
//   - the map value is otherwise only looked up, ranged over, measured or handed to a module helper that does the same
//     with its parameter: it is never stored elsewhere or merged with another map, so there is no other way to insert
//     a key.
//
// bind: v may be a parameter of the helper under analysis that stands for an argument of the call (see c18Bind).
func c18ConstMapKeys(w *World, v ssa.Value, bind c18Bind, depth int) ([]string, bool) {
	v = bind.of(v)
	if depth > 3 {
		return nil, false
	}
	if _, isMap := v.Type().Underlying().(*types.Map); !isMap {
		return nil, false
	}
	switch x := v.(type) {
	case *ssa.MakeMap:
		return c18MapBuiltFromConsts(w, x, nil, nil, false, depth)
	case *ssa.Call:
		// a local set made by a constructor function and only read afterwards
		if !c18MapReadOnlyUses(x, 0) {
			return nil, false
		}
		return c18MapFromConstructor(w, x, depth)
	case *ssa.UnOp:
		g, ok := x.X.(*ssa.Global)
		if x.Op != token.MUL || !ok || g.Pkg == nil {
			return nil, false
		}
		// the language runs package initialisers once, before any other function of the package
		isInit := func(f *ssa.Function) bool {
			return f.Pkg == g.Pkg && f.Parent() == nil && f.Signature.Recv() == nil && (f.Name() == "init" || strings.HasPrefix(f.Name(), "init#"))
		}
		var initStore *ssa.Store
		var filled []string // keys inserted by the package's init functions after the variable was assigned
		for _, f := range w.Funcs {
			for _, b := range f.Blocks {
				for _, in := range b.Instrs {
					for _, op := range in.Operands(nil) {
						if *op != ssa.Value(g) {
							continue
						}
						switch y := in.(type) {
						case *ssa.Store:
							if y.Addr != ssa.Value(g) || initStore != nil || !isInit(f) {
								return nil, false
							}
							initStore = y
						case *ssa.UnOp:
							if y.Op != token.MUL {
								return nil, false
							}
							if c18MapReadOnlyUses(y, 0) {
								continue
							}
							// `func init() { for _, n := range list { known[n] = struct{}{} } }`: an initialiser may also insert,
							// under the same condition on the keys
							ks, ok := c18MapBuiltFromConsts(w, y, nil, nil, false, depth)
							if !isInit(f) || !ok {
								return nil, false
							}
							filled = append(filled, ks...)
						default:
							return nil, false // address taken
						}
					}
				}
			}
		}
		if initStore == nil {
			return nil, false
		}
		switch mv := initStore.Val.(type) {
		case *ssa.MakeMap:
			ks, ok := c18MapBuiltFromConsts(w, mv, initStore, nil, false, depth)
			return append(ks, filled...), ok
		case *ssa.Call:
			// `var known = newSet("a", "b", …)`: the constructor's result goes nowhere but into the variable
			for _, r := range *mv.Referrers() {
				if _, isDbg := r.(*ssa.DebugRef); !isDbg && r != ssa.Instruction(initStore) {
					return nil, false
				}
			}
			ks, ok := c18MapFromConstructor(w, mv, depth)
			return append(ks, filled...), ok
		}
	}
	return nil, false
}

// c18MapFromConstructor: the call's result is a map that the callee makes afresh in every call, fills only under keys
// that are string constants or elements of constant tables — the callee's parameters standing for the arguments of this
// call (`newSet("a", "b")`, `toSet(knownList)`) — and hands to nobody but its caller (c18MapBuiltFromConsts with the
// return statements as the one permitted way out). What the caller does with it is the caller's obligation.
func c18MapFromConstructor(w *World, call *ssa.Call, depth int) ([]string, bool) {
	g := staticCallee(call)
	if g == nil || g.Blocks == nil || len(g.FreeVars) != 0 || len(g.Params) != len(call.Call.Args) || g.Signature.Results().Len() != 1 || depth > 2 {
		return nil, false
	}
	bind := c18Bind{}
	for i, a := range call.Call.Args {
		bind[g.Params[i]] = a
	}
	var keys []string
	n := 0
	for _, b := range g.Blocks {
		r, ok := blockTerm(b).(*ssa.Return)
		if !ok {
			continue
		}
		n++
		mm, ok := r.Results[0].(*ssa.MakeMap)
		if !ok {
			return nil, false
		}
		ks, ok := c18MapBuiltFromConsts(w, mm, nil, bind, true, depth+1)
		if !ok {
			return nil, false
		}
		keys = append(keys, ks...)
	}
	return keys, n > 0
}

// c18MapReadOnlyUses: the map value is only looked up, ranged over or measured.
func c18MapReadOnlyUses(v ssa.Value, depth int) bool {
	refs := v.Referrers()
	if refs == nil {
		return false
	}
	for _, r := range *refs {
		switch x := r.(type) {
		case *ssa.DebugRef, *ssa.Range:
		case *ssa.Lookup:
			if x.X != v || x.Index == v {
				return false
			}
		case *ssa.Call:
			if calleeName(x) != "builtin:len" && !c18ReadOnlyCallee(x, v, depth, c18MapReadOnlyUses) {
				return false
			}
		default:
			return false
		}
	}
	return true
}

// c18MapBuiltFromConsts: every use of the made map is an insertion under a constant key (or an element of a constant
// table), a read, the one store `keep` that gives the map its package-level name, or (returned) the return statement of
// the constructor function that made it. bind: what the parameters of that constructor stand for.
func c18MapBuiltFromConsts(w *World, mm ssa.Value, keep *ssa.Store, bind c18Bind, returned bool, depth int) ([]string, bool) {
	if mm.Referrers() == nil {
		return nil, false
	}
	keys := []string{}
	for _, r := range *mm.Referrers() {
		switch y := r.(type) {
		case *ssa.DebugRef, *ssa.Range:
		case *ssa.Return:
			if !returned {
				return nil, false
			}
		case *ssa.MapUpdate:
			if y.Map != mm || y.Value == mm {
				return nil, false
			}
			k := y.Key
			if ct, ok := k.(*ssa.ChangeType); ok {
				k = ct.X
			}
			if kc, ok := k.(*ssa.Const); ok && kc.Value != nil && kc.Value.Kind() == constant.String {
				keys = append(keys, constant.StringVal(kc.Value))
			} else if ks, ok := c18ElemOfConstSet(w, k, bind, depth+1); ok {
				keys = append(keys, ks...)
			} else {
				return nil, false
			}
		case *ssa.Store:
			if keep == nil || y != keep || y.Val != mm {
				return nil, false
			}
		case *ssa.Lookup:
			if y.X != mm {
				return nil, false
			}
		case *ssa.Call:
			if calleeName(y) != "builtin:len" && !c18ReadOnlyCallee(y, mm, 0, c18MapReadOnlyUses) {
				return nil, false
			}
		default:
			return nil, false
		}
	}
	return keys, true
}

// c18ConstArray: obj is the address of an array of strings (a local or a package-level variable) whose elements are
// always among the returned constants: the array is written only element-wise, with string constants (an array has no
// aliases: a copy is another array), and read element-wise, as a whole value that is only indexed, or through slices that
// are only read. "" stands for an element that is never written.
func c18ConstArray(w *World, obj ssa.Value) ([]string, bool) {
	pt, ok := obj.Type().Underlying().(*types.Pointer)
	if !ok {
		return nil, false
	}
	arr, ok := pt.Elem().Underlying().(*types.Array)
	if !ok || arr.Len() > 64 {
		return nil, false
	}
	if b, ok := arr.Elem().Underlying().(*types.Basic); !ok || b.Info()&types.IsString == 0 {
		return nil, false
	}
	var users []ssa.Instruction
	switch x := obj.(type) {
	case *ssa.Alloc:
		if x.Referrers() == nil {
			return nil, false
		}
		users = *x.Referrers()
	case *ssa.Global:
		for _, f := range w.Funcs {
			for _, b := range f.Blocks {
				for _, in := range b.Instrs {
					for _, op := range in.Operands(nil) {
						if *op == obj {
							users = append(users, in)
							break
						}
					}
				}
			}
		}
	default:
		return nil, false
	}
	out := []string{}
	written := map[int64]bool{}
	for _, in := range users {
		switch x := in.(type) {
		case *ssa.DebugRef:
		case *ssa.IndexAddr:
			if x.X != obj || x.Referrers() == nil {
				return nil, false
			}
			for _, rr := range *x.Referrers() {
				switch y := rr.(type) {
				case *ssa.DebugRef:
				case *ssa.UnOp:
					if y.Op != token.MUL {
						return nil, false
					}
				case *ssa.Store:
					kc, isK := y.Val.(*ssa.Const)
					if y.Addr != ssa.Value(x) || !isK || kc.Value == nil || kc.Value.Kind() != constant.String {
						return nil, false
					}
					out = append(out, constant.StringVal(kc.Value))
					if ic, isC := x.Index.(*ssa.Const); isC && ic.Value != nil {
						if idx, exact := constant.Int64Val(constant.ToInt(ic.Value)); exact {
							written[idx] = true
						}
					}
				default:
					return nil, false
				}
			}
		case *ssa.Slice:
			if x.X != obj || !c18ReadOnlyUses(x, 0) {
				return nil, false
			}
		case *ssa.UnOp:
			// the array as a value: only indexed
			if x.Op != token.MUL || x.X != obj || x.Referrers() == nil {
				return nil, false
			}
			for _, rr := range *x.Referrers() {
				switch y := rr.(type) {
				case *ssa.DebugRef:
				case *ssa.Index:
					if y.X != ssa.Value(x) {
						return nil, false
					}
				default:
					return nil, false
				}
			}
		default:
			return nil, false
		}
	}
	if int64(len(written)) < arr.Len() {
		out = append(out, "")
	}
	return out, true
}

// c18ConstSet: the constants a table (slice, map, or array given by value) can hold.
func c18ConstSet(w *World, v ssa.Value, bind c18Bind, depth int) ([]string, bool) {
	v = bind.of(v)
	switch v.Type().Underlying().(type) {
	case *types.Map:
		return c18ConstMapKeys(w, v, nil, depth)
	case *types.Slice:
		return c18ConstStringList(w, v, nil)
	case *types.Array:
		if u, ok := v.(*ssa.UnOp); ok && u.Op == token.MUL {
			return c18ConstArray(w, u.X)
		}
	}
	return nil, false
}

// c18ElemOfConstSet: whenever v is evaluated it is one of the returned constants: an element read from a constant
// list or array (at any index), or the key that a `range` over a constant map yields.
func c18ElemOfConstSet(w *World, v ssa.Value, bind c18Bind, depth int) ([]string, bool) {
	if depth > 3 {
		return nil, false
	}
	if ct, ok := v.(*ssa.ChangeType); ok {
		v = ct.X
	}
	switch x := v.(type) {
	case *ssa.UnOp:
		if ia, ok := x.X.(*ssa.IndexAddr); ok && x.Op == token.MUL {
			if _, isPtr := ia.X.Type().Underlying().(*types.Pointer); isPtr {
				return c18ConstArray(w, ia.X)
			}
			return c18ConstSet(w, ia.X, bind, depth)
		}
	case *ssa.Index:
		return c18ConstSet(w, x.X, bind, depth)
	case *ssa.Extract:
		if nx, ok := x.Tuple.(*ssa.Next); ok && x.Index == 1 && !nx.IsString {
			if rg, ok := nx.Iter.(*ssa.Range); ok {
				return c18ConstMapKeys(w, rg.X, bind, depth)
			}
		}
	}
	return nil, false
}

// c18IndexTest: `slices.Index(<constant list>, key)` compared with 0 / -1 so that cond == truth means "found".
func c18IndexTest(w *World, x *ssa.BinOp, truth bool, isKey func(ssa.Value) bool, bind c18Bind) ([]string, bool) {
	call, ok := x.X.(*ssa.Call)
	k, isK := x.Y.(*ssa.Const)
	if !ok || !isK || k.Value == nil || k.Value.Kind() != constant.Int || calleeName(call) != "slices.Index" || len(call.Call.Args) != 2 || !isKey(call.Call.Args[1]) {
		return nil, false
	}
	n, exact := constant.Int64Val(k.Value)
	if !exact {
		return nil, false
	}
	found := false
	switch {
	case x.Op == token.GEQ && n == 0, x.Op == token.GTR && n == -1, x.Op == token.NEQ && n == -1:
		found = truth
	case x.Op == token.LSS && n == 0, x.Op == token.LEQ && n == -1, x.Op == token.EQL && n == -1:
		found = !truth
	}
	if !found {
		return nil, false
	}
	return c18ConstStringList(w, call.Call.Args[0], bind)
}

// ---------- flag variables ----------------------------------------------------------------------------------------------
//
// "Is the key a known one" may be decided by the branch that acts on it (`if key == "a" { continue }`) or be recorded in
// a boolean first and acted upon later (`known := false; for _, n := range table { if n == key { known = true } }; if
// !known { report }`). c18KeyEdges computes, for a REGION of a function during which the key does not change (one
// iteration of the loop over the map; one call of a predicate), the branch edges E on which the key is known to be one
// of a set of constants:
//
//	(E1) edges whose condition says so directly (c18IsOneOfConsts);
//	(E2) edges `flag == want` where the flag is known to differ from `want` unless an edge of E has been passed since the
//	     region was entered: the flag is the constant !want, a condition of (E1) (`known := key == "a"`), the negation of
//	     such a flag, or a phi of the region all of whose operands that arrive over an OPEN edge (one that can be reached
//	     from the region's start without passing an edge of E) are such flags.
//
// Soundness of (E2), by induction on the length of the execution since the region was entered: a phi of the region takes
// its value when control enters its block; if no edge of E has been passed by then, control came in over an open edge,
// whose operand is a flag that (induction) differs from `want` at that moment. A phi must belong to the region and must
// not sit in the region's first block (whose incoming edge comes from outside): every block of a loop body is executed
// anew in each iteration before any use of its values in that iteration (the header dominates it and is not passed
// inside an iteration), so no value of an earlier iteration (earlier key) is read; a flag declared outside the loop
// arrives through a phi of the loop HEADER, which is not in the region and is therefore not accepted.
// "An edge of E has been passed" is a fact about the key (it is one of the constants), which stays true for the rest of
// the region since the key does not change.
// While the claim of an edge e = `flag == want` is being proved, e itself is counted among E (see c18KeyEdges): e is
// taken only when flag == want, so it cannot be the first edge of E ∪ {e} to be passed.

type c18Region struct {
	w     *World
	fn    *ssa.Function
	start *ssa.BasicBlock
	stop  *ssa.BasicBlock // not entered (the loop header); nil: none
	in    func(*ssa.BasicBlock) bool
	isKey func(ssa.Value) bool
	bind  c18Bind // tables the region receives as parameters: the arguments of the call under analysis
	depth int
	edges map[edgeKey][]string // E, with the constants of each edge
	open  map[edgeKey]bool
	reach map[int]bool // blocks reachable from start over open edges (start included)
}

func c18KeyEdges(w *World, fn *ssa.Function, start, stop *ssa.BasicBlock, in func(*ssa.BasicBlock) bool, isKey func(ssa.Value) bool, bind c18Bind, depth int) *c18Region {
	r := &c18Region{w: w, fn: fn, start: start, stop: stop, in: in, isKey: isKey, bind: bind, depth: depth, edges: map[edgeKey][]string{}}
	branches := func(visit func(b *ssa.BasicBlock, cond ssa.Value)) {
		for _, b := range fn.Blocks {
			if iff, ok := blockTerm(b).(*ssa.If); ok && len(b.Succs) == 2 && b.Succs[0] != b.Succs[1] {
				visit(b, iff.Cond)
			}
		}
	}
	branches(func(b *ssa.BasicBlock, cond ssa.Value) {
		for j := 0; j < 2; j++ {
			if ks, ok := c18IsOneOfConsts(w, cond, j == 0, isKey, bind, depth); ok {
				r.edges[edgeKey{b.Index, j}] = ks
			}
		}
	})
	for round := 0; round < 3; round++ {
		r.computeOpen()
		changed := false
		branches(func(b *ssa.BasicBlock, cond ssa.Value) {
			if !r.reach[b.Index] {
				return
			}
			if !c18IsFlag(cond) {
				return
			}
			for j := 0; j < 2; j++ {
				e := edgeKey{b.Index, j}
				if _, has := r.edges[e]; has {
					continue
				}
				// the edge under test is itself taken only when flag == want: it may be counted among E while its own
				// claim is proved (`found = found || n == key`: the phi after the || receives the constant true over the
				// edge `found is true`). If it were the first edge of E ∪ {e} to be passed, the flag would have been != want
				// just before (induction hypothesis) and the branch would not have taken it.
				r.edges[e] = nil
				r.computeOpen()
				if ks, ok := r.flag(cond, j == 0); ok {
					r.edges[e] = append([]string{}, ks...)
					changed = true
				} else {
					delete(r.edges, e)
				}
				r.computeOpen()
			}
		})
		if !changed {
			break
		}
	}
	r.computeOpen()
	return r
}

// c18StripNot reduces `!x`, `x == true`, `x != false` (→ x) and `x == false`, `x != true` (→ !x): the condition and the
// truth value under which the original one holds.
func c18StripNot(cond ssa.Value, truth bool) (ssa.Value, bool) {
	for i := 0; i < 8; i++ {
		switch x := cond.(type) {
		case *ssa.UnOp:
			if x.Op == token.NOT {
				cond, truth = x.X, !truth
				continue
			}
		case *ssa.BinOp:
			if x.Op == token.EQL || x.Op == token.NEQ {
				other, k := x.X, x.Y
				if _, isK := k.(*ssa.Const); !isK {
					other, k = x.Y, x.X
				}
				if kc, isK := k.(*ssa.Const); isK && kc.Value != nil && kc.Value.Kind() == constant.Bool {
					if constant.BoolVal(kc.Value) != (x.Op == token.EQL) {
						truth = !truth
					}
					cond = other
					continue
				}
			}
		}
		break
	}
	return cond, truth
}

// c18IsFlag: the condition is a merged boolean (possibly negated), not a test written at the branch.
func c18IsFlag(cond ssa.Value) bool {
	cond, _ = c18StripNot(cond, true)
	_, isPhi := cond.(*ssa.Phi)
	return isPhi
}

func (r *c18Region) computeOpen() {
	r.open = map[edgeKey]bool{}
	r.reach = map[int]bool{r.start.Index: true}
	stack := []*ssa.BasicBlock{r.start}
	for len(stack) > 0 {
		b := stack[len(stack)-1]
		stack = stack[:len(stack)-1]
		for j, s := range b.Succs {
			e := edgeKey{b.Index, j}
			if _, isE := r.edges[e]; isE {
				continue
			}
			r.open[e] = true
			if s != r.stop && !r.reach[s.Index] {
				r.reach[s.Index] = true
				stack = append(stack, s)
			}
		}
	}
}

// flag: v == want only if the key is one of the returned constants (see (E2)).
func (r *c18Region) flag(v ssa.Value, want bool) ([]string, bool) {
	type goal struct {
		ph   *ssa.Phi
		want bool
	}
	assumed := map[goal]bool{}
	consts := []string{}
	var safe func(v ssa.Value, want bool, d int) bool
	safe = func(v ssa.Value, want bool, d int) bool {
		if d > 10 {
			return false
		}
		v, want = c18StripNot(v, want)
		switch x := v.(type) {
		case *ssa.Const:
			return x.Value != nil && x.Value.Kind() == constant.Bool && constant.BoolVal(x.Value) != want
		case *ssa.Phi:
			if assumed[goal{x, want}] {
				return true // the induction hypothesis
			}
			if !r.in(x.Block()) || x.Block() == r.stop || x.Block() == r.start {
				return false // not (re-)evaluated inside the region, or entered from outside it
			}
			assumed[goal{x, want}] = true
			for i, e := range x.Edges {
				p := x.Block().Preds[i]
				isOpen := false
				for j, s := range p.Succs {
					if s == x.Block() && r.open[edgeKey{p.Index, j}] {
						isOpen = true
					}
				}
				if isOpen && !safe(e, want, d+1) {
					return false
				}
			}
			return true
		}
		if ks, ok := c18IsOneOfConsts(r.w, v, want, r.isKey, r.bind, r.depth); ok {
			consts = append(consts, ks...)
			return true
		}
		return false
	}
	if !safe(v, want, 0) {
		return nil, false
	}
	return consts, true
}

// ---------- the unknown-field scan: filter while collecting ------------------------------------------------------------
//
// The scan may be written as "delete the known keys, then collect what is left" or as "range over the map and collect
// every key that is not a known one" (switch / if chain / slices.Contains over a constant list), into one accumulator
// for both levels or into one per level. What the clause needs is the same in every spelling:
//
//	the slice returned has an element for every key of the map, except keys that are members of a CONSTANT set,
//
// and that constant set is then held to the same condition as the keys of the delete statements (JSON names of
// ocispec.Descriptor at the descriptor level, "targetArtifact" at the payload level).
//
// c18KeyCollector decides the first half for one function G and one map (given by isM on the ranged operand):
//
//	(L1) G has a `range` loop over the map;
//	(L2) the loop is left only through its header (no break / return / goto out of the body): every key gets an iteration;
//	(L3) the body has append sites whose appended elements include the range key;
//	(L4) an iteration that reaches the next one without passing such a site has passed an edge on which the key is known
//	     to be one of a set of string constants F: the true edge of `key == <string constant>`, of a membership test of
//	     the key in a constant table (c18IsOneOfConsts), or of a flag that records such a test (c18KeyEdges);
//	(L5) what those sites appended is still in the slice returned: a forward must-analysis over G keeps, per program
//	     point, the set S of slice values that were obtained from the result of the LATEST site execution by growth steps
//	     only (append with the value as base or as spread operand, phi selecting such a value, slices.AppendSeq/Grow/Clip);
//	     a site whose base is not in S empties S (the earlier keys are lost), any other definition of a value takes it
//	     out of S; every return must return a member of S (or no site can have run on any path to it);
//	(L6) no return is reachable from the entry without leaving the loop through its header: the loop is not bypassed.
//
// Under (L1)–(L6), for every key k of the map with k ∉ F some site appended k in k's iteration (L2, L4), and the value
// returned descends from that site's result through growth steps only (L5, L6), so it has one element per such key: it
// is empty only if every key of the map is in F. (Elements can be overwritten through an alias of the backing array, never
// removed: the consumer of the scan tests len(result), which only growth steps change.)

type c18Collect struct {
	ok     bool
	filter []string // F
	why    string
}

func c18KeyCollector(w *World, G *ssa.Function, isM func(ssa.Value) bool, bind c18Bind) c18Collect {
	last := c18Collect{why: "no range loop over the map"}
	for _, rl := range rangeLoops(G) {
		if _, isMap := rl.X.Type().Underlying().(*types.Map); !isMap || !isM(rl.X) {
			continue
		}
		last = c18CollectLoop(w, G, rl, bind)
		if last.ok {
			return last
		}
	}
	return last
}

func c18IsRangeKey(v ssa.Value, rl rangeLoop) bool {
	if ct, ok := v.(*ssa.ChangeType); ok {
		v = ct.X
	}
	ex, ok := v.(*ssa.Extract)
	return ok && ex.Tuple == ssa.Value(rl.Next) && ex.Index == 1
}

// c18AppendsKey: call is append(base, e1, …, en) (or append(base, lit...)) with one of the e_i the range key of rl.
func c18AppendsKey(call *ssa.Call, rl rangeLoop) bool {
	if calleeName(call) != "builtin:append" || len(call.Call.Args) != 2 {
		return false
	}
	sl, ok := call.Call.Args[1].(*ssa.Slice)
	if !ok {
		return false
	}
	al, ok := sl.X.(*ssa.Alloc)
	if !ok || al.Referrers() == nil {
		return false
	}
	for _, r := range *al.Referrers() {
		ia, ok := r.(*ssa.IndexAddr)
		if !ok || ia.Referrers() == nil {
			continue
		}
		for _, rr := range *ia.Referrers() {
			if st, ok := rr.(*ssa.Store); ok && st.Addr == ssa.Value(ia) && c18IsRangeKey(st.Val, rl) {
				return true
			}
		}
	}
	return false
}

// c18IsOneOfConsts: cond evaluating to truth means "the value recognised by isKey is one of the returned string
// constants": `key == "c"`, `key != "c"` negated, `key == <element of a constant table>` (the comparison of a hand-written
// search loop), slices.Contains / slices.Index / slices.BinarySearch over a constant list, a lookup of the key in a constant
// map (`_, ok := table[key]`, or `table[key]` of a bool-valued set: true only for a key that is in the map), or a module
// predicate p(key) that returns true only for constants (c18PredicateConsts). The key itself must be the operand: a
// transformed key (lower-cased, trimmed) is not recognised — the alternative spellings of a known key are unknown keys.
func c18IsOneOfConsts(w *World, cond ssa.Value, truth bool, isKey func(ssa.Value) bool, bind c18Bind, depth int) ([]string, bool) {
	cond, truth = c18StripNot(cond, truth)
	switch x := cond.(type) {
	case *ssa.BinOp:
		if ks, ok := c18IndexTest(w, x, truth, isKey, bind); ok {
			return ks, true
		}
		if (x.Op != token.EQL && x.Op != token.NEQ) || (x.Op == token.EQL) != truth {
			return nil, false
		}
		var other ssa.Value
		if isKey(x.X) {
			other = x.Y
		} else if isKey(x.Y) {
			other = x.X
		}
		if other == nil {
			return nil, false
		}
		if k, isK := other.(*ssa.Const); isK {
			if k.Value == nil || k.Value.Kind() != constant.String {
				return nil, false
			}
			return []string{constant.StringVal(k.Value)}, true
		}
		return c18ElemOfConstSet(w, other, bind, 0)
	case *ssa.Extract:
		// the ok half of a comma-ok lookup in a constant map; the found half of a binary search in a constant list
		// (found means list[i] == key for the i returned, whether or not the list is sorted)
		if !truth || x.Index != 1 {
			return nil, false
		}
		switch t := x.Tuple.(type) {
		case *ssa.Lookup:
			if t.CommaOk && isKey(t.Index) {
				return c18ConstMapKeys(w, t.X, bind, 0)
			}
		case *ssa.Call:
			if calleeName(t) == "slices.BinarySearch" && len(t.Call.Args) == 2 && isKey(t.Call.Args[1]) {
				return c18ConstStringList(w, t.Call.Args[0], bind)
			}
		}
	case *ssa.Lookup:
		// a bool-valued set: table[key] is true only if the key is in the map
		if !truth || x.CommaOk || !isKey(x.Index) {
			return nil, false
		}
		if b, isB := x.Type().Underlying().(*types.Basic); !isB || b.Kind() != types.Bool {
			return nil, false
		}
		return c18ConstMapKeys(w, x.X, bind, 0)
	case *ssa.Call:
		if !truth {
			return nil, false
		}
		if calleeName(x) == "slices.Contains" && len(x.Call.Args) == 2 && isKey(x.Call.Args[1]) {
			return c18ConstStringList(w, x.Call.Args[0], bind)
		}
		if g := staticCallee(x); g != nil && w.IsProductFn(g) && g.Blocks != nil && len(g.FreeVars) == 0 && depth < 2 {
			idx := -1
			for i, a := range x.Call.Args {
				if isKey(a) {
					if idx >= 0 {
						return nil, false
					}
					idx = i
				}
			}
			if idx >= 0 && len(x.Call.Args) == len(g.Params) {
				// the other arguments are what the predicate's other parameters stand for during this call: a table
				// handed to the predicate (`contains(known, key)`, `known.has(key)`) is judged as the caller's table
				inner := c18Bind{}
				for i, a := range x.Call.Args {
					if i != idx {
						inner[g.Params[i]] = bind.of(a)
					}
				}
				return c18PredicateConsts(w, g, idx, inner, depth+1)
			}
		}
	}
	return nil, false
}

// c18PredicateConsts: the module predicate g returns true ONLY when its parameter #idx is one of the returned string
// constants. Decided on g's CFG with the whole call as the region (c18KeyEdges): E = the branch edges on which the
// parameter is known to be one of the constants. A return that can be reached without an edge of E must return a value
// that is itself false unless the parameter is a constant: the constant false, a comparison param == "c" (or another
// recognised condition), or a flag in the sense of (E2).
func c18PredicateConsts(w *World, g *ssa.Function, idx int, bind c18Bind, depth int) ([]string, bool) {
	if g.Signature.Results().Len() != 1 || !types.Identical(g.Signature.Results().At(0).Type().Underlying(), types.Typ[types.Bool]) {
		return nil, false
	}
	param := ssa.Value(g.Params[idx])
	// the parameter must not be reassigned through its address (it then lives in an Alloc and is not `param` anyway)
	isKey := func(v ssa.Value) bool {
		if ct, ok := v.(*ssa.ChangeType); ok {
			v = ct.X
		}
		return v == param
	}
	reg := c18KeyEdges(w, g, g.Blocks[0], nil, func(*ssa.BasicBlock) bool { return true }, isKey, bind, depth)
	var consts []string
	for e, ks := range reg.edges {
		if reg.reach[e.b] {
			consts = append(consts, ks...)
		}
	}
	n := 0
	for _, b := range g.Blocks {
		r, ok := blockTerm(b).(*ssa.Return)
		if !ok {
			continue
		}
		n++
		if !reg.reach[b.Index] {
			continue
		}
		if len(r.Results) != 1 {
			return nil, false
		}
		ks, ok := reg.flag(r.Results[0], true)
		if !ok {
			return nil, false
		}
		consts = append(consts, ks...)
	}
	sort.Strings(consts)
	return consts, n > 0
}

func c18CollectLoop(w *World, G *ssa.Function, rl rangeLoop, bind c18Bind) c18Collect {
	lb := loopBlocks(rl.Header)
	// (L2)
	for bi := range lb {
		b := G.Blocks[bi]
		if b == rl.Header {
			continue
		}
		for _, s := range b.Succs {
			if !lb[s.Index] {
				return c18Collect{why: "the loop over the map can be left from its body at " + w.InstrPos(blockTerm(b)) + ": later keys get no iteration"}
			}
		}
	}
	if len(rl.Header.Succs) != 2 || lb[rl.Header.Succs[1].Index] {
		return c18Collect{why: "unexpected loop shape"}
	}
	// (L3)
	sites := map[*ssa.Call]bool{}
	siteBlock := map[int]bool{}
	for bi := range lb {
		for _, in := range G.Blocks[bi].Instrs {
			if call, ok := in.(*ssa.Call); ok && c18AppendsKey(call, rl) {
				sites[call] = true
				siteBlock[bi] = true
			}
		}
	}
	if len(sites) == 0 {
		return c18Collect{why: "the loop over the map does not append its key"}
	}
	// (L4): the region is one iteration of the loop (the key is the same value from the body's first block to the header)
	var filter []string
	reg := c18KeyEdges(w, G, rl.Body, rl.Header, func(b *ssa.BasicBlock) bool { return lb[b.Index] && b != rl.Header }, func(v ssa.Value) bool { return c18IsRangeKey(v, rl) }, bind, 0)
	seen := map[int]bool{rl.Body.Index: true}
	stack := []*ssa.BasicBlock{rl.Body}
	for len(stack) > 0 {
		b := stack[len(stack)-1]
		stack = stack[:len(stack)-1]
		if siteBlock[b.Index] {
			continue // the key has been appended on this path
		}
		for j, s := range b.Succs {
			if ks, ok := reg.edges[edgeKey{b.Index, j}]; ok {
				filter = append(filter, ks...)
				continue // on this edge the key is one of the constants
			}
			if s == rl.Header {
				return c18Collect{why: "an iteration can skip the append at " + w.InstrPos(blockTerm(b)) + " without the key having been compared equal to a constant or found in a constant table: some keys are not reported"}
			}
			if !seen[s.Index] {
				seen[s.Index] = true
				stack = append(stack, s)
			}
		}
	}
	// (L6) — except over an edge on which the map is known to be empty (`if len(m) == 0 { return nil }`): with no keys there
	// is nothing to report for this map, and whatever such a return hands back is still held to (L5)
	{
		seen := map[int]bool{0: true}
		stack := []*ssa.BasicBlock{G.Blocks[0]}
		for len(stack) > 0 {
			b := stack[len(stack)-1]
			stack = stack[:len(stack)-1]
			if _, isRet := blockTerm(b).(*ssa.Return); isRet {
				return c18Collect{why: "the return at " + w.InstrPos(blockTerm(b)) + " is reachable without running the loop over the map"}
			}
			iff, isIf := blockTerm(b).(*ssa.If)
			for j, s := range b.Succs {
				if b == rl.Header && j == 1 {
					continue
				}
				if isIf && len(b.Succs) == 2 && b.Succs[0] != b.Succs[1] && c18SaysEmpty(iff.Cond, j == 0, rl.X) {
					continue
				}
				if !seen[s.Index] {
					seen[s.Index] = true
					stack = append(stack, s)
				}
			}
		}
	}
	// (L5)
	if ok, why := c18AccumulatorKept(w, G, sites); !ok {
		return c18Collect{why: why}
	}
	return c18Collect{ok: true, filter: filter}
}

// c18SaysEmpty: cond evaluating to truth means the map m (the very SSA value the loop ranges over, or another load of
// the same variable with no store in between is NOT assumed: only the same value counts) has no keys: `len(m) == 0`,
// `len(m) < 1`, `m == nil`, and their negations on the other edge.
func c18SaysEmpty(cond ssa.Value, truth bool, m ssa.Value) bool {
	for {
		u, ok := cond.(*ssa.UnOp)
		if !ok || u.Op != token.NOT {
			break
		}
		truth = !truth
		cond = u.X
	}
	bo, ok := cond.(*ssa.BinOp)
	if !ok {
		return false
	}
	if (bo.X == m && isNilConst(bo.Y)) || (bo.Y == m && isNilConst(bo.X)) {
		return (bo.Op == token.EQL && truth) || (bo.Op == token.NEQ && !truth)
	}
	isLen := func(v ssa.Value) bool {
		call, ok := v.(*ssa.Call)
		return ok && calleeName(call) == "builtin:len" && len(call.Call.Args) == 1 && call.Call.Args[0] == m
	}
	intOf := func(v ssa.Value) (int64, bool) {
		k, ok := v.(*ssa.Const)
		if !ok || k.Value == nil || k.Value.Kind() != constant.Int {
			return 0, false
		}
		return constant.Int64Val(k.Value)
	}
	op, x, y := bo.Op, bo.X, bo.Y
	if isLen(y) {
		// mirror: c OP len(m)  ≡  len(m) OP' c
		x, y = y, x
		switch op {
		case token.LSS:
			op = token.GTR
		case token.GTR:
			op = token.LSS
		case token.LEQ:
			op = token.GEQ
		case token.GEQ:
			op = token.LEQ
		}
	}
	n, isInt := intOf(y)
	if !isLen(x) || !isInt {
		return false
	}
	switch {
	case op == token.EQL && n == 0, op == token.LEQ && n == 0, op == token.LSS && n == 1:
		return truth
	case op == token.NEQ && n == 0, op == token.GTR && n == 0, op == token.GEQ && n == 1:
		return !truth
	}
	return false
}

// c18AccSet: a set of slice values; top = "no site has run yet": every value qualifies.
type c18AccSet struct {
	set bool // the state has been computed
	top bool
	m   map[ssa.Value]bool
}

func (s c18AccSet) has(v ssa.Value) bool { return s.top || s.m[v] }

func (s c18AccSet) clone() c18AccSet {
	n := c18AccSet{set: s.set, top: s.top, m: map[ssa.Value]bool{}}
	for v := range s.m {
		n.m[v] = true
	}
	return n
}

func (s c18AccSet) equal(o c18AccSet) bool {
	if s.set != o.set || s.top != o.top || len(s.m) != len(o.m) {
		return false
	}
	for v := range s.m {
		if !o.m[v] {
			return false
		}
	}
	return true
}

// c18GrowthOperands: the operands v such that the instruction's value has every element of v.
func c18GrowthOperands(in ssa.Instruction) []ssa.Value {
	call, ok := in.(*ssa.Call)
	if !ok {
		return nil
	}
	switch calleeName(call) {
	case "builtin:append":
		return call.Call.Args
	case "slices.AppendSeq", "slices.Grow", "slices.Clip":
		if len(call.Call.Args) > 0 {
			return call.Call.Args[:1]
		}
	}
	return nil
}

// c18AccumulatorKept is the must-analysis (L5).
func c18AccumulatorKept(w *World, G *ssa.Function, sites map[*ssa.Call]bool) (bool, string) {
	out := make([]c18AccSet, len(G.Blocks))
	atRet := map[*ssa.Return]c18AccSet{}
	for round := 0; ; round++ {
		if round > 4*len(G.Blocks)+8 {
			return false, "the accumulator analysis did not stabilise"
		}
		changed := false
		for _, b := range G.Blocks {
			var in c18AccSet
			if b.Index == 0 {
				in = c18AccSet{set: true, top: true, m: map[ssa.Value]bool{}}
			}
			for i, p := range b.Preds {
				e := out[p.Index]
				if !e.set {
					continue
				}
				e = e.clone()
				if !e.top {
					// the phis of b are evaluated together, on the state of the edge
					add := []ssa.Value{}
					for _, ins := range b.Instrs {
						ph, ok := ins.(*ssa.Phi)
						if !ok {
							break
						}
						if i < len(ph.Edges) && e.m[ph.Edges[i]] {
							add = append(add, ph)
						}
					}
					for _, ins := range b.Instrs {
						ph, ok := ins.(*ssa.Phi)
						if !ok {
							break
						}
						delete(e.m, ph)
					}
					for _, v := range add {
						e.m[v] = true
					}
				}
				if !in.set {
					in = e
					continue
				}
				// meet: intersection (top is neutral)
				switch {
				case e.top:
				case in.top:
					in = e
				default:
					for v := range in.m {
						if !e.m[v] {
							delete(in.m, v)
						}
					}
				}
			}
			if !in.set {
				continue
			}
			s := in
			for _, ins := range b.Instrs {
				if _, isPhi := ins.(*ssa.Phi); isPhi {
					continue
				}
				if r, isRet := ins.(*ssa.Return); isRet {
					atRet[r] = s.clone()
					continue
				}
				v, isVal := ins.(ssa.Value)
				if !isVal {
					continue
				}
				if call, ok := ins.(*ssa.Call); ok && sites[call] {
					if s.has(call.Call.Args[0]) {
						s = c18AccSet{set: true, m: map[ssa.Value]bool{v: true}}
					} else {
						s = c18AccSet{set: true, m: map[ssa.Value]bool{}}
					}
					continue
				}
				if s.top {
					continue
				}
				grows := false
				for _, o := range c18GrowthOperands(ins) {
					if s.m[o] {
						grows = true
					}
				}
				if grows {
					s.m[v] = true
				} else {
					delete(s.m, v)
				}
			}
			if !s.equal(out[b.Index]) {
				out[b.Index] = s
				changed = true
			}
		}
		if !changed {
			break
		}
	}
	n := 0
	for _, b := range G.Blocks {
		r, ok := blockTerm(b).(*ssa.Return)
		if !ok {
			continue
		}
		s, reached := atRet[r]
		if !reached {
			continue // dead code
		}
		n++
		if len(r.Results) != 1 || !s.has(r.Results[0]) {
			return false, "the slice returned at " + w.InstrPos(r) + " need not hold the keys appended in the loop (the accumulator is reset, replaced or an older version of it is returned)"
		}
	}
	if n == 0 {
		return false, "no return"
	}
	return true, ""
}

// c18InnerMaps: the comma-ok assertions of <outer map>["targetArtifact"] to a map type in SC (the descriptor level).
func c18InnerMaps(SC *ssa.Function, outerMap ssa.Value) map[ssa.Value]bool {
	out := map[ssa.Value]bool{}
	if outerMap == nil {
		return out
	}
	for _, b := range SC.Blocks {
		for _, in := range b.Instrs {
			ta, ok := in.(*ssa.TypeAssert)
			if !ok || !ta.CommaOk {
				continue
			}
			if _, isMap := ta.AssertedType.Underlying().(*types.Map); !isMap {
				continue
			}
			x := ta.X
			if ex, ok := x.(*ssa.Extract); ok && ex.Index == 0 {
				x = ex.Tuple
			}
			if lk, ok := x.(*ssa.Lookup); ok && c18MapOrigin(lk.X) == outerMap && desc(lk.Index) == `const:"targetArtifact"` {
				out[ta] = true
			}
		}
	}
	return out
}

// ---------- raw path: where the response's certificate chain is parsed ----------------------------------------------------
//
// The loop that parses the chain may sit in the function that calls GenerateSignature or in a helper it calls, and the
// helper may be handed the chain, the whole response, or more than that. The loop is found by VALUE: a slice loop on
// the call tree whose ranged operand, rendered in the caller's frame, is <response>.CertificateChain.

// c18ChainLoopsAt lists those loops with the function holding each (the root itself or a helper).
type c18ChainSite struct {
	F    *ssa.Function
	Loop sliceLoop
}

func c18ChainLoopsAt(fr *c18Frame, chain string) []c18ChainSite {
	var out []c18ChainSite
	for _, f := range fr.tree {
		if f.Parent() != nil {
			continue
		}
		for _, sl := range sliceLoops(f) {
			if fr.val(sl.X) == chain {
				out = append(out, c18ChainSite{f, sl})
			}
		}
	}
	return out
}

// c18ChainLoopOK is the decision of c18ChainParser for a loop given by value instead of by "ranges over parameter 0":
// every completed iteration passes ParseCertificate(chain[i]) err == nil, the parsed certificate is stored per iteration,
// no success exit of F is reachable from inside the loop or around it, and result #retIdx of every success exit is the
// slice the certificates were stored in. It holds for the function that has the loop, whichever that is: with the loop
// in the caller of the plugin, "the parser fails closed" and "the caller tests the parser's error" are the same fact
// (there is no error to hand over), so one decision answers both obligations.
func c18ChainLoopOK(w *World, F *ssa.Function, sl sliceLoop, retIdx int) (bool, ssa.Value, string) {
	fi := w.Info(F)
	pn := desc(sl.X)
	labels, _ := fi.mustPassBetween([]int{sl.Body.Index}, map[int]bool{sl.Header.Index: true})
	_, gate := hasLabel(labels, "EQ(call:crypto/x509.ParseCertificate("+pn+"[", "#err,nil)")
	stored := false
	var dst ssa.Value
	for bi := range loopBlocks(sl.Header) {
		for _, in := range F.Blocks[bi].Instrs {
			switch x := in.(type) {
			case *ssa.Store:
				if strings.HasPrefix(desc(x.Val), "call:crypto/x509.ParseCertificate("+pn+"[") && strings.HasSuffix(desc(x.Val), "#0") {
					if ia, ok := x.Addr.(*ssa.IndexAddr); ok {
						stored, dst = true, ia.X
					}
				}
			case *ssa.Call:
				if bi, ok := x.Call.Value.(*ssa.Builtin); ok && bi.Name() == "append" && strings.Contains(desc(x.Call.Args[1]), "call:crypto/x509.ParseCertificate("+pn+"[") {
					stored, dst = true, x
				}
			}
		}
	}
	wit := fi.successWitness(Mode{Kind: mErr}, []state{{sl.Body.Index, 0, -1}}, backEdges(sl.Header))
	cut := map[edgeKey]bool{}
	cutInto(fi, sl.Header, cut)
	wit2 := fi.successWitness(Mode{Kind: mErr}, entryState(), cut)
	okRet := dst != nil
	s := w.Summarize(F, Mode{Kind: mErr})
	if len(s.Exits) == 0 {
		okRet = false
	}
	for _, ex := range s.Exits {
		if retIdx >= len(ex.Ret.Results) {
			okRet = false
			continue
		}
		r := ex.Ret.Results[retIdx]
		if dst != nil && r != dst {
			if ph, ok := r.(*ssa.Phi); !ok || !phiHas(ph, dst) {
				okRet = false
			}
		}
	}
	ok := gate && stored && wit == nil && wit2 == nil && okRet
	return ok, dst, fmt.Sprintf("parse gate per element=%v stored=%v success from inside loop=%v bypass=%v returns parsed slice=%v", gate, stored, wit != nil, wit2 != nil, okRet)
}

// c18InnerLevel: v is the descriptor-level map: the value half of one of the assertions `inner`, or a phi of that value
// and nil in which nil arrives only over the false edge of the ok-test of that very assertion or of the comma-ok lookup
// that feeds it (`if member, present := m["targetArtifact"]; present { d, _ = member.(map…) }`): nil stands for "there
// is no descriptor-level map", in which case that level has no keys to report.
func c18InnerLevel(v ssa.Value, inner map[ssa.Value]bool) bool {
	if inner[c18MapOrigin(v)] {
		return true
	}
	ph, ok := v.(*ssa.Phi)
	if !ok {
		return false
	}
	var ta *ssa.TypeAssert
	for _, e := range ph.Edges {
		if o, ok := c18MapOrigin(e).(*ssa.TypeAssert); ok && inner[o] && (ta == nil || ta == o) {
			ta = o
		} else if !isNilConst(e) {
			return false
		}
	}
	if ta == nil {
		return false
	}
	okOf := func(cond ssa.Value) bool {
		ex, isEx := cond.(*ssa.Extract)
		if !isEx || ex.Index != 1 {
			return false
		}
		if ex.Tuple == ssa.Value(ta) {
			return true
		}
		if x, isEx := ta.X.(*ssa.Extract); isEx && x.Tuple == ex.Tuple {
			_, isLookup := ex.Tuple.(*ssa.Lookup)
			return isLookup
		}
		return false
	}
	for i, e := range ph.Edges {
		if !isNilConst(e) {
			continue
		}
		p := ph.Block().Preds[i]
		iff, isIf := blockTerm(p).(*ssa.If)
		if !isIf || len(p.Succs) != 2 || p.Succs[1] != ph.Block() || p.Succs[0] == ph.Block() || !okOf(iff.Cond) {
			return false
		}
	}
	return true
}

// ---------- dispatch: the raw path by role ----------------------------------------------------------------------------
//
// Clause (c) speaks of "what the raw path returned". The raw path is not a particular helper of the plugin signer: it is
// a call of the GENERIC SIGNER on an object whose primitive signer is the plugin-backed one. c18RawPath recognises it
// by that role, wherever the call is written (in a helper with any parameter list, or in Sign / SignBlob themselves):
//
//   R1 the callee is the generic signer GS (the function that calls Envelope.Sign, held to raw/generic-signer/*) or a
//      method of GS's receiver type that returns, on every success-capable exit, results #0 and #1 of ONE call of such
//      a method ON ITS OWN RECEIVER whose error decides the exit (GenericSigner.SignBlob: descriptor, then s.Sign).
//      Such a method hands back only what GS returned for the same object, so the obligations stated on GS's exits
//      (signed, self-verified, payload type) hold for what it returns.
//   R2 the receiver is a plugin-backed generic signer: followed backwards through phis and through results of module
//      functions (constructor helpers: a fresh object per call) it is always an allocation of GS's receiver type
//        - every store into a field of which, through the allocation or any value on the way, puts there an interface
//          made from a pointer that is — followed the same way — always an allocation of the primitive signer type (the
//          receiver type of the function calling SignPlugin.GenerateSignature) with exactly one store each into keyID,
//          plugin and keySpec (the values stored are held to raw/primitive-signer/* in the function that stores them);
//        - at least one such store exists;
//        - which is used for nothing else: field stores/loads, receiver of an R1 call, returned by the constructor
//          (no alias through which the field could be replaced between construction and use).
//      So whenever the R1 call runs, the field is nil (no signature, Envelope.Sign fails) or the plugin-backed signer.
//   R3 a module function every success-capable exit of which returns results #0/#1 of one R1+R2 call (or of another R3
//      function) whose error decides the exit is a HELPER of the raw path: calling it returns only what the raw path
//      returned. (The former rule took any method that contained a call of GenericSigner.Sign for the raw path,
//      without looking at what it returned or at the receiver.)
//
// The capability is not part of the role: it is required of the call in Sign / SignBlob (c18AcceptCase), be that the R1
// call itself or the call of an R3 helper.

type c18RawPath struct {
	w      *World
	GS     *ssa.Function
	primT  string
	gsSet  map[*ssa.Function]bool
	helper map[*ssa.Function]int // 1 yes, 2 no, 3 being decided
	why    map[*ssa.Function]string
}

func newC18RawPath(w *World) *c18RawPath {
	rp := &c18RawPath{w: w, primT: "?", gsSet: map[*ssa.Function]bool{}, helper: map[*ssa.Function]int{}, why: map[*ssa.Function]string{}}
	for _, fn := range w.FuncsOfPkg("signer") {
		if len(findCalls(fn, "invoke:core/signature.Envelope.Sign")) > 0 {
			rp.GS = fn
		}
		if fn.Signature.Recv() != nil && len(findCalls(fn, "invoke:pfw/plugin.SignPlugin.GenerateSignature")) > 0 {
			rp.primT = namedOf(fn.Signature.Recv().Type())
		}
	}
	if rp.GS == nil || rp.GS.Signature.Recv() == nil {
		return rp
	}
	rp.gsSet[rp.GS] = true
	// R1, to a fixed point (a method may delegate to a method that delegates to GS)
	for round := 0; round < 3; round++ {
		grown := false
		for _, fn := range w.FuncsOfPkg("signer") {
			fn := fn
			if rp.gsSet[fn] || fn.Blocks == nil || fn.Signature.Recv() == nil || len(fn.Params) == 0 || !types.Identical(fn.Signature.Recv().Type(), rp.GS.Signature.Recv().Type()) {
				continue
			}
			own := func(call *ssa.Call) (string, bool, string) {
				if rp.gsSet[staticCallee(call)] && !call.Call.IsInvoke() && len(call.Call.Args) > 0 && call.Call.Args[0] == ssa.Value(fn.Params[0]) {
					return "", true, ""
				}
				return "", false, "not the generic signer on the method's own receiver"
			}
			if ok, _ := c18ReturnsOnly(w, fn, own); ok {
				rp.gsSet[fn] = true
				grown = true
			}
		}
		if !grown {
			break
		}
	}
	return rp
}

// c18ReturnsOnly: fn has a success-capable exit and every one of them returns the checked results of one call pathOf accepts.
func c18ReturnsOnly(w *World, fn *ssa.Function, pathOf c18PathOf) (bool, string) {
	res := fn.Signature.Results()
	if fn.Blocks == nil || res.Len() != 3 || !isErrorType(res.At(2).Type()) {
		return false, "not a (signature, signer info, error) function"
	}
	s := w.Summarize(fn, Mode{Kind: mErr})
	if len(s.Exits) == 0 {
		return false, "no success-capable exit"
	}
	for _, ex := range s.Exits {
		if ok, why := c18ReturnsCheckedCall(w, fn, ex, pathOf); !ok {
			return false, fmt.Sprintf("exit %s of %s: %s", w.InstrPos(ex.Ret), fnName(fn), why)
		}
	}
	return true, ""
}

// isRawCall: the call is the raw path (R1+R2) or a call of one of its helpers (R3).
func (rp *c18RawPath) isRawCall(call *ssa.Call) (bool, string) {
	g := staticCallee(call)
	if g == nil || call.Call.IsInvoke() {
		return false, "not a static call"
	}
	if rp.gsSet[g] {
		if len(call.Call.Args) == 0 {
			return false, "no receiver"
		}
		if ok, why := rp.pluginBacked(call.Call.Args[0]); !ok {
			return false, "a generic signer, but its receiver is not known to hold the plugin-backed primitive signer: " + why
		}
		return true, ""
	}
	if rp.isHelper(g) {
		return true, ""
	}
	return false, rp.why[g]
}

func (rp *c18RawPath) isHelper(f *ssa.Function) bool {
	if f == nil || f.Blocks == nil || !rp.w.IsProductFn(f) || rp.gsSet[f] {
		return false
	}
	switch rp.helper[f] {
	case 1:
		return true
	case 2, 3:
		return false
	}
	rp.helper[f] = 3
	ok, why := c18ReturnsOnly(rp.w, f, func(call *ssa.Call) (string, bool, string) {
		ok, why := rp.isRawCall(call)
		return "", ok, why
	})
	if ok {
		rp.helper[f] = 1
	} else {
		rp.helper[f] = 2
		rp.why[f] = why
	}
	return ok
}

// objects follows a pointer backwards to the allocations it can be: through phis and through the results of module
// functions. way collects every value met (the allocation included). false: something else (a parameter, a field, nil, …).
func (rp *c18RawPath) objects(v ssa.Value, depth int, allocs map[*ssa.Alloc]bool, way map[ssa.Value]bool) bool {
	if depth > 5 {
		return false
	}
	if way[v] {
		return true
	}
	switch x := v.(type) {
	case *ssa.Alloc:
		way[v] = true
		allocs[x] = true
		return true
	case *ssa.Phi:
		way[v] = true
		for _, e := range x.Edges {
			if !rp.objects(e, depth+1, allocs, way) {
				return false
			}
		}
		return true
	case *ssa.Call:
		return rp.resultObjects(x, 0, 1, depth, allocs, way)
	case *ssa.Extract:
		if call, ok := x.Tuple.(*ssa.Call); ok {
			if !rp.resultObjects(call, x.Index, -1, depth, allocs, way) {
				return false
			}
			way[v] = true
			return true
		}
	}
	return false
}

func (rp *c18RawPath) resultObjects(call *ssa.Call, idx, nres, depth int, allocs map[*ssa.Alloc]bool, way map[ssa.Value]bool) bool {
	g := staticCallee(call)
	if g == nil || call.Call.IsInvoke() || g.Blocks == nil || !rp.w.IsProductFn(g) || idx >= g.Signature.Results().Len() || (nres >= 0 && g.Signature.Results().Len() != nres) {
		return false
	}
	way[call] = true
	n := 0
	for _, b := range g.Blocks {
		r, ok := blockTerm(b).(*ssa.Return)
		if !ok || idx >= len(r.Results) {
			continue
		}
		if isNilConst(r.Results[idx]) && len(r.Results) > 1 {
			continue // the constructor's failure exits hand back no object
		}
		n++
		if !rp.objects(r.Results[idx], depth+1, allocs, way) {
			return false
		}
	}
	return n > 0
}

// pluginBacked: R2.
func (rp *c18RawPath) pluginBacked(recv ssa.Value) (bool, string) {
	allocs, way := map[*ssa.Alloc]bool{}, map[ssa.Value]bool{}
	if !rp.objects(recv, 0, allocs, way) || len(allocs) == 0 {
		return false, "the receiver " + trunc(desc(recv), 80) + " is not an object built on the way to the call"
	}
	gsT := rp.GS.Signature.Recv().Type()
	for a := range allocs {
		if !types.Identical(a.Type(), gsT) {
			return false, "the receiver is not built as a " + namedOf(gsT)
		}
	}
	stores := map[*ssa.Alloc]int{}
	var todo []ssa.Value
	for v := range way {
		todo = append(todo, v)
	}
	for len(todo) > 0 {
		v := todo[0]
		todo = todo[1:]
		refs := v.Referrers()
		if refs == nil {
			return false, "uses unknown"
		}
		for _, ref := range *refs {
			switch r := ref.(type) {
			case *ssa.DebugRef, *ssa.Return:
			case *ssa.Phi:
				if !way[r] {
					return false, "the object also flows elsewhere (" + rp.w.InstrPos(r) + ")"
				}
			case *ssa.UnOp:
				// a copy of the whole object cannot change the object
				if r.Op != token.MUL {
					return false, "unexpected use"
				}
			case *ssa.Store:
				// the object is filled by a copy of the object a constructor returns BY VALUE (`gs := s.newGeneric(…)`): the
				// constructor's own objects are held to the same conditions, and the copy has their field values
				a, isA := v.(*ssa.Alloc)
				if !isA || r.Addr != v {
					return false, "the object escapes (" + rp.w.InstrPos(r) + ")"
				}
				src, okSrc := rp.copiedFrom(r.Val)
				if !okSrc {
					return false, "the object is overwritten with " + trunc(desc(r.Val), 60) + " (" + rp.w.InstrPos(r) + ")"
				}
				for _, b := range src {
					if !types.Identical(b.Type(), gsT) {
						return false, "the object is overwritten with another type"
					}
					if !way[b] {
						way[b], allocs[b] = true, true
						todo = append(todo, b)
					}
				}
				stores[a]++
			case *ssa.Extract:
				// results of a constructor call: the object is the one followed; the others (an error) are not it
			case *ssa.Call:
				if r == v {
					continue
				}
				if r.Call.IsInvoke() || !rp.gsSet[staticCallee(r)] || len(r.Call.Args) == 0 || r.Call.Args[0] != v {
					return false, "the object is handed to " + calleeName(r) + " (" + rp.w.InstrPos(r) + ")"
				}
				for _, a := range r.Call.Args[1:] {
					if a == v {
						return false, "the object is handed on as an argument"
					}
				}
			case *ssa.FieldAddr:
				if r.X != v {
					return false, "unexpected use"
				}
				for _, u := range *r.Referrers() {
					switch y := u.(type) {
					case *ssa.DebugRef:
					case *ssa.UnOp:
						if y.Op != token.MUL {
							return false, "unexpected use of a field"
						}
					case *ssa.Store:
						if y.Addr != ssa.Value(r) {
							return false, "the address of a field is stored away"
						}
						mi, isMI := y.Val.(*ssa.MakeInterface)
						if !isMI {
							return false, "field " + fieldName(r.X.Type(), r.Field) + " is set to " + trunc(desc(y.Val), 60) + " (" + rp.w.InstrPos(y) + ")"
						}
						if ok, why := rp.primitiveBuilt(mi.X); !ok {
							return false, "field " + fieldName(r.X.Type(), r.Field) + " (" + rp.w.InstrPos(y) + "): " + why
						}
						if a, isA := v.(*ssa.Alloc); isA {
							stores[a]++
						}
					default:
						return false, "the address of a field escapes (" + rp.w.InstrPos(u) + ")"
					}
				}
			default:
				return false, "the object escapes (" + rp.w.InstrPos(ref) + ")"
			}
		}
	}
	for a := range allocs {
		if stores[a] == 0 {
			return false, "the object built at " + rp.w.InstrPos(a) + " is given no primitive signer"
		}
	}
	return true, ""
}

// copiedFrom: v is the result of a module function with one result that returns, on every exit, the content of an object
// it allocated itself.
func (rp *c18RawPath) copiedFrom(v ssa.Value) ([]*ssa.Alloc, bool) {
	call, ok := v.(*ssa.Call)
	if !ok {
		return nil, false
	}
	g := staticCallee(call)
	if g == nil || call.Call.IsInvoke() || g.Blocks == nil || !rp.w.IsProductFn(g) || g.Signature.Results().Len() != 1 {
		return nil, false
	}
	var out []*ssa.Alloc
	for _, b := range g.Blocks {
		r, isR := blockTerm(b).(*ssa.Return)
		if !isR {
			continue
		}
		ld, isL := r.Results[0].(*ssa.UnOp)
		if !isL || ld.Op != token.MUL {
			return nil, false
		}
		al, isA := ld.X.(*ssa.Alloc)
		if !isA {
			return nil, false
		}
		out = append(out, al)
	}
	return out, len(out) > 0
}

// primitiveBuilt: the pointer is always a freshly built plugin-backed primitive signer (second item of R2).
func (rp *c18RawPath) primitiveBuilt(p ssa.Value) (bool, string) {
	allocs, way := map[*ssa.Alloc]bool{}, map[ssa.Value]bool{}
	if !rp.objects(p, 0, allocs, way) || len(allocs) == 0 {
		return false, "the primitive signer " + trunc(desc(p), 80) + " is not an object built on the way"
	}
	for a := range allocs {
		if namedOf(a.Type()) != rp.primT {
			return false, "the primitive signer is a " + namedOf(a.Type()) + ", not the plugin-backed " + rp.primT
		}
	}
	set := map[*ssa.Alloc]map[string]int{}
	for v := range way {
		refs := v.Referrers()
		if refs == nil {
			return false, "uses unknown"
		}
		for _, ref := range *refs {
			switch r := ref.(type) {
			case *ssa.DebugRef, *ssa.Return, *ssa.Extract:
			case *ssa.Phi:
				if !way[r] {
					return false, "the primitive signer also flows elsewhere"
				}
			case *ssa.MakeInterface:
				// held as an interface: its fields cannot be written through it without a type assertion back to the
				// pointer type, which c12AssertsIn lists
			case *ssa.Call:
				if r != v {
					return false, "the primitive signer is handed to " + calleeName(r)
				}
			case *ssa.FieldAddr:
				for _, u := range *r.Referrers() {
					switch y := u.(type) {
					case *ssa.DebugRef:
					case *ssa.UnOp:
						if y.Op != token.MUL {
							return false, "unexpected use of a field of the primitive signer"
						}
					case *ssa.Store:
						if y.Addr != ssa.Value(r) {
							return false, "the address of a field of the primitive signer is stored away"
						}
						if a, isA := v.(*ssa.Alloc); isA {
							if set[a] == nil {
								set[a] = map[string]int{}
							}
							set[a][fieldName(r.X.Type(), r.Field)]++
						} else {
							return false, "a field of the primitive signer is overwritten after construction (" + rp.w.InstrPos(y) + ")"
						}
					default:
						return false, "the address of a field of the primitive signer escapes"
					}
				}
			default:
				return false, "the primitive signer escapes (" + rp.w.InstrPos(ref) + ")"
			}
		}
	}
	for a := range allocs {
		for _, f := range []string{"keyID", "plugin", "keySpec"} {
			if set[a][f] != 1 {
				return false, fmt.Sprintf("the primitive signer built at %s has %d stores into %s (exactly one is expected, held to raw/primitive-signer)", rp.w.InstrPos(a), set[a][f], f)
			}
		}
	}
	return true, ""
}
