package main

// Helpers of the C19 rule set: the roles the rules are anchored on (a fetch of a descriptor's content, the push of
// the envelope, the current element of the listing loop, a gate decided inside a helper) are recognised here by
// what the code does with library calls, not by where or under which local name it does it.
//
// Fourth pass: a gate is "a condition that implies the fact" (c19Implies), whatever carries the condition — an If edge,
// the value a module predicate returns (`return m == A || m == B`), membership in a read-only package-level table
// with constant keys (c19Table) —, and a call through such a table is the finite case distinction over its keys
// (c19ListResolver.leaves follows the decoded list into each function of the table under "key == that entry's key").

import (
	"fmt"
	"go/token"
	"go/types"
	"regexp"
	"sort"
	"strconv"
	"strings"

	"golang.org/x/tools/go/ssa"
)

// ---------- fetches ------------------------------------------------------------

// c19FetchSite: one read of a descriptor's content: `content.FetchAll(ctx, Src, D)` or a call of a module function
// that is that very read (c19FetchEquiv).
type c19FetchSite struct {
	Call *ssa.Call
	Src  ssa.Value
	D    ssa.Value
}

// c19ParamIdx: v is (a copy of) parameter i of fn; -1 otherwise.
func c19ParamIdx(fn *ssa.Function, v ssa.Value) int {
	v = unwrap(loadOrigin(unwrap(v)))
	p, ok := v.(*ssa.Parameter)
	if !ok {
		return -1
	}
	for i, q := range fn.Params {
		if q == p {
			return i
		}
	}
	return -1
}

// c19IsFetchInvoke: `x.Fetch(ctx, D)` on one of oras-go's storage interfaces.
func c19IsFetchInvoke(ci ssa.CallInstruction) bool {
	cc := ci.Common()
	if !cc.IsInvoke() || cc.Method.Name() != "Fetch" || len(cc.Args) != 2 {
		return false
	}
	if cc.Method.Pkg() == nil || !strings.HasPrefix(cc.Method.Pkg().Path(), "oras.land/oras-go/v2") {
		return false
	}
	return namedOf(cc.Args[1].Type()) == "ocispec.Descriptor"
}

var c19FetchEqMemo = map[*ssa.Function][3]int{}
var c19FetchEqBusy = map[*ssa.Function]bool{}

// c19FetchEquiv: h is a module function `(…, src, …, d, …) ([]byte, error)` every success-capable exit of which
// returns the bytes of
//
//	content.FetchAll(_, src, d)                          or
//	content.ReadAll(r, d) with r, err := src.Fetch(_, d), err == nil on the way   or
//	another such function applied to (src, d),
//
// the read's own error being nil on that exit. content.FetchAll *is* Fetch followed by ReadAll on the same
// descriptor (oras-go content/storage.go), and ReadAll is what verifies size and digest against the descriptor it
// is given: because the descriptor handed to Fetch and to ReadAll is the same parameter, a success of h delivers
// exactly what FetchAll(src, d) delivers. Every rule that speaks about "the fetch of D" may therefore be anchored
// on a call of h with D in that position.
func c19FetchEquiv(w *World, h *ssa.Function) (src, d int, ok bool) {
	if h == nil || h.Blocks == nil || !w.IsProductFn(h) {
		return 0, 0, false
	}
	if m, done := c19FetchEqMemo[h]; done {
		return m[0], m[1], m[2] == 1
	}
	if c19FetchEqBusy[h] {
		return 0, 0, false
	}
	c19FetchEqBusy[h] = true
	defer delete(c19FetchEqBusy, h)
	src, d, ok = c19FetchEquiv1(w, h)
	m := [3]int{src, d, 0}
	if ok {
		m[2] = 1
	}
	c19FetchEqMemo[h] = m
	return
}

func c19FetchEquiv1(w *World, h *ssa.Function) (int, int, bool) {
	res := h.Signature.Results()
	if res.Len() != 2 || !isByteSlice(res.At(0).Type()) || !isErrorType(res.At(1).Type()) {
		return 0, 0, false
	}
	s := w.Summarize(h, Mode{Kind: mErr})
	if s == nil || !s.Complete || len(s.Exits) == 0 {
		return 0, 0, false
	}
	si, di := -1, -1
	for _, e := range s.Exits {
		r0 := spilledRet(e.Ret.Results[0])
		if ph, isPhi := r0.(*ssa.Phi); isPhi && ph.Block() == e.Ret.Block() && e.Pred >= 0 && e.Pred < len(ph.Edges) {
			r0 = ph.Edges[e.Pred]
		}
		ex, isEx := r0.(*ssa.Extract)
		if !isEx || ex.Index != 0 {
			return 0, 0, false
		}
		R, isCall := ex.Tuple.(*ssa.Call)
		if !isCall || !labelHas(e.Checked, "EQ("+desc(R)+"#err,nil)") {
			return 0, 0, false
		}
		s1, d1 := -1, -1
		switch {
		case isCallTo(R, "oras/content.FetchAll") && len(R.Call.Args) == 3:
			s1, d1 = c19ParamIdx(h, R.Call.Args[1]), c19ParamIdx(h, R.Call.Args[2])
		case isCallTo(R, "oras/content.ReadAll") && len(R.Call.Args) == 2:
			d1 = c19ParamIdx(h, R.Call.Args[1])
			rd, isEx := unwrap(R.Call.Args[0]).(*ssa.Extract)
			if !isEx || rd.Index != 0 {
				return 0, 0, false
			}
			fc, isCall := rd.Tuple.(*ssa.Call)
			if !isCall || !c19IsFetchInvoke(fc) || !labelHas(e.Checked, "EQ("+desc(fc)+"#err,nil)") {
				return 0, 0, false
			}
			if c19ParamIdx(h, fc.Call.Args[1]) != d1 {
				return 0, 0, false // read against another descriptor than the one fetched
			}
			s1 = c19ParamIdx(h, fc.Call.Value)
		default:
			gs, gd, ok := c19FetchEquiv(w, staticCallee(R))
			if !ok || gs >= len(R.Call.Args) || gd >= len(R.Call.Args) {
				return 0, 0, false
			}
			s1, d1 = c19ParamIdx(h, R.Call.Args[gs]), c19ParamIdx(h, R.Call.Args[gd])
		}
		if s1 < 0 || d1 < 0 || (si >= 0 && (si != s1 || di != d1)) {
			return 0, 0, false
		}
		si, di = s1, d1
	}
	return si, di, si >= 0
}

// c19FetchSites: the fetches a function performs (in instruction order).
func c19FetchSites(w *World, fn *ssa.Function) []c19FetchSite {
	var out []c19FetchSite
	for _, ci := range allCalls(fn) {
		call, ok := ci.(*ssa.Call)
		if !ok {
			continue
		}
		if isCallTo(call, "oras/content.FetchAll") && len(call.Call.Args) == 3 {
			out = append(out, c19FetchSite{call, call.Call.Args[1], call.Call.Args[2]})
			continue
		}
		if g := staticCallee(call); g != nil && g != fn {
			if si, di, ok := c19FetchEquiv(w, g); ok && si < len(call.Call.Args) && di < len(call.Call.Args) {
				out = append(out, c19FetchSite{call, call.Call.Args[si], call.Call.Args[di]})
			}
		}
	}
	return out
}

// c19ErrNil: the fact "this call's error result is nil".
func c19ErrNil(call *ssa.Call) string { return "EQ(" + descTailErr(call) + ",nil)" }

// ---------- size caps (a) --------------------------------------------------------

// c19SinkDesc: the call reads (or allocates room for) the content a descriptor declares; returns that descriptor.
// FetchAll and ReadAll allocate D.Size bytes up front; Fetch opens the transfer.
func c19SinkDesc(ci ssa.CallInstruction) ssa.Value {
	cc := ci.Common()
	switch {
	case isCallTo(ci, "oras/content.FetchAll") && len(cc.Args) == 3:
		return cc.Args[2]
	case isCallTo(ci, "oras/content.ReadAll") && len(cc.Args) == 2:
		return cc.Args[1]
	case c19IsFetchInvoke(ci):
		return cc.Args[1]
	}
	return nil
}

// c19Liftable: an unexported, named module function that is only ever called statically: what must hold when it
// runs can be demanded from each of its call sites instead.
func c19Liftable(w *World, fn *ssa.Function) bool {
	if !transparentHelper(fn) {
		return false
	}
	if fn.Signature.Recv() != nil {
		// reachable through an interface of its package that names the method?
		if p := fnPkg(fn); p != nil {
			for _, n := range p.Scope().Names() {
				if tn, ok := p.Scope().Lookup(n).(*types.TypeName); ok {
					if it, ok := tn.Type().Underlying().(*types.Interface); ok {
						for i := 0; i < it.NumMethods(); i++ {
							if it.Method(i).Name() == fn.Name() {
								return false
							}
						}
					}
				}
			}
		}
	}
	for _, g := range w.Funcs {
		for _, b := range g.Blocks {
			for _, in := range b.Instrs {
				if ci, ok := in.(ssa.CallInstruction); ok {
					for _, a := range ci.Common().Args {
						if a == ssa.Value(fn) {
							return false
						}
					}
					if ci.Common().Value == ssa.Value(fn) && staticCallee(ci) == fn {
						if _, isCall := ci.(*ssa.Call); !isCall {
							return false // go / defer: not a point on the caller's paths
						}
					}
					continue
				}
				for _, op := range in.Operands(nil) {
					if op != nil && *op == ssa.Value(fn) {
						return false // used as a value
					}
				}
			}
		}
	}
	return true
}

func c19CallSites(w *World, fn *ssa.Function) []*ssa.Call {
	var out []*ssa.Call
	for _, g := range w.Funcs {
		for _, ci := range allCalls(g) {
			if call, ok := ci.(*ssa.Call); ok && staticCallee(call) == fn {
				out = append(out, call)
			}
		}
	}
	return out
}

// The two size limits of the reference tree (registry/repository.go documents them as the library's limits for a
// signature manifest and for a signature envelope). They are pinned here as numbers: the clause "a referrer whose
// manifest or blob exceeds the size caps is refused before its content is used" speaks about these caps, and a
// tree that fetches a manifest under a larger one accepts referrers the reference tree refuses.
const (
	c19ManifestCap int64 = 4 * 1024 * 1024
	c19BlobCap     int64 = 32 * 1024 * 1024
)

type c19CapSite struct {
	fn     *ssa.Function
	in     ssa.Instruction
	ok     bool
	K      int64
	detail string
	// what the fetched bytes are used for: "manifest" (decoded as JSON), "blob" (handed out by FetchSignatureBlob as the
	// envelope), "" (not identified; why says where the bytes were lost)
	class string
	why   string
	// the calls the decision was carried through, from the sink outwards (the last one is `in`)
	via []ssa.Instruction
	// where the comparison that gives K stands
	capAt string
}

// c19CapMemo: the decisions of rule (a) of one analysis, before merging (c19CapProved reads them).
var c19CapMemo = map[*World][]c19CapSite{}

// c19CapProved: rule (a) found the read that stands at (or behind) the first call capped on its own descriptor in
// every context that goes through all the given calls (the read, and the calls of the listing loop's frames that
// lead to it). The listing rule asks the same question per media type with the engine's composed facts; where those
// cannot see a cap that rule (a) decided with the constants of the call sites, its answer counts.
func c19CapProved(w *World, calls ...ssa.Instruction) bool {
	n := 0
	for _, s := range c19CapMemo[w] {
		all := true
		for _, call := range calls {
			has := false
			for _, v := range s.via {
				if v == call {
					has = true
				}
			}
			all = all && has
		}
		if !all {
			continue
		}
		if !s.ok {
			return false
		}
		n++
	}
	return n > 0
}

// c19CapState: one capped-fetch obligation while it is carried from the frame of the sink towards the frame in
// which it can be decided.
type c19CapState struct {
	fn    *ssa.Function
	at    ssa.CallInstruction
	D     ssa.Value         // the fetched descriptor as a value of fn (nil: it only exists in a callee's frame)
	d     string            // its rendering in fn's terms
	inner map[string]string // what every path inside the callees passed on its way to the sink, in fn's terms
	capOK bool              // cap decided in a callee's frame ...
	K     int64             // ... with this constant
	bytes []ssa.Value       // the values of fn that hold what the sink read (class not decided yet)
	class string
	why   string
	via   []ssa.Instruction
	capAt string
}

// c19CapDecide decides, for one sink, the two questions of rule (a):
//
//	cap:   every path to the sink passes `D.Size <= K`, K a positive constant;
//	class: what the bytes the sink reads are used for (decoded as a manifest / handed out as the envelope).
//
// Both are decided on the call tree. The frame of the sink knows `D.Size <= X` from its own branches (guardsAt); when
// the sink stands in an unexported helper with a closed list of call sites (c19Liftable), the facts of the helper's
// frame are translated into each caller's frame — parameters replaced by the arguments of that call (c19Into) — and
// joined with what the caller itself passed before the call. That one mechanism covers
//
//   - the helper that does not test at all (`fetch(ctx, src, d)`): D is its parameter, the caller's own test counts;
//   - the helper that tests against a cap it is given (`fetchLimited(ctx, src, d, limit)`: `d.Size <= limit` becomes
//     `arg.Size <= 4194304` at a call site that passes the constant, whatever the order of the parameters is and
//     however many wrappers hand the cap on): one obligation per call site, K = the constant passed there;
//   - the helper that tests against its own constant: decided in the helper, K = that constant — a cap parameter
//     that does not take part in the comparison guarding the sink does not change K.
//
// The bytes are followed the other way (c19BytesUse): through the helper's results to the call site, into module
// functions they are passed to. The obligation is reported in the outermost frame either question needed, keyed by
// that function — the four fetches of the reference tree keep their four keys when cap and fetch move into a helper.
func c19CapDecide(w *World, entry *ssa.Function, fn *ssa.Function, at ssa.CallInstruction, D ssa.Value, out *[]c19CapSite) {
	st := c19CapState{fn: fn, at: at, D: D, d: desc(D), via: []ssa.Instruction{at}}
	if call, ok := at.(*ssa.Call); ok {
		st.bytes = c19Results(call, 0)
	} else {
		st.why = "the read is deferred or run as a goroutine"
	}
	c19CapWalk(w, entry, st, 0, out)
}

func c19CapWalk(w *World, entry *ssa.Function, st c19CapState, depth int, out *[]c19CapSite) {
	fn := st.fn
	facts := map[string]string{}
	for l, p := range guardsAt(w.Info(fn), st.at) {
		facts[l] = p
	}
	for l, p := range st.inner {
		if _, dup := facts[l]; !dup {
			facts[l] = p
		}
	}
	// cap
	// D's Size must not be written after the check: no store to the Size field of an alloc D is loaded from
	mod := false
	if un, isLoad := st.D.(*ssa.UnOp); isLoad {
		if al, isAl := un.X.(*ssa.Alloc); isAl {
			mod = len(fieldStores(fn, al, "Size")) > 0
		}
	}
	if !st.capOK && !mod {
		if st.K, st.capOK = c19Capped(facts, st.d); st.capOK {
			for _, l := range labelList(facts) {
				if k, ok := c19Capped(map[string]string{l: ""}, st.d); ok && k == st.K {
					st.capAt = strings.TrimSuffix(facts[l], "~")
					break
				}
			}
		}
	}
	// a frame further out can only help when the descriptor or the bound of a comparison on it comes from there
	capLift := !st.capOK && !mod && (strings.Contains(st.d, "param:") || c19CapPending(facts, st.d))
	// class
	var up []int
	if st.class == "" && len(st.bytes) > 0 {
		u := c19BytesUse(w, entry, fn, st.bytes, 0, map[ssa.Value]bool{})
		switch {
		case u.decoded:
			st.class = "manifest"
		case u.envelope:
			st.class = "blob"
		default:
			up = u.upList()
			if len(up) == 0 {
				st.why = "the bytes read in " + fnName(fn) + " are neither decoded nor returned"
			}
		}
		st.bytes = nil
	}
	if (capLift || len(up) > 0) && depth < 3 && c19Liftable(w, fn) {
		if sites := c19CallSites(w, fn); len(sites) > 0 {
			pi := -1
			if st.D != nil {
				pi = c19ParamIdx(fn, st.D)
			}
			for _, cs := range sites {
				tr := c19Into(fn, cs, c19Same)
				nx := c19CapState{fn: cs.Parent(), at: cs, d: tr(st.d), inner: map[string]string{}, capOK: st.capOK, K: st.K, class: st.class, why: st.why, capAt: st.capAt}
				nx.via = append(append([]ssa.Instruction{}, st.via...), cs)
				if pi >= 0 && pi < len(cs.Call.Args) {
					nx.D = cs.Call.Args[pi]
					nx.d = desc(nx.D)
				}
				// what this frame contributes, read with the constants of this call: a branch of fn whose condition is
				// decided by a constant argument (`limit > 0 && d.Size > limit` called with a positive constant) is not a
				// path of this call
				here := facts
				if cut := c19ConstFalseEdges(fn, tr); len(cut) > 0 && st.at.Block().Index != 0 && innermostLoop(fn, st.at.Block()) == nil {
					g, reach := w.Info(fn).mustPassBetweenCut([]int{0}, blocksOf(st.at), cut)
					if !reach {
						continue // with these arguments the call does not get to the read
					}
					here = map[string]string{}
					for l, p := range g {
						here[l] = p
					}
					for l, p := range st.inner {
						if _, dup := here[l]; !dup {
							here[l] = p
						}
					}
				}
				for l, p := range here {
					nx.inner[tr(l)] = p
				}
				for _, k := range up {
					nx.bytes = append(nx.bytes, c19Results(cs, k)...)
				}
				if len(up) > 0 && len(nx.bytes) == 0 {
					nx.why = "the bytes " + fnName(fn) + " returns are dropped"
				}
				c19CapWalk(w, entry, nx, depth+1, out)
			}
			return
		}
	}
	if len(up) > 0 {
		st.why = "the bytes leave through the results of " + fnName(fn) + ", whose callers are not a closed list"
	}
	site := c19CapSite{fn: fn, in: st.at, ok: st.capOK, K: st.K, class: st.class, why: st.why, via: st.via, capAt: st.capAt}
	if !st.capOK {
		site.detail = fmt.Sprintf("fetched descriptor %s; size modified=%v; facts on every path to the fetch: %s", trunc(st.d, 120), mod, summarizeLabels(facts, 8))
	}
	*out = append(*out, site)
}

var c19ConstCmpRe = regexp.MustCompile(`^(EQ|NE|LT|LE|GT|GE)\(const:(-?\d+),const:(-?\d+)\)$`)

// c19ConstFalseEdges: the branch edges of fn whose condition, with fn's parameters replaced by the arguments of one
// call (tr), is a comparison of two integer constants that is false.
func c19ConstFalseEdges(fn *ssa.Function, tr func(string) string) map[edgeKey]bool {
	out := map[edgeKey]bool{}
	for _, b := range fn.Blocks {
		iff, ok := blockTerm(b).(*ssa.If)
		if !ok || len(b.Succs) != 2 {
			continue
		}
		for j := 0; j < 2; j++ {
			l := condLabel(iff.Cond, j == 0)
			if !strings.Contains(l, "param:") {
				continue
			}
			m := c19ConstCmpRe.FindStringSubmatch(tr(l))
			if m == nil {
				continue
			}
			x, e1 := strconv.ParseInt(m[2], 10, 64)
			y, e2 := strconv.ParseInt(m[3], 10, 64)
			if e1 != nil || e2 != nil {
				continue
			}
			var holds bool
			switch m[1] {
			case "EQ":
				holds = x == y
			case "NE":
				holds = x != y
			case "LT":
				holds = x < y
			case "LE":
				holds = x <= y
			case "GT":
				holds = x > y
			case "GE":
				holds = x >= y
			}
			if !holds {
				out[edgeKey{b.Index, j}] = true
			}
		}
	}
	return out
}

// c19CapPending: the facts contain a comparison `d.Size <= X` whose bound X is spelled with a parameter: the frame
// of a caller, where the parameter is an argument, may know X as a constant.
func c19CapPending(facts map[string]string, d string) bool {
	for l := range facts {
		if !strings.Contains(l, "param:") {
			continue
		}
		if (strings.HasPrefix(l, "LE("+d+".Size,") || strings.HasPrefix(l, "LT("+d+".Size,")) && strings.Contains(l[len(d)+9:], "param:") {
			return true
		}
		if (strings.HasPrefix(l, "GE(") || strings.HasPrefix(l, "GT(")) && strings.HasSuffix(l, ","+d+".Size)") && strings.Contains(l[:len(l)-len(d)-7], "param:") {
			return true
		}
	}
	return false
}

// c19Results: the values that hold result k of a call (the call itself for a single result).
func c19Results(call *ssa.Call, k int) []ssa.Value {
	if _, isTuple := call.Type().(*types.Tuple); !isTuple {
		if k == 0 {
			return []ssa.Value{call}
		}
		return nil
	}
	var out []ssa.Value
	if refs := call.Referrers(); refs != nil {
		for _, r := range *refs {
			if ex, ok := r.(*ssa.Extract); ok && ex.Index == k {
				out = append(out, ex)
			}
		}
	}
	return out
}

// c19Use: what a function does with a value that holds fetched content.
type c19Use struct {
	decoded  bool         // handed to encoding/json (Unmarshal, or a Decoder reading it)
	envelope bool         // returned as the first result of the exported fetch operation
	up       map[int]bool // returned as result k of a function that is not that operation
}

func (u c19Use) upList() []int {
	var out []int
	for k := range u.up {
		out = append(out, k)
	}
	sort.Ints(out)
	return out
}

// c19Carriers: standard-library and oras-go calls whose result holds (a view of, a reader over, the content read
// from) their first argument.
var c19Carriers = []string{"bytes.NewReader", "bytes.NewBuffer", "bytes.NewBufferString", "bytes.Clone", "bytes.TrimSpace", "slices.Clone",
	"strings.NewReader", "io.ReadAll", "io.LimitReader", "io.NopCloser", "bufio.NewReader", "encoding/json.NewDecoder", "oras/content.ReadAll"}

// c19BytesUse follows a value (the bytes a fetch returned, or the reader a Fetch opened) through fn: copies, phis,
// conversions, slices, locals it is parked in (a variable or a field of a local record, flow-insensitively), readers
// and buffers made over it, module functions it is passed to (their parameter is followed in turn; what they return
// of it comes back as the call's result) — up to the points that decide its class: a JSON decode, or a return.
func c19BytesUse(w *World, entry, fn *ssa.Function, starts []ssa.Value, depth int, seen map[ssa.Value]bool) c19Use {
	u := c19Use{up: map[int]bool{}}
	var work []ssa.Value
	push := func(v ssa.Value) {
		if v != nil && !seen[v] {
			seen[v] = true
			work = append(work, v)
		}
	}
	pushLoads := func(addr ssa.Value) {
		if refs := addr.Referrers(); refs != nil {
			for _, r := range *refs {
				if un, ok := r.(*ssa.UnOp); ok && un.Op == token.MUL {
					push(un)
				}
			}
		}
	}
	for _, v := range starts {
		push(v)
	}
	for len(work) > 0 {
		x := work[len(work)-1]
		work = work[:len(work)-1]
		refs := x.Referrers()
		if refs == nil {
			continue
		}
		for _, r := range *refs {
			switch r := r.(type) {
			case *ssa.Phi:
				push(r)
			case *ssa.ChangeType:
				push(r)
			case *ssa.Convert:
				push(r)
			case *ssa.ChangeInterface:
				push(r)
			case *ssa.MakeInterface:
				push(r)
			case *ssa.Slice:
				if r.X == x {
					push(r)
				}
			case *ssa.TypeAssert:
				if r.CommaOk {
					if rr := r.Referrers(); rr != nil {
						for _, e := range *rr {
							if ex, ok := e.(*ssa.Extract); ok && ex.Index == 0 {
								push(ex)
							}
						}
					}
				} else {
					push(r)
				}
			case *ssa.Store:
				if r.Val != x {
					continue
				}
				switch a := r.Addr.(type) {
				case *ssa.Alloc:
					pushLoads(a)
				case *ssa.FieldAddr:
					// a field of a local record: the loads of that field of that record
					if ar := a.X.Referrers(); ar != nil {
						for _, o := range *ar {
							if fa, ok := o.(*ssa.FieldAddr); ok && fa.Field == a.Field {
								pushLoads(fa)
							}
						}
					}
				}
			case *ssa.Return:
				for k, res := range r.Results {
					if res != x {
						continue
					}
					if fn == entry {
						if k == 0 {
							u.envelope = true
						}
					} else {
						u.up[k] = true
					}
				}
			case *ssa.Call:
				cc := r.Common()
				args := cc.Args
				switch {
				case isCallTo(r, "encoding/json.Unmarshal") && len(args) == 2:
					if args[0] == x {
						u.decoded = true
					}
				case isCallTo(r, "(*encoding/json.Decoder).Decode") && len(args) == 2:
					if args[0] == x {
						u.decoded = true
					}
				case isCallTo(r, c19Carriers...) && len(args) > 0:
					if args[0] == x {
						for _, v := range c19Results(r, 0) {
							push(v)
						}
					}
				case isCallTo(r, "builtin:append"):
					push(r)
				default:
					g := staticCallee(r)
					if g == nil || g.Blocks == nil || !w.IsProductFn(g) || depth >= 3 || cc.IsInvoke() {
						continue
					}
					for i, a := range args {
						if a != x || i >= len(g.Params) {
							continue
						}
						in := c19BytesUse(w, entry, g, []ssa.Value{g.Params[i]}, depth+1, map[ssa.Value]bool{})
						u.decoded = u.decoded || in.decoded
						u.envelope = u.envelope || in.envelope
						for _, k := range in.upList() {
							for _, v := range c19Results(r, k) {
								push(v)
							}
						}
					}
				}
			}
		}
	}
	return u
}

// c19SortSites orders decisions by function and position and merges repeated decisions at one instruction (the two
// sinks of a `Fetch` + `ReadAll` helper arrive at the same call site): the weaker verdict, the larger K and the
// stricter class stay.
func c19SortSites(sites []c19CapSite) []c19CapSite {
	pos := func(s c19CapSite) (string, int, int) {
		return fnName(s.fn), s.in.Block().Index, instrIndex(s.in)
	}
	sort.SliceStable(sites, func(i, j int) bool {
		a1, a2, a3 := pos(sites[i])
		b1, b2, b3 := pos(sites[j])
		if a1 != b1 {
			return a1 < b1
		}
		if a2 != b2 {
			return a2 < b2
		}
		return a3 < b3
	})
	rank := map[string]int{"manifest": 2, "": 1, "blob": 0}
	var out []c19CapSite
	for _, s := range sites {
		if n := len(out); n > 0 && out[n-1].in == s.in {
			o := &out[n-1]
			cls, why := o.class, o.why
			if rank[s.class] > rank[cls] {
				cls, why = s.class, s.why
			}
			switch {
			case o.ok && !s.ok:
				*o = s
			case o.ok && s.ok && s.K > o.K:
				o.K, o.capAt = s.K, s.capAt
			}
			o.class, o.why = cls, why
			continue
		}
		out = append(out, s)
	}
	return out
}

// c19CapRules: rule (a). Two obligations per fetch, after lifting (c19CapDecide):
//
// cap-before-fetch/<fn>#k — the read is reachable only through `D.Size <= K`, K a positive constant. Without it the
// declared size of a hostile referrer decides how much is allocated and read: the clause "refused before its content
// is used" fails for every size.
//
// cap-class/<fn>#k — K is at most the cap of the reference tree for that kind of content: 4 MiB for what is decoded as
// a manifest, 32 MiB for the envelope FetchSignatureBlob hands out. A manifest fetched under the blob cap (the
// comparison of a shared helper written against the wrong bound, a call site passing the wrong constant) is a
// referrer "whose manifest exceeds the size caps" that is fetched, decoded and listed: the clause fails for the sizes
// between the two caps, although every fetch still is capped by *some* constant. Accepted as equivalent: the test
// inline, in a helper of its own (`tooLarge(d, limit)`, composed by the engine), in the fetching helper against a
// constant or against a parameter in any position that every call site binds to a constant, through further
// wrappers; `<` instead of `<=` (a cap of K-1); any smaller constant. Not decided here: which decode belongs to
// which media type (lookup/…, list/…).
func c19CapRules(c *Ctx) {
	w := c.W
	rule := "size cap before use: a read of D's content (content.FetchAll(_, _, D), content.ReadAll(_, D), x.Fetch(_, D)) is reachable only through `D.Size <= K` on the same descriptor D, which is not modified in between; K is a positive constant, or an integer parameter of the unexported helper the read stands in to which every call site passes a positive constant (decided per call site)"
	classRule := fmt.Sprintf("size caps per use: content that is decoded as a manifest (the fetched bytes reach json.Unmarshal / a json.Decoder) is fetched under `D.Size <= K` with K <= %d (4 MiB), the envelope that FetchSignatureBlob returns under K <= %d (32 MiB); K is the constant the comparison guarding the read really uses (a cap parameter of a helper that does not take part in that comparison does not count). "+
		"The two numbers are the caps of the reference tree (registry/repository.go: the library's limits for a signature manifest and a signature envelope); raising one is a behaviour change of the clause `a referrer whose manifest or blob exceeds the size caps is refused before its content is used`, not a refactoring", c19ManifestCap, c19BlobCap)
	var entry *ssa.Function
	for _, f := range w.implementers("registry", "Repository", "FetchSignatureBlob") {
		if f.Pkg != nil && f.Pkg.Pkg.Path() == modPath+"/registry" {
			entry = f
		}
	}
	var sites []c19CapSite
	for _, fn := range w.FuncsOfPkg("registry") {
		for _, ci := range allCalls(fn) {
			D := c19SinkDesc(ci)
			if D == nil {
				continue
			}
			c.SeenFn(fn.String())
			c.Evals++
			c19CapDecide(w, entry, fn, ci, D, &sites)
		}
	}
	c19CapMemo[w] = append([]c19CapSite{}, sites...)
	sites = c19SortSites(sites)
	perFn := map[string]int{}
	nClass := map[string]int{}
	for _, s := range sites {
		c.SeenFn(s.fn.String())
		perFn[fnName(s.fn)]++
		nClass[s.class]++
		sfx := fmt.Sprintf("%s#%d", fnName(s.fn), perFn[fnName(s.fn)])
		if !s.ok {
			c.Bad("cap-before-fetch/"+sfx, rule, w.InstrPos(s.in), s.detail)
			continue
		}
		c.OK("cap-before-fetch/"+sfx, rule+fmt.Sprintf(" [K=%d]", s.K), w.InstrPos(s.in))
		what := s.class
		if what == "" {
			what = "use not identified"
		}
		tag := fmt.Sprintf(" [%s, K=%d]", what, s.K)
		switch {
		case s.K > c19BlobCap:
			c.Bad("cap-class/"+sfx, classRule, w.InstrPos(s.in), fmt.Sprintf("content fetched under a cap of %d bytes (comparison at %s), above both caps of the reference tree", s.K, s.capAt))
		case s.class == "manifest" && s.K > c19ManifestCap:
			c.Bad("cap-class/"+sfx, classRule, w.InstrPos(s.in), fmt.Sprintf("manifest fetched under a cap of %d bytes (the manifest cap is %d): the bytes of this fetch are decoded as JSON; the comparison that guards the read stands at %s", s.K, c19ManifestCap, s.capAt))
		case s.class == "" && s.K > c19ManifestCap:
			c.Unk("cap-class/"+sfx, classRule, w.InstrPos(s.in), fmt.Sprintf("content fetched under a cap of %d bytes, which only the envelope may be, but what the bytes are used for was not identified: %s (comparison at %s)", s.K, s.why, s.capAt))
		default:
			c.OK("cap-class/"+sfx, classRule+tag, w.InstrPos(s.in))
		}
	}
	// vacuity guard, on the obligations after lifting: the registry package fetches manifests (listing fallback, blob
	// lookup) and the envelope
	if len(sites) < 2 || nClass["manifest"] < 1 || nClass["blob"] < 1 {
		c.Unk("cap-before-fetch#count", "vacuity guard: the registry package fetches at least one manifest (bytes decoded as JSON) and the envelope blob (bytes returned by FetchSignatureBlob)", "-",
			fmt.Sprintf("%d fetches after lifting: %d manifest, %d blob, %d not identified (4 = 3 + 1 + 0 on the reference tree)", len(sites), nClass["manifest"], nClass["blob"], nClass[""]))
	} else {
		c.OK("cap-before-fetch#count", "vacuity guard: the registry package fetches at least one manifest (bytes decoded as JSON) and the envelope blob (bytes returned by FetchSignatureBlob)", "-")
	}
}

// ---------- gates decided inside helpers -------------------------------------------

// c19CondCall: the condition, evaluating to truth, says that a call succeeded (its error is nil, or the predicate
// it is answered what was asked). Mirrors the engine's composeCond.
func c19CondCall(cond ssa.Value, truth bool) (*ssa.Call, Mode, bool) {
	switch x := cond.(type) {
	case *ssa.UnOp:
		if x.Op == token.NOT {
			return c19CondCall(x.X, !truth)
		}
	case *ssa.BinOp:
		var o ssa.Value
		if isNilConst(x.Y) {
			o = x.X
		} else if isNilConst(x.X) {
			o = x.Y
		} else {
			return nil, Mode{}, false
		}
		isNil := (x.Op == token.EQL && truth) || (x.Op == token.NEQ && !truth)
		if !isNil || !isErrorType(o.Type()) {
			return nil, Mode{}, false
		}
		if c := callOf(o); c != nil {
			return c, Mode{Kind: mErr}, true
		}
	case *ssa.Call:
		if b, ok := x.Type().Underlying().(*types.Basic); ok && b.Kind() == types.Bool {
			return x, Mode{Kind: mBool, Want: truth}, true
		}
	}
	return nil, Mode{}, false
}

// c19GateCut: the If edges of fn that imply one of the given facts (facts are spelled in the frame of the function
// the question is asked for; tr translates a label of fn's frame into that frame). An edge implies one of the facts
// if its condition, evaluating the way the edge requires, implies one of them (c19Implies: its own label, membership
// in a read-only table all of whose keys are among the facts, or the success of a module function that succeeds
// only through such a fact).
func c19GateCut(w *World, fn *ssa.Function, facts map[string]bool, tr func(string) string, depth int) map[edgeKey]bool {
	cut := map[edgeKey]bool{}
	for _, b := range fn.Blocks {
		iff, ok := blockTerm(b).(*ssa.If)
		if !ok || len(b.Succs) != 2 {
			continue
		}
		for j := 0; j < 2; j++ {
			if c19Implies(w, fn, iff.Cond, j == 0, facts, tr, depth) {
				cut[edgeKey{b.Index, j}] = true
			}
		}
	}
	return cut
}

// c19Implies: the boolean value v of fn, evaluating to `truth`, implies one of the facts (spelled in the frame tr
// translates fn's labels into). Beyond the label of v itself this is
//
//   - membership in a read-only table (c19CondPresent): `_, ok := table[x]`, `table[x] != nil`, `set[x]` say that x is
//     one of the table's constant keys k1..kn; if every `x == ki` is one of the facts, the disjunction is implied;
//   - the success of a module function (`h(args) == nil`, `h(args)` answering `truth`) that cannot succeed once its
//     own edges implying the facts are cut, except through exits that hand back a value which itself implies the
//     facts (`return x == A || x == B`: the first comparison is a branch of h, the second is the value returned on
//     the remaining exit; the caller's branch on h's answer is a branch on that comparison). h returns success only
//     through one of the facts, so the caller learns the disjunction from h's success. This is the disjunctive
//     counterpart of the engine's label composition (which hands up only facts that hold on every exit of h).
func c19Implies(w *World, fn *ssa.Function, v ssa.Value, truth bool, facts map[string]bool, tr func(string) string, depth int) bool {
	l := condLabel(v, truth)
	if facts[tr(l)] {
		return true
	}
	if tw, ok := labelTwin(l); ok && facts[tr(tw)] {
		return true
	}
	if tb, lk := c19CondPresent(w, v, truth); tb != nil {
		all := len(tb.Keys) > 0
		for _, k := range tb.Keys {
			if !facts[tr("EQ("+desc(lk.Index)+","+desc(k)+")")] {
				all = false
			}
		}
		return all
	}
	if depth >= 3 {
		return false
	}
	call, mode, ok := c19CondCall(v, truth)
	if !ok {
		return false
	}
	h := staticCallee(call)
	if h == nil || h == fn || h.Blocks == nil || !w.IsProductFn(h) || len(call.Call.Args) != len(h.Params) {
		return false
	}
	tr2 := c19Into(h, call, tr)
	hc := c19GateCut(w, h, facts, tr2, depth+1)
	hi := w.Info(h)
	if len(hc) > 0 && hi.successWitness(mode, entryState(), hc) == nil {
		return true
	}
	if mode.Kind != mBool {
		return false
	}
	// the exits that can still answer `Want`: each must return a value that implies the facts
	rest := hi.summarizeFrom(mode, entryState(), hc)
	if rest == nil || !rest.Complete || len(rest.Exits) == 0 {
		return false
	}
	for _, e := range rest.Exits {
		rv := c19ExitResult(e, 0)
		if rv == nil {
			return false
		}
		if _, isConst := rv.(*ssa.Const); isConst {
			return false // an unconditional answer
		}
		if !c19Implies(w, h, rv, mode.Want, facts, tr2, depth+1) {
			return false
		}
	}
	return true
}

// ---------- read-only tables ----------------------------------------------------------

// c19Table: a package-level `map[string]T` that is a constant of the program: assigned once, in the package
// initialiser, a map made there and filled there under constant keys (each once); everywhere else in the module it is
// only loaded, and the loaded map only indexed. A lookup `table[x]` then finds an entry iff x equals one of the keys,
// and delivers the value the initialiser stored under that key: a dispatch through the table is a finite case
// distinction over x, written as data.
type c19Table struct {
	G    *ssa.Global
	Keys []*ssa.Const
	Vals []ssa.Value
}

var c19TableMemo = map[*ssa.Global]*c19Table{}

func c19ReadOnlyTable(w *World, g *ssa.Global) *c19Table {
	if t, done := c19TableMemo[g]; done {
		return t
	}
	c19TableMemo[g] = nil
	pt, ok := g.Type().Underlying().(*types.Pointer)
	if !ok {
		return nil
	}
	mt, ok := pt.Elem().Underlying().(*types.Map)
	if !ok {
		return nil
	}
	if b, ok := mt.Key().Underlying().(*types.Basic); !ok || b.Kind() != types.String {
		return nil
	}
	var mk *ssa.MakeMap
	nStore := 0
	for fn := range w.allFuncs {
		p := fnPkg(fn)
		if fn.Blocks == nil || p == nil || !strings.HasPrefix(p.Path(), modPath) {
			continue
		}
		isInit := fn.Parent() == nil && fn.Pkg != nil && fn.Pkg == g.Pkg && fn.Pkg.Func("init") == fn
		for _, b := range fn.Blocks {
			for _, in := range b.Instrs {
				uses := false
				for _, op := range in.Operands(nil) {
					if op != nil && *op == ssa.Value(g) {
						uses = true
					}
				}
				if !uses {
					continue
				}
				switch x := in.(type) {
				case *ssa.DebugRef:
				case *ssa.Store:
					m, isMk := x.Val.(*ssa.MakeMap)
					if !isInit || x.Addr != ssa.Value(g) || !isMk {
						return nil
					}
					mk = m
					nStore++
				case *ssa.UnOp:
					if x.Op != token.MUL || x.Referrers() == nil {
						return nil
					}
					for _, r := range *x.Referrers() {
						switch y := r.(type) {
						case *ssa.DebugRef:
						case *ssa.Lookup:
							if y.X != ssa.Value(x) || y.Index == ssa.Value(x) {
								return nil
							}
						default:
							return nil // ranged over, written, passed on, …
						}
					}
				default:
					return nil
				}
			}
		}
	}
	if nStore != 1 || mk == nil || mk.Referrers() == nil {
		return nil
	}
	t := &c19Table{G: g}
	seen := map[string]bool{}
	for _, r := range *mk.Referrers() {
		switch x := r.(type) {
		case *ssa.DebugRef:
		case *ssa.Store:
			if x.Addr != ssa.Value(g) || x.Val != ssa.Value(mk) {
				return nil
			}
		case *ssa.MapUpdate:
			k, isK := x.Key.(*ssa.Const)
			if x.Map != ssa.Value(mk) || x.Value == ssa.Value(mk) || !isK || k.Value == nil || seen[desc(k)] {
				return nil
			}
			seen[desc(k)] = true
			t.Keys = append(t.Keys, k)
			t.Vals = append(t.Vals, x.Value)
		default:
			return nil
		}
	}
	if len(t.Keys) == 0 {
		return nil
	}
	c19TableMemo[g] = t
	return t
}

// c19TableLookup: v is what a lookup in a read-only table delivers: the element found (`table[x]`, or the first
// result of `e, ok := table[x]`) — elem — or the presence flag `ok`.
func c19TableLookup(w *World, v ssa.Value) (tb *c19Table, lk *ssa.Lookup, elem bool) {
	v = loadOrigin(v)
	switch x := v.(type) {
	case *ssa.Lookup:
		if x.CommaOk {
			return nil, nil, false
		}
		lk, elem = x, true
	case *ssa.Extract:
		l, ok := x.Tuple.(*ssa.Lookup)
		if !ok || !l.CommaOk {
			return nil, nil, false
		}
		lk, elem = l, x.Index == 0
	default:
		return nil, nil, false
	}
	ld, ok := lk.X.(*ssa.UnOp)
	if !ok || ld.Op != token.MUL {
		return nil, nil, false
	}
	g, ok := ld.X.(*ssa.Global)
	if !ok {
		return nil, nil, false
	}
	if tb = c19ReadOnlyTable(w, g); tb == nil {
		return nil, nil, false
	}
	return tb, lk, elem
}

// c19CondPresent: cond, evaluating to `truth`, says that the key of a lookup in a read-only table is present: the
// presence flag is true; or the element found is not nil / is `true` (a missing key delivers the zero value — nil,
// false —, so an element that is not the zero value was found under its key).
func c19CondPresent(w *World, cond ssa.Value, truth bool) (*c19Table, *ssa.Lookup) {
	for {
		u, ok := cond.(*ssa.UnOp)
		if !ok || u.Op != token.NOT {
			break
		}
		cond, truth = u.X, !truth
	}
	if bo, ok := cond.(*ssa.BinOp); ok {
		var o ssa.Value
		switch {
		case isNilConst(bo.Y):
			o = bo.X
		case isNilConst(bo.X):
			o = bo.Y
		default:
			return nil, nil
		}
		if !((bo.Op == token.NEQ && truth) || (bo.Op == token.EQL && !truth)) {
			return nil, nil
		}
		if tb, lk, elem := c19TableLookup(w, o); tb != nil && elem {
			return tb, lk
		}
		return nil, nil
	}
	if !truth || !isBoolType(cond.Type()) {
		return nil, nil
	}
	if tb, lk, _ := c19TableLookup(w, cond); tb != nil {
		// the presence flag, or a boolean element: both are false for a missing key
		return tb, lk
	}
	return nil, nil
}

// c19Into: translation of labels of callee h (called at `call`) into the frame tr translates the caller's labels into:
// h's parameters are replaced by the arguments of the call; when h is a closure made at the call (`f := func(…){…}`
// called as f(…)), its captured variables that hold one value for good (written once, no closure writes them, no
// address taken — singleStore) are replaced by that value as the enclosing function spells it. A filter written as a
// local closure reads the enclosing function's `desc` as a captured variable; it is the same descriptor.
func c19Into(h *ssa.Function, call *ssa.Call, tr func(string) string) func(string) string {
	var names, descs []string
	for i, p := range h.Params {
		if i < len(call.Call.Args) {
			names = append(names, p.Name())
			descs = append(descs, desc(call.Call.Args[i]))
		}
	}
	var fnames, fdescs []string
	if mc, ok := call.Call.Value.(*ssa.MakeClosure); ok && mc.Fn == ssa.Value(h) {
		for i, fv := range h.FreeVars {
			if i >= len(mc.Bindings) {
				break
			}
			if al, ok := mc.Bindings[i].(*ssa.Alloc); ok {
				if sv := singleStore(al); sv != nil {
					fnames = append(fnames, fv.Name())
					fdescs = append(fdescs, desc(sv))
				}
			}
		}
	}
	return func(l string) string {
		if len(fnames) > 0 && strings.Contains(l, "free:") {
			// captured variables first become placeholders (their replacement is spelled in the caller's frame and must
			// not be mistaken for a parameter of h), then parameters, then the placeholders are filled in
			l = c19SubstFree(l, fnames, func(k int) string { return fmt.Sprintf("\x00%d\x00", k) })
			l = substParams(l, names, descs)
			for k := range fnames {
				l = strings.ReplaceAll(l, fmt.Sprintf("\x00%d\x00", k), fdescs[k])
			}
			return tr(l)
		}
		return tr(substParams(l, names, descs))
	}
}

// c19SubstFree replaces the renderings `free:<name>` of the given captured variables.
func c19SubstFree(l string, names []string, repl func(int) string) string {
	var sb strings.Builder
	for i := 0; i < len(l); {
		j := strings.Index(l[i:], "free:")
		if j < 0 {
			sb.WriteString(l[i:])
			break
		}
		sb.WriteString(l[i : i+j])
		k := i + j + len("free:")
		e := k
		for e < len(l) && (l[e] == '_' || l[e] >= '0' && l[e] <= '9' || l[e] >= 'a' && l[e] <= 'z' || l[e] >= 'A' && l[e] <= 'Z') {
			e++
		}
		found := false
		for n := range names {
			if names[n] == l[k:e] {
				sb.WriteString(repl(n))
				found = true
				break
			}
		}
		if !found {
			sb.WriteString(l[i+j : e])
		}
		i = e
	}
	return sb.String()
}

func c19Same(l string) string { return l }

// ---------- the decoded blob list of the lookup (b) -----------------------------------

// c19Decode: one json.Unmarshal whose target supplies the list the lookup indexes.
type c19Decode struct {
	Fn    *ssa.Function
	U     *ssa.Call
	X     *ssa.Alloc
	Typ   string
	Field string            // field of X the list is read from
	Guard map[string]string // facts, in the lookup's frame, on every path to the decode
	Src   string            // the decoded bytes, in the lookup's frame
}

type c19ListResolver struct {
	w *World
	// per function on the way: the passing-edge facts (in that function's own frame) one of which every value of
	// the list has come through — decode succeeded / the helper that decoded reported no error
	gates map[*ssa.Function][]string
	why   string
	// the calls the resolution has descended through (innermost last): a parameter of the function being looked at is
	// the argument of the call it was entered through
	stack []c19ListUp
}

// c19ListUp: the caller's side of a call the list resolution descended through.
type c19ListUp struct {
	fn    *ssa.Function // the caller
	h     *ssa.Function // the function entered
	call  *ssa.Call
	tr    func(string) string
	outer map[string]string
}

// leaves resolves a list value to the decodes it comes from: through phis, through the result of an unexported
// helper (each success-capable exit of the helper, translated into the caller's frame), down to `X.Field` with X
// the target of a json.Unmarshal of the same function. Moving the decode into a helper moves the decode's gate
// into the helper's summary and leaves the clause unchanged: the list is still a field of the manifest decoded
// from the bytes the caller passed, under the media-type test that (after parameter substitution) reads the
// caller's descriptor.
//
// Fifth pass — the list may travel inside a record. What the helper hands back (or what the lookup itself fills in)
// may be a small struct that bundles the decoded fields (`manifestView{subject: m.Subject, …, blobs: m.Layers}`), by
// value or by pointer, assembled by a composite literal, by field assignments on alternative branches or by a
// constructor function; the lookup then reads the list out of that record. Reading field f of a record whose
// address never leaves the functions looked at (c19RecordUses / c19PtrReadOnly) yields what one of the writers of f
// stored: the field stores of f and, for a store of a whole record value, field f of that value (fieldOfAddr /
// fieldOfValue). The resolution takes the union over ALL such writers, wherever they stand, and requires each of
// them to be the layer/blob list of a manifest decoded from the fetched bytes under the media-type test that belongs
// to its type; a record nobody has written yet holds the empty list, which cannot pass `len == 1` and so contributes
// no success. Hence the clause holds for whatever writer the read actually sees, and the bundling adds nothing to
// and removes nothing from what the obligation demands of the decode: its guard, its source bytes and its error
// gate are found where the decode stands, exactly as when the helper returns the list itself. A parameter of a
// function entered on the way (a constructor `newView(m.Subject, …, m.Layers)`) is the argument of that very call.
func (r *c19ListResolver) leaves(fn *ssa.Function, v ssa.Value, tr func(string) string, outer map[string]string, depth int) []c19Decode {
	if depth > 16 {
		r.why = "list value nested too deeply"
		return nil
	}
	switch x := v.(type) {
	case *ssa.Phi:
		var out []c19Decode
		for _, e := range x.Edges {
			if e == v {
				continue
			}
			out = append(out, r.leaves(fn, e, tr, outer, depth+1)...)
		}
		return out
	case *ssa.Parameter:
		if out, ok := r.inCaller(fn, x, func(up c19ListUp, arg ssa.Value) ([]c19Decode, bool) {
			return r.leaves(up.fn, arg, up.tr, up.outer, depth+1), true
		}); ok {
			return out
		}
	case *ssa.Extract:
		hc, ok := x.Tuple.(*ssa.Call)
		if !ok || isErrorType(x.Type()) {
			break
		}
		if out, ok := r.throughCall(fn, hc, x.Index, tr, outer, func(h *ssa.Function, rv ssa.Value, tr2 func(string) string, out2 map[string]string) ([]c19Decode, bool) {
			return r.leaves(h, rv, tr2, out2, depth+1), true
		}); ok {
			return out
		}
	case *ssa.Call:
		if out, ok := r.throughCall(fn, x, 0, tr, outer, func(h *ssa.Function, rv ssa.Value, tr2 func(string) string, out2 map[string]string) ([]c19Decode, bool) {
			return r.leaves(h, rv, tr2, out2, depth+1), true
		}); ok {
			return out
		}
	case *ssa.Field:
		if out, ok := r.fieldOfValue(fn, x.X, x.Field, tr, outer, depth+1); ok {
			return out
		}
	case *ssa.UnOp:
		fa, ok := x.X.(*ssa.FieldAddr)
		if !ok || x.Op != token.MUL {
			break
		}
		if X, ok := fa.X.(*ssa.Alloc); ok {
			var out []c19Decode
			for _, ci := range findCalls(fn, "encoding/json.Unmarshal") {
				U := ci.(*ssa.Call)
				mi, ok := U.Call.Args[1].(*ssa.MakeInterface)
				if !ok || mi.X != ssa.Value(X) {
					continue
				}
				g := map[string]string{}
				for l, st := range outer {
					g[l] = st
				}
				for l, st := range r.w.Info(fn).GuardsOf(U) {
					g[tr(l)] = st
				}
				r.gates[fn] = append(r.gates[fn], "EQ("+desc(U)+",nil)")
				out = append(out, c19Decode{Fn: fn, U: U, X: X, Typ: namedOf(X.Type()), Field: fieldName(fa.X.Type(), fa.Field), Guard: g, Src: tr(desc(U.Call.Args[0]))})
			}
			if len(out) > 0 {
				return out
			}
		}
		// not a decode target: a record the list travels in
		if out, ok := r.fieldOfAddr(fn, fa.X, fa.Field, tr, outer, depth+1); ok {
			return out
		}
	}
	if r.why == "" {
		r.why = "list leaf " + trunc(tr(desc(v)), 160) + " is not the layer/blob list of a decoded manifest"
	}
	return nil
}

// inCaller: p is a parameter of fn, and fn was entered through the call on top of the stack: cont is run on the
// argument bound to p, in the caller's frame (with the stack as it was when the caller was looked at).
func (r *c19ListResolver) inCaller(fn *ssa.Function, p *ssa.Parameter, cont func(up c19ListUp, arg ssa.Value) ([]c19Decode, bool)) ([]c19Decode, bool) {
	n := len(r.stack)
	if n == 0 || r.stack[n-1].h != fn || len(fn.FreeVars) > 0 {
		return nil, false
	}
	up := r.stack[n-1]
	for i, q := range fn.Params {
		if q != p || i >= len(up.call.Call.Args) {
			continue
		}
		saved := r.stack
		r.stack = append([]c19ListUp(nil), saved[:n-1]...)
		out, ok := cont(up, up.call.Call.Args[i])
		r.stack = saved
		return out, ok
	}
	return nil, false
}

// throughCall: result idx of the call hc (in fn) as what the function(s) it can run return there: cont is run, in
// the callee's frame, on the value each success-capable exit returns (a function with an error result: the caller's
// test of that error is recorded as a gate of fn) resp. on the value of every return statement (a function with a
// single, non-error result: a constructor). ok is false when the call is not one the resolver can see through.
func (r *c19ListResolver) throughCall(fn *ssa.Function, hc *ssa.Call, idx int, tr func(string) string, outer map[string]string, cont func(h *ssa.Function, rv ssa.Value, tr2 func(string) string, out2 map[string]string) ([]c19Decode, bool)) ([]c19Decode, bool) {
	if hc.Call.IsInvoke() {
		return nil, false
	}
	// the function(s) the call can run: its static callee, or — for a call of what a lookup in a read-only table
	// delivered (c19Table) — each function of the table, under the fact that the key looked up is that
	// function's key: `table[x](…)` runs the entry stored under k only when x == k, the table never changes, so
	// the dispatch is the case distinction `switch x { case k1: f1(…) … }` written as data.
	type target struct {
		h    *ssa.Function
		fact string // in fn's frame; "" for a static call
	}
	var targets []target
	if h := staticCallee(hc); h != nil {
		targets = append(targets, target{h, ""})
	} else if tb, lk, elem := c19TableLookup(r.w, hc.Call.Value); tb != nil && elem {
		for i, k := range tb.Keys {
			h, _ := tb.Vals[i].(*ssa.Function)
			if h == nil || len(h.FreeVars) > 0 {
				targets = nil
				break
			}
			targets = append(targets, target{h, "EQ(" + desc(lk.Index) + "," + desc(k) + ")"})
		}
	}
	if len(targets) == 0 {
		return nil, false
	}
	for _, t := range targets {
		h := t.h
		if h == fn || h.Blocks == nil || !r.w.IsProductFn(h) || len(hc.Call.Args) != len(h.Params) {
			return nil, false
		}
		for _, up := range r.stack {
			if up.h == h {
				return nil, false
			}
		}
	}
	var out []c19Decode
	gated := false
	for _, t := range targets {
		h := t.h
		out2 := map[string]string{}
		for l, st := range outer {
			out2[l] = st
		}
		for l, st := range r.w.Info(fn).GuardsOf(hc) {
			out2[tr(l)] = st
		}
		if t.fact != "" {
			out2[tr(t.fact)] = "table dispatch at " + r.w.InstrPos(hc)
		}
		tr2 := c19Into(h, hc, tr)
		var rvs []ssa.Value
		rs := h.Signature.Results()
		if rs.Len() == 1 && !isErrorType(rs.At(0).Type()) {
			if idx != 0 {
				return nil, false
			}
			for _, b := range h.Blocks {
				if ret, ok := blockTerm(b).(*ssa.Return); ok && len(ret.Results) == 1 {
					rvs = append(rvs, spilledRet(ret.Results[0]))
				}
			}
			if len(rvs) == 0 {
				return nil, false
			}
		} else {
			if rs.Len() < 2 || !isErrorType(rs.At(rs.Len()-1).Type()) {
				return nil, false
			}
			s := r.w.Summarize(h, Mode{Kind: mErr})
			if s == nil || !s.Complete || len(s.Exits) == 0 {
				return nil, false
			}
			for _, e := range s.Exits {
				if idx >= len(e.Ret.Results) {
					r.why = "helper result not understood"
					return nil, true
				}
				rv := spilledRet(e.Ret.Results[idx])
				if ph, isPhi := rv.(*ssa.Phi); isPhi && ph.Block() == e.Ret.Block() && e.Pred >= 0 && e.Pred < len(ph.Edges) {
					rv = ph.Edges[e.Pred]
				}
				rvs = append(rvs, rv)
			}
			gated = true
		}
		r.stack = append(r.stack, c19ListUp{fn: fn, h: h, call: hc, tr: tr, outer: outer})
		for _, rv := range rvs {
			o, ok := cont(h, rv, tr2, out2)
			if !ok {
				r.stack = r.stack[:len(r.stack)-1]
				return nil, false
			}
			out = append(out, o...)
		}
		r.stack = r.stack[:len(r.stack)-1]
	}
	if gated {
		r.gates[fn] = append(r.gates[fn], c19ErrNil(hc))
	}
	return out, true
}

// fieldOfAddr: the decodes field #field of the record at address addr (a value of fn) can come from; ok is false
// when the record is not one the resolver can see all writers of.
//   - a local record (struct variable, composite literal, `&T{…}`) whose address goes nowhere but into loads, stores,
//     field addresses that are only loaded from / stored to, read-only module callees and a return of the address
//     (c19RecordUses): every store to that field, and that field of every whole value stored;
//   - a record handed back by pointer by a module function (a result of a call), only read through in fn
//     (c19PtrReadOnly): the same question about what each exit of that function returns;
//   - a record handed in by pointer (parameter, only read through in fn): the same question about the argument.
func (r *c19ListResolver) fieldOfAddr(fn *ssa.Function, addr ssa.Value, field int, tr func(string) string, outer map[string]string, depth int) ([]c19Decode, bool) {
	if depth > 16 {
		return nil, false
	}
	switch a := addr.(type) {
	case *ssa.Alloc:
		if a.Parent() != fn {
			return nil, false
		}
		whole, ok := c19RecordUses(a, true)
		if !ok {
			return nil, false
		}
		var out []c19Decode
		for _, b := range fn.Blocks {
			for _, in := range b.Instrs {
				st, ok := in.(*ssa.Store)
				if !ok {
					continue
				}
				if fa, ok := st.Addr.(*ssa.FieldAddr); ok && fa.X == ssa.Value(a) && fa.Field == field {
					out = append(out, r.leaves(fn, st.Val, tr, outer, depth+1)...)
				}
			}
		}
		for _, st := range whole {
			o, ok := r.fieldOfValue(fn, st.Val, field, tr, outer, depth+1)
			if !ok {
				return nil, false
			}
			out = append(out, o...)
		}
		return out, true
	case *ssa.Phi:
		var out []c19Decode
		for _, e := range a.Edges {
			if e == addr || isNilConst(e) {
				continue
			}
			o, ok := r.fieldOfAddr(fn, e, field, tr, outer, depth+1)
			if !ok {
				return nil, false
			}
			out = append(out, o...)
		}
		return out, true
	case *ssa.Parameter:
		if !c19PtrReadOnly(a) {
			return nil, false
		}
		return r.inCaller(fn, a, func(up c19ListUp, arg ssa.Value) ([]c19Decode, bool) {
			return r.fieldOfAddr(up.fn, arg, field, up.tr, up.outer, depth+1)
		})
	case *ssa.Extract:
		hc, isCall := a.Tuple.(*ssa.Call)
		if !isCall || !c19PtrReadOnly(a) {
			return nil, false
		}
		return r.throughCall(fn, hc, a.Index, tr, outer, func(h *ssa.Function, rv ssa.Value, tr2 func(string) string, out2 map[string]string) ([]c19Decode, bool) {
			return r.fieldOfAddr(h, rv, field, tr2, out2, depth+1)
		})
	case *ssa.Call:
		if !c19PtrReadOnly(a) {
			return nil, false
		}
		return r.throughCall(fn, a, 0, tr, outer, func(h *ssa.Function, rv ssa.Value, tr2 func(string) string, out2 map[string]string) ([]c19Decode, bool) {
			return r.fieldOfAddr(h, rv, field, tr2, out2, depth+1)
		})
	}
	return nil, false
}

// fieldOfValue: the decodes field #field of the record value val (a value of fn) can come from.
func (r *c19ListResolver) fieldOfValue(fn *ssa.Function, val ssa.Value, field int, tr func(string) string, outer map[string]string, depth int) ([]c19Decode, bool) {
	if depth > 16 {
		return nil, false
	}
	switch x := val.(type) {
	case *ssa.Const:
		// the zero record: its list is empty and cannot pass `len == 1`
		if x.Value == nil {
			return nil, true
		}
	case *ssa.UnOp:
		if x.Op == token.MUL {
			return r.fieldOfAddr(fn, x.X, field, tr, outer, depth+1)
		}
	case *ssa.Phi:
		var out []c19Decode
		for _, e := range x.Edges {
			if e == val {
				continue
			}
			o, ok := r.fieldOfValue(fn, e, field, tr, outer, depth+1)
			if !ok {
				return nil, false
			}
			out = append(out, o...)
		}
		return out, true
	case *ssa.Parameter:
		return r.inCaller(fn, x, func(up c19ListUp, arg ssa.Value) ([]c19Decode, bool) {
			return r.fieldOfValue(up.fn, arg, field, up.tr, up.outer, depth+1)
		})
	case *ssa.Extract:
		hc, isCall := x.Tuple.(*ssa.Call)
		if !isCall {
			return nil, false
		}
		return r.throughCall(fn, hc, x.Index, tr, outer, func(h *ssa.Function, rv ssa.Value, tr2 func(string) string, out2 map[string]string) ([]c19Decode, bool) {
			return r.fieldOfValue(h, rv, field, tr2, out2, depth+1)
		})
	case *ssa.Call:
		return r.throughCall(fn, x, 0, tr, outer, func(h *ssa.Function, rv ssa.Value, tr2 func(string) string, out2 map[string]string) ([]c19Decode, bool) {
			return r.fieldOfValue(h, rv, field, tr2, out2, depth+1)
		})
	}
	return nil, false
}

// ---------- the listing loop (c) ---------------------------------------------------------

// c19Cur: the element the loop appends and what it is a copy of. The appended variable E is initialised (one
// whole-value store) from the current predecessor `preds[i]` directly or through other per-iteration copies; each
// of these variables, and `preds[i]` itself, *names* the current referrer as far as media type, digest and size
// are concerned, provided nobody writes those fields (checked by list/element-identity on every variable of the
// chain) and every read of a copy happens after its initialisation. A test or a fetch on any of the names is a
// test or a fetch on the referrer that is appended.
type c19Cur struct {
	Allocs []*ssa.Alloc
	Names  map[string]bool
	Why    string
}

func c19WholeStores(al *ssa.Alloc) []*ssa.Store {
	var out []*ssa.Store
	for _, r := range *al.Referrers() {
		if st, ok := r.(*ssa.Store); ok && st.Addr == ssa.Value(al) {
			out = append(out, st)
		}
	}
	return out
}

func c19CurrentElement(E *ssa.Alloc, pd string, loop *loopRef, lb map[int]bool) c19Cur {
	cur := c19Cur{Names: map[string]bool{}}
	al := E
	for depth := 0; depth < 4; depth++ {
		if !lb[al.Block().Index] || al.Block() == loop.Header {
			cur.Why = "the variable " + desc(al) + " lives across iterations"
			return cur
		}
		sts := c19WholeStores(al)
		if len(sts) != 1 {
			cur.Why = fmt.Sprintf("%d whole-value stores to %s", len(sts), desc(al))
			return cur
		}
		init := sts[0]
		// every other use comes after the initialisation
		for _, r := range *al.Referrers() {
			if r == ssa.Instruction(init) {
				continue
			}
			if _, isDbg := r.(*ssa.DebugRef); isDbg {
				continue
			}
			if r.Block() == init.Block() {
				if instrIndex(r) < instrIndex(init) {
					cur.Why = desc(al) + " is used before it is initialised"
					return cur
				}
			} else if !init.Block().Dominates(r.Block()) {
				cur.Why = desc(al) + " is used on a path that does not initialise it"
				return cur
			}
		}
		cur.Allocs = append(cur.Allocs, al)
		cur.Names[desc(al)] = true
		un, ok := init.Val.(*ssa.UnOp)
		if !ok || un.Op != token.MUL {
			cur.Why = "initialised from " + desc(init.Val)
			return cur
		}
		switch src := un.X.(type) {
		case *ssa.Alloc:
			al = src
			continue
		case *ssa.IndexAddr:
			if desc(src.X) != pd+"#0" || (loop.Idx != nil && src.Index != loop.Idx) {
				cur.Why = "initialised from " + desc(init.Val) + ", not from the current predecessor"
				return cur
			}
			cur.Names[desc(init.Val)] = true
			return cur
		}
		cur.Why = "initialised from " + desc(init.Val)
		return cur
	}
	cur.Why = "copy chain too long"
	return cur
}

// c19AllocEscapes: the variable's address goes anywhere but into loads, stores and field addresses that are
// themselves only loaded from or stored to.
func c19AllocEscapes(al *ssa.Alloc) bool {
	var esc func(v ssa.Value, depth int) bool
	esc = func(v ssa.Value, depth int) bool {
		if depth > 4 || v.Referrers() == nil {
			return depth > 4
		}
		for _, r := range *v.Referrers() {
			switch x := r.(type) {
			case *ssa.Store:
				if x.Val == v {
					return true // the address itself is stored
				}
			case *ssa.UnOp, *ssa.DebugRef:
			case *ssa.FieldAddr:
				if esc(x, depth+1) {
					return true
				}
			case *ssa.IndexAddr:
				if esc(x, depth+1) {
					return true
				}
			default:
				return true
			}
		}
		return false
	}
	return esc(al, 0)
}

// c19EdgesLabelled: the If edges inside the loop whose fact is one of the labels.
func c19EdgesLabelled(fn *ssa.Function, lb map[int]bool, labels map[string]bool) map[edgeKey]bool {
	out := map[edgeKey]bool{}
	for _, b := range fn.Blocks {
		if !lb[b.Index] {
			continue
		}
		iff, ok := blockTerm(b).(*ssa.If)
		if !ok || len(b.Succs) != 2 {
			continue
		}
		for j := 0; j < 2; j++ {
			if labels[condLabel(iff.Cond, j == 0)] {
				out[edgeKey{b.Index, j}] = true
			}
		}
	}
	return out
}

// c19Flow: the part of one loop iteration that an element of one media type can run through (the edges that
// contradict the media type, and the back edges, are cut).
type c19Flow struct {
	fi    *FnInfo
	body  *ssa.BasicBlock
	cut   map[edgeKey]bool
	live  map[int]bool // blocks reachable from the body entry under the cut
	chain map[*ssa.Alloc]bool
	frame *c19Frame // the frame this flow belongs to (values are followed into helper frames and back); may be nil
}

func c19NewFlow(fi *FnInfo, body *ssa.BasicBlock, cut map[edgeKey]bool, chain []*ssa.Alloc) *c19Flow {
	f := &c19Flow{fi: fi, body: body, cut: cut, live: map[int]bool{}, chain: map[*ssa.Alloc]bool{}}
	for st := range fi.reach([]state{{body.Index, 0, -1}}, cut) {
		f.live[st.b] = true
	}
	for _, a := range chain {
		f.chain[a] = true
	}
	return f
}

func (f *c19Flow) reaches(from, to *ssa.BasicBlock) bool {
	if from == to {
		return true
	}
	return f.fi.reachHit([]state{{from.Index, 0, -1}}, f.cut, map[int]bool{to.Index: true})
}

// c19Frame: one function a referrer of one media type M runs through in one iteration of the listing loop: the
// listing function itself (root: the paths from the loop body's entry to the append, back edges cut) or a module
// function whose success is must-pass in its parent frame (`x, err := h(...); if err != nil { return }`), entered
// from its entry, leaving through its success-capable exits. In every frame the edges whose fact contradicts "the
// current referrer's media type is M" are cut (facts of a helper are read in the root's frame: its parameters are
// replaced by the arguments of the call — tr). What every remaining path of a frame passes (labels, in the frame's own
// spelling) holds for every listed element of media type M: the helper was called in this iteration, it succeeded,
// and it cannot have taken an edge that contradicts M. Moving a stretch of the per-iteration work (cap, fetch,
// decode, in any cut) into a helper therefore moves its facts from the root frame into a child frame and changes
// nothing else; the rules look for each fact in all frames.
type c19Frame struct {
	fn     *ssa.Function
	fi     *FnInfo
	parent *c19Frame
	call   *ssa.Call           // in parent.fn; nil for the root
	tr     func(string) string // a label or rendering of this frame, in the root's frame
	cut    map[edgeKey]bool
	labels map[string]string
	exits  []*ExitSum // helper frames: the success-capable exits reachable under the cut
	flow   *c19Flow
	kids   map[*ssa.Call]*c19Frame
	depth  int
	mode   Mode // helper frames: what "success" of the helper means (error nil; a predicate answering true / false)
	w      *World
	contra map[string]bool         // the facts (root spelling) that contradict the media type this frame tree is built for
	vkids  map[*ssa.Call]*c19Frame // value frames (c19Flow.kidFor), made on demand
}

// c19EdgesContradicting: the If edges of fn (all blocks) whose fact, read in the root frame, is one of `facts`.
func c19EdgesContradicting(fn *ssa.Function, facts map[string]bool, tr func(string) string) map[edgeKey]bool {
	out := map[edgeKey]bool{}
	for _, b := range fn.Blocks {
		iff, ok := blockTerm(b).(*ssa.If)
		if !ok || len(b.Succs) != 2 {
			continue
		}
		for j := 0; j < 2; j++ {
			l := condLabel(iff.Cond, j == 0)
			if facts[tr(l)] {
				out[edgeKey{b.Index, j}] = true
			} else if tw, ok := labelTwin(l); ok && facts[tr(tw)] {
				out[edgeKey{b.Index, j}] = true
			}
		}
	}
	return out
}

// grow adds the child frames of fr: calls (inside `within`, all blocks when nil) of module functions with an error
// result whose success is among fr's own must-pass facts, and of module predicates (one bool result) whose answer —
// true or false, whichever the frame's must-pass facts contain — every path of fr requires. A filter written as
// `if !keep(x, …) { continue }` moves the filter's tests into keep's frame exactly as `x, err := h(…)` moves the
// cap/fetch/decode into h's: the element was listed, so keep was entered in this iteration and left through an exit
// that can answer what the loop demanded.
func (fr *c19Frame) grow(w *World, within map[int]bool, contra map[string]bool) {
	fr.kids = map[*ssa.Call]*c19Frame{}
	fr.w, fr.contra = w, contra
	if fr.depth >= 2 {
		return
	}
	for _, ci := range allCalls(fr.fn) {
		call, ok := ci.(*ssa.Call)
		if !ok || (within != nil && !within[call.Block().Index]) {
			continue
		}
		h := staticCallee(call)
		if h == nil || h == fr.fn || h.Blocks == nil || !w.IsProductFn(h) || len(call.Call.Args) != len(h.Params) {
			continue
		}
		rs := h.Signature.Results()
		mode := Mode{Kind: mErr}
		switch {
		case rs.Len() >= 2 && isErrorType(rs.At(rs.Len()-1).Type()) && labelHas(fr.labels, c19ErrNil(call)):
		case rs.Len() == 1 && isBoolType(rs.At(0).Type()) && labelHas(fr.labels, "T("+desc(call)+")"):
			// a predicate whose answer `true` is must-pass in this frame (`if !h(...) { continue }`): the element went
			// through h from its entry to an exit that can return true
			mode = Mode{Kind: mBool, Want: true}
		case rs.Len() == 1 && isBoolType(rs.At(0).Type()) && labelHas(fr.labels, "F("+desc(call)+")"):
			mode = Mode{Kind: mBool, Want: false}
		default:
			continue
		}
		for p := fr; p != nil; p = p.parent {
			if p.fn == h {
				h = nil
				break
			}
		}
		if h == nil {
			continue
		}
		tr := c19Into(h, call, fr.tr)
		hi := w.Info(h)
		cut := c19EdgesContradicting(h, contra, tr)
		hs := hi.summarizeFrom(mode, entryState(), cut)
		if hs == nil || !hs.Complete || len(hs.Exits) == 0 {
			continue
		}
		kid := &c19Frame{fn: h, fi: hi, parent: fr, call: call, tr: tr, cut: cut, labels: hs.Checked, exits: hs.Exits, depth: fr.depth + 1, mode: mode, w: w, contra: contra}
		kid.flow = c19NewFlow(hi, h.Blocks[0], cut, nil)
		kid.flow.live[0] = true
		kid.flow.frame = kid
		kid.grow(w, nil, contra)
		fr.kids[call] = kid
	}
}

// all: the frame and its descendants, parents first.
func (fr *c19Frame) all() []*c19Frame {
	out := []*c19Frame{fr}
	var calls []*ssa.Call
	for c := range fr.kids {
		calls = append(calls, c)
	}
	sort.Slice(calls, func(i, j int) bool {
		if calls[i].Block().Index != calls[j].Block().Index {
			return calls[i].Block().Index < calls[j].Block().Index
		}
		return instrIndex(calls[i]) < instrIndex(calls[j])
	})
	for _, c := range calls {
		out = append(out, fr.kids[c].all()...)
	}
	return out
}

// facts: the must-pass facts of all frames, in the root's spelling.
func (fr *c19Frame) facts() map[string]string {
	out := map[string]string{}
	for _, f := range fr.all() {
		for l, site := range f.labels {
			if _, dup := out[f.tr(l)]; !dup {
				out[f.tr(l)] = site
			}
		}
	}
	return out
}

// c19Spellings: how the values of the frames that are, on every path, exactly field `path` of the record X (the
// decode target, living in one of the frames) are rendered in the root's frame. For a decode target of the root itself
// this is the rendering of `X.path`; for one inside a helper it adds what the other frames see of it: a result of the
// helper, a field of the record it returned (`h(...)#0.subject`) — in the loop, or in a predicate the loop hands that
// record (or the field) to, whose parameters are read as the arguments of the call. A value counts only if it
// resolves (c19Flow.resolve, at its own program point) to that one field and nothing else.
func c19Spellings(root *c19Frame, within map[int]bool, X *ssa.Alloc, path string) map[string]bool {
	out := map[string]bool{}
	for _, fr := range root.all() {
		for _, b := range fr.fn.Blocks {
			if fr.parent == nil && within != nil && !within[b.Index] {
				continue
			}
			if !fr.flow.live[b.Index] {
				continue
			}
			for _, in := range b.Instrs {
				v, ok := in.(ssa.Value)
				if !ok {
					continue
				}
				switch in.(type) {
				case *ssa.UnOp, *ssa.Field, *ssa.Extract:
				default:
					continue
				}
				if ls, ok := fr.flow.resolve(v, in, 0); ok && c19Only(ls, X, path) {
					out[fr.tr(desc(v))] = true
				}
			}
		}
	}
	return out
}

// c19Leaves: rendered leaf -> one SSA value rendered that way.
type c19Leaves map[string]ssa.Value

// resolve: the values v can stand for when control is at `at` (in this flow), as rendered leaves. It follows
//   - phis, along the incoming edges that are alive in this flow only (a local filled in on alternative branches:
//     for an element of one media type only that media type's branch can have supplied the value);
//   - loads of a field of the element variable(s), to the single store of that field that every path of the flow
//     to `at` passes (the field then holds what was stored).
//
// ok is false when a field has several stores on the way, or one that some path avoids: its content is then not
// determined by the flow.
func (f *c19Flow) resolve(v ssa.Value, at ssa.Instruction, depth int) (c19Leaves, bool) {
	out := c19Leaves{}
	if depth > 12 {
		return out, false
	}
	switch x := v.(type) {
	case *ssa.Phi:
		okAll := true
		for i, e := range x.Edges {
			pred := x.Block().Preds[i]
			if !f.live[pred.Index] {
				continue
			}
			alive := false
			for j, s := range pred.Succs {
				if s == x.Block() && !f.cut[edgeKey{pred.Index, j}] {
					alive = true
				}
			}
			if !alive || e == v {
				continue
			}
			ls, ok := f.resolve(e, blockTerm(pred), depth+1)
			okAll = okAll && ok
			for l, lv := range ls {
				out[l] = lv
			}
		}
		return out, okAll
	case *ssa.UnOp:
		if x.Op != token.MUL {
			break
		}
		fa, ok := x.X.(*ssa.FieldAddr)
		if !ok {
			break
		}
		if al, ok := fa.X.(*ssa.Alloc); ok && f.chain[al] {
			return f.field(al, fieldName(fa.X.Type(), fa.Field), x, depth)
		}
		// a field of a local record, or of a record a helper handed back
		if ls, ok, known := f.fieldOfAddr(fa.X, fieldName(fa.X.Type(), fa.Field), x, depth+1); known {
			return ls, ok
		}
	case *ssa.Field:
		if ls, ok, known := f.fieldOfValue(x.X, fieldName(x.X.Type(), x.Field), x, depth+1); known {
			return ls, ok
		}
	case *ssa.Extract:
		// one of several results of a helper whose frame is known: what each of its exits (that an element of this
		// media type can reach) returns in that position
		if call, isCall := x.Tuple.(*ssa.Call); isCall && f.frame != nil {
			if kid := f.frame.kids[call]; kid != nil {
				okAll := true
				for _, e := range kid.exits {
					rv := c19ExitResult(e, x.Index)
					if rv == nil {
						return out, false
					}
					ls, ok := kid.flow.resolve(rv, e.Ret, depth+1)
					okAll = okAll && ok
					for l, lv := range ls {
						out[l] = lv
					}
				}
				return out, okAll && len(kid.exits) > 0
			}
		}
	case *ssa.Call:
		// the single result of a module function (value frame): what each of its returns delivers
		if kid := f.kidFor(x); kid != nil && kid.mode.Kind == mObj {
			okAll := true
			for _, e := range kid.exits {
				rv := c19ExitResult(e, 0)
				if rv == nil {
					return out, false
				}
				ls, ok := kid.flow.resolve(rv, e.Ret, depth+1)
				okAll = okAll && ok
				for l, lv := range ls {
					out[l] = lv
				}
			}
			return out, okAll
		}
	case *ssa.Parameter:
		// a helper's parameter is the argument of the call this frame was entered through
		if pf, arg := f.callerArg(x); pf != nil {
			return pf.resolve(arg, f.frame.call, depth+1)
		}
	}
	out[desc(v)] = v
	return out, true
}

// callerArg: for a parameter of a helper frame, the flow of the frame the helper was called from and the argument
// bound to the parameter at that call (an SSA value of the caller, evaluated before the call).
func (f *c19Flow) callerArg(p *ssa.Parameter) (*c19Flow, ssa.Value) {
	if f.frame == nil || f.frame.parent == nil || f.frame.call == nil || f.frame.parent.flow == nil {
		return nil, nil
	}
	for i, q := range f.fi.Fn.Params {
		if q == p && i < len(f.frame.call.Call.Args) {
			return f.frame.parent.flow, f.frame.call.Call.Args[i]
		}
	}
	return nil, nil
}

// kidFor: the frame of the module function called at `call` (a call of this flow's function): one of the helper
// frames grown for the must-pass calls, or — for a function with a single, non-error result, called wherever — a
// value frame made on demand: the function entered from its entry with the call's arguments, leaving through any of
// its returns (edges contradicting the media type cut as everywhere). A value frame contributes no must-pass facts;
// it only says what the call's result is made of: a record assembled by a constructor function
// (`newInfo(x.Subject, x.ArtifactType, …)`) has, in each field, what every return of the constructor puts there, the
// constructor's parameters being the arguments of this call.
func (f *c19Flow) kidFor(call *ssa.Call) *c19Frame {
	fr := f.frame
	if fr == nil || call.Parent() != fr.fn {
		return nil
	}
	if k := fr.kids[call]; k != nil {
		return k
	}
	if k, done := fr.vkids[call]; done {
		return k
	}
	if fr.vkids == nil {
		fr.vkids = map[*ssa.Call]*c19Frame{}
	}
	fr.vkids[call] = nil
	h := staticCallee(call)
	if fr.w == nil || fr.depth >= 3 || h == nil || h.Blocks == nil || !fr.w.IsProductFn(h) || len(call.Call.Args) != len(h.Params) {
		return nil
	}
	if rs := h.Signature.Results(); rs.Len() != 1 || isErrorType(rs.At(0).Type()) {
		return nil
	}
	for p := fr; p != nil; p = p.parent {
		if p.fn == h {
			return nil
		}
	}
	tr := c19Into(h, call, fr.tr)
	hi := fr.w.Info(h)
	cut := c19EdgesContradicting(h, fr.contra, tr)
	mode := Mode{Kind: mObj, K: 0}
	hs := hi.summarizeFrom(mode, entryState(), cut)
	if hs == nil || !hs.Complete || len(hs.Exits) == 0 {
		return nil
	}
	// every return the cut leaves reachable must be among the exits (a value frame has no failing exits)
	exitAt := map[*ssa.Return]bool{}
	for _, e := range hs.Exits {
		exitAt[e.Ret] = true
	}
	kid := &c19Frame{fn: h, fi: hi, parent: fr, call: call, tr: tr, cut: cut, labels: map[string]string{}, exits: hs.Exits, depth: fr.depth + 1, mode: mode, w: fr.w, contra: fr.contra, kids: map[*ssa.Call]*c19Frame{}}
	kid.flow = c19NewFlow(hi, h.Blocks[0], cut, nil)
	kid.flow.live[0] = true
	kid.flow.frame = kid
	for _, b := range h.Blocks {
		if r, ok := blockTerm(b).(*ssa.Return); ok && kid.flow.live[b.Index] && !exitAt[r] {
			return nil
		}
	}
	fr.vkids[call] = kid
	return kid
}

// c19ExitResult: the value an exit returns in position k (the phi of a merged return block resolved to the edge the
// exit came in through, a defer-spilled result to the value spilled).
func c19ExitResult(e *ExitSum, k int) ssa.Value {
	if k >= len(e.Ret.Results) {
		return nil
	}
	rv := spilledRet(e.Ret.Results[k])
	if ph, isPhi := rv.(*ssa.Phi); isPhi && ph.Block() == e.Ret.Block() && e.Pred >= 0 && e.Pred < len(ph.Edges) {
		rv = ph.Edges[e.Pred]
	}
	return rv
}

// passed: every path of the flow from its entry to `at` executes `st` first.
func (f *c19Flow) passed(st, at ssa.Instruction) bool {
	if st.Block() == at.Block() {
		return instrIndex(st) < instrIndex(at)
	}
	if st.Block() == f.body {
		return true
	}
	if at.Block() == f.body {
		return false
	}
	cut := map[edgeKey]bool{}
	for e := range f.cut {
		cut[e] = true
	}
	cutInto(f.fi, st.Block(), cut)
	return !f.fi.reachHit([]state{{f.body.Index, 0, -1}}, cut, map[int]bool{at.Block().Index: true})
}

// c19RecordUses classifies the uses of the address of a local record (a struct variable or composite literal): ok is
// false when the address goes anywhere but into whole-value loads and stores, field addresses that are themselves
// only loaded from or stored to, and (retOK) a return of the address itself — then nobody but the instructions
// found here can have written the record.
func c19RecordUses(al *ssa.Alloc, retOK bool) (whole []*ssa.Store, ok bool) {
	for _, r := range *al.Referrers() {
		switch x := r.(type) {
		case *ssa.Store:
			if x.Val == ssa.Value(al) {
				return nil, false
			}
			whole = append(whole, x)
		case *ssa.UnOp, *ssa.DebugRef:
		case *ssa.FieldAddr:
			for _, rr := range *x.Referrers() {
				switch y := rr.(type) {
				case *ssa.UnOp, *ssa.DebugRef:
				case *ssa.Store:
					if y.Val == ssa.Value(x) {
						return nil, false
					}
				default:
					return nil, false
				}
			}
		case *ssa.Return:
			if !retOK {
				return nil, false
			}
		case *ssa.Call:
			// `(&rec).pred(...)`, `pred(&rec, ...)`: a module function that only reads through the pointer
			if !c19ReadOnlyCallee(x, al, 0) {
				return nil, false
			}
		default:
			return nil, false
		}
	}
	return whole, true
}

// c19PtrReadOnly: the pointer value is only compared with nil and read through (field loads, whole loads), here and
// in the module functions it is handed to (statically called, same test on the parameter it is bound to).
func c19PtrReadOnly(v ssa.Value) bool { return c19PtrReadOnlyN(v, 0) }

// c19ReadOnlyCallee: the call hands v to a statically known module function that only reads through the parameters v
// is bound to.
func c19ReadOnlyCallee(call *ssa.Call, v ssa.Value, depth int) bool {
	h := staticCallee(call)
	if depth > 3 || h == nil || h.Blocks == nil || !transparentHelper(h) || len(call.Call.Args) != len(h.Params) || call.Call.Value == v {
		return false
	}
	for i, a := range call.Call.Args {
		if a == v && !c19PtrReadOnlyN(h.Params[i], depth+1) {
			return false
		}
	}
	return true
}

func c19PtrReadOnlyN(v ssa.Value, depth int) bool {
	if v.Referrers() == nil {
		return false
	}
	for _, r := range *v.Referrers() {
		switch x := r.(type) {
		case *ssa.Call:
			if !c19ReadOnlyCallee(x, v, depth) {
				return false
			}
		case *ssa.DebugRef:
		case *ssa.UnOp:
			if x.Op != token.MUL {
				return false
			}
		case *ssa.BinOp:
			if !isNilConst(x.X) && !isNilConst(x.Y) {
				return false
			}
		case *ssa.FieldAddr:
			for _, rr := range *x.Referrers() {
				switch rr.(type) {
				case *ssa.UnOp, *ssa.DebugRef:
				default:
					return false
				}
			}
		default:
			return false
		}
	}
	return true
}

// fieldOfAddr: what field `name` of the record at address addr holds when control is at `at`. known is false when
// the record is not one this resolver can see through (the caller then treats the load as a leaf of its own).
//
//   - a local record (struct variable / composite literal) nobody else can write: the single store to that field, if
//     it has been executed on every path to `at`; or, without field stores, the field of the single whole value
//     stored (`info := h(...)`); or the zero value;
//   - a record a helper handed back by pointer (`*T` result of a helper whose frame is known), only read in this
//     function: the field of the record each of the helper's exits returns.
func (f *c19Flow) fieldOfAddr(addr ssa.Value, name string, at ssa.Instruction, depth int) (c19Leaves, bool, bool) {
	out := c19Leaves{}
	if depth > 12 {
		return out, false, true
	}
	switch x := addr.(type) {
	case *ssa.Parameter:
		// a record the caller handed in by pointer: what the caller's record holds when the call is made, provided
		// this function only reads through the pointer (then it still holds that at `at`)
		if pf, arg := f.callerArg(x); pf != nil && c19PtrReadOnly(x) {
			return pf.fieldOfAddr(arg, name, f.frame.call, depth+1)
		}
		return nil, false, false
	case *ssa.Alloc:
		if x.Parent() != f.fi.Fn {
			return nil, false, false
		}
		if f.chain[x] {
			ls, ok := f.field(x, name, at, depth+1)
			return ls, ok, true
		}
		whole, ok := c19RecordUses(x, f.frame != nil && f.frame.parent != nil)
		if !ok {
			return nil, false, false
		}
		// the writers an element of this media type can run through (a store on an edge-cut branch cannot have executed)
		var fs, ws []*ssa.Store
		for _, st := range fieldStores(f.fi.Fn, x, name) {
			if f.live[st.Block().Index] {
				fs = append(fs, st)
			}
		}
		for _, st := range whole {
			if f.live[st.Block().Index] {
				ws = append(ws, st)
			}
		}
		whole = ws
		switch {
		case len(fs) == 0 && len(whole) == 0:
			out["zero value of "+desc(x)+"."+name] = nil
			return out, true, true
		case len(fs) == 0 && len(whole) == 1 && f.passed(whole[0], at):
			ls, ok, known := f.fieldOfValue(whole[0].Val, name, whole[0], depth+1)
			if !known {
				out[desc(whole[0].Val)+"."+name] = nil
				return out, true, true
			}
			return ls, ok, true
		case len(fs) == 1 && len(whole) == 0 && f.passed(fs[0], at):
			ls, ok := f.resolve(fs[0].Val, fs[0], depth+1)
			return ls, ok, true
		}
		// several writers, or one that some path to `at` avoids: not determined
		for _, st := range fs {
			out[desc(st.Val)] = st.Val
		}
		for _, st := range whole {
			out[desc(st.Val)+"."+name] = nil
		}
		return out, false, true
	case *ssa.Extract:
		call, isCall := x.Tuple.(*ssa.Call)
		if !isCall || f.frame == nil || f.frame.kids[call] == nil || !c19PtrReadOnly(x) {
			return nil, false, false
		}
		kid := f.frame.kids[call]
		okAll := len(kid.exits) > 0
		for _, e := range kid.exits {
			rv := c19ExitResult(e, x.Index)
			if rv == nil {
				return out, false, true
			}
			ls, ok, known := kid.flow.fieldOfAddr(rv, name, e.Ret, depth+1)
			if !known {
				out[desc(rv)+"."+name] = nil
				okAll = false
				continue
			}
			okAll = okAll && ok
			for l, lv := range ls {
				out[l] = lv
			}
		}
		return out, okAll, true
	case *ssa.Call:
		// a record a constructor function handed back by pointer (value frame), only read in this function
		kid := f.kidFor(x)
		if kid == nil || kid.mode.Kind != mObj || !c19PtrReadOnly(x) {
			return nil, false, false
		}
		okAll := true
		for _, e := range kid.exits {
			rv := c19ExitResult(e, 0)
			if rv == nil {
				return out, false, true
			}
			ls, ok, known := kid.flow.fieldOfAddr(rv, name, e.Ret, depth+1)
			if !known {
				out[desc(rv)+"."+name] = nil
				okAll = false
				continue
			}
			okAll = okAll && ok
			for l, lv := range ls {
				out[l] = lv
			}
		}
		return out, okAll, true
	}
	return nil, false, false
}

// fieldOfValue: what field `name` of the record value val holds (val computed at `at`).
func (f *c19Flow) fieldOfValue(val ssa.Value, name string, at ssa.Instruction, depth int) (c19Leaves, bool, bool) {
	out := c19Leaves{}
	if depth > 12 {
		return out, false, true
	}
	switch x := val.(type) {
	case *ssa.Parameter:
		// a record the caller handed in by value: the field of the argument, as the caller's frame sees it at the call
		if pf, arg := f.callerArg(x); pf != nil {
			return pf.fieldOfValue(arg, name, f.frame.call, depth+1)
		}
	case *ssa.UnOp:
		if x.Op == token.MUL {
			return f.fieldOfAddr(x.X, name, x, depth+1)
		}
	case *ssa.Const:
		if x.Value == nil {
			out["zero value ."+name] = nil
			return out, true, true
		}
	case *ssa.Call:
		// a record built by a constructor function (value frame): the field of what each of its returns delivers
		kid := f.kidFor(x)
		if kid == nil || kid.mode.Kind != mObj {
			return nil, false, false
		}
		okAll := true
		for _, e := range kid.exits {
			rv := c19ExitResult(e, 0)
			if rv == nil {
				return out, false, true
			}
			ls, ok, known := kid.flow.fieldOfValue(rv, name, e.Ret, depth+1)
			if !known {
				out[desc(rv)+"."+name] = nil
				okAll = false
				continue
			}
			okAll = okAll && ok
			for l, lv := range ls {
				out[l] = lv
			}
		}
		return out, okAll, true
	case *ssa.Extract:
		call, isCall := x.Tuple.(*ssa.Call)
		if !isCall || f.frame == nil || f.frame.kids[call] == nil {
			return nil, false, false
		}
		kid := f.frame.kids[call]
		okAll := len(kid.exits) > 0
		for _, e := range kid.exits {
			rv := c19ExitResult(e, x.Index)
			if rv == nil {
				return out, false, true
			}
			ls, ok, known := kid.flow.fieldOfValue(rv, name, e.Ret, depth+1)
			if !known {
				out[desc(rv)+"."+name] = nil
				okAll = false
				continue
			}
			okAll = okAll && ok
			for l, lv := range ls {
				out[l] = lv
			}
		}
		return out, okAll, true
	}
	return nil, false, false
}

// field: what field `name` of the element variable al holds when control is at `at`.
func (f *c19Flow) field(al *ssa.Alloc, name string, at ssa.Instruction, depth int) (c19Leaves, bool) {
	var reaching []*ssa.Store
	for _, st := range fieldStores(f.fi.Fn, al, name) {
		if !f.live[st.Block().Index] {
			continue
		}
		if st.Block() == at.Block() {
			if instrIndex(st) < instrIndex(at) {
				reaching = append(reaching, st)
			}
			continue
		}
		if f.reaches(st.Block(), at.Block()) {
			reaching = append(reaching, st)
		}
	}
	own := desc(al) + "." + name + " (as copied from the predecessor)"
	switch len(reaching) {
	case 0:
		// never written on the way: still what the variable was initialised with
		return c19Leaves{own: nil}, true
	case 1:
		st := reaching[0]
		if st.Block() != at.Block() && st.Block() != f.body {
			cut := map[edgeKey]bool{}
			for e := range f.cut {
				cut[e] = true
			}
			cutInto(f.fi, st.Block(), cut)
			if at.Block() == f.body || f.fi.reachHit([]state{{f.body.Index, 0, -1}}, cut, map[int]bool{at.Block().Index: true}) {
				return c19Leaves{desc(st.Val): st.Val, own: nil}, false
			}
		}
		return f.resolve(st.Val, st, depth+1)
	}
	out := c19Leaves{}
	for _, st := range reaching {
		out[desc(st.Val)] = st.Val
	}
	return out, false
}

// c19IsFieldOf: v is a load of field path `path` (".Config.MediaType") of exactly the variable X.
func c19IsFieldOf(v ssa.Value, X *ssa.Alloc, path string) bool {
	un, ok := v.(*ssa.UnOp)
	if !ok || un.Op != token.MUL {
		return false
	}
	got := ""
	addr := un.X
	for i := 0; i < 4; i++ {
		fa, ok := addr.(*ssa.FieldAddr)
		if !ok {
			break
		}
		got = "." + fieldName(fa.X.Type(), fa.Field) + got
		addr = fa.X
	}
	return addr == ssa.Value(X) && got == path
}

// c19Only: the leaves are exactly one, and it is field `path` of X itself (not of a variable that renders alike).
func c19Only(ls c19Leaves, X *ssa.Alloc, path string) bool {
	if len(ls) != 1 {
		return false
	}
	for _, v := range ls {
		return v != nil && c19IsFieldOf(v, X, path)
	}
	return false
}

func c19SetEq(a, b c19Leaves) bool {
	if len(a) != len(b) || len(a) == 0 {
		return false
	}
	for k := range a {
		if _, ok := b[k]; !ok {
			return false
		}
	}
	return true
}

func c19Keys(m c19Leaves) string {
	var ks []string
	for k := range m {
		ks = append(ks, k)
	}
	sort.Strings(ks)
	return "{" + strings.Join(ks, " | ") + "}"
}

// c19ConstTests: the values V compared for equality with the string constant k on an If edge of the loop that every
// path of the flow from the body entry to the target passes (decided for that very edge: with it cut, the target
// is unreachable).
func c19ConstTests(f *c19Flow, lb map[int]bool, target map[int]bool, k string) (vals []ssa.Value, at []ssa.Instruction) {
	for _, b := range f.fi.Fn.Blocks {
		if !lb[b.Index] || !f.live[b.Index] {
			continue
		}
		iff, ok := blockTerm(b).(*ssa.If)
		if !ok || len(b.Succs) != 2 {
			continue
		}
		cond := iff.Cond
		for {
			u, ok := cond.(*ssa.UnOp)
			if !ok || u.Op != token.NOT {
				break
			}
			cond = u.X
		}
		bo, ok := cond.(*ssa.BinOp)
		if !ok || (bo.Op != token.EQL && bo.Op != token.NEQ) {
			continue
		}
		var V ssa.Value
		if kc, isK := bo.Y.(*ssa.Const); isK && kc.Value != nil && constString(kc) == fmt.Sprintf("%q", k) {
			V = bo.X
		} else if kc, isK := bo.X.(*ssa.Const); isK && kc.Value != nil && constString(kc) == fmt.Sprintf("%q", k) {
			V = bo.Y
		}
		if V == nil {
			continue
		}
		for j := 0; j < 2; j++ {
			if !strings.HasPrefix(condLabel(iff.Cond, j == 0), "EQ(") {
				continue
			}
			cut := map[edgeKey]bool{{b.Index, j}: true}
			for e := range f.cut {
				cut[e] = true
			}
			if !target[f.body.Index] && !f.fi.reachHit([]state{{f.body.Index, 0, -1}}, cut, target) {
				vals = append(vals, V)
				at = append(at, iff)
			}
		}
	}
	return
}

// c19EqConst: cond, evaluating to `truth`, says `V == k` for the string constant k; returns V.
func c19EqConst(cond ssa.Value, truth bool, k string) ssa.Value {
	for {
		u, ok := cond.(*ssa.UnOp)
		if !ok || u.Op != token.NOT {
			break
		}
		cond, truth = u.X, !truth
	}
	bo, ok := cond.(*ssa.BinOp)
	if !ok || !((bo.Op == token.EQL && truth) || (bo.Op == token.NEQ && !truth)) {
		return nil
	}
	if kc, isK := bo.Y.(*ssa.Const); isK && kc.Value != nil && constString(kc) == fmt.Sprintf("%q", k) {
		return bo.X
	}
	if kc, isK := bo.X.(*ssa.Const); isK && kc.Value != nil && constString(kc) == fmt.Sprintf("%q", k) {
		return bo.Y
	}
	return nil
}

// c19HelperConstTests: the tests `V == k` of a helper frame (a module function the element must have come through
// successfully: error nil, or a predicate answering what the loop demanded) that *together* are must-pass for the
// helper's success: the If edges of the helper saying `V == k`, and — for a predicate — the exits that return the
// comparison itself (`return V == k`, `return a && V == k`: the exit answers true only if the comparison did). ok is
// true when, with all those If edges cut, every exit that can still succeed is one of those returns: every successful
// run of the helper has then evaluated one of the returned tests to "equal". The caller checks every V (resolved at
// its test) against what the listed descriptor carries.
func c19HelperConstTests(fr *c19Frame, k string) (vals []ssa.Value, at []ssa.Instruction, ok bool) {
	if fr.parent == nil {
		return nil, nil, false
	}
	cut := map[edgeKey]bool{}
	for e := range fr.cut {
		cut[e] = true
	}
	for _, b := range fr.fn.Blocks {
		iff, isIf := blockTerm(b).(*ssa.If)
		if !isIf || len(b.Succs) != 2 || !fr.flow.live[b.Index] {
			continue
		}
		for j := 0; j < 2; j++ {
			if V := c19EqConst(iff.Cond, j == 0, k); V != nil {
				cut[edgeKey{b.Index, j}] = true
				vals, at = append(vals, V), append(at, iff)
			}
		}
	}
	rest := fr.fi.summarizeFrom(fr.mode, entryState(), cut)
	if rest == nil || !rest.Complete {
		return nil, nil, false
	}
	for _, e := range rest.Exits {
		var V ssa.Value
		if fr.mode.Kind == mBool {
			if rv := c19ExitResult(e, 0); rv != nil {
				V = c19EqConst(rv, fr.mode.Want, k)
			}
		}
		if V == nil {
			return vals, at, false // a success of the helper that passes no such test
		}
		vals, at = append(vals, V), append(at, e.Ret)
	}
	return vals, at, len(vals) > 0
}

// ---------- push (d) -------------------------------------------------------------------------

// c19BlobPush: the upload of the envelope as the rules see it.
type c19BlobPush struct {
	At       *ssa.Call // the call that uploads
	MT, Blob ssa.Value // media type and bytes the descriptor is made from
	Desc     string    // rendering of the pushed blob's descriptor wherever it is used afterwards
	Err      string    // the fact "the upload reported no error"
}

// c19IsPushInvoke: `x.Push(ctx, D, reader)` on one of oras-go's storage interfaces.
func c19IsPushInvoke(ci ssa.CallInstruction) bool {
	cc := ci.Common()
	if !cc.IsInvoke() || cc.Method.Name() != "Push" || len(cc.Args) != 3 {
		return false
	}
	if cc.Method.Pkg() == nil || !strings.HasPrefix(cc.Method.Pkg().Path(), "oras.land/oras-go/v2") {
		return false
	}
	return namedOf(cc.Args[1].Type()) == "ocispec.Descriptor"
}

// c19BlobPushes: the envelope uploads of fn:
//
//	oras.PushBytes(ctx, p, mt, blob)                                                       or its definition
//	d := content.NewDescriptorFromBytes(mt, blob); p.Push(ctx, d, bytes.NewReader(blob))   or
//	h(…, mt, …, blob, …) with h a module function that is such an upload (c19PushEquiv)
//
// (oras-go content.go: PushBytes is exactly these two steps). In the second form the descriptor pushed must be the
// one computed by NewDescriptorFromBytes and the reader must read the very bytes the descriptor was computed
// from: then the store receives (mt, blob) under the digest of blob, as with PushBytes.
func c19BlobPushes(w *World, fn *ssa.Function) []c19BlobPush {
	var out []c19BlobPush
	for _, ci := range allCalls(fn) {
		call, ok := ci.(*ssa.Call)
		if !ok {
			continue
		}
		if isCallTo(call, "oras.PushBytes") && len(call.Call.Args) == 4 {
			out = append(out, c19BlobPush{At: call, MT: call.Call.Args[2], Blob: call.Call.Args[3], Desc: res(call, 0), Err: c19ErrNil(call)})
			continue
		}
		if g := staticCallee(call); g != nil && g != fn && w != nil {
			if mi, bi, ok := c19PushEquiv(w, g); ok && mi < len(call.Call.Args) && bi < len(call.Call.Args) {
				out = append(out, c19BlobPush{At: call, MT: call.Call.Args[mi], Blob: call.Call.Args[bi], Desc: res(call, 0), Err: c19ErrNil(call)})
				continue
			}
		}
		if !c19IsPushInvoke(call) {
			continue
		}
		nd, ok := loadOrigin(call.Call.Args[1]).(*ssa.Call)
		if !ok || !isCallTo(nd, "oras/content.NewDescriptorFromBytes") || len(nd.Call.Args) != 2 {
			continue
		}
		rd, ok := unwrap(call.Call.Args[2]).(*ssa.Call)
		if !ok || !isCallTo(rd, "bytes.NewReader") || len(rd.Call.Args) != 1 || desc(rd.Call.Args[0]) != desc(nd.Call.Args[1]) {
			continue
		}
		out = append(out, c19BlobPush{At: call, MT: nd.Call.Args[0], Blob: nd.Call.Args[1], Desc: desc(nd), Err: c19ErrNil(call)})
	}
	return out
}

var c19PushEqMemo = map[*ssa.Function][3]int{}
var c19PushEqBusy = map[*ssa.Function]bool{}

// c19PushEquiv: h is a module function `(…, mt, …, blob, …) (ocispec.Descriptor, error)` that performs exactly one
// envelope upload (c19BlobPushes) made from its parameters mt and blob, and every success-capable exit of which
// returns that upload's descriptor, the upload's own error being nil on the exit. A success of h then stores
// (mt, blob) and delivers the descriptor PushBytes(mt, blob) delivers: the rules that speak about "the envelope
// upload" may be anchored on a call of h with the caller's values in those positions. (The upload extracted into
// a helper: same obligation, decided through the helper's summary.)
func c19PushEquiv(w *World, h *ssa.Function) (mt, blob int, ok bool) {
	if h == nil || h.Blocks == nil || !w.IsProductFn(h) {
		return 0, 0, false
	}
	if m, done := c19PushEqMemo[h]; done {
		return m[0], m[1], m[2] == 1
	}
	if c19PushEqBusy[h] {
		return 0, 0, false
	}
	c19PushEqBusy[h] = true
	defer delete(c19PushEqBusy, h)
	mt, blob, ok = c19PushEquiv1(w, h)
	m := [3]int{mt, blob, 0}
	if ok {
		m[2] = 1
	}
	c19PushEqMemo[h] = m
	return
}

func c19PushEquiv1(w *World, h *ssa.Function) (int, int, bool) {
	rs := h.Signature.Results()
	if rs.Len() != 2 || namedOf(rs.At(0).Type()) != "ocispec.Descriptor" || !isErrorType(rs.At(1).Type()) {
		return 0, 0, false
	}
	pbs := c19BlobPushes(w, h)
	if len(pbs) != 1 {
		return 0, 0, false
	}
	pb := pbs[0]
	mi, bi := c19ParamIdx(h, pb.MT), c19ParamIdx(h, pb.Blob)
	if mi < 0 || bi < 0 {
		return 0, 0, false
	}
	s := w.Summarize(h, Mode{Kind: mErr})
	if s == nil || !s.Complete || len(s.Exits) == 0 {
		return 0, 0, false
	}
	for _, e := range s.Exits {
		r0 := spilledRet(e.Ret.Results[0])
		if ph, isPhi := r0.(*ssa.Phi); isPhi && ph.Block() == e.Ret.Block() && e.Pred >= 0 && e.Pred < len(ph.Edges) {
			r0 = ph.Edges[e.Pred]
		}
		if desc(r0) != pb.Desc || !labelHas(e.Checked, pb.Err) {
			return 0, 0, false
		}
	}
	return mi, bi, true
}

// c19PackSite: an oras.PackManifest call of the entry function or of a module function it calls, directly or
// through further module functions; Chain is the sequence of calls that leads from the entry function down to Fn
// (empty when the pack call stands in the entry function), Tr the translation of Fn's frame into the entry
// function's (identity, or the parameters replaced by the arguments along the chain).
type c19PackSite struct {
	Fn    *ssa.Function
	Pack  *ssa.Call
	Chain []*ssa.Call
	Tr    func(string) string
}

func c19PackSites(w *World, entry *ssa.Function) []c19PackSite {
	var out []c19PackSite
	onStack := map[*ssa.Function]bool{}
	var visit func(fn *ssa.Function, chain []*ssa.Call, tr func(string) string)
	visit = func(fn *ssa.Function, chain []*ssa.Call, tr func(string) string) {
		onStack[fn] = true
		defer delete(onStack, fn)
		for _, ci := range allCalls(fn) {
			call, ok := ci.(*ssa.Call)
			if !ok {
				continue
			}
			if isCallTo(call, "oras.PackManifest") && len(call.Call.Args) == 5 {
				out = append(out, c19PackSite{Fn: fn, Pack: call, Chain: append([]*ssa.Call(nil), chain...), Tr: tr})
				continue
			}
			g := staticCallee(call)
			if g == nil || g.Blocks == nil || !w.IsProductFn(g) || onStack[g] || len(chain) >= 3 || len(call.Call.Args) != len(g.Params) {
				continue
			}
			visit(g, append(append([]*ssa.Call(nil), chain...), call), c19Into(g, call, tr))
		}
	}
	visit(entry, nil, c19Same)
	return out
}

// c19UpChain follows a value of the packing function up the call chain while it is (a copy of) a parameter of the
// function it stands in: the value is then the argument bound to that parameter at the call one level up. Returns
// the value where the climb ends and the level of the function it stands in (0 = the entry function,
// len(site.Chain) = the packing function).
func c19UpChain(site c19PackSite, entry *ssa.Function, v ssa.Value) (ssa.Value, int) {
	lvl := len(site.Chain)
	fnAt := func(l int) *ssa.Function {
		if l == 0 {
			return entry
		}
		return staticCallee(site.Chain[l-1])
	}
	for v != nil && lvl > 0 {
		pi := c19ParamIdx(fnAt(lvl), v)
		if pi < 0 || pi >= len(site.Chain[lvl-1].Call.Args) {
			break
		}
		v = site.Chain[lvl-1].Call.Args[pi]
		lvl--
	}
	if v != nil {
		v = loadOrigin(v)
	}
	return v, lvl
}

// c19PackedDesc: how the packed manifest's descriptor is rendered in the entry function — result 0 of the pack call
// itself, or result 0 of the first call of the chain provided every function on the way hands up, on each of its
// success-capable exits, result 0 of the next call (the pack call at the end).
func c19PackedDesc(w *World, site c19PackSite) (string, bool, string) {
	if len(site.Chain) == 0 {
		return res(site.Pack, 0), true, ""
	}
	for i, call := range site.Chain {
		fn := staticCallee(call)
		next := site.Pack
		if i+1 < len(site.Chain) {
			next = site.Chain[i+1]
		}
		s := w.Summarize(fn, Mode{Kind: mErr})
		if s == nil || len(s.Exits) == 0 {
			return res(site.Chain[0], 0), false, fnName(fn) + " has no success exit"
		}
		for _, e := range s.Exits {
			r0 := spilledRet(e.Ret.Results[0])
			if ph, isPhi := r0.(*ssa.Phi); isPhi && ph.Block() == e.Ret.Block() && e.Pred >= 0 && e.Pred < len(ph.Edges) {
				r0 = ph.Edges[e.Pred]
			}
			if desc(r0) != res(next, 0) {
				return res(site.Chain[0], 0), false, fnName(fn) + " returns " + trunc(desc(r0), 120) + " instead of the packed manifest's descriptor"
			}
		}
	}
	return res(site.Chain[0], 0), true, ""
}

// c19SingleElem: v is a slice literal `[]T{e}` (the whole of a local array of length one, written once): returns e.
func c19SingleElem(v ssa.Value) ssa.Value {
	sl, ok := v.(*ssa.Slice)
	if !ok || sl.Low != nil || sl.High != nil || sl.Max != nil {
		return nil
	}
	al, ok := sl.X.(*ssa.Alloc)
	if !ok {
		return nil
	}
	els := orderedLitElems(al)
	if len(els) != 1 {
		return nil
	}
	n := 0
	for _, r := range *al.Referrers() {
		switch x := r.(type) {
		case *ssa.IndexAddr:
			for _, rr := range *x.Referrers() {
				if _, isStore := rr.(*ssa.Store); isStore {
					n++
				} else {
					return nil
				}
			}
		case *ssa.Slice:
			if x != sl {
				return nil
			}
		default:
			return nil
		}
	}
	if n != 1 {
		return nil
	}
	return els[0]
}

// ---------- the store a blob is read from (b) ------------------------------------------------------------------

// c19SourceLeaves: the values a store-selecting expression can evaluate to, rendered in the frame tr translates
// into: through interface conversions, phis (a local assigned on alternative branches) and the results of module
// functions (every return of an accessor such as `func (c *client) blobs() content.Storage`, its parameters
// replaced by the arguments). Where the selection is written — inline before the fetch or in an accessor — does
// not change which store is read.
func c19SourceLeaves(w *World, v ssa.Value, tr func(string) string, depth int, out map[string]bool) bool {
	if depth > 4 {
		return false
	}
	v = unwrap(v)
	switch x := v.(type) {
	case *ssa.Phi:
		for _, e := range x.Edges {
			if e == v {
				continue
			}
			if !c19SourceLeaves(w, e, tr, depth+1, out) {
				return false
			}
		}
		return true
	case *ssa.Call:
		h := staticCallee(x)
		if h == nil || h.Blocks == nil || !w.IsProductFn(h) || len(x.Call.Args) != len(h.Params) || h.Signature.Results().Len() != 1 {
			break
		}
		tr2 := c19Into(h, x, tr)
		n := 0
		for _, b := range h.Blocks {
			r, ok := blockTerm(b).(*ssa.Return)
			if !ok || len(r.Results) != 1 {
				continue
			}
			n++
			if !c19SourceLeaves(w, spilledRet(r.Results[0]), tr2, depth+1, out) {
				return false
			}
		}
		return n > 0
	}
	out[tr(desc(v))] = true
	return true
}

// c19GlobalWritten: the package-level variable is stored to (as a whole, or one of its fields / elements), or its
// address is handed out, in a function of the package other than the package initialiser. Decided on addresses:
// a *copy* of the variable (`local := global`) is another variable, and writing or passing the copy does not
// touch the global.
func c19GlobalWritten(w *World, rel string, g *ssa.Global) bool {
	rooted := func(addr ssa.Value) bool {
		for i := 0; i < 6; i++ {
			switch x := addr.(type) {
			case *ssa.Global:
				return x == g
			case *ssa.FieldAddr:
				addr = x.X
			case *ssa.IndexAddr:
				addr = x.X
			default:
				return false
			}
		}
		return false
	}
	for _, fn := range w.FuncsOfPkg(rel) {
		if fn.Name() == "init" && fn.Parent() == nil {
			continue
		}
		for _, b := range fn.Blocks {
			for _, in := range b.Instrs {
				switch x := in.(type) {
				case *ssa.Store:
					if rooted(x.Addr) || rooted(x.Val) {
						return true
					}
				case *ssa.UnOp, *ssa.FieldAddr, *ssa.IndexAddr, *ssa.DebugRef:
					// loads and address arithmetic
				default:
					for _, op := range in.Operands(nil) {
						if op != nil && *op != nil && rooted(*op) {
							return true // the address goes into a call, a closure, an interface, …
						}
					}
				}
			}
		}
	}
	return false
}

// ---------- the config blob is in the store when the manifest is packed (push/config-stored) ---------------------

// c19IsExistsInvoke: `x.Exists(ctx, D)` on one of oras-go's storage interfaces.
func c19IsExistsInvoke(ci ssa.CallInstruction) bool {
	cc := ci.Common()
	if !cc.IsInvoke() || cc.Method.Name() != "Exists" || len(cc.Args) != 2 {
		return false
	}
	if cc.Method.Pkg() == nil || !strings.HasPrefix(cc.Method.Pkg().Path(), "oras.land/oras-go/v2") {
		return false
	}
	return namedOf(cc.Args[1].Type()) == "ocispec.Descriptor"
}

// c19ConfigStored: push/config-stored.
//
// The manifest PushSignature packs names the notation config blob as its config. A push that is reported as success
// promises a signature artifact that is in the store as a whole: oci.Store accepts a manifest whose config blob is
// absent (it does not look the config up), so a failed upload of the config that is not reported leaves a signature
// manifest with a dangling config behind a success — the sequence of pushes of the property then contains a push
// whose artifact is incomplete although nothing said so (the same clause the obligations push/options/config "the
// helper's error gates the packing" and push/config-blob speak about: they are empty if the helper answers nil after
// a failed upload). Necessary condition, as a cut set on the config helper: once the edges are removed on which the
// helper has learned that the blob is there —
//
//	the store answered Exists(config) with true,
//	the Push of the config returned nil,
//	the error of that Push is errdef.ErrAlreadyExists (errors.Is, or compared with it)
//
// — the helper has no success-capable exit left, except exits that hand the error of that very Push up unchanged
// (`return d, s.Push(…)`: the caller's test of the helper's error, which push/options/config demands, is then the test
// of the upload). Which way the tests are spelled is immaterial: `a && b` or nested ifs, either operand order, a
// tagless switch, a boolean local holding the disjunction, or a module predicate that answers only through these facts
// (c19Implies composes such predicates and error-returning helpers from their own gates).
func c19ConfigStored(c *Ctx, CFG *ssa.Function, gname string) {
	w := c.W
	const key = "push/config-stored"
	const rule = "every success exit of the config helper has learned that the config blob is in the store: the store answered Exists with true, or the Push of the config returned nil or errdef.ErrAlreadyExists (a failed upload of the config is never answered with success)"
	facts := map[string]bool{}
	pushes := map[*ssa.Call]bool{}
	nPush, nExists := 0, 0
	for _, ci := range allCalls(CFG) {
		call, ok := ci.(*ssa.Call)
		if !ok {
			continue
		}
		switch {
		case c19IsPushInvoke(call) && desc(call.Call.Args[1]) == gname:
			e := descTailErr(call)
			facts["EQ("+e+",nil)"] = true
			for _, g := range []string{"global:oras/errdef.ErrAlreadyExists"} {
				facts["T(call:errors.Is("+e+","+g+"))"] = true
				facts["EQ("+e+","+g+")"] = true
				facts["EQ("+g+","+e+")"] = true
			}
			pushes[call] = true
			nPush++
		case c19IsExistsInvoke(call) && desc(call.Call.Args[1]) == gname:
			facts["T("+desc(call)+"#0)"] = true
			nExists++
		}
	}
	fi := w.Info(CFG)
	cut := c19GateCut(w, CFG, facts, c19Same, 0)
	// a boolean that holds a disjunction (`ok := err == nil || errors.Is(…)`): every alternative is one of the facts
	for _, b := range CFG.Blocks {
		iff, ok := blockTerm(b).(*ssa.If)
		if !ok || len(b.Succs) != 2 {
			continue
		}
		for j := 0; j < 2; j++ {
			l := condLabel(iff.Cond, j == 0)
			if !strings.HasPrefix(l, "OR(") {
				continue
			}
			_, alts := splitTopArgs(l)
			all := len(alts) > 0
			for _, a := range alts {
				if !facts[a] {
					all = false
				}
			}
			if all {
				cut[edgeKey{b.Index, j}] = true
			}
		}
	}
	mode := Mode{Kind: mErr}
	rest := fi.summarizeFrom(mode, entryState(), cut)
	c.Evals += rest.States
	detail := fmt.Sprintf("%d Push and %d Exists of the config descriptor in the helper", nPush, nExists)
	if nPush+nExists == 0 {
		c.Bad(key, rule, w.FnPos(CFG), "the helper neither asks the store for the config descriptor it returns nor pushes it")
		return
	}
	if !rest.Complete {
		c.Unk(key, rule, w.FnPos(CFG), "the helper's exits could not be summarised")
		return
	}
	for _, e := range rest.Exits {
		// the error handed up is the upload's own
		k := len(e.Ret.Results) - 1
		if rv := c19ExitResult(e, k); rv != nil {
			if pc, ok := loadOrigin(rv).(*ssa.Call); ok && pushes[pc] {
				continue
			}
		}
		wit := fi.successWitness(mode, entryState(), cut)
		c.Bad(key, rule, w.InstrPos(e.Ret), "this exit answers success on a path on which neither the existence test nor the upload of the config was found to have succeeded ("+detail+")", wit...)
		return
	}
	c.OK(key, rule, w.FnPos(CFG))
}
