package main

// Helpers of the C20 rule set (plugin installation) that are independent of one code shape:
//
//   - c20Walk: a filepath.WalkDir call together with the function that runs per entry and the state that function
//     shares with the function that started the walk — variables captured by a function literal, or fields of the
//     object a method value is bound to. Both are "cells"; the rules speak about cells only.
//   - reaching definitions of a cell (which store, or the walk itself, decides what a load sees);
//   - c20Tree: the call tree including functions that are only handed over as values (method values, function values);
//   - c20CertifyByteScan: the file-name validator written as a scan over the bytes of the name.
//   - c20Frames: the decision table across helper frames — a helper of Install is interpreted where the path reaches
//     its call, with what the path knows about the arguments; its outcomes bind its results and carry the effects on
//     the plugin directory it performed (third pass: effects in helper frames, c20EnumEffects / c20DeepSel / c20Origin);
//   - c20Read / c20RecordOf / c20RecordsQuiet: what the source parser returns, read from what the walk left in a shared
//     cell directly, through the record the cell points to, or through element 0 of the list in the cell (third pass:
//     candidates as records).

import (
	"fmt"
	"go/constant"
	"go/token"
	"go/types"
	"sort"
	"strings"

	"golang.org/x/tools/go/ssa"
)

// ---- call tree ------------------------------------------------------------------------------------------------

// c20BoundTarget: fn is the synthetic wrapper of a method value `x.m` with a pointer receiver (`m$bound`, one free
// variable = the receiver, body = one static call m(recv, params...)); the declared method is returned.
func c20BoundTarget(fn *ssa.Function) (*ssa.Function, bool) {
	if fn == nil || fn.Synthetic == "" || len(fn.FreeVars) != 1 || len(fn.Blocks) != 1 {
		return nil, false
	}
	var target *ssa.Function
	for _, in := range fn.Blocks[0].Instrs {
		call, ok := in.(*ssa.Call)
		if !ok {
			continue
		}
		g := staticCallee(call)
		if g == nil || target != nil || call.Call.IsInvoke() || len(call.Call.Args) != len(fn.Params)+1 || call.Call.Args[0] != ssa.Value(fn.FreeVars[0]) {
			return nil, false
		}
		for i, p := range fn.Params {
			if call.Call.Args[i+1] != ssa.Value(p) {
				return nil, false
			}
		}
		target = g
	}
	return target, target != nil && target.Blocks != nil
}

// c20Tree: the product functions reachable from fn through static calls, function literals, and functions that are
// only mentioned as values (a method value `s.visit` or a function value handed to a library routine runs as part
// of the tree just as a function literal does).
func c20Tree(w *World, fn *ssa.Function) []*ssa.Function {
	seen := map[*ssa.Function]bool{}
	var order []*ssa.Function
	var rec func(f *ssa.Function)
	rec = func(f *ssa.Function) {
		if f == nil || seen[f] || f.Blocks == nil || !w.IsProductFn(f) {
			return
		}
		seen[f] = true
		order = append(order, f)
		for _, b := range f.Blocks {
			for _, in := range b.Instrs {
				switch x := in.(type) {
				case ssa.CallInstruction:
					if g := staticCallee(x); g != nil {
						rec(g)
					}
					for _, a := range x.Common().Args {
						if g, ok := unwrap(a).(*ssa.Function); ok {
							rec(g)
						}
					}
				case *ssa.MakeClosure:
					if g, ok := x.Fn.(*ssa.Function); ok {
						if m, isBound := c20BoundTarget(g); isBound {
							rec(m)
						} else {
							rec(g)
						}
					}
				}
			}
		}
		for _, a := range f.AnonFuncs {
			rec(a)
		}
	}
	rec(fn)
	return order
}

// ---- walk state -----------------------------------------------------------------------------------------------

type c20Walk struct {
	w     *World
	outer *ssa.Function       // the function that starts the walk
	call  ssa.CallInstruction // the WalkDir call
	cb    *ssa.Function       // the function whose body runs per entry
	mc    *ssa.MakeClosure    // the closure handed to WalkDir (nil: a plain function, no shared state)
	recv  *ssa.Parameter      // method form: the receiver of cb
	obj   ssa.Value           // method form: the object the method value is bound to, in outer
	via   *c20Via             // fifth pass: the walk runs in a module helper that hands every entry to cb (call = the call of that helper)
}

// c20ResolveWalk: the callback of a WalkDir call. Accepted: a function literal, a method value with pointer receiver,
// a plain function.
func c20ResolveWalk(w *World, outer *ssa.Function, ci ssa.CallInstruction) *c20Walk {
	if len(ci.Common().Args) < 2 {
		return nil
	}
	k := &c20Walk{w: w, outer: outer, call: ci}
	if !k.bindCallback(ci.Common().Args[1], 3) {
		return nil
	}
	return k
}

// bindCallback: the function value `arg` of the outer function as the per-entry function with `nparams` parameters.
// Accepted: a function literal, a method value with pointer receiver, a plain function.
func (k *c20Walk) bindCallback(arg ssa.Value, nparams int) bool {
	switch a := unwrap(arg).(type) {
	case *ssa.MakeClosure:
		fn, _ := a.Fn.(*ssa.Function)
		if fn == nil {
			return false
		}
		k.mc = a
		if m, ok := c20BoundTarget(fn); ok {
			if len(a.Bindings) != 1 || len(m.Params) == 0 {
				return false
			}
			if _, isPtr := m.Params[0].Type().Underlying().(*types.Pointer); !isPtr {
				return false
			}
			k.cb, k.recv, k.obj = m, m.Params[0], a.Bindings[0]
		} else if fn.Synthetic == "" {
			k.cb = fn
		}
	case *ssa.Function:
		k.cb = a
	}
	if k.cb == nil || k.cb.Blocks == nil {
		return false
	}
	if k.recv != nil {
		nparams++
	}
	return len(k.cb.Params) == nparams
}

// pathParam / entryParam: the parameters of the per-entry function that hold the entry's path and the entry. In a
// WalkDir callback these are the first two; an action called by a helper's callback receives them where that callback
// puts its own two (c20Via.pathIdx / entryIdx).
func (k *c20Walk) pathParam() *ssa.Parameter {
	if k.via != nil {
		return k.cb.Params[k.recvOff()+k.via.pathIdx]
	}
	return k.cb.Params[len(k.cb.Params)-3]
}

func (k *c20Walk) entryParam() *ssa.Parameter {
	if k.via != nil {
		return k.cb.Params[k.recvOff()+k.via.entryIdx]
	}
	return k.cb.Params[len(k.cb.Params)-2]
}

func (k *c20Walk) recvOff() int {
	if k.recv != nil {
		return 1
	}
	return 0
}

// rootArg: the walk root as the function that started the walk names it.
func (k *c20Walk) rootArg() ssa.Value {
	if k.via != nil {
		return k.call.Common().Args[k.via.rootPar]
	}
	return k.call.Common().Args[0]
}

func (k *c20Walk) nCells() int {
	if k.recv != nil {
		if st, ok := k.recv.Type().Underlying().(*types.Pointer).Elem().Underlying().(*types.Struct); ok {
			return st.NumFields()
		}
		return 0
	}
	if k.mc != nil {
		return len(k.mc.Bindings)
	}
	return 0
}

// innerCell: addr (in the callback) is the address of a shared cell.
func (k *c20Walk) innerCell(addr ssa.Value) (int, bool) {
	if k.recv != nil {
		if fa, ok := addr.(*ssa.FieldAddr); ok && fa.X == ssa.Value(k.recv) {
			return fa.Field, true
		}
		return 0, false
	}
	if fv, ok := addr.(*ssa.FreeVar); ok && k.mc != nil {
		for i, f := range k.cb.FreeVars {
			if f == fv {
				return i, true
			}
		}
	}
	return 0, false
}

// outerCell: addr (in the function that starts the walk) is the address of a shared cell.
func (k *c20Walk) outerCell(addr ssa.Value) (int, bool) {
	if k.recv != nil {
		if fa, ok := addr.(*ssa.FieldAddr); ok && fa.X == k.obj {
			return fa.Field, true
		}
		return 0, false
	}
	if k.mc != nil {
		for i, b := range k.mc.Bindings {
			if b == addr {
				return i, true
			}
		}
	}
	return 0, false
}

// innerDesc / outerDesc: how a load of the cell is rendered in labels of the callback / of the outer function.
func (k *c20Walk) innerDesc(cell int) string {
	if k.recv != nil {
		return "param:" + k.recv.Name() + "." + fieldName(k.recv.Type(), cell)
	}
	return "free:" + k.cb.FreeVars[cell].Name()
}

func (k *c20Walk) outerDesc(cell int) string {
	if k.recv != nil {
		return desc(k.obj) + "." + fieldName(k.obj.Type(), cell)
	}
	return desc(k.mc.Bindings[cell])
}

func (k *c20Walk) cellIsBool(cell int) bool {
	var t types.Type
	if k.recv != nil {
		if f := fieldOf(k.recv.Type(), cell); f != nil {
			t = f.Type()
		}
	} else if pt, ok := k.cb.FreeVars[cell].Type().Underlying().(*types.Pointer); ok {
		t = pt.Elem()
	}
	if t == nil {
		return false
	}
	b, ok := t.Underlying().(*types.Basic)
	return ok && b.Kind() == types.Bool
}

func (k *c20Walk) cellOf(addr ssa.Value, inner bool) (int, bool) {
	if inner {
		return k.innerCell(addr)
	}
	return k.outerCell(addr)
}

func (k *c20Walk) loadOf(v ssa.Value, inner bool) (int, *ssa.UnOp, bool) {
	u, ok := v.(*ssa.UnOp)
	if !ok || u.Op != token.MUL {
		return 0, nil, false
	}
	c, ok := k.cellOf(u.X, inner)
	return c, u, ok
}

type c20CellStore struct {
	st   *ssa.Store
	cell int
}

func (k *c20Walk) stores(inner bool) []c20CellStore {
	fn := k.outer
	if inner {
		fn = k.cb
	}
	var out []c20CellStore
	for _, b := range fn.Blocks {
		for _, in := range b.Instrs {
			if st, ok := in.(*ssa.Store); ok {
				if c, ok := k.cellOf(st.Addr, inner); ok {
					out = append(out, c20CellStore{st, c})
				}
			}
		}
	}
	return out
}

func (k *c20Walk) loads(inner bool, cell int) []*ssa.UnOp {
	fn := k.outer
	if inner {
		fn = k.cb
	}
	var out []*ssa.UnOp
	for _, b := range fn.Blocks {
		for _, in := range b.Instrs {
			if v, ok := in.(ssa.Value); ok {
				if c, u, ok := k.loadOf(v, inner); ok && c == cell {
					out = append(out, u)
				}
			}
		}
	}
	return out
}

// confined: the cells are reachable only through the outer function's own loads and stores and through the callback
// handed to this one WalkDir call (nothing else holds an address of them). Then a cell changes only by a store of the
// outer function or while the walk runs, and inside the callback only by the callback's own stores.
func (k *c20Walk) confined() (bool, string) {
	if k.mc == nil {
		return true, ""
	}
	onlyLoadStore := func(addr ssa.Value) bool {
		refs := addr.Referrers()
		if refs == nil {
			return true
		}
		for _, r := range *refs {
			switch x := r.(type) {
			case *ssa.Store:
				if x.Addr != addr || x.Val == addr {
					return false
				}
			case *ssa.UnOp:
				if x.Op != token.MUL {
					return false
				}
			case *ssa.DebugRef:
			default:
				return false
			}
		}
		return true
	}
	// the closure value goes to the WalkDir call only
	var chase func(v ssa.Value) bool
	chase = func(v ssa.Value) bool {
		refs := v.Referrers()
		if refs == nil {
			return true
		}
		for _, r := range *refs {
			switch x := r.(type) {
			case *ssa.ChangeType:
				if !chase(x) {
					return false
				}
			case *ssa.DebugRef:
			case ssa.CallInstruction:
				if x != k.call {
					return false
				}
			default:
				return false
			}
		}
		return true
	}
	if !chase(k.mc) {
		return false, "the callback value is used elsewhere than in the WalkDir call"
	}
	if k.recv != nil {
		al, ok := k.obj.(*ssa.Alloc)
		if !ok {
			return false, "the object the method value is bound to is not a local object of " + fnName(k.outer)
		}
		for _, r := range *al.Referrers() {
			switch x := r.(type) {
			case *ssa.FieldAddr:
				if !onlyLoadStore(x) {
					return false, "the address of field " + fieldName(al.Type(), x.Field) + " of the walk state escapes"
				}
			case *ssa.Store:
				if x.Addr != ssa.Value(al) {
					return false, "the walk state object is stored somewhere"
				}
			case *ssa.MakeClosure:
				if x != k.mc {
					return false, "the walk state object is bound to another function value"
				}
			case *ssa.DebugRef:
			default:
				if onlyFormatted(r, 0) && c20FmtInert(k.w, al.Type()) {
					continue
				}
				return false, "the walk state object escapes from " + fnName(k.outer)
			}
		}
		if refs := k.recv.Referrers(); refs != nil {
			for _, r := range *refs {
				switch x := r.(type) {
				case *ssa.FieldAddr:
					if !onlyLoadStore(x) {
						return false, "the callback hands out the address of field " + fieldName(k.recv.Type(), x.Field)
					}
				case *ssa.DebugRef:
				default:
					// rendering the receiver into text (a debug line) is no use of the state, as long as the type has no
					// method the formatter would call
					if onlyFormatted(r, 0) && c20FmtInert(k.w, k.recv.Type()) {
						continue
					}
					return false, "the callback hands its receiver on"
				}
			}
		}
		return true, ""
	}
	for i, b := range k.mc.Bindings {
		al, ok := b.(*ssa.Alloc)
		if !ok {
			return false, "a captured variable is not a local of " + fnName(k.outer)
		}
		for _, r := range *al.Referrers() {
			switch x := r.(type) {
			case *ssa.Store:
				if x.Addr != ssa.Value(al) || x.Val == ssa.Value(al) {
					return false, "the address of a captured variable is stored"
				}
			case *ssa.UnOp:
			case *ssa.MakeClosure:
				if x != k.mc {
					return false, "a captured variable is shared with another function literal"
				}
			case *ssa.DebugRef:
			default:
				return false, "the address of a captured variable escapes"
			}
		}
		if i < len(k.cb.FreeVars) && !onlyLoadStore(k.cb.FreeVars[i]) {
			return false, "the callback hands out the address of a captured variable"
		}
	}
	return true, ""
}

// c20FmtInert: formatting a value of this (pointer) type runs no code of the module: the type has none of the methods the
// fmt package looks for.
func c20FmtInert(w *World, t types.Type) bool {
	ms := w.Prog.MethodSets.MethodSet(t)
	for i := 0; i < ms.Len(); i++ {
		switch ms.At(i).Obj().Name() {
		case "String", "Error", "Format", "GoString":
			return false
		}
	}
	return true
}

// c20Def: what decides the content of a cell at some point.
type c20Def struct {
	st    *ssa.Store // a store of the same function (whole: a store of the whole state object)
	whole bool
	walk  bool // whatever the walk left in the cell
	entry bool // the function entry (callback: an earlier invocation or the outer function; outer: the zero value)
}

// defsBefore: the definitions of the cell that reach the instruction `at` (backwards over the control flow graph;
// a path ends at the first store to the cell, at the WalkDir call, or at the allocation / function entry).
func (k *c20Walk) defsBefore(at ssa.Instruction, cell int, inner bool) []c20Def {
	var out []c20Def
	have := map[ssa.Instruction]bool{}
	add := func(in ssa.Instruction, d c20Def) {
		if in != nil {
			if have[in] {
				return
			}
			have[in] = true
		}
		out = append(out, d)
	}
	var cellAlloc ssa.Value
	if !inner {
		if k.recv != nil {
			cellAlloc = k.obj
		} else if k.mc != nil && cell < len(k.mc.Bindings) {
			cellAlloc = k.mc.Bindings[cell]
		}
	}
	seen := map[*ssa.BasicBlock]bool{}
	entrySeen := false
	var scan func(b *ssa.BasicBlock, from int)
	scan = func(b *ssa.BasicBlock, from int) {
		for i := from - 1; i >= 0; i-- {
			in := b.Instrs[i]
			if st, ok := in.(*ssa.Store); ok {
				if c, ok := k.cellOf(st.Addr, inner); ok && c == cell {
					add(st, c20Def{st: st})
					return
				}
				if !inner && k.recv != nil && st.Addr == k.obj {
					add(st, c20Def{st: st, whole: true})
					return
				}
			}
			if !inner && in == k.call.(ssa.Instruction) {
				add(in, c20Def{walk: true})
				return
			}
			if v, ok := in.(ssa.Value); ok && cellAlloc != nil && v == cellAlloc {
				add(in, c20Def{entry: true})
				return
			}
		}
		if len(b.Preds) == 0 {
			if !entrySeen {
				entrySeen = true
				out = append(out, c20Def{entry: true})
			}
			return
		}
		for _, p := range b.Preds {
			if !seen[p] {
				seen[p] = true
				scan(p, len(p.Instrs))
			}
		}
	}
	scan(at.Block(), instrIndex(at))
	return out
}

// defValue: the value a definition puts into the cell (zero: the zero value). A store of the whole state object
// `obj = T{f: v, …}` is resolved through the composite literal's temporary.
func (k *c20Walk) defValue(d c20Def, cell int) (val ssa.Value, zero, ok bool) {
	if d.st == nil {
		return nil, false, false
	}
	if !d.whole {
		return d.st.Val, false, true
	}
	u, isLoad := d.st.Val.(*ssa.UnOp)
	if !isLoad || u.Op != token.MUL {
		return nil, false, false
	}
	tmp, isAlloc := u.X.(*ssa.Alloc)
	if !isAlloc || tmp.Referrers() == nil {
		return nil, false, false
	}
	var found ssa.Value
	n := 0
	for _, r := range *tmp.Referrers() {
		switch x := r.(type) {
		case *ssa.FieldAddr:
			stores := 0
			for _, rr := range *x.Referrers() {
				st, isSt := rr.(*ssa.Store)
				if !isSt || st.Addr != ssa.Value(x) || st.Block() != u.Block() || instrIndex(st) > instrIndex(u) {
					return nil, false, false
				}
				stores++
				if x.Field == cell {
					found = st.Val
					n++
				}
			}
			if stores != 1 {
				return nil, false, false
			}
		case *ssa.UnOp:
			if x != u {
				return nil, false, false
			}
		case *ssa.DebugRef:
		default:
			return nil, false, false
		}
	}
	switch n {
	case 0:
		return nil, true, true
	case 1:
		return found, false, true
	}
	return nil, false, false
}

// value resolves a value read from a cell: (cell ≥ 0, nil) — the load sees exactly what the walk left in the cell
// (outer function only); (-1, v) — v itself, or the value of the only store that can reach this load; ok=false — a
// load of a cell whose content is not decided by one definition.
func (k *c20Walk) value(v ssa.Value, inner bool) (cell int, val ssa.Value, ok bool) {
	c, u, isLoad := k.loadOf(v, inner)
	if !isLoad {
		return -1, v, true
	}
	defs := k.defsBefore(u, c, inner)
	if len(defs) != 1 {
		return c, nil, false
	}
	if defs[0].walk {
		return c, nil, true
	}
	if x, zero, ok := k.defValue(defs[0], c); ok && !zero {
		return -1, x, true
	}
	return c, nil, false
}

// rootCell: the cell through which the callback sees the walk root: at the WalkDir call it holds the value of one store
// S of the outer function, the root argument of WalkDir is that same value (or a load of the cell that sees S), and the
// callback never stores to it. Inside the callback a load of this cell is therefore the walk root.
func (k *c20Walk) rootCell() int {
	if len(k.call.Common().Args) == 0 {
		return -1
	}
	rootArg := k.rootArg()
	written := map[int]bool{}
	for _, s := range k.stores(true) {
		written[s.cell] = true
	}
	for cell := 0; cell < k.nCells(); cell++ {
		if written[cell] {
			continue
		}
		defs := k.defsBefore(k.call, cell, false)
		if len(defs) != 1 || defs[0].st == nil {
			continue
		}
		val, zero, ok := k.defValue(defs[0], cell)
		if !ok || zero {
			continue
		}
		same := val == rootArg
		if !same {
			if c, u, isLoad := k.loadOf(rootArg, false); isLoad && c == cell {
				d2 := k.defsBefore(u, cell, false)
				same = len(d2) == 1 && d2[0].st == defs[0].st
			}
		}
		if same {
			return cell
		}
	}
	return -1
}

// c20WalkSeesOuterParam: v (in the callback) is a load of a shared cell that the callback never assigns, that is not the
// walk root, and that holds at the WalkDir call a parameter of the function that started the walk.
func c20WalkSeesOuterParam(k *c20Walk, v ssa.Value) bool {
	cell, _, isLoad := k.loadOf(v, true)
	if !isLoad || cell == k.rootCell() {
		return false
	}
	for _, s := range k.stores(true) {
		if s.cell == cell {
			return false
		}
	}
	if ok, _ := k.confined(); !ok {
		return false
	}
	defs := k.defsBefore(k.call, cell, false)
	if len(defs) != 1 {
		return false
	}
	val, zero, ok := k.defValue(defs[0], cell)
	if !ok || zero {
		return false
	}
	par, isParam := val.(*ssa.Parameter)
	return isParam && par.Parent() == k.outer && val != k.rootArg()
}

// seesOnlyWalk: every load of the cell in the outer function reads what the walk left there.
func (k *c20Walk) seesOnlyWalk(cell int) bool {
	ls := k.loads(false, cell)
	for _, u := range ls {
		d := k.defsBefore(u, cell, false)
		if len(d) != 1 || !d[0].walk {
			return false
		}
	}
	return len(ls) > 0
}

// ---- the file-name validator as a scan over bytes ---------------------------------------------------------------

// c20CertifyByteScan certifies a validator of the shape
//
//	if <name is "", "." or ".."> { return false }; for i := 0; i < len(name); i++ { if !ok(name[i]) { return false } }; return true
//
// Argument: (1) every true exit lies behind the exit edge `i >= len(name)` of a loop whose counter starts at 0 and
// whose only way back to the loop head adds exactly 1 to the counter after `ok(name[counter])` answered true — by
// induction every byte of the name passed ok; (2) ok is evaluated (abstract interpretation over the concrete byte) on
// '/', '\\' and NUL and answers false on every path — so no byte of an accepted name is a separator or NUL; (3) the
// names "", "." and ".." are excluded by explicit comparisons on every true exit (or, for the dot names, by ok('.')
// being false; for the empty name by a length test).
func c20CertifyByteScan(w *World, fn *ssa.Function) (bool, string) {
	if len(fn.Params) != 1 {
		return false, "not a one-argument predicate"
	}
	name := fn.Params[0]
	p := "param:" + name.Name()
	s := w.Summarize(fn, Mode{Kind: mBool, Want: true})
	if s == nil || !s.Complete || len(s.Exits) == 0 {
		return false, "no true exit"
	}
	// the loop
	var head *ssa.BasicBlock
	var ctr *ssa.Phi
	for _, b := range fn.Blocks {
		iff, ok := blockTerm(b).(*ssa.If)
		if !ok {
			continue
		}
		bo, ok := iff.Cond.(*ssa.BinOp)
		if !ok || bo.Op != token.LSS {
			continue
		}
		ph, ok := bo.X.(*ssa.Phi)
		if !ok || ph.Block() != b || desc(bo.Y) != "len("+p+")" {
			continue
		}
		if head != nil {
			return false, "more than one scanning loop"
		}
		head, ctr = b, ph
	}
	if head == nil {
		return false, "no loop `for i < len(name)` over the argument"
	}
	body := head.Succs[0]
	// counter: 0 from outside the loop, counter+1 from inside
	inLoop := loopBlocks(head)
	var back []*ssa.BasicBlock
	for i, e := range ctr.Edges {
		pred := head.Preds[i]
		if inLoop[pred.Index] {
			bo, ok := e.(*ssa.BinOp)
			if !ok || bo.Op != token.ADD || bo.X != ssa.Value(ctr) || desc(bo.Y) != "const:1" {
				return false, "the loop counter is not advanced by exactly one"
			}
			back = append(back, pred)
		} else if desc(e) != "const:0" {
			return false, "the loop counter does not start at 0"
		}
	}
	if len(back) == 0 {
		return false, "loop without back edge"
	}
	// the per-byte test: a branch in the loop on ok(name[counter]) (a module predicate or an inline comparison chain is
	// evaluated the same way: through the interpreter)
	fi := w.Info(fn)
	var test *ssa.If
	var testCall *ssa.Call
	for _, b := range fn.Blocks {
		if !inLoop[b.Index] || b == head {
			continue
		}
		iff, ok := blockTerm(b).(*ssa.If)
		if !ok {
			continue
		}
		cond := iff.Cond
		for {
			u, isNot := cond.(*ssa.UnOp)
			if !isNot || u.Op != token.NOT {
				break
			}
			cond = u.X
		}
		call, ok := cond.(*ssa.Call)
		if !ok || len(call.Call.Args) != 1 {
			continue
		}
		g := staticCallee(call)
		if g == nil || !w.IsProductFn(g) || g.Blocks == nil {
			continue
		}
		if !c20IsByteAt(call.Call.Args[0], name, ctr) {
			continue
		}
		test, testCall = iff, call
	}
	if test == nil {
		return false, "no per-byte predicate applied to name[counter] in the loop"
	}
	okLabel := condLabel(testCall, true)
	// every way back to the loop head passes the predicate's true edge
	cutTrue := fi.edgesMatching(func(l string, iff *ssa.If, _ bool) bool { return iff == test && l == okLabel })
	if len(cutTrue) != 1 {
		return false, "per-byte test not recognised"
	}
	// with the accepting edge of the per-byte test removed, the loop head cannot be reached again from the loop body:
	// the scan moves on to the next byte only after the predicate accepted the current one
	if fi.reachHit([]state{{body.Index, 0, -1}}, cutTrue, map[int]bool{head.Index: true}) {
		return false, "the loop continues with the next byte although the per-byte predicate did not accept the current one"
	}
	// true exits only through the loop's exit edge
	exitLabel := condLabel(blockTerm(head).(*ssa.If).Cond, false)
	for _, ex := range s.Exits {
		if !labelHas(ex.Checked, exitLabel) {
			return false, "a true result is possible without scanning the whole name (exit " + w.InstrPos(ex.Ret) + ")"
		}
		if k, isConst := ex.Ret.Results[0].(*ssa.Const); !isConst || k.Value == nil || !constant.BoolVal(k.Value) {
			return false, "a true exit returns a computed value (exit " + w.InstrPos(ex.Ret) + ")"
		}
	}
	// the predicate on the forbidden bytes
	G := staticCallee(testCall)
	for _, bad := range []int64{'/', '\\', 0} {
		ip := &Interp{Fn: G, IntTypes: map[string]bool{"*": true}}
		env := map[ssa.Value]AVal{G.Params[0]: {Kind: aInt, Int: bad}}
		outs := ip.Run(G.Blocks[0], nil, env, nil, nil)
		if ip.Overflow || len(outs) == 0 {
			return false, "per-byte predicate too large to evaluate"
		}
		for _, o := range outs {
			if o.Ret == nil || len(o.Ret.Results) != 1 {
				return false, "per-byte predicate does not return on some path"
			}
			r := ip.val(o.Ret.Results[0], o.Env)
			if r.Kind != aBool || r.B {
				return false, fmt.Sprintf("the per-byte predicate %s may accept %q", fnName(G), rune(bad))
			}
		}
	}
	// the dot names and the empty name
	dotOK := func() bool {
		ip := &Interp{Fn: G, IntTypes: map[string]bool{"*": true}}
		outs := ip.Run(G.Blocks[0], nil, map[ssa.Value]AVal{G.Params[0]: {Kind: aInt, Int: '.'}}, nil, nil)
		for _, o := range outs {
			if o.Ret == nil {
				return true
			}
			if r := ip.val(o.Ret.Results[0], o.Env); r.Kind != aBool || r.B {
				return true
			}
		}
		return len(outs) == 0
	}()
	for _, ex := range s.Exits {
		_, nonEmpty := hasLabel(ex.Checked, "NE(len("+p+"),const:0)")
		if !labelHas(ex.Checked, "NE("+p+",const:\"\")") && !nonEmpty {
			return false, "the empty name is accepted (no explicit test excludes it)"
		}
		if dotOK {
			for _, word := range []string{".", ".."} {
				if !labelHas(ex.Checked, fmt.Sprintf("NE(%s,const:%q)", p, word)) {
					return false, fmt.Sprintf("the name %q is accepted (its bytes pass the per-byte predicate and no explicit comparison excludes it)", word)
				}
			}
		}
	}
	return true, ""
}

// c20IsByteAt: v is name[ctr] (a byte of the string parameter at the loop counter).
func c20IsByteAt(v ssa.Value, name *ssa.Parameter, ctr *ssa.Phi) bool {
	switch x := v.(type) {
	case *ssa.Index:
		return x.X == ssa.Value(name) && x.Index == ssa.Value(ctr)
	case *ssa.Lookup:
		return x.X == ssa.Value(name) && x.Index == ssa.Value(ctr)
	case *ssa.Convert:
		return c20IsByteAt(x.X, name, ctr)
	case *ssa.ChangeType:
		return c20IsByteAt(x.X, name, ctr)
	}
	return false
}

// ---- small utilities -------------------------------------------------------------------------------------------

func c20SortedInts(m map[int]bool) []int {
	var out []int
	for k := range m {
		out = append(out, k)
	}
	sort.Ints(out)
	return out
}

func c20Join(parts ...string) string {
	var out []string
	for _, p := range parts {
		if p != "" {
			out = append(out, p)
		}
	}
	return strings.Join(out, "; ")
}

// ---- anchors by role, across the helpers of Install --------------------------------------------------------------
//
// Second generalisation pass. The rules used to look for their anchor calls (source parser, lookup of the existing
// plugin, version comparison) in the body of Install only, and recognised the lookup by the exported name Get. Code
// that keeps the property moves these calls around freely: the source resolution becomes a helper that returns a
// struct, the exported Get becomes a validating wrapper over an unexported worker that Install calls directly. The
// anchors are therefore searched in the call tree below Install (c20FindCalls) and recognised by role; what a helper
// in between contributes to the decision table is computed by interpreting the helper itself (c20Frames).

// c20Found: a call found below Install, with the chain of calls that leads from Install to the function holding it.
type c20Found struct {
	call *ssa.Call
	via  []*ssa.Call
}

// c20FindCalls: the calls below root (static module callees, at most three frames deep) that satisfy match. The body
// of a matching call's callee is not searched.
func c20FindCalls(w *World, root *ssa.Function, match func(*ssa.Call) bool) []c20Found {
	var out []c20Found
	seen := map[*ssa.Function]bool{}
	var rec func(fn *ssa.Function, via []*ssa.Call)
	rec = func(fn *ssa.Function, via []*ssa.Call) {
		if seen[fn] || len(via) > 3 {
			return
		}
		seen[fn] = true
		for _, ci := range allCalls(fn) {
			cc, ok := ci.(*ssa.Call)
			if !ok {
				continue
			}
			if match(cc) {
				out = append(out, c20Found{cc, append([]*ssa.Call(nil), via...)})
				continue
			}
			if g := staticCallee(cc); g != nil && g.Blocks != nil && w.IsProductFn(g) {
				rec(g, append(append([]*ssa.Call(nil), via...), cc))
			}
		}
	}
	rec(root, nil)
	return out
}

// c20InFrameOfRoot: the value v of the innermost frame of the chain, expressed in the frame of the root function:
// a parameter of a helper is what the call of the helper passes for it. nil: v is computed inside a helper.
func c20InFrameOfRoot(v ssa.Value, via []*ssa.Call) ssa.Value {
	for i := len(via) - 1; i >= 0; i-- {
		p, ok := v.(*ssa.Parameter)
		if !ok {
			return nil
		}
		H := staticCallee(via[i])
		idx := -1
		for j, q := range H.Params {
			if q == p {
				idx = j
			}
		}
		if idx < 0 || idx >= len(via[i].Call.Args) {
			return nil
		}
		v = via[i].Call.Args[idx]
	}
	return v
}

// c20IsSourceParser: the role of parsePluginFromDir — a module function with results (file, name, error) whose tree
// walks a directory; the innermost function of that kind (a wrapper with the same result list around it is a helper).
func c20IsSourceParser(w *World, g *ssa.Function) bool {
	shape := func(f *ssa.Function) ([]*ssa.Function, bool) {
		if f == nil || f.Blocks == nil || !w.IsProductFn(f) {
			return nil, false
		}
		r := f.Signature.Results()
		if r.Len() != 3 || !isErrorType(r.At(2).Type()) {
			return nil, false
		}
		tree := c20Tree(w, f)
		for _, x := range tree {
			if len(findCalls(x, "path/filepath.WalkDir")) > 0 {
				return tree, true
			}
		}
		return nil, false
	}
	tree, ok := shape(g)
	if !ok {
		return false
	}
	for _, f := range tree {
		if f != g {
			if _, inner := shape(f); inner {
				return false
			}
		}
	}
	return true
}

// c20FindParser: the call of the source parser below Install that is handed a field of the install options (the
// source path), directly or through the parameters of the helpers in between.
func c20FindParser(w *World, INST *ssa.Function, optsP string) (found []c20Found) {
	for _, f := range c20FindCalls(w, INST, func(cc *ssa.Call) bool { return c20IsSourceParser(w, staticCallee(cc)) }) {
		for _, a := range f.call.Call.Args {
			if v := c20InFrameOfRoot(a, f.via); v != nil && strings.HasPrefix(desc(v), optsP+".") {
				found = append(found, f)
				break
			}
		}
	}
	return found
}

// c20Lookup: the call of Install that looks the existing plugin up, and the name it is looked up under.
type c20Lookup struct {
	call *ssa.Call
	name ssa.Value   // in the frame of the function that holds the call
	recv ssa.Value   // the manager, in that frame
	via  []*ssa.Call // from Install to that function
}

// c20FindLookup. The lookup of the existing plugin is the exported (*CLIManager).Get — or a function W that Get
// itself delegates to, called by Install under the conditions under which Get calls it:
//
//	Get(ctx, name) = { checks on name; return W(m, ctx, name) }        Install: { …; W(m, ctx, X) }
//
// Accepted only if (1) Get has exactly one call of W and every success exit of Get returns that call's first result;
// (2) the arguments Install passes are the arguments Get passes, with Install's receiver in the place of Get's receiver
// and X in the place of Get's name; (3) every fact that must hold in Get before it calls W (its checks on the name), rewritten for the
// arguments Install passes, must also hold in Install before its call of W. Then Install's call of W runs in a state
// in which Get(m, ctx, X) would have reached the same call with the same arguments and handed its result on: the
// answer Install works with is the answer of Get for X.
func c20FindLookup(w *World, INST *ssa.Function) (*c20Lookup, string) {
	GET := w.Method("plugin", "CLIManager", "Get")
	if GET == nil {
		return nil, "(*CLIManager).Get not found"
	}
	strParam := func(f *ssa.Function) int {
		idx := -1
		for i, p := range f.Params {
			if b, ok := p.Type().Underlying().(*types.Basic); ok && b.Kind() == types.String {
				if idx >= 0 {
					return -1
				}
				idx = i
			}
		}
		return idx
	}
	nameIdx := strParam(GET)
	if nameIdx < 0 {
		return nil, "Get has no single string parameter"
	}
	why := "no call of Get"
	var out *c20Lookup
	for _, ci := range allCalls(INST) {
		cc, ok := ci.(*ssa.Call)
		if !ok {
			continue
		}
		W := staticCallee(cc)
		if W == nil {
			continue
		}
		if W == GET {
			continue // below
		}
		if W.Blocks == nil || !w.IsProductFn(W) || !types.Identical(W.Signature.Results(), GET.Signature.Results()) {
			continue
		}
		// (1) Get delegates to W
		var dc *ssa.Call
		n := 0
		for _, c2 := range allCalls(GET) {
			if x, ok := c2.(*ssa.Call); ok && staticCallee(x) == W {
				dc = x
				n++
			}
		}
		if n != 1 || len(dc.Call.Args) != len(cc.Call.Args) {
			continue
		}
		s := w.Summarize(GET, Mode{Kind: mErr})
		deleg := s != nil && s.Complete && len(s.Exits) > 0
		if deleg {
			for _, e := range s.Exits {
				ex, ok := e.Ret.Results[0].(*ssa.Extract)
				if !ok || ex.Tuple != ssa.Value(dc) || ex.Index != 0 {
					deleg = false
				}
			}
		}
		if !deleg {
			why = "Get does not hand on the result of " + fnName(W)
			continue
		}
		// (2) the arguments: what Get passes, written in terms of Get's parameters, is what Install passes, with Install's
		// receiver for Get's receiver, the looked-up name for Get's name and Install's own parameter for any other
		// parameter of Get (the context)
		var names, descs []string
		var name ssa.Value
		for i, a := range dc.Call.Args {
			if a == ssa.Value(GET.Params[nameIdx]) {
				name = cc.Call.Args[i]
			}
		}
		okArgs := name != nil
		for j, p := range GET.Params {
			switch {
			case !okArgs:
			case j == 0:
				names, descs = append(names, p.Name()), append(descs, "param:"+INST.Params[0].Name())
			case j == nameIdx:
				names, descs = append(names, p.Name()), append(descs, desc(name))
			default:
				for _, q := range INST.Params[1:] {
					if types.Identical(q.Type(), p.Type()) {
						names, descs = append(names, p.Name()), append(descs, "param:"+q.Name())
						break
					}
				}
			}
		}
		for i, a := range dc.Call.Args {
			if okArgs && substParams(desc(a), names, descs) != desc(cc.Call.Args[i]) {
				okArgs = false
			}
		}
		if !okArgs {
			why = "Install calls " + fnName(W) + " with other arguments than Get does"
			continue
		}
		// (3) the preconditions
		pre := w.Info(GET).GuardsOf(dc)
		have := w.Info(INST).GuardsOf(cc)
		missing := ""
		for _, l := range labelList(pre) {
			if l2 := substParams(l, names, descs); !labelHas(have, l2) {
				if tw, ok := labelTwin(l2); !ok || !labelHas(have, tw) {
					missing = l2
					break
				}
			}
		}
		if pre == nil || have == nil || missing != "" {
			why = "Install calls " + fnName(W) + " without a check Get makes before it calls it: " + trunc(missing, 160)
			continue
		}
		out = &c20Lookup{call: cc, name: name, recv: INST.Params[0]}
	}
	// Get itself, in Install or in a helper of Install
	if found := c20FindCalls(w, INST, func(cc *ssa.Call) bool { return staticCallee(cc) == GET }); len(found) > 0 {
		if len(found) > 1 || out != nil {
			return nil, "more than one lookup of an existing plugin below Install"
		}
		cc := found[0].call
		out = &c20Lookup{call: cc, name: cc.Call.Args[nameIdx], recv: cc.Call.Args[0], via: found[0].via}
	}
	if out == nil {
		return nil, why
	}
	return out, ""
}

// ---- the decision table across helper frames --------------------------------------------------------------------
//
// The decision table of Install is computed by abstract interpretation of Install under every scenario. When a
// scenario input (the parser's error, the lookup's error, …) is consumed by a helper of Install instead of by Install
// itself, the helper is interpreted under the same scenario first: every abstract path through it yields an outcome —
// the abstract value of each result (an error is nil or non-nil, a bool is true or false; for a struct result the value
// of each bool field) — and Install is interpreted once per outcome, with the helper's results bound to it. A result
// the interpreter cannot decide stands for every value (an undecided error: one outcome with nil and one with
// non-nil), so the set of behaviours considered only grows: whatever the table then says about "an effect is reachable
// only if …" holds for the real code. Nothing is assumed about a helper by its name or shape.

// c20Res: one abstract outcome of a helper call.
type c20Res struct {
	vals   []AVal         // per result
	fields []map[int]AVal // per struct-typed result: its bool fields (a missing entry: unknown)
	trace  []c20Eff       // the effects on the plugin directory performed on this path through the helper, in order
}

// c20Eff: one effect on the plugin directory, as the decision table sees it.
type c20Eff struct{ kind, name string }

func (r *c20Res) key() string {
	var sb strings.Builder
	for i, v := range r.vals {
		fmt.Fprintf(&sb, "%s", v)
		if r.fields[i] != nil {
			var ks []int
			for k := range r.fields[i] {
				ks = append(ks, k)
			}
			sort.Ints(ks)
			for _, k := range ks {
				fmt.Fprintf(&sb, ".%d=%s", k, r.fields[i][k])
			}
		}
		sb.WriteString("|")
	}
	for _, e := range r.trace {
		sb.WriteString(e.kind + ":" + e.name + ";")
	}
	return sb.String()
}

type c20Frames struct {
	w      *World
	expand map[*ssa.Call]bool                                            // helper calls that are interpreted
	base   func(in ssa.Instruction, env map[ssa.Value]AVal) (AVal, bool) // the scenario inputs
	over   bool
	paths  int
	stack  map[*ssa.Function]bool
	items  map[*ssa.BasicBlock][]c20Item // the effect calls and the interpreted helper calls, per block, in instruction order
	// the helpers with effects on the plugin directory inside: they must be followed, an unknown outcome is no answer
	effectful map[*ssa.Function]bool
}

// c20Item: an effect call (leaf), or an interpreted helper call whose outcomes carry the effects performed inside.
type c20Item struct {
	call *ssa.Call
	leaf bool
	eff  c20Eff
}

// c20Ctx: what is known about one frame while it is interpreted: the outcomes chosen for its interpreted helper calls,
// the bool fields of the struct objects its parameters point to, and the abstract values of its parameters.
type c20Ctx struct {
	choice map[*ssa.Call]*c20Res
	pf     map[*ssa.Parameter]map[int]AVal
	env0   map[ssa.Value]AVal
}

func c20StructOf(t types.Type) (*types.Struct, bool) {
	switch tt := t.Underlying().(type) {
	case *types.Struct:
		return tt, false
	case *types.Pointer:
		if s, ok := tt.Elem().Underlying().(*types.Struct); ok {
			return s, true
		}
	}
	return nil, false
}

func c20IsBoolType(t types.Type) bool {
	b, ok := t.Underlying().(*types.Basic)
	return ok && b.Kind() == types.Bool
}

// c20LoadOnly: the address is used for loads only.
func c20LoadOnly(addr ssa.Value) bool {
	if addr.Referrers() == nil {
		return true
	}
	for _, r := range *addr.Referrers() {
		switch x := r.(type) {
		case *ssa.UnOp:
			if x.Op != token.MUL {
				return false
			}
		case *ssa.DebugRef:
		default:
			return false
		}
	}
	return true
}

// c20OwnStruct: al is a struct object of its function that is touched only field by field (stores to and loads from
// its fields), loaded as a whole, or returned: every change of a field is a store the interpreter sees.
func c20OwnStruct(al *ssa.Alloc) bool {
	if st, _ := c20StructOf(al.Type()); st == nil || al.Referrers() == nil {
		return false
	}
	for _, r := range *al.Referrers() {
		switch x := r.(type) {
		case *ssa.FieldAddr:
			if x.Referrers() == nil {
				continue
			}
			for _, rr := range *x.Referrers() {
				switch y := rr.(type) {
				case *ssa.Store:
					if y.Addr != ssa.Value(x) || y.Val == ssa.Value(x) {
						return false
					}
				case *ssa.UnOp:
					if y.Op != token.MUL {
						return false
					}
				case *ssa.DebugRef:
				default:
					return false
				}
			}
		case *ssa.UnOp:
			if x.Op != token.MUL {
				return false
			}
		case *ssa.Return, *ssa.DebugRef:
		default:
			return false
		}
	}
	return true
}

func c20Dominates(a, b ssa.Instruction) bool {
	if a.Block() == b.Block() {
		return instrIndex(a) < instrIndex(b)
	}
	return a.Block().Dominates(b.Block())
}

// c20HeldResult: base (the operand of a field address that `at` loads through) is result idx of a call: the result
// itself (a pointer), or a local whose only assignment is that result, made before the load, and whose fields are
// only read afterwards.
func c20HeldResult(base ssa.Value, at ssa.Instruction) (*ssa.Call, int, bool) {
	asResult := func(v ssa.Value) (*ssa.Call, int, bool) {
		switch x := v.(type) {
		case *ssa.Extract:
			if call, ok := x.Tuple.(*ssa.Call); ok {
				return call, x.Index, true
			}
		case *ssa.Call:
			if _, isTuple := x.Type().(*types.Tuple); !isTuple {
				return x, 0, true
			}
		}
		return nil, 0, false
	}
	if call, idx, ok := asResult(base); ok {
		// a pointer result: nobody but this function holds it, and this function only reads its fields — itself, or
		// through a module function it hands the pointer to and that only reads them (c20OnlyReads)
		if !c20OnlyReads(base, 0) {
			return nil, 0, false
		}
		return call, idx, true
	}
	al, ok := base.(*ssa.Alloc)
	if !ok || al.Referrers() == nil {
		return nil, 0, false
	}
	var st *ssa.Store
	for _, r := range *al.Referrers() {
		switch x := r.(type) {
		case *ssa.Store:
			if x.Addr != ssa.Value(al) || st != nil {
				return nil, 0, false
			}
			st = x
		case *ssa.FieldAddr:
			if !c20LoadOnly(x) {
				return nil, 0, false
			}
		case *ssa.UnOp:
			if x.Op != token.MUL {
				return nil, 0, false
			}
		case *ssa.DebugRef:
		default:
			return nil, 0, false
		}
	}
	if st == nil || !c20Dominates(st, at) {
		return nil, 0, false
	}
	return asResult(st.Val)
}

func c20InCycle(b *ssa.BasicBlock) bool {
	seen := map[*ssa.BasicBlock]bool{}
	stack := append([]*ssa.BasicBlock(nil), b.Succs...)
	for len(stack) > 0 {
		x := stack[len(stack)-1]
		stack = stack[:len(stack)-1]
		if x == b {
			return true
		}
		if seen[x] {
			continue
		}
		seen[x] = true
		stack = append(stack, x.Succs...)
	}
	return false
}

// hook: the scenario inputs, the results of the interpreted helper calls under the chosen outcomes, and the zero
// value of the bool fields of a struct object at its allocation.
func (fr *c20Frames) hook(ipp **Interp, cx *c20Ctx) func(in ssa.Instruction, env map[ssa.Value]AVal) (AVal, bool) {
	return func(in ssa.Instruction, env map[ssa.Value]AVal) (AVal, bool) {
		choice := cx.choice // filled in while the path is followed (runTraced)
		if a, ok := fr.base(in, env); ok {
			return a, true
		}
		switch x := in.(type) {
		case *ssa.Alloc:
			if env != nil && c20OwnStruct(x) {
				st, _ := c20StructOf(x.Type())
				for _, r := range *x.Referrers() {
					if fa, ok := r.(*ssa.FieldAddr); ok && fa.Field < st.NumFields() && c20IsBoolType(st.Field(fa.Field).Type()) {
						if rep := (*ipp).memRep(fa); rep != nil {
							env[rep] = AVal{Kind: aBool, B: false}
						}
					}
				}
				return AVal{Kind: aNonNil}, true
			}
		case *ssa.Call:
			if r := choice[x]; r != nil && len(r.vals) == 1 {
				return r.vals[0], true
			}
		case *ssa.Extract:
			if call, ok := x.Tuple.(*ssa.Call); ok {
				if r := choice[call]; r != nil && x.Index < len(r.vals) {
					return r.vals[x.Index], true
				}
			}
		case *ssa.UnOp:
			if x.Op != token.MUL {
				break
			}
			if fa, ok := x.X.(*ssa.FieldAddr); ok {
				// a field of the object a parameter points to: what the caller knows about that object (c20ParamFields)
				if p, isParam := fa.X.(*ssa.Parameter); isParam && cx.pf[p] != nil {
					if a, ok := cx.pf[p][fa.Field]; ok {
						return a, true
					}
				}
				// a struct parameter passed by value (a value receiver): the function reads it through its own copy, which it
				// never writes (c20HeldParam) — the fields are what the caller knows about the value it passed
				if p, ok := c20HeldParam(fa.X, x); ok && cx.pf[p] != nil {
					if a, ok := cx.pf[p][fa.Field]; ok {
						return a, true
					}
				}
				if call, idx, ok := c20HeldResult(fa.X, x); ok {
					if r := choice[call]; r != nil && idx < len(r.fields) && r.fields[idx] != nil {
						if a, ok := r.fields[idx][fa.Field]; ok {
							return a, true
						}
					}
				}
			}
		}
		return AVal{}, false
	}
}

// c20HeldParam: base (the operand of a field address that `at` loads through) is the function's own copy of a struct
// parameter that was passed by value: a local whose only assignment is the parameter, made before the load, whose
// address goes nowhere and whose fields are only read (c20PrivateCopy). A value receiver `func (s T) m()` reads its
// fields this way. The copy then holds, at every read, exactly the value the caller passed.
func c20HeldParam(base ssa.Value, at ssa.Instruction) (*ssa.Parameter, bool) {
	al, ok := base.(*ssa.Alloc)
	if !ok {
		return nil, false
	}
	if st, _ := c20StructOf(al.Type()); st == nil {
		return nil, false
	}
	st, private := c20PrivateCopy(al)
	if !private || st == nil || !c20Dominates(st, at) {
		return nil, false
	}
	p, isParam := st.Val.(*ssa.Parameter)
	return p, isParam && p.Parent() == al.Parent()
}

// c20ValueFields: what the caller's path knows about the bool fields of a struct VALUE it passes to a helper: the value
// is a parameter of the caller (or the caller's never-written copy of one) whose fields the caller's caller knew; or a
// result of an interpreted call, or a load of the local that holds such a result and is only read (c20HeldResult) —
// under the outcome chosen for that call. A struct value is a copy: nothing that happens later to the object it was
// copied from can change it, so no freshness or read-only condition on the producer's object is needed.
func c20ValueFields(a ssa.Value, outer *c20Ctx) map[int]AVal {
	fromResult := func(call *ssa.Call, idx int) map[int]AVal {
		if r := outer.choice[call]; r != nil && idx < len(r.fields) {
			return r.fields[idx]
		}
		return nil
	}
	switch x := a.(type) {
	case *ssa.Parameter:
		return outer.pf[x]
	case *ssa.Extract:
		if call, ok := x.Tuple.(*ssa.Call); ok {
			return fromResult(call, x.Index)
		}
	case *ssa.Call:
		if _, isTuple := x.Type().(*types.Tuple); !isTuple {
			return fromResult(x, 0)
		}
	case *ssa.UnOp:
		if x.Op != token.MUL {
			return nil
		}
		if p, ok := c20HeldParam(x.X, x); ok {
			return outer.pf[p]
		}
		if call, idx, ok := c20HeldResult(x.X, x); ok {
			return fromResult(call, idx)
		}
	}
	return nil
}

// resOf: the abstract results at a return of a helper.
func (fr *c20Frames) resOf(H *ssa.Function, ip *Interp, o Outcome) *c20Res {
	hi := fr.w.Info(H)
	ret := o.Ret
	r := &c20Res{vals: make([]AVal, len(ret.Results)), fields: make([]map[int]AVal, len(ret.Results))}
	for k, v := range ret.Results {
		a := ip.val(v, o.Env)
		if isErrorType(v.Type()) && a.Kind != aNil && a.Kind != aNonNil {
			a = top
			if hi.nonNil(v, ret.Block()) {
				a = AVal{Kind: aNonNil}
			}
		}
		r.vals[k] = a
		st, isPtr := c20StructOf(v.Type())
		if st == nil {
			continue
		}
		r.vals[k] = top
		fields := map[int]AVal{}
		var al *ssa.Alloc
		switch x := v.(type) {
		case *ssa.Const:
			if !isPtr {
				// the zero value of the struct type
				for i := 0; i < st.NumFields(); i++ {
					if c20IsBoolType(st.Field(i).Type()) {
						fields[i] = AVal{Kind: aBool, B: false}
					}
				}
			} else {
				r.vals[k] = AVal{Kind: aNil}
			}
		case *ssa.UnOp:
			// the object is copied out right before the return
			if x.Op == token.MUL && !isPtr && x.Block() == ret.Block() {
				clean := true
				for _, in := range ret.Block().Instrs[instrIndex(x):] {
					if _, isStore := in.(*ssa.Store); isStore {
						clean = false
					}
				}
				if a, ok := x.X.(*ssa.Alloc); ok && clean {
					al = a
				}
			}
		case *ssa.Alloc:
			if isPtr {
				al = x
				r.vals[k] = AVal{Kind: aNonNil}
			}
		}
		if al != nil && c20OwnStruct(al) {
			for i := 0; i < st.NumFields(); i++ {
				if !c20IsBoolType(st.Field(i).Type()) {
					continue
				}
				var fa *ssa.FieldAddr
				for _, ref := range *al.Referrers() {
					if x, ok := ref.(*ssa.FieldAddr); ok && x.Field == i && fa == nil {
						fa = x
					}
				}
				if fa == nil {
					fields[i] = AVal{Kind: aBool, B: false} // never assigned: the zero value
				} else if rep := ip.memRep(fa); rep != nil {
					if a, ok := o.Env[rep]; ok && a.Kind == aBool {
						fields[i] = a
					}
				}
			}
		}
		r.fields[k] = fields
	}
	return r
}

// c20ResultOf: v is result idx of a call, or (field >= 0) a field read from the object that result points to.
func c20ResultOf(v ssa.Value) (call *ssa.Call, idx, field int, ok bool) {
	field = -1
	if u, isLoad := v.(*ssa.UnOp); isLoad && u.Op == token.MUL {
		fa, isField := u.X.(*ssa.FieldAddr)
		if !isField {
			return nil, 0, -1, false
		}
		c, i, held := c20HeldResult(fa.X, u)
		return c, i, fa.Field, held
	}
	switch x := v.(type) {
	case *ssa.Extract:
		if c, isCall := x.Tuple.(*ssa.Call); isCall {
			return c, x.Index, -1, true
		}
	case *ssa.Call:
		if _, isTuple := x.Type().(*types.Tuple); !isTuple {
			return x, 0, -1, true
		}
	}
	return nil, 0, -1, false
}

// c20OnlyReads: the pointer v (to a struct object) is used only to read fields of the object: by field loads of this
// function, by comparisons of the pointer, or by module functions that receive it and use it in the same way.
func c20OnlyReads(v ssa.Value, depth int) bool {
	if depth > 3 {
		return false
	}
	if v.Referrers() == nil {
		return true
	}
	for _, r := range *v.Referrers() {
		switch x := r.(type) {
		case *ssa.FieldAddr:
			if !c20LoadOnly(x) {
				return false
			}
		case *ssa.BinOp, *ssa.DebugRef:
		case *ssa.Call:
			g := staticCallee(x)
			if g == nil || g.Blocks == nil || x.Call.IsInvoke() || len(g.Params) != len(x.Call.Args) {
				return false
			}
			for j, a := range x.Call.Args {
				if a == v && !c20OnlyReads(g.Params[j], depth+1) {
					return false
				}
			}
		default:
			return false
		}
	}
	return true
}

// envBefore: the abstract environment right before the instruction `at` of block b, entered from `from` with env: the
// phis of b take the edge of `from`, then the instructions before `at` are evaluated (blocks are straight-line).
func (fr *c20Frames) envBefore(ip *Interp, b, from *ssa.BasicBlock, env map[ssa.Value]AVal, at ssa.Instruction) map[ssa.Value]AVal {
	pre := copyEnv(env)
	pi := -1
	for i, p := range b.Preds {
		if p == from {
			pi = i
		}
	}
	newVals := map[ssa.Value]AVal{}
	for _, in := range b.Instrs {
		ph, ok := in.(*ssa.Phi)
		if !ok {
			break
		}
		if ip.Hook != nil {
			if a, ok := ip.Hook(ph, pre); ok {
				newVals[ph] = a
				continue
			}
		}
		if from != nil && pi >= 0 && pi < len(ph.Edges) {
			newVals[ph] = ip.val(ph.Edges[pi], pre)
		} else {
			newVals[ph] = top
		}
	}
	for v, a := range newVals {
		pre[v] = a
	}
	for _, in := range b.Instrs {
		if in == at {
			break
		}
		switch in.(type) {
		case *ssa.Phi, *ssa.If, *ssa.Jump, *ssa.Return, *ssa.Panic:
			continue
		}
		ip.eval(in, pre)
	}
	return pre
}

// runTraced follows every abstract path through fn and reports, with each path that ends (a return, a panic), the
// effects on the plugin directory passed on it, in order. A block that holds an effect call or an interpreted helper
// call is a stop of the interpreter; entering it means running it (blocks are straight-line). At a helper call the
// helper is interpreted on the spot, with what the path knows about the arguments at that point (envBefore); the path
// forks over the helper's outcomes: each binds the helper's results for the rest of the path (cx.choice, read by the
// hook) and contributes the effects the helper performed on that outcome. Then the path is continued from the block.
func (fr *c20Frames) runTraced(ip *Interp, fn *ssa.Function, cx *c20Ctx, depth int, emit func(o Outcome, trace []c20Eff)) {
	if cx.choice == nil {
		cx.choice = map[*ssa.Call]*c20Res{}
	}
	stops := map[*ssa.BasicBlock]bool{}
	for _, b := range fn.Blocks {
		if len(fr.items[b]) > 0 {
			stops[b] = true
		}
	}
	var cont func(start, from *ssa.BasicBlock, env map[ssa.Value]AVal, trace []c20Eff)
	// through: the items of block b in order, then k with the effects they add
	through := func(b, from *ssa.BasicBlock, env map[ssa.Value]AVal, trace []c20Eff, k func(trace []c20Eff)) {
		items := fr.items[b]
		var rec func(i int, trace []c20Eff)
		rec = func(i int, trace []c20Eff) {
			if fr.over {
				return
			}
			if i == len(items) {
				k(trace)
				return
			}
			it := items[i]
			if it.leaf {
				rec(i+1, append(append([]c20Eff(nil), trace...), it.eff))
				return
			}
			pre := fr.envBefore(ip, b, from, env, it.call)
			for _, o := range fr.outcomes(it.call, depth+1, cx, ip, pre) {
				cx.choice[it.call] = o
				rec(i+1, append(append([]c20Eff(nil), trace...), o.trace...))
			}
			delete(cx.choice, it.call)
		}
		rec(0, trace)
	}
	cont = func(start, from *ssa.BasicBlock, env map[ssa.Value]AVal, trace []c20Eff) {
		if len(trace) > 12 || fr.over {
			fr.over = true
			return
		}
		through(start, from, env, trace, func(trace []c20Eff) {
			for _, o := range ip.Run(start, from, env, stops, nil) {
				fr.paths++
				if o.Stop == nil {
					emit(o, trace)
					continue
				}
				cont(o.Stop, o.From, o.Env, trace)
			}
		})
	}
	cont(fn.Blocks[0], nil, cx.env0, nil)
}

// outcomes: the abstract outcomes of one helper call, reached on a path of the caller's interpreter ip with the
// environment pre right before the call.
func (fr *c20Frames) outcomes(call *ssa.Call, depth int, outer *c20Ctx, ipOuter *Interp, pre map[ssa.Value]AVal) []*c20Res {
	H := staticCallee(call)
	nres := H.Signature.Results().Len()
	unknown := func() []*c20Res {
		if fr.effectful[H] {
			fr.over = true // a helper with effects on the plugin directory must be followed
		}
		r := &c20Res{vals: make([]AVal, nres), fields: make([]map[int]AVal, nres)}
		return fr.split(H, []*c20Res{r})
	}
	if depth > 4 || fr.stack[H] {
		return unknown()
	}
	// the interpreter follows a loop once; a helper with a loop is not interpreted (its results stay unknown)
	for _, b := range H.Blocks {
		if c20InCycle(b) {
			return unknown()
		}
	}
	if fr.stack == nil {
		fr.stack = map[*ssa.Function]bool{}
	}
	fr.stack[H] = true
	defer delete(fr.stack, H)
	// parameters: what the caller's path knows about the arguments at the call (the overwrite flag handed down as a bool —
	// from the install options, from a parameter of the caller, from a local the caller set on this path, or narrowed from a
	// field of a result object), and, for a pointer to a struct object that came out of an interpreted call and is only
	// ever read (c20HeldResult, c20OnlyReads), the bool fields of that object under the outcome chosen for that call: the
	// object is built by the producing helper (resOf accepts an own allocation only), held by the caller and read by this
	// helper — nobody writes it after the producer returned, so its fields are what they were at that return.
	cx := &c20Ctx{pf: map[*ssa.Parameter]map[int]AVal{}, env0: map[ssa.Value]AVal{}, choice: map[*ssa.Call]*c20Res{}}
	for i, p := range H.Params {
		if i >= len(call.Call.Args) {
			break
		}
		a := call.Call.Args[i]
		if v := ipOuter.val(a, pre); v.Kind != aTop {
			cx.env0[p] = v
		}
		if st, isPtr := c20StructOf(p.Type()); st != nil && !isPtr {
			// a struct passed by value (c20ValueFields)
			if f := c20ValueFields(a, outer); f != nil {
				cx.pf[p] = f
			}
		} else if st != nil && isPtr && c20OnlyReads(p, 0) {
			if pp, isParam := a.(*ssa.Parameter); isParam && outer.pf[pp] != nil {
				cx.pf[p] = outer.pf[pp]
			} else if rc, idx, field, ok := c20ResultOf(a); ok && field < 0 && c20OnlyReads(a, 0) {
				if r := outer.choice[rc]; r != nil && idx < len(r.fields) && r.fields[idx] != nil {
					cx.pf[p] = r.fields[idx]
				}
			}
		}
	}
	var outs []*c20Res
	seen := map[string]bool{}
	var ip *Interp
	ip = &Interp{Fn: H, IntTypes: map[string]bool{"*": true}}
	ip.Hook = fr.hook(&ip, cx)
	fr.runTraced(ip, H, cx, depth, func(o Outcome, trace []c20Eff) {
		if o.Ret == nil {
			// a panic: the call does not return; effects before it would be lost to the caller's table
			if len(trace) > 0 {
				fr.over = true
			}
			return
		}
		r0 := fr.resOf(H, ip, o)
		r0.trace = trace
		for _, r := range fr.split(H, []*c20Res{r0}) {
			if k := r.key(); !seen[k] {
				seen[k] = true
				outs = append(outs, r)
			}
		}
	})
	if ip.Overflow {
		fr.over = true
	}
	if len(outs) == 0 {
		return unknown()
	}
	return outs
}

// split: an error result that stayed undecided stands for nil and for non-nil.
func (fr *c20Frames) split(H *ssa.Function, in []*c20Res) []*c20Res {
	sig := H.Signature.Results()
	for k := 0; k < sig.Len(); k++ {
		if !isErrorType(sig.At(k).Type()) {
			continue
		}
		var next []*c20Res
		for _, r := range in {
			if r.vals[k].Kind == aNil || r.vals[k].Kind == aNonNil {
				next = append(next, r)
				continue
			}
			for _, kind := range []int{aNil, aNonNil} {
				c := &c20Res{vals: append([]AVal(nil), r.vals...), fields: r.fields, trace: r.trace}
				c.vals[k] = AVal{Kind: kind}
				next = append(next, c)
			}
		}
		in = next
	}
	return in
}

// c20IsResult: v is result k of the call (possibly converted between interface types).
func c20IsResult(v ssa.Value, call *ssa.Call, k int) bool {
	for {
		switch x := v.(type) {
		case *ssa.ChangeInterface:
			v = x.X
			continue
		case *ssa.ChangeType:
			v = x.X
			continue
		case *ssa.Extract:
			return x.Tuple == ssa.Value(call) && x.Index == k
		}
		return false
	}
}

// c20DescInRoot: the printed form of v (a value of the function that holds the call `at`) in the frame of root: along the
// chain of calls from root to that function, every parameter of a helper is replaced by the printed form of what the
// call of the helper passes for it. Without a single chain the form of the innermost frame is returned unchanged.
func c20DescInRoot(w *World, root *ssa.Function, at *ssa.Call, v ssa.Value) string {
	d := desc(v)
	if at.Parent() == root {
		return d
	}
	found := c20FindCalls(w, root, func(cc *ssa.Call) bool { return cc == at })
	if len(found) != 1 {
		return d
	}
	via := found[0].via
	for i := len(via) - 1; i >= 0; i-- {
		H := staticCallee(via[i])
		var names, descs []string
		for j, p := range H.Params {
			if j < len(via[i].Call.Args) {
				names = append(names, p.Name())
				descs = append(descs, desc(via[i].Call.Args[j]))
			}
		}
		d = substParams(d, names, descs)
	}
	return d
}

// ---- third pass: effects in helper frames ------------------------------------------------------------------------
//
// The effects of Install on the plugin directory used to be the calls in the body of Install. Code that keeps the
// property moves them into helpers: the choice between the two copy routines becomes a method of a source object,
// the clean-up gets a wrapper that tolerates "not exist", clean-up and copy move together into "replace the files".
// The inventory therefore descends into a helper that only delegates (c20Dispatch), and every rule about an effect
// is decided on the chain of frames from Install down to the effect: guards are the union of the guards of each
// call on the chain (each rewritten into Install's frame — a parameter of a helper is what its call passes), the
// decision table follows the helper under each scenario (c20Frames.runTraced), and the order rules are decided in the
// innermost frame that holds both effects, with a helper call standing for the effect below it only if the helper
// answers nil only after that effect succeeded (c20DeepSel).

// c20Dispatch: the callee of ci, if the inventory looks into it instead of counting the call as one effect: a module
// function that does not call an os mutator itself (it only delegates to functions that do), without loops, function
// literals, defer or go — so every effect it has is a call in its body that the interpreter passes in program order —
// called outside any loop, at most three frames below Install and not recursively.
func c20Dispatch(w *World, ci ssa.CallInstruction, via []*ssa.Call) *ssa.Function {
	cc, ok := ci.(*ssa.Call)
	if !ok || len(via) >= 3 || c20InCycle(cc.Block()) {
		return nil
	}
	g := staticCallee(cc)
	if g == nil || g.Blocks == nil || !w.IsProductFn(g) || len(g.AnonFuncs) > 0 || g == cc.Parent() || len(g.Params) != len(cc.Call.Args) {
		return nil
	}
	for _, v := range via {
		if staticCallee(v) == g || v.Parent() == g {
			return nil
		}
	}
	for _, b := range g.Blocks {
		if c20InCycle(b) {
			return nil
		}
		for _, in := range b.Instrs {
			switch x := in.(type) {
			case *ssa.Defer, *ssa.Go, *ssa.MakeClosure:
				return nil
			case *ssa.Call:
				if _, mut := c20Mutators[calleeName(x)]; mut {
					return nil
				}
			}
		}
	}
	return g
}

// c20SubstVia: a printed form of the frame below the last call of the chain, rewritten into the frame of the root.
func c20SubstVia(d string, via []*ssa.Call) string {
	for i := len(via) - 1; i >= 0; i-- {
		H := staticCallee(via[i])
		var names, descs []string
		for j, p := range H.Params {
			if j < len(via[i].Call.Args) {
				names = append(names, p.Name())
				descs = append(descs, desc(via[i].Call.Args[j]))
			}
		}
		d = substParams(d, names, descs)
	}
	return d
}

// c20EnumEffects: the calls below Install that can modify files — os mutators and module functions that reach one —
// split into those that receive the manager or a SysPath-derived path (effects on the plugin directory; a helper that
// only delegates is looked into) and the others.
func c20EnumEffects(w *World, INST *ssa.Function) (effects, srcOnly []c20Effect) {
	recv := "param:" + INST.Params[0].Name()
	var rec func(fn *ssa.Function, via []*ssa.Call)
	rec = func(fn *ssa.Function, via []*ssa.Call) {
		for _, ci := range allCalls(fn) {
			name := calleeName(ci)
			var kinds map[string]bool
			if k, ok := c20Mutators[name]; ok {
				kinds = map[string]bool{k: true}
			} else if g := staticCallee(ci); g != nil && w.IsProductFn(g) {
				kinds = c20Reach(w, g)
			}
			if len(kinds) == 0 {
				continue
			}
			touchesDir := false
			for _, a := range ci.Common().Args {
				d := c20SubstVia(desc(a), via)
				if d == recv || strings.Contains(d, "SysFS.SysPath(") {
					touchesDir = true
				}
			}
			e := c20Effect{call: ci, name: name, kind: "other", via: via}
			if !touchesDir {
				srcOnly = append(srcOnly, e)
				continue
			}
			if g := c20Dispatch(w, ci, via); g != nil {
				rec(g, append(append([]*ssa.Call(nil), via...), ci.(*ssa.Call)))
				continue
			}
			switch {
			case kinds["remove"]:
				e.kind = "cleanup"
			case kinds["write"]:
				e.kind = "copy"
			}
			effects = append(effects, e)
		}
	}
	rec(INST, nil)
	return effects, srcOnly
}

// c20GuardsVia: the facts that hold whenever the instruction `site` — in the frame below the chain — runs as part of
// Install: what must hold in Install before the first call of the chain, in each helper before the next call, and in
// the last frame before the instruction itself; all rewritten into Install's frame. nil: not reachable.
func c20GuardsVia(w *World, site ssa.Instruction, via []*ssa.Call) map[string]string {
	out := map[string]string{}
	add := func(in ssa.Instruction, chain []*ssa.Call) bool {
		g := w.Info(in.Parent()).GuardsOf(in)
		if g == nil {
			return false
		}
		for l, pos := range g {
			out[c20SubstVia(l, chain)] = pos
		}
		return true
	}
	for i, h := range via {
		if !add(h, via[:i]) {
			return nil
		}
	}
	if !add(site, via) {
		return nil
	}
	return out
}

// c20ItemsOf: the effects and the helper calls leading to them, per block, in instruction order.
func c20ItemsOf(effects []c20Effect, expand map[*ssa.Call]bool) map[*ssa.BasicBlock][]c20Item {
	items := map[*ssa.BasicBlock][]c20Item{}
	have := map[*ssa.Call]bool{}
	add := func(it c20Item) {
		if have[it.call] {
			return
		}
		have[it.call] = true
		b := it.call.Block()
		items[b] = append(items[b], it)
		sort.SliceStable(items[b], func(i, j int) bool { return instrIndex(items[b][i].call) < instrIndex(items[b][j].call) })
	}
	for _, e := range effects {
		cc, ok := e.call.(*ssa.Call)
		if !ok {
			continue
		}
		add(c20Item{call: cc, leaf: true, eff: c20Eff{e.kind, e.name}})
		for _, h := range e.via {
			add(c20Item{call: h})
		}
	}
	// the other interpreted helper calls (on the way to an anchor); a call inside a loop is not interpreted
	var rest []*ssa.Call
	for h := range expand {
		if !have[h] && !c20InCycle(h.Block()) {
			rest = append(rest, h)
		}
	}
	sort.Slice(rest, func(i, j int) bool { return rest[i].Pos() < rest[j].Pos() })
	for _, h := range rest {
		add(c20Item{call: h})
	}
	return items
}

// c20ErrNilLabels: the labels of the edge "this call returned a nil error".
func c20ErrNilLabels(call *ssa.Call) []string {
	d := desc(call)
	return []string{"EQ(" + d + ",nil)", "EQ(" + d + "#err,nil)"}
}

// c20ErrNilSel selects the edges "the error of one of these calls is nil": the nil edge of a comparison of a call's
// error result with nil — or of an error variable that holds, on every way into the comparison, the error result of
// one of the calls (a phi whose edges all are such results: whichever of the calls ran on the path, it returned nil).
func c20ErrNilSel(calls []*ssa.Call) EdgeSel {
	var labels []string
	is := map[*ssa.Call]bool{}
	for _, c := range calls {
		labels = append(labels, c20ErrNilLabels(c)...)
		is[c] = true
	}
	var from func(v ssa.Value, depth int) bool
	from = func(v ssa.Value, depth int) bool {
		if depth > 4 {
			return false
		}
		switch x := v.(type) {
		case *ssa.Call:
			return is[x] && isErrorType(x.Type())
		case *ssa.Extract:
			c, ok := x.Tuple.(*ssa.Call)
			return ok && is[c] && isErrorType(x.Type())
		case *ssa.Phi:
			for _, e := range x.Edges {
				if !from(e, depth+1) {
					return false
				}
			}
			return len(x.Edges) > 0
		}
		return false
	}
	byLabel := anyOf(labels...)
	return func(l string, iff *ssa.If, truth bool) bool {
		if byLabel(l, iff, truth) {
			return true
		}
		bo, ok := iff.Cond.(*ssa.BinOp)
		if !ok || (bo.Op != token.EQL && bo.Op != token.NEQ) || (bo.Op == token.EQL) != truth {
			return false
		}
		switch {
		case isNilConst(bo.Y):
			_, isPhi := bo.X.(*ssa.Phi)
			return isPhi && from(bo.X, 0)
		case isNilConst(bo.X):
			_, isPhi := bo.Y.(*ssa.Phi)
			return isPhi && from(bo.Y, 0)
		}
		return false
	}
}

// c20DeepSel selects the edges of the frame `level` calls below Install on which one of the effects effs (all of them
// below that frame: their chains agree up to level) has succeeded: an edge the effect's own selector picks, if the
// effect is a call of this frame; or the nil-error edge of the helper call leading to it, provided every nil-error exit
// of that helper lies behind such an edge in the helper's own frame (the same question one frame down). n counts the
// leaf edges found, so that a rule that lost its anchor is noticed.
func c20DeepSel(w *World, level int, effs []c20Effect, leafSel func(es []c20Effect) EdgeSel) EdgeSel {
	type helper struct {
		labels []string
		ok     bool
	}
	var leaves []EdgeSel
	var here []c20Effect
	helpers := map[*ssa.Call]*helper{}
	for _, e := range effs {
		if len(e.via) == level {
			here = append(here, e)
		}
	}
	if len(here) > 0 {
		leaves = append(leaves, leafSel(here))
	}
	for _, e := range effs {
		if len(e.via) == level {
			continue
		}
		h := e.via[level]
		if helpers[h] != nil {
			continue
		}
		var below []c20Effect
		for _, e2 := range effs {
			if len(e2.via) > level && e2.via[level] == h {
				below = append(below, e2)
			}
		}
		H := staticCallee(h)
		blocked, n, _ := exitsBlocked(w.Info(H), Mode{Kind: mErr}, c20DeepSel(w, level+1, below, leafSel), nil)
		helpers[h] = &helper{labels: c20ErrNilLabels(h), ok: blocked && n > 0}
	}
	return func(l string, iff *ssa.If, truth bool) bool {
		for _, s := range leaves {
			if s(l, iff, truth) {
				return true
			}
		}
		for _, h := range helpers {
			if !h.ok {
				continue
			}
			for _, x := range h.labels {
				if l == x {
					return true
				}
			}
		}
		return false
	}
}

// c20CommonFrame: the innermost frame that holds both effects — the function, the number of calls between Install and
// it, and the instruction that stands for each effect in it (the effect call itself, or the helper call leading to it).
func c20CommonFrame(INST *ssa.Function, a, b c20Effect) (fn *ssa.Function, level int, sa, sb ssa.Instruction) {
	fn = INST
	for level < len(a.via) && level < len(b.via) && a.via[level] == b.via[level] {
		fn = staticCallee(a.via[level])
		level++
	}
	sa, sb = a.call, b.call
	if level < len(a.via) {
		sa = a.via[level]
	}
	if level < len(b.via) {
		sb = b.via[level]
	}
	return fn, level, sa, sb
}

// c20FieldOrigin: field `field` of the struct object that result idx of H points to (or is) holds, on every exit of H
// that returns an object, the value of one and the same parameter of H: every returned object is an allocation of H
// touched only field by field (c20OwnStruct) with exactly one store to that field, and all these stores store that
// parameter. -1: not so.
func c20FieldOrigin(H *ssa.Function, idx, field int) int {
	return c20FieldOriginX(H, idx, field, nil)
}

// c20FieldOriginX: c20FieldOrigin over the exits of H other than those in `skip` (exits the caller has judged itself).
func c20FieldOriginX(H *ssa.Function, idx, field int, skip map[*ssa.BasicBlock]bool) int {
	if H == nil || H.Blocks == nil {
		return -1
	}
	par := -1
	n := 0
	for _, b := range H.Blocks {
		ret, ok := blockTerm(b).(*ssa.Return)
		if !ok || idx >= len(ret.Results) || skip[b] {
			continue
		}
		v := ret.Results[idx]
		var al *ssa.Alloc
		switch x := v.(type) {
		case *ssa.Const:
			if x.IsNil() {
				continue // no object on this exit
			}
			return -1
		case *ssa.Alloc:
			al = x
		case *ssa.UnOp:
			if a, isAl := x.X.(*ssa.Alloc); isAl && x.Op == token.MUL && x.Block() == b {
				clean := true
				for _, in := range b.Instrs[instrIndex(x):] {
					if _, isStore := in.(*ssa.Store); isStore {
						clean = false
					}
				}
				if clean {
					al = a
				}
			}
		}
		if al == nil || !c20OwnStruct(al) {
			return -1
		}
		stores := 0
		for _, r := range *al.Referrers() {
			fa, isField := r.(*ssa.FieldAddr)
			if !isField || fa.Field != field || fa.Referrers() == nil {
				continue
			}
			for _, rr := range *fa.Referrers() {
				st, isStore := rr.(*ssa.Store)
				if !isStore {
					continue
				}
				stores++
				p, isParam := st.Val.(*ssa.Parameter)
				if !isParam || !c20Dominates(st, ret) {
					return -1
				}
				k := -1
				for j, q := range H.Params {
					if q == p {
						k = j
					}
				}
				if k < 0 || (par >= 0 && par != k) {
					return -1
				}
				par = k
			}
		}
		if stores != 1 {
			return -1
		}
		n++
	}
	if n == 0 {
		return -1
	}
	return par
}

// c20FreshResult: every object result idx of H points to is an allocation of H itself that H touches only field by
// field before it returns it (nobody else holds a reference when H returns).
func c20FreshResult(H *ssa.Function, idx int) bool {
	if H == nil || H.Blocks == nil {
		return false
	}
	n := 0
	for _, b := range H.Blocks {
		ret, ok := blockTerm(b).(*ssa.Return)
		if !ok || idx >= len(ret.Results) {
			continue
		}
		switch x := ret.Results[idx].(type) {
		case *ssa.Const:
			if !x.IsNil() {
				return false
			}
		case *ssa.Alloc:
			if !c20OwnStruct(x) {
				return false
			}
			n++
		default:
			return false
		}
	}
	return n > 0
}

// c20Origin follows a value of the frame below the chain towards Install: a parameter of a helper is what the call of
// the helper passes; a field read from the object a module function returned is, if the function puts one of its
// parameters there on every exit (c20FieldOrigin) and the object is written by nobody afterwards (c20FreshResult,
// c20OnlyReads), what the call passes for that parameter. Returned: the value where this ends and the chain of its frame.
func c20Origin(v ssa.Value, via []*ssa.Call) (ssa.Value, []*ssa.Call) {
	for step := 0; step < 12; step++ {
		if p, ok := v.(*ssa.Parameter); ok && len(via) > 0 {
			h := via[len(via)-1]
			H := staticCallee(h)
			idx := -1
			for j, q := range H.Params {
				if q == p {
					idx = j
				}
			}
			if idx < 0 || idx >= len(h.Call.Args) {
				return v, via
			}
			v, via = h.Call.Args[idx], via[:len(via)-1]
			continue
		}
		u, ok := v.(*ssa.UnOp)
		if !ok || u.Op != token.MUL {
			return v, via
		}
		fa, ok := u.X.(*ssa.FieldAddr)
		if !ok {
			return v, via
		}
		base, bvia := c20Origin(fa.X, via)
		call, idx, field, ok := c20ResultOf(base)
		if !ok || field >= 0 || !c20OnlyReads(base, 0) {
			return v, via
		}
		H := staticCallee(call)
		if H == nil || !c20FreshResult(H, idx) {
			return v, via
		}
		k := c20FieldOrigin(H, idx, fa.Field)
		if k < 0 || k >= len(call.Call.Args) {
			return v, via
		}
		v, via = call.Call.Args[k], bvia
	}
	return v, via
}

// c20FieldOriginV: c20FieldOrigin for a struct result that is returned BY VALUE. An exit that returns the zero value of the
// struct type (`return T{}, err`) puts no parameter into the field; it is accepted if the function's last result is an
// error that is provably non-nil on that exit, and cond=true is reported: the answer "field = parameter k" then holds on
// every exit with a nil error, and the reader has to stand behind the nil-error edge of the call (checked by c20OriginW).
func c20FieldOriginV(w *World, H *ssa.Function, idx, field int) (par int, cond bool) {
	if H == nil || H.Blocks == nil || idx >= H.Signature.Results().Len() {
		return -1, false
	}
	if st, isPtr := c20StructOf(H.Signature.Results().At(idx).Type()); st == nil || isPtr {
		return -1, false
	}
	// the exits that return an object are judged by c20FieldOrigin (it skips what this function accepts below only if
	// told so): here the zero-value exits are looked at first
	hi := w.Info(H)
	last := H.Signature.Results().Len() - 1
	zeroExit := map[*ssa.BasicBlock]bool{}
	for _, b := range H.Blocks {
		ret, ok := blockTerm(b).(*ssa.Return)
		if !ok || idx >= len(ret.Results) {
			continue
		}
		k, isConst := ret.Results[idx].(*ssa.Const)
		if !isConst {
			continue
		}
		if k.Value != nil || last == idx || !isErrorType(ret.Results[last].Type()) || !hi.nonNil(ret.Results[last], b) {
			return -1, false
		}
		zeroExit[b] = true
		cond = true
	}
	return c20FieldOriginX(H, idx, field, zeroExit), cond
}

// c20StructValue follows a struct VALUE (or the local that holds a private, never-written copy of one) of the frame
// below the chain `via` back to the call that produced it: through the function's own copy of a by-value parameter
// (`t0 = local T (s); *t0 = s`), through the call that passes it (a parameter of a helper is what its call passes),
// through the local that holds a call's result and is only read. Returned: the producing call, the result index, the
// chain of the frame that holds the call, and the instruction of that frame at which the value is consumed (the call
// that passes it on, or the site the walk started from).
func c20StructValue(v ssa.Value, site ssa.Instruction, via []*ssa.Call) (call *ssa.Call, idx int, rvia []*ssa.Call, rsite ssa.Instruction, ok bool) {
	at := site
	for step := 0; step < 16; step++ {
		switch x := v.(type) {
		case *ssa.Alloc:
			if s, _ := c20StructOf(x.Type()); s == nil {
				return nil, 0, nil, nil, false
			}
			st, private := c20PrivateCopy(x)
			if !private || st == nil || at == nil || st.Parent() != at.Parent() || !c20Dominates(st, at) {
				return nil, 0, nil, nil, false
			}
			v, at = st.Val, st
		case *ssa.UnOp:
			al, isAlloc := x.X.(*ssa.Alloc)
			if x.Op != token.MUL || !isAlloc {
				return nil, 0, nil, nil, false
			}
			v, at = al, x
		case *ssa.Parameter:
			if len(via) == 0 {
				return nil, 0, nil, nil, false
			}
			h := via[len(via)-1]
			H := staticCallee(h)
			k := -1
			for j, q := range H.Params {
				if q == x {
					k = j
				}
			}
			if k < 0 || k >= len(h.Call.Args) {
				return nil, 0, nil, nil, false
			}
			v, via, site, at = h.Call.Args[k], via[:len(via)-1], h, h
		case *ssa.Extract:
			c, isCall := x.Tuple.(*ssa.Call)
			return c, x.Index, via, site, isCall
		case *ssa.Call:
			_, isTuple := x.Type().(*types.Tuple)
			return x, 0, via, site, !isTuple
		default:
			return nil, 0, nil, nil, false
		}
	}
	return nil, 0, nil, nil, false
}

// c20OriginW is c20Origin that also follows a record passed BY VALUE. A field read from the function's own copy of a struct value is, if the value came out of a module
// function that puts one of its parameters into that field on every exit that returns an object (c20FieldOriginV), what
// the producing call passes for that parameter. A struct value is a copy — no later write to any object can change it —
// so, unlike for a pointer result, nothing is required of the producer's object after the return. Where the producer
// also has exits `return T{}, err` (non-nil error), the place where the value is consumed in the producer's caller must
// stand behind the nil-error edge of the producing call.
func c20OriginW(w *World, v ssa.Value, via []*ssa.Call) (ssa.Value, []*ssa.Call) {
	for step := 0; step < 12; step++ {
		v, via = c20Origin(v, via)
		u, ok := v.(*ssa.UnOp)
		if !ok || u.Op != token.MUL {
			return v, via
		}
		fa, ok := u.X.(*ssa.FieldAddr)
		if !ok {
			return v, via
		}
		if _, isAlloc := fa.X.(*ssa.Alloc); !isAlloc {
			return v, via
		}
		// the read u is the site in its own frame (c20Origin may have moved up some frames to get there)
		call, idx, rvia, rsite, ok := c20StructValue(fa.X, u, via)
		if !ok {
			return v, via
		}
		H := staticCallee(call)
		if H == nil || !w.IsProductFn(H) {
			return v, via
		}
		k, cond := c20FieldOriginV(w, H, idx, fa.Field)
		if k < 0 || k >= len(call.Call.Args) {
			return v, via
		}
		if cond {
			g := w.Info(rsite.Parent()).GuardsOf(rsite)
			okG := false
			for _, l := range c20ErrNilLabels(call) {
				if labelHas(g, l) {
					okG = true
				}
			}
			if !okG {
				return v, via
			}
		}
		v, via = call.Call.Args[k], rvia
	}
	return v, via
}

// ---- fourth pass: the name validated where it is produced ---------------------------------------------------------
//
// The gate "the name passed the certified validator" used to be a must-pass fact of Install about the very value that is
// installed. Code that keeps the property moves the validation to the place that finds the name: a helper resolves the
// source, validates the name it found and hands it back — as a plain result, or in a field of the source record it
// returns — and Install never sees an unvalidated name at all. The fact is then decided where the value is made:
//
// c20ValidatedByProducer: v (a value of the frame below `via`, used under the guards g — must-pass facts in Install's
// terms) is result idx of a module function H, or field f of the record that result is (by value) or points to, the use
// stands behind the nil-error edge of that call, and on EVERY exit of H that can return a nil error the value V that is
// returned (or that H stored into field f of the returned record — the only store to that field in H, made before the
// return, into a record H allocated itself and touches field by field only) lies behind the must-pass fact
// `IsValidFileName(V) == true` of that exit. An SSA value never changes, so the V that was tested is the V that is
// returned; for a record reached through a pointer nobody may write the field afterwards: H hands out a fresh object
// (c20FreshResult), the holder only reads it (c20OnlyReads inside c20ResultOf) — and gates/same-object-same-name checks
// the whole install tree for writers of that field. The validator fact may itself come from a producer one level down
// (V is a result of a helper of H, used behind its nil-error edge), up to three levels.
func c20ValidatedByProducer(w *World, v ssa.Value, via []*ssa.Call, g map[string]string, depth int) bool {
	if depth > 3 || v == nil {
		return false
	}
	// into the frame that produced it
	for {
		p, isParam := v.(*ssa.Parameter)
		if !isParam || len(via) == 0 {
			break
		}
		h := via[len(via)-1]
		k := -1
		for j, q := range staticCallee(h).Params {
			if q == p {
				k = j
			}
		}
		if k < 0 || k >= len(h.Call.Args) {
			return false
		}
		v, via = h.Call.Args[k], via[:len(via)-1]
	}
	call, idx, field, ok := c20ResultOf(v)
	if !ok || call == nil {
		return false
	}
	H := staticCallee(call)
	if H == nil || H.Blocks == nil || !w.IsProductFn(H) || idx >= H.Signature.Results().Len() {
		return false
	}
	// the use stands behind the nil-error edge of the producing call
	behind := false
	for _, l := range c20ErrNilLabels(call) {
		if labelHas(g, c20SubstVia(l, via)) {
			behind = true
		}
	}
	if !behind {
		return false
	}
	_, isPtr := c20StructOf(H.Signature.Results().At(idx).Type())
	if field >= 0 && isPtr && !c20FreshResult(H, idx) {
		return false
	}
	for _, b := range H.Blocks {
		if c20InCycle(b) {
			return false
		}
	}
	s := w.Summarize(H, Mode{Kind: mErr})
	if s == nil || !s.Complete || len(s.Exits) == 0 {
		return false
	}
	for _, e := range s.Exits {
		if idx >= len(e.Ret.Results) {
			return false
		}
		V := e.Ret.Results[idx]
		if field >= 0 {
			V = c20FieldAtExit(V, field, e.Ret)
		}
		if V == nil {
			return false
		}
		if labelHas(e.Checked, "T(call:ngo/internal/file.IsValidFileName("+desc(V)+"))") {
			continue
		}
		if !c20ValidatedByProducer(w, V, nil, e.Checked, depth+1) {
			return false
		}
	}
	return true
}

// c20FieldAtExit: the value field `field` of the record obj (a pointer to an allocation of the returning function, or a
// value copied out of one right before the return) holds at the return ret: the record is touched field by field only
// (c20OwnStruct), the function has exactly one store to that field of that record, and it comes before the return on
// every path (it dominates it). nil: not decided.
func c20FieldAtExit(obj ssa.Value, field int, ret *ssa.Return) ssa.Value {
	var al *ssa.Alloc
	switch x := obj.(type) {
	case *ssa.Alloc:
		al = x
	case *ssa.UnOp:
		a, isAl := x.X.(*ssa.Alloc)
		if !isAl || x.Op != token.MUL || x.Block() != ret.Block() {
			return nil
		}
		for _, in := range ret.Block().Instrs[instrIndex(x):] {
			if _, isStore := in.(*ssa.Store); isStore {
				return nil
			}
		}
		al = a
	}
	if al == nil || !c20OwnStruct(al) {
		return nil
	}
	var val ssa.Value
	n := 0
	for _, r := range *al.Referrers() {
		fa, isField := r.(*ssa.FieldAddr)
		if !isField || fa.Field != field || fa.Referrers() == nil {
			continue
		}
		for _, rr := range *fa.Referrers() {
			if st, isStore := rr.(*ssa.Store); isStore {
				n++
				if !c20Dominates(st, ret) {
					return nil
				}
				val = st.Val
			}
		}
	}
	if n != 1 {
		return nil
	}
	return val
}

// ---- fourth pass: a string cell as its own "found" mark -----------------------------------------------------------
//
// c20StrMark: the shared cell `cell` (the one the callback records the executable's path or its name in) marks by itself
// that an executable was recorded — `file != ""` instead of a separate flag. Argument: (1) the cell is a string that is
// empty when the walk starts (its one definition reaching the WalkDir call is the zero value or the constant ""), and
// the cells are confined to parser and callback (checked by the caller), so it changes only by the callback's stores;
// (2) every store of the callback to it lies behind the must-pass fact `cell == ""` (g holds the guards of the store
// of the pair; every store to the cell is checked here) — so a store happens only while nothing was recorded; (3) every
// value stored is never empty: it is the callback's path parameter and the walk runs only on a root that os.Stat
// accepted or that was compared with "" — WalkDir (trusted) hands the callback the root or the root joined with entry
// names, and os.Stat("") fails, so the path is not empty; or it is the name the module's name parser returned, and
// every success exit of that parser returns a non-empty rest (c20CutsPrefix on each exit). Hence after the first
// recorded executable the cell is non-empty for the rest of the walk: a second executable finds `cell != ""` and
// does not pass the guard, and after the walk `cell == ""` says that no executable was recorded.
func c20StrMark(k *c20Walk, cell int, g map[string]string, parser *ssa.Function, parsed0 string) bool {
	w := k.w
	var t types.Type
	if k.recv != nil {
		if f := fieldOf(k.recv.Type(), cell); f != nil {
			t = f.Type()
		}
	} else if cell < len(k.cb.FreeVars) {
		if pt, ok := k.cb.FreeVars[cell].Type().Underlying().(*types.Pointer); ok {
			t = pt.Elem()
		}
	}
	if t == nil {
		return false
	}
	if b, ok := t.Underlying().(*types.Basic); !ok || b.Kind() != types.String {
		return false
	}
	isEmpty := func(v ssa.Value) bool {
		c, ok := v.(*ssa.Const)
		return ok && c.Value != nil && c.Value.Kind() == constant.String && constant.StringVal(c.Value) == ""
	}
	// (1)
	defs := k.defsBefore(k.call, cell, false)
	if len(defs) != 1 || defs[0].walk {
		return false
	}
	if !defs[0].entry {
		v, zero, ok := k.defValue(defs[0], cell)
		if !ok || !(zero || (v != nil && isEmpty(v))) {
			return false
		}
	}
	// (2), (3)
	empty1, empty2 := "EQ("+k.innerDesc(cell)+",const:\"\")", "EQ(const:\"\","+k.innerDesc(cell)+")"
	if !labelHas(g, empty1) && !labelHas(g, empty2) {
		return false
	}
	n := 0
	for _, cp := range k.stores(true) {
		if cp.cell != cell {
			continue
		}
		n++
		gs := k.guardsAt(cp.st)
		if !labelHas(gs, empty1) && !labelHas(gs, empty2) {
			return false
		}
		val := cp.st.Val
		if _, x, ok := k.value(val, true); ok && x != nil {
			val = x
		}
		switch {
		case val == ssa.Value(k.pathParam()):
			// the walk runs only on a root that is not empty
			if !k.rootNonEmpty() {
				return false
			}
		case parser != nil && desc(val) == parsed0:
			q, okq := w.depConstString("github.com/notaryproject/notation-plugin-framework-go/plugin", "BinaryPrefix")
			s := w.Summarize(parser, Mode{Kind: mErr})
			if !okq || q == "" || s == nil || !s.Complete || len(s.Exits) == 0 {
				return false
			}
			for _, e := range s.Exits {
				if !c20CutsPrefix(e, fmt.Sprintf("const:%q", q), len(q)) {
					return false
				}
			}
		default:
			return false
		}
	}
	return n > 0
}

// c20UnstableRead: v is a field read through a pointer to a heap object (not a local struct of the reading function)
// and some function of the install tree may write that field of an object of that type after the object was handed
// out. The rules compare printed forms of such reads ("the name that was validated is the name that is removed"); two
// reads of the same field of the same object yield the same value only if nobody writes the field in between.
// Decided by type: in the whole call tree below Install the only stores to that field of that struct type (and the
// only stores of a whole object of that type) go to an allocation of the storing function that it touches field by
// field and returns (c20OwnStruct) — a constructor filling in a fresh object nobody else can see yet. Code outside
// the module is trusted not to write into the module's objects.
func c20UnstableRead(w *World, INST *ssa.Function, v ssa.Value) (bool, string) {
	u, ok := v.(*ssa.UnOp)
	if !ok || u.Op != token.MUL {
		return false, ""
	}
	fa, ok := u.X.(*ssa.FieldAddr)
	if !ok {
		return false, ""
	}
	if al, local := fa.X.(*ssa.Alloc); local {
		// a local struct of the reading function: every store into it (whole, or to this field) comes before the read
		if al.Referrers() != nil {
			for _, r := range *al.Referrers() {
				switch x := r.(type) {
				case *ssa.Store:
					if x.Addr == ssa.Value(al) && !c20Dominates(x, u) {
						return true, "the local object is assigned again at " + w.InstrPos(x)
					}
				case *ssa.FieldAddr:
					if x.Field != fa.Field || x.Referrers() == nil {
						continue
					}
					for _, rr := range *x.Referrers() {
						if st, isStore := rr.(*ssa.Store); isStore && st.Addr == ssa.Value(x) && !c20Dominates(st, u) {
							return true, "field " + fieldName(al.Type(), fa.Field) + " of the local object is assigned again at " + w.InstrPos(st)
						}
					}
				}
			}
		}
		return false, ""
	}
	pt, ok := fa.X.Type().Underlying().(*types.Pointer)
	if !ok {
		return false, ""
	}
	T := pt.Elem()
	own := func(addr ssa.Value) bool {
		al, isAlloc := addr.(*ssa.Alloc)
		return isAlloc && c20OwnStruct(al)
	}
	for _, f := range c20Tree(w, INST) {
		for _, b := range f.Blocks {
			for _, in := range b.Instrs {
				st, isStore := in.(*ssa.Store)
				if !isStore {
					continue
				}
				if a, isField := st.Addr.(*ssa.FieldAddr); isField && a.Field == fa.Field {
					if bt, isPtr := a.X.Type().Underlying().(*types.Pointer); isPtr && types.Identical(bt.Elem(), T) && !own(a.X) {
						return true, "field " + fieldName(fa.X.Type(), fa.Field) + " is written at " + w.InstrPos(st)
					}
				}
				if at, isPtr := st.Addr.Type().Underlying().(*types.Pointer); isPtr && types.Identical(at.Elem(), T) && !own(st.Addr) {
					return true, "an object of type " + namedOf(T) + " is overwritten at " + w.InstrPos(st)
				}
			}
		}
	}
	return false, ""
}

// ---- third pass: candidates as records ----------------------------------------------------------------------------
//
// The source parser used to share plain values with its walk callback: a path cell, a name cell, a bool "found", a list
// of paths; the fallback parsed the name again from the base name of the one listed path. Code that keeps the property
// groups path and name into a record built per entry: the callback leaves a pointer to the record of the executable in
// a cell (nil: none found — the pointer is its own "found" mark) and appends the record of every well-named file to a
// list; the parser returns the two fields of one record. The rules are therefore phrased on reads (c20Read: what the
// parser returns is read from what the walk left in a cell — directly, through the record the cell points to, or
// through element 0 of the list in the cell) and on what the callback leaves there (a value, or a record whose fields
// it filled in this very invocation: c20RecordOf). A record, once built, is written by nobody (c20RecordsQuiet), and
// the cells are confined to the two functions, so a field read after the walk is the value the callback put there.

// c20Read: what a value of the function that started the walk is read from.
type c20Read struct {
	cell  int       // >= 0: read from what the walk left in this shared cell; -1: not a read of a shared cell
	elem  bool      // through element 0 of the list the cell holds
	field int       // >= 0: this field of the record (the one the cell points to, or the list element); -1: the content itself
	ok    bool      // false: a read of a shared cell whose content is not decided by the walk alone
	list  ssa.Value // elem: the list value
}

func c20IsConstInt(v ssa.Value, n int64) bool {
	k, ok := v.(*ssa.Const)
	if !ok || k.Value == nil || k.Value.Kind() != constant.Int {
		return false
	}
	x, exact := constant.Int64Val(k.Value)
	return exact && x == n
}

// c20PrivateCopy: al is a local object of its function that is only stored to as a whole, read, and read field by
// field (its address goes nowhere). Returned: its only store (nil: none or several).
func c20PrivateCopy(al *ssa.Alloc) (*ssa.Store, bool) {
	if al.Referrers() == nil {
		return nil, false
	}
	var st *ssa.Store
	n := 0
	for _, r := range *al.Referrers() {
		switch x := r.(type) {
		case *ssa.Store:
			if x.Addr != ssa.Value(al) || x.Val == ssa.Value(al) {
				return nil, false
			}
			st = x
			n++
		case *ssa.UnOp:
			if x.Op != token.MUL {
				return nil, false
			}
		case *ssa.FieldAddr:
			if !c20LoadOnly(x) {
				return nil, false
			}
		case *ssa.DebugRef:
		default:
			return nil, false
		}
	}
	if n != 1 {
		return nil, true
	}
	return st, true
}

// recordBase: what the address (or pointer) b of a record, used at `at` in the function that started the walk, denotes:
// the record a shared cell points to, element 0 of the list in a shared cell (a list of records or of pointers to
// records), or a private copy of one of these made before.
func (k *c20Walk) recordBase(b ssa.Value, at ssa.Instruction, depth int) c20Read {
	no := c20Read{cell: -1, field: -1}
	if depth > 3 {
		return no
	}
	elem0 := func(ia *ssa.IndexAddr) c20Read {
		if !c20IsConstInt(ia.Index, 0) {
			return no
		}
		if c, _, ok := k.value(ia.X, false); ok && c >= 0 {
			return c20Read{cell: c, elem: true, field: -1, ok: true, list: ia.X}
		}
		return no
	}
	switch x := b.(type) {
	case *ssa.IndexAddr:
		return elem0(x)
	case *ssa.UnOp:
		if x.Op != token.MUL {
			return no
		}
		if ia, ok := x.X.(*ssa.IndexAddr); ok {
			return elem0(ia)
		}
		if _, _, isCell := k.loadOf(x, false); isCell {
			if c, _, ok := k.value(x, false); ok && c >= 0 {
				return c20Read{cell: c, field: -1, ok: true}
			}
		}
	case *ssa.Alloc:
		st, private := c20PrivateCopy(x)
		if !private || st == nil || !c20Dominates(st, at) {
			return no
		}
		if src, ok := st.Val.(*ssa.UnOp); ok && src.Op == token.MUL {
			return k.recordBase(src.X, st, depth+1)
		}
	}
	return no
}

// readOf: what the value v, used at `at` by the function that started the walk, is read from.
func (k *c20Walk) readOf(v ssa.Value, at ssa.Instruction) c20Read {
	plain := c20Read{cell: -1, field: -1, ok: true}
	u, isLoad := v.(*ssa.UnOp)
	if !isLoad || u.Op != token.MUL {
		return plain
	}
	if fa, ok := u.X.(*ssa.FieldAddr); ok {
		if _, isCell := k.outerCell(fa); !isCell {
			if r := k.recordBase(fa.X, u, 0); r.ok && r.cell >= 0 {
				r.field = fa.Field
				return r
			}
			return plain
		}
	}
	if ia, ok := u.X.(*ssa.IndexAddr); ok {
		if r := k.recordBase(ia, u, 0); r.ok {
			return r
		}
		return plain
	}
	c, _, ok := k.value(v, false)
	switch {
	case !ok:
		return c20Read{cell: c, field: -1}
	case c >= 0:
		return c20Read{cell: c, field: -1, ok: true}
	}
	return plain
}

// c20RecordOf: v is (a pointer to, or the value of) a struct object of the callback that was filled in once — field by
// field, or as a whole from a composite literal's temporary — before any other use. Returned: the object and the value
// put into each field (a field never assigned is absent: it holds the zero value).
func c20RecordOf(v ssa.Value) (*ssa.Alloc, map[int]ssa.Value, bool) {
	al, ok := v.(*ssa.Alloc)
	var read *ssa.UnOp // v is the value of the object, read here: everything must have been filled in before
	if !ok {
		u, isLoad := v.(*ssa.UnOp)
		if !isLoad || u.Op != token.MUL {
			return nil, nil, false
		}
		if al, ok = u.X.(*ssa.Alloc); !ok {
			return nil, nil, false
		}
		read = u
	}
	if st, _ := c20StructOf(al.Type()); st == nil || al.Referrers() == nil {
		return nil, nil, false
	}
	vals := map[int]ssa.Value{}
	var whole []*ssa.Store
	fieldStores := 0
	for _, r := range *al.Referrers() {
		switch x := r.(type) {
		case *ssa.Store:
			if x.Addr == ssa.Value(al) {
				if read != nil && !c20Dominates(x, read) {
					return nil, nil, false
				}
				whole = append(whole, x)
			}
		case *ssa.FieldAddr:
			if x.Referrers() == nil {
				continue
			}
			for _, rr := range *x.Referrers() {
				if st, isStore := rr.(*ssa.Store); isStore && st.Addr == ssa.Value(x) {
					if _, twice := vals[x.Field]; twice || (read != nil && !c20Dominates(st, read)) {
						return nil, nil, false
					}
					vals[x.Field] = st.Val
					fieldStores++
				}
			}
		}
	}
	switch {
	case len(whole) == 0:
		return al, vals, true
	case len(whole) == 1 && fieldStores == 0:
		// *al = *tmp, tmp the temporary of a composite literal filled in right before
		u, isLoad := whole[0].Val.(*ssa.UnOp)
		if !isLoad || u.Op != token.MUL {
			return nil, nil, false
		}
		tmp, isAlloc := u.X.(*ssa.Alloc)
		if !isAlloc || tmp == al || !c20OwnStruct(tmp) {
			return nil, nil, false
		}
		_, tv, ok := c20RecordOf(tmp)
		if !ok {
			return nil, nil, false
		}
		for _, r := range *tmp.Referrers() {
			if fa, isField := r.(*ssa.FieldAddr); isField && fa.Referrers() != nil {
				for _, rr := range *fa.Referrers() {
					if st, isStore := rr.(*ssa.Store); isStore && !c20Dominates(st, u) {
						return nil, nil, false
					}
				}
			}
		}
		return al, tv, true
	}
	return nil, nil, false
}

// c20RecordsQuiet: in the given functions nobody writes into an object of struct type T that somebody else may hold:
// every store to a field of a T, or of a whole T, goes to a private copy (c20PrivateCopy-like: a local whose address
// goes nowhere), to an object of the storing function that is filled in, in the block that creates it, before its
// address is used for anything else, or to the argument array of a variadic call (append).
func c20RecordsQuiet(w *World, fns []*ssa.Function, T types.Type) (bool, string) {
	isT := func(t types.Type) bool {
		p, ok := t.Underlying().(*types.Pointer)
		return ok && types.Identical(p.Elem(), T)
	}
	private := func(al *ssa.Alloc) bool {
		for _, r := range *al.Referrers() {
			switch x := r.(type) {
			case *ssa.Store:
				if x.Addr != ssa.Value(al) || x.Val == ssa.Value(al) {
					return false
				}
			case *ssa.UnOp:
				if x.Op != token.MUL {
					return false
				}
			case *ssa.FieldAddr:
				if x.Referrers() != nil {
					for _, rr := range *x.Referrers() {
						switch y := rr.(type) {
						case *ssa.Store:
							if y.Addr != ssa.Value(x) || y.Val == ssa.Value(x) {
								return false
							}
						case *ssa.UnOp:
							if y.Op != token.MUL {
								return false
							}
						case *ssa.DebugRef:
						default:
							return false
						}
					}
				}
			case *ssa.DebugRef:
			default:
				return false
			}
		}
		return true
	}
	// filled before handed out: every store into al (whole or field) lies in al's own block, before the first use of al
	// that is neither a store into it nor a load from it
	filledFirst := func(al *ssa.Alloc, st *ssa.Store) bool {
		if st.Block() != al.Block() {
			return false
		}
		for _, r := range *al.Referrers() {
			switch x := r.(type) {
			case *ssa.Store:
				if x.Addr == ssa.Value(al) {
					continue
				}
			case *ssa.UnOp:
				if x.Op == token.MUL {
					continue
				}
			case *ssa.FieldAddr:
				if x.Referrers() == nil {
					continue
				}
				inner := true
				for _, rr := range *x.Referrers() {
					switch y := rr.(type) {
					case *ssa.Store:
						if y.Addr != ssa.Value(x) || y.Val == ssa.Value(x) {
							inner = false
						}
					case *ssa.UnOp:
						if y.Op != token.MUL {
							inner = false
						}
					case *ssa.DebugRef:
					default:
						inner = false
					}
				}
				if inner {
					continue
				}
			case *ssa.DebugRef:
				continue
			}
			// a use that hands the address on
			if r.Block() == al.Block() && instrIndex(r) < instrIndex(st) {
				return false
			}
			if r.Block() != al.Block() && !al.Block().Dominates(r.Block()) {
				return false
			}
		}
		return true
	}
	for _, f := range fns {
		for _, b := range f.Blocks {
			for _, in := range b.Instrs {
				st, ok := in.(*ssa.Store)
				if !ok {
					continue
				}
				var base ssa.Value
				if fa, isField := st.Addr.(*ssa.FieldAddr); isField && isT(fa.X.Type()) {
					base = fa.X
				} else if isT(st.Addr.Type()) {
					base = st.Addr
				} else {
					continue
				}
				switch x := base.(type) {
				case *ssa.Alloc:
					if private(x) || filledFirst(x, st) {
						continue
					}
				case *ssa.IndexAddr:
					if arr, isAlloc := x.X.(*ssa.Alloc); isAlloc {
						onlySliced := true
						for _, r := range *arr.Referrers() {
							switch r.(type) {
							case *ssa.IndexAddr, *ssa.Slice, *ssa.DebugRef:
							default:
								onlySliced = false
							}
						}
						if onlySliced {
							continue
						}
					}
				}
				return false, "an object of type " + namedOf(T) + " that may be shared is written at " + w.InstrPos(st)
			}
		}
	}
	return true, ""
}

// c20AppendOne: v is append(list, x) with exactly one appended element.
func c20AppendOne(v ssa.Value) (list, elem ssa.Value, ok bool) {
	call, isCall := v.(*ssa.Call)
	if !isCall || calleeName(call) != "builtin:append" || len(call.Call.Args) != 2 {
		return nil, nil, false
	}
	sl, isSlice := call.Call.Args[1].(*ssa.Slice)
	if !isSlice || sl.Low != nil || sl.High != nil {
		return nil, nil, false
	}
	al, isAlloc := sl.X.(*ssa.Alloc)
	if !isAlloc {
		return nil, nil, false
	}
	els := orderedLitElems(al)
	if len(els) != 1 {
		return nil, nil, false
	}
	return call.Call.Args[0], els[0], true
}

// ---- fifth pass: the walk skeleton in a helper that takes the per-entry action as a function value -----------------
//
// Class of rewrite: the code that is the same in every walk of the install tree ("the source is a directory, walk it,
// do not enter sub-directories, look at regular files only") is moved into one module function H(root, action) and each
// former WalkDir callback keeps only what it does with an entry — as a function literal (or method value, or function)
// handed to H. The clauses of the property are then decided at two levels:
//
//   - what is said about the walk itself (SkipDir for every directory other than the root; nothing else is done per
//     entry) is decided on H's own WalkDir callback, once for all callers;
//   - what is said about the per-entry action (candidates, the pair, the copy) is decided on the action exactly as it
//     was decided on a WalkDir callback, with a c20Walk whose `call` is the call of H and whose `cb` is the action. The
//     facts that H's callback establishes before it calls the action (`d.Info()` says regular file, …) hold at the entry
//     of the action (c20Walk.guardsAt adds them, rewritten from the callback's parameters to the action's).
//
// This is sound only if H is nothing but a walk (c20Delegates certifies it): the action parameter is used for nothing
// except being called from H's WalkDir callback (never by H itself, never stored, never handed on), it is called with
// the callback's own path and entry — so inside the action these two parameters are what WalkDir handed out —, the
// callback returns what the action answers (an error of the action ends the walk and is the walk's result, exactly as
// if the action's body stood in the callback), the callback itself touches no file, and the walk root is a parameter
// of H. Then: the shared cells of the action change only while the call of H runs (H calls the action only inside
// WalkDir, which is trusted to call its callback only before it returns), so reaching definitions with "the call of H"
// in the place of "the WalkDir call" are right; and every invocation of the action is one entry of the walk of the
// root the caller named.

type c20Via struct {
	hk       *c20Walk    // the helper's WalkDir call with its own callback
	fnPar    int         // index of the helper's parameter that holds the action
	rootPar  int         // index of the helper's parameter that is the walk root
	calls    []*ssa.Call // the calls of the action in the helper's callback
	pathIdx  int         // position of the entry's path among the action's arguments
	entryIdx int         // position of the entry among the action's arguments
	nparams  int         // number of parameters of the action
}

// c20ReturnsResult: the function hands the (error) result of `call` to its caller: every return that a path from the
// call can reach returns that very value, or lies behind `result == nil` on every path from the call (then the nil that
// is returned says the same). A return in the call's own block returns the call. (Decided on the must-pass facts between
// the call and each return, not on the exits of the whole function: a `return nil` that is shared with paths that never
// made the call carries no fact about the call in the function's summary.)
func c20ReturnsResult(w *World, fn *ssa.Function, call *ssa.Call) bool {
	fi := w.Info(fn)
	nilRes := []string{"EQ(" + desc(call) + ",nil)", "EQ(" + desc(call) + "#err,nil)", "EQ(" + desc(call) + "#0,nil)"}
	n := 0
	for _, b := range fn.Blocks {
		r, isRet := blockTerm(b).(*ssa.Return)
		if !isRet || len(r.Results) == 0 {
			continue
		}
		last := r.Results[len(r.Results)-1]
		if b == call.Block() {
			if last != ssa.Value(call) {
				return false
			}
			n++
			continue
		}
		l, reachable := fi.mustPassBetween([]int{call.Block().Index}, map[int]bool{b.Index: true})
		if !reachable {
			continue
		}
		n++
		if last == ssa.Value(call) {
			continue
		}
		has := false
		for _, q := range nilRes {
			if labelHas(l, q) {
				has = true
			}
		}
		if !has {
			return false
		}
	}
	return n > 0
}

// c20Delegates: hk is the only thing its outer function H does with a function-typed parameter (see above). Returned:
// (nil, "") — H has no such parameter in the walk, the callback is an ordinary one; (nil, why) — H hands entries to a
// function it was given, but is not certified as a pure walk; (via, "") — certified.
func c20Delegates(hk *c20Walk) (*c20Via, string) {
	w, H := hk.w, hk.outer
	if hk.mc == nil || hk.recv != nil {
		return nil, ""
	}
	written := map[int]bool{}
	for _, s := range hk.stores(true) {
		written[s.cell] = true
	}
	cell, fnPar := -1, -1
	var par *ssa.Parameter
	for c := 0; c < hk.nCells(); c++ {
		defs := hk.defsBefore(hk.call, c, false)
		for _, d := range defs {
			if d.st == nil {
				continue
			}
			val, zero, ok := hk.defValue(d, c)
			if !ok || zero {
				continue
			}
			p, isPar := val.(*ssa.Parameter)
			if !isPar || p.Parent() != H {
				continue
			}
			if _, isFn := p.Type().Underlying().(*types.Signature); !isFn {
				continue
			}
			if cell >= 0 && cell != c {
				return nil, "the walk of " + fnName(H) + " runs more than one function it was given"
			}
			if len(defs) != 1 {
				return nil, "the function " + fnName(H) + " runs per entry is not decided by one definition"
			}
			cell, par = c, p
		}
	}
	if cell < 0 {
		return nil, ""
	}
	for i, p := range H.Params {
		if p == par {
			fnPar = i
		}
	}
	sig := par.Type().Underlying().(*types.Signature)
	if ok, why := hk.confined(); !ok {
		return nil, "the state shared between " + fnName(H) + " and its callback is not confined to them: " + why
	}
	if written[cell] {
		return nil, "the callback of " + fnName(H) + " replaces the function it was given"
	}
	// the parameter goes into its cell and nowhere else; H itself never reads the cell (it never runs the action)
	if refs := par.Referrers(); refs != nil {
		for _, r := range *refs {
			switch x := r.(type) {
			case *ssa.Store:
				if c, ok := hk.outerCell(x.Addr); !ok || c != cell || x.Val != ssa.Value(par) {
					return nil, fnName(H) + " stores the function it was given somewhere else"
				}
			case *ssa.DebugRef:
			default:
				return nil, fnName(H) + " uses the function it was given outside the walk"
			}
		}
	}
	if len(hk.loads(false, cell)) > 0 {
		return nil, fnName(H) + " itself reads the function it was given (it may run it outside the walk)"
	}
	via := &c20Via{hk: hk, fnPar: fnPar, rootPar: -1, pathIdx: -1, entryIdx: -1, nparams: sig.Params().Len()}
	// the callback only calls it, with its own path and entry, and returns the answer
	for _, u := range hk.loads(true, cell) {
		if u.Referrers() == nil {
			continue
		}
		for _, r := range *u.Referrers() {
			if _, isDbg := r.(*ssa.DebugRef); isDbg {
				continue
			}
			call, isCall := r.(*ssa.Call)
			if !isCall || call.Call.IsInvoke() || call.Call.Value != ssa.Value(u) {
				return nil, "the callback of " + fnName(H) + " does something else with the function than calling it"
			}
			pi, ei := -1, -1
			for i, a := range call.Call.Args {
				switch {
				case a == ssa.Value(u):
					return nil, "the callback of " + fnName(H) + " hands the function to itself"
				case a == ssa.Value(hk.pathParam()) && pi < 0:
					pi = i
				case a == ssa.Value(hk.entryParam()) && ei < 0:
					ei = i
				}
			}
			if pi < 0 || ei < 0 || (len(via.calls) > 0 && (pi != via.pathIdx || ei != via.entryIdx)) {
				return nil, "the callback of " + fnName(H) + " does not call the function with its own path and entry"
			}
			if !c20ReturnsResult(w, hk.cb, call) {
				return nil, "the callback of " + fnName(H) + " does not return what the function answers"
			}
			via.pathIdx, via.entryIdx = pi, ei
			via.calls = append(via.calls, call)
		}
	}
	if len(via.calls) == 0 {
		return nil, "the callback of " + fnName(H) + " never calls the function " + fnName(H) + " was given"
	}
	// the callback itself touches no file
	for _, ci := range allCalls(hk.cb) {
		if _, isMut := c20Mutators[calleeName(ci)]; isMut {
			return nil, "the callback of " + fnName(H) + " modifies files itself"
		}
		if g := staticCallee(ci); g != nil && w.IsProductFn(g) && len(c20Reach(w, g)) > 0 {
			return nil, "the callback of " + fnName(H) + " modifies files itself (through " + fnName(g) + ")"
		}
	}
	// the root is a parameter of H
	if _, v, ok := hk.value(hk.rootArg(), false); ok && v != nil {
		if rp, isPar := v.(*ssa.Parameter); isPar && rp.Parent() == H {
			for i, p := range H.Params {
				if p == rp {
					via.rootPar = i
				}
			}
		}
	}
	if via.rootPar < 0 {
		return nil, "the root of the walk of " + fnName(H) + " is not one of its parameters"
	}
	return via, ""
}

// c20ResolveVia: the call `ci` of the certified walk helper in `outer`, as a walk whose per-entry function is the action
// the caller hands over.
func c20ResolveVia(w *World, outer *ssa.Function, ci ssa.CallInstruction, via *c20Via) *c20Walk {
	args := ci.Common().Args
	if via.fnPar >= len(args) || via.rootPar >= len(args) || ci.Common().IsInvoke() {
		return nil
	}
	if _, isCall := ci.(*ssa.Call); !isCall {
		return nil // go / defer: the action would run after the caller went on
	}
	k := &c20Walk{w: w, outer: outer, call: ci, via: via}
	if !k.bindCallback(args[via.fnPar], via.nparams) {
		return nil
	}
	return k
}

// entryGuards: the facts that hold whenever the per-entry function is entered, in terms of its own parameters: what
// every path of the helper's callback to (each of) its call(s) of the action must pass. Only facts about the entry and
// its path are kept (labels that mention other parameters, captured variables or locals of that callback are dropped).
func (k *c20Walk) entryGuards() map[string]string {
	if k.via == nil {
		return nil
	}
	hk := k.via.hk
	fi := k.w.Info(hk.cb)
	names := []string{hk.pathParam().Name(), hk.entryParam().Name()}
	descs := []string{"param:" + k.pathParam().Name(), "param:" + k.entryParam().Name()}
	var out map[string]string
	for i, call := range k.via.calls {
		m := map[string]string{}
		for l, pos := range fi.GuardsOf(call) {
			l2 := substParams(l, names, descs)
			if strings.Contains(l2, "param?:") || strings.Contains(l2, "free:") || strings.Contains(l2, "alloc:") || strings.Contains(l2, "phi(") {
				continue
			}
			m[l2] = pos
		}
		if i == 0 {
			out = m
			continue
		}
		for l := range out {
			if _, ok := m[l]; !ok {
				delete(out, l)
			}
		}
	}
	return out
}

// guardsAt: the facts that hold whenever the per-entry function reaches `in`: its own must-pass labels plus what holds
// at its entry.
func (k *c20Walk) guardsAt(in ssa.Instruction) map[string]string {
	g := k.w.Info(k.cb).GuardsOf(in)
	eg := k.entryGuards()
	if len(eg) == 0 || g == nil {
		return g
	}
	out := map[string]string{}
	for l, p := range eg {
		out[l] = p
	}
	for l, p := range g {
		out[l] = p
	}
	return out
}

// rootNonEmpty: the walk runs only on a root that is not the empty string: os.Stat accepted it, or it was compared with
// "" — on every path to the WalkDir call, in the function that holds that call.
func (k *c20Walk) rootNonEmpty() bool {
	at := k
	if k.via != nil {
		at = k.via.hk
	}
	root := desc(at.rootArg())
	gw := k.w.Info(at.outer).GuardsOf(at.call)
	return labelHas(gw, "EQ(call:os.Stat("+root+")#err,nil)") || labelHas(gw, "NE("+root+",const:\"\")") || labelHas(gw, "NE(const:\"\","+root+")")
}

// everyPathReaches: from the true edge of every test `label` of the per-entry function, each path that can still end in
// success passes the block of one of the targets. Returned false when there is no such test.
func c20EveryPathReaches(w *World, fn *ssa.Function, label string, targets []*ssa.Call) bool {
	fi := w.Info(fn)
	cut := map[edgeKey]bool{}
	isTarget := map[*ssa.BasicBlock]bool{}
	for _, t := range targets {
		cutInto(fi, t.Block(), cut)
		isTarget[t.Block()] = true
	}
	n, ok := 0, true
	for _, b := range fn.Blocks {
		if iff, isIf := blockTerm(b).(*ssa.If); isIf && condLabel(iff.Cond, true) == label {
			n++
			if isTarget[b.Succs[0]] {
				continue
			}
			if fi.successWitness(Mode{Kind: mErr}, []state{{b.Succs[0].Index, 0, -1}}, cut) != nil {
				ok = false
			}
		}
	}
	return n > 0 && ok
}

// c20FromEntryReaches: every path of fn from its entry that can still end in success passes the block of the call.
func c20FromEntryReaches(w *World, fn *ssa.Function, target *ssa.Call) bool {
	if target.Block().Index == 0 {
		return true
	}
	fi := w.Info(fn)
	cut := map[edgeKey]bool{}
	cutInto(fi, target.Block(), cut)
	return fi.successWitness(Mode{Kind: mErr}, []state{{0, 0, -1}}, cut) == nil
}

// ---- sixth pass: guards as must-pass facts ----------------------------------------------------------------------
//
// The guard-mutation campaign weakened every guard of the install tree to `false && (C)`: the test is still there, what
// lies behind its edges is still right, but the guarded code is reached without it. Rules that start at the edge of a
// test ("from the true edge of d.IsDir() every return is SkipDir", "from the true edge of IsRegular() every path reaches
// the copy") cannot see that. The rules below ask the question from the entry of the per-entry function instead: with
// the edges removed on which the entry is known to be something else, nothing but the required answer is reachable.

// c20Exit: a return of a function that a path from the start states reaches without using a cut edge.
type c20Exit struct {
	ret  *ssa.Return
	val  ssa.Value // the error result on that path (a phi in the return's block resolved to the edge of the path)
	fail bool      // a value that is never nil (an error was built, or the value was tested non-nil)
}

func c20ExitsUnder(fi *FnInfo, starts []state, cut map[edgeKey]bool) []c20Exit {
	type rk struct {
		r *ssa.Return
		p int
	}
	seen := map[rk]bool{}
	var out []c20Exit
	var sts []state
	for s := range fi.reach(starts, cut) {
		sts = append(sts, s)
	}
	sort.Slice(sts, func(i, j int) bool {
		if sts[i].b != sts[j].b {
			return sts[i].b < sts[j].b
		}
		if sts[i].p != sts[j].p {
			return sts[i].p < sts[j].p
		}
		return sts[i].m < sts[j].m
	})
	for _, s := range sts {
		b := fi.Fn.Blocks[s.b]
		r, isRet := blockTerm(b).(*ssa.Return)
		if !isRet {
			continue
		}
		e := c20Exit{ret: r}
		if v := modeOperand(r, Mode{Kind: mErr}); v != nil {
			if p, ok := v.(*ssa.Phi); ok && p.Block() == b && s.p >= 0 && s.p < len(p.Edges) {
				v = p.Edges[s.p]
			}
			e.val = v
		}
		cl, tail, _, _ := fi.classify(r, state{s.b, fi.through(b, s.m), s.p}, Mode{Kind: mErr})
		e.fail = cl == clFail || (tail != nil && fi.ignoreTail[tail])
		if !e.fail {
			// one report per return and way into it is enough
			if seen[rk{r, s.p}] {
				continue
			}
			seen[rk{r, s.p}] = true
		}
		out = append(out, e)
	}
	return out
}

// c20IsSkip: the value is one of the walk's "skip" answers; dirOnly: SkipDir only.
func c20IsSkip(v ssa.Value, dirOnly bool) bool {
	if v == nil {
		return false
	}
	d := desc(v)
	if d == "global:io/fs.SkipDir" || d == "global:path/filepath.SkipDir" {
		return true
	}
	return !dirOnly && (d == "global:io/fs.SkipAll" || d == "global:path/filepath.SkipAll")
}

// c20EntryLabels: the labels of the edges on which the entry `d` (printed form of the per-entry function's parameter) is
// known (truth) / known not (!truth) to be a directory, resp. a regular file — however the test is spelled on the entry
// itself, its type bits or its own Info.
func c20EntryLabels(d, what string, truth bool) []string {
	info := "call:invoke:io/fs.DirEntry.Info(" + d + ")#0"
	var preds []string
	switch what {
	case "dir":
		preds = []string{
			"call:invoke:io/fs.DirEntry.IsDir(" + d + ")",
			"call:(io/fs.FileMode).IsDir(call:invoke:io/fs.DirEntry.Type(" + d + "))",
			"call:(io/fs.FileMode).IsDir(call:invoke:io/fs.FileInfo.Mode(" + info + "))",
			"call:invoke:io/fs.FileInfo.IsDir(" + info + ")",
		}
	case "regular":
		preds = []string{"call:(io/fs.FileMode).IsRegular(call:invoke:io/fs.FileInfo.Mode(" + info + "))"}
	}
	var out []string
	for _, p := range preds {
		if truth {
			out = append(out, "T("+p+")")
		} else {
			out = append(out, "F("+p+")")
		}
	}
	return out
}

// c20SubDirsAnswered: with the edges removed on which the entry is not a directory or its path is the walk root, every
// return of the WalkDir callback that is still reachable from its entry answers SkipDir, or fails the walk. ("" = yes.)
// A callback whose `d.IsDir() && p != root` test got a further conjunct reaches its other returns without passing one
// of those edges: a sub-directory is then entered and its files are seen as if they were top-level files.
func c20SubDirsAnswered(w *World, cl *ssa.Function, p, d, rootIn string) string {
	fi := w.Info(cl)
	ls := append(c20EntryLabels(d, "dir", false), "EQ("+p+","+rootIn+")", "EQ("+rootIn+","+p+")")
	cut := fi.edgesMatching(anyOf(ls...))
	for _, e := range c20ExitsUnder(fi, entryState(), cut) {
		if e.fail || c20IsSkip(e.val, true) {
			continue
		}
		rd := "nothing"
		if e.val != nil {
			rd = trunc(desc(e.val), 60)
		}
		return "an entry that is neither known to be the walk root nor known not to be a directory reaches `return " + rd + "` at " + w.InstrPos(e.ret)
	}
	return ""
}

// c20NoSuccessWithout: every path of the per-entry function fn from its entry that does not fail the walk passes the
// block of one of the target calls — unless the entry is known to be a directory or known not to be a regular file
// (those edges are removed together with the edges into the targets; nothing that can answer "go on" may remain
// reachable). "" = yes, else the return that is reached.
func c20NoSuccessWithout(w *World, fn *ssa.Function, d string, targets []*ssa.Call) string {
	fi := w.Info(fn)
	for _, t := range targets {
		if t.Block().Index == 0 {
			return ""
		}
	}
	cut := fi.edgesMatching(anyOf(append(c20EntryLabels(d, "regular", false), c20EntryLabels(d, "dir", true)...)...))
	for _, t := range targets {
		cutInto(fi, t.Block(), cut)
	}
	for _, e := range c20ExitsUnder(fi, entryState(), cut) {
		if e.fail {
			continue
		}
		return "an entry that may be a regular file reaches the return at " + w.InstrPos(e.ret) + " without having been handed on"
	}
	return ""
}

// c20WalkErrW: the error the walk hands to its callback. WalkDir reports a directory it could not read, or an entry
// it could not stat, by calling the callback with that error; if the callback answers nil (or a skip) the walk goes on
// and finally returns nil — the source parser then decides on a partial listing and the directory copy reports success
// although files were not copied. So every return of the callback that does not fail the walk lies behind `err == nil`
// for the callback's own error parameter. Accepted: any spelling whose nil edge is a comparison of that parameter with
// nil (`if err != nil { return err }`, `if err == nil { … }`, wrapped errors); the return of the parameter itself behind
// `err != nil` is a failing return.
func c20WalkErrW(c *Ctx, k *c20Walk) {
	w := c.W
	cl := k.cb
	key := "discovery/walk-error-returned/" + fnName(k.outer)
	rule := "the WalkDir callback goes on only when the walk handed it no error: behind anything but `err == nil` for its own error parameter it fails the walk (an unreadable directory or entry makes the parser refuse the source and the directory copy fail)"
	errP := cl.Params[len(cl.Params)-1]
	if !isErrorType(errP.Type()) {
		c.Unk(key, rule, w.FnPos(cl), "the last parameter of the callback is not an error")
		return
	}
	fi := w.Info(cl)
	cut := fi.edgesMatching(anyOf("EQ(" + desc(errP) + ",nil)"))
	c.Evals++
	for _, e := range c20ExitsUnder(fi, entryState(), cut) {
		if e.fail {
			continue
		}
		c.Bad(key, rule, w.InstrPos(e.ret), "this return is reachable although the walk reported an error, and it does not fail the walk")
		return
	}
	c.Check(len(cut) > 0, key, rule, w.FnPos(cl), "the callback never compares its error parameter with nil")
}

// c20ErrTestedSel selects the edges "the error of this call is nil": the nil edge of a comparison of the call's error
// result with nil, or of an error variable (phi) that holds that result on the way from the call.
func c20ErrTestedSel(call *ssa.Call) EdgeSel {
	byLabel := anyOf(c20ErrNilLabels(call)...)
	var from func(v ssa.Value, depth int) bool
	from = func(v ssa.Value, depth int) bool {
		if depth > 4 {
			return false
		}
		switch x := v.(type) {
		case *ssa.Phi:
			for _, e := range x.Edges {
				if from(e, depth+1) {
					return true
				}
			}
			return false
		}
		return c20IsErrOf(v, call)
	}
	return func(l string, iff *ssa.If, truth bool) bool {
		if byLabel(l, iff, truth) {
			return true
		}
		bo, ok := iff.Cond.(*ssa.BinOp)
		if !ok || (bo.Op != token.EQL && bo.Op != token.NEQ) || (bo.Op == token.EQL) != truth {
			return false
		}
		switch {
		case isNilConst(bo.Y):
			_, isPhi := bo.X.(*ssa.Phi)
			return isPhi && from(bo.X, 0)
		case isNilConst(bo.X):
			_, isPhi := bo.Y.(*ssa.Phi)
			return isPhi && from(bo.Y, 0)
		}
		return false
	}
}

// c20IsErrOf: v is the error result of the call.
func c20IsErrOf(v ssa.Value, call *ssa.Call) bool {
	switch x := v.(type) {
	case *ssa.Call:
		return x == call && isErrorType(x.Type())
	case *ssa.Extract:
		return x.Tuple == ssa.Value(call) && isErrorType(x.Type())
	}
	return false
}

// c20ErrorOfCall: the call yields an error (alone, or as the last of several results).
func c20ErrorOfCall(call *ssa.Call) bool {
	switch t := call.Type().(type) {
	case *types.Tuple:
		return t.Len() > 0 && isErrorType(t.At(t.Len()-1).Type())
	default:
		return isErrorType(t)
	}
}

// c20CopyErrors (the clause "success only after a successful copy", one level below Install): a copy routine — a module
// function Install reaches as a copy into the plugin directory, and every module function below it that reports by an
// error — answers nil only if every step it took answered nil. For each call in such a function that yields an error
// (os / io / fs / filepath calls, module functions, functions it was handed): with the edges "that error is nil"
// removed, every return reachable from the call fails (a non-nil error) or returns that very error. An error that is
// dropped, overwritten before it is tested, or tested by a condition that no longer decides (`cond && err != nil`) lets
// the routine report success although a file was not created, not filled or not made executable; Install then reports
// a successful installation of a plugin directory that does not hold the files of the source.
// Accepted shapes: `if err != nil { return … }` in any spelling, `if err := f(); err != nil`, `return f()`,
// `_, err = f(); return err`, an error variable assigned in the arms of a switch and tested after it, results spilled
// for deferred calls. Not examined: deferred calls and go statements (Close in a defer), functions without an error
// result (nowhere to report to), constructors of error values (errors.*, fmt.*).
func c20CopyErrors(c *Ctx, copies []c20Effect) {
	w := c.W
	seen := map[*ssa.Function]bool{}
	var fns []*ssa.Function
	for _, e := range copies {
		g := staticCallee(e.call)
		if g == nil {
			continue
		}
		for _, f := range c20Tree(w, g) {
			if !seen[f] {
				seen[f] = true
				fns = append(fns, f)
			}
		}
	}
	rule := "a copy routine answers nil only if every step it took answered nil: the error of each call on the copy path is tested (and the routine fails on it) or returned before the routine can report success"
	nCalls := 0
	for _, f := range fns {
		res := f.Signature.Results()
		if res.Len() == 0 || !isErrorType(res.At(res.Len()-1).Type()) {
			continue
		}
		fi := w.Info(f)
		n, bad, site := 0, "", w.FnPos(f)
		for _, ci := range allCalls(f) {
			call, ok := ci.(*ssa.Call)
			if !ok || !c20ErrorOfCall(call) {
				continue
			}
			if g := staticCallee(call); g != nil && g.Pkg != nil {
				if pp := g.Pkg.Pkg.Path(); pp == "errors" || pp == "fmt" {
					continue
				}
			}
			n++
			c.Evals++
			cut := fi.edgesMatching(c20ErrTestedSel(call))
			for _, e := range c20ExitsUnder(fi, []state{{call.Block().Index, 0, -1}}, cut) {
				if e.fail {
					continue
				}
				if e.val != nil && (c20IsErrOf(e.val, call) || c20IsErrOf(spilledRet(e.val), call)) {
					continue
				}
				if bad == "" {
					bad, site = "the error of "+trunc(calleeName(call), 60)+" ("+w.InstrPos(call)+") is neither tested nor returned on a path to the return at "+w.InstrPos(e.ret), w.InstrPos(call)
				}
				break
			}
		}
		if n == 0 {
			continue
		}
		nCalls += n
		c.SeenFn(f.String())
		c.Check(bad == "", "copy/errors-checked/"+fnName(f), rule, site, bad)
	}
	if nCalls < 4 {
		c.Unk("copy/errors-checked#count", "vacuity guard: the copy routines below Install make at least 4 calls that yield an error", "-", fmt.Sprintf("%d", nCalls))
	}
}
