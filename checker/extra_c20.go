package main

// Helpers of the C20 rule set (plugin installation) that are independent of one code shape:
//
//   - c20Walk: a filepath.WalkDir call together with the function that runs per entry and the state that function
//     shares with the function that started the walk — variables captured by a function literal, or fields of the
//     object a method value is bound to. Both are "cells"; the rules speak about cells only.
//   - reaching definitions of a cell (which store, or the walk itself, decides what a load sees);
//   - c20Tree: the call tree including functions that are only handed over as values (method values, function values);
//   - c20CertifyByteScan: the file-name validator written as a scan over the bytes of the name.

import (
	"fmt"
	"go/constant"
	"go/token"
	"go/types"
	"sort"
	"strings"

	"golang.org/x/tools/go/ssa"
)

// ---- call tree ------------------------------------------------------------------------------------------------

// c20BoundTarget: fn is the synthetic wrapper of a method value `x.m` with a pointer receiver (`m$bound`, one free
// variable = the receiver, body = one static call m(recv, params...)); the declared method is returned.
func c20BoundTarget(fn *ssa.Function) (*ssa.Function, bool) {
	if fn == nil || fn.Synthetic == "" || len(fn.FreeVars) != 1 || len(fn.Blocks) != 1 {
		return nil, false
	}
	var target *ssa.Function
	for _, in := range fn.Blocks[0].Instrs {
		call, ok := in.(*ssa.Call)
		if !ok {
			continue
		}
		g := staticCallee(call)
		if g == nil || target != nil || call.Call.IsInvoke() || len(call.Call.Args) != len(fn.Params)+1 || call.Call.Args[0] != ssa.Value(fn.FreeVars[0]) {
			return nil, false
		}
		for i, p := range fn.Params {
			if call.Call.Args[i+1] != ssa.Value(p) {
				return nil, false
			}
		}
		target = g
	}
	return target, target != nil && target.Blocks != nil
}

// c20Tree: the product functions reachable from fn through static calls, function literals, and functions that are
// only mentioned as values (a method value `s.visit` or a function value handed to a library routine runs as part
// of the tree just as a function literal does).
func c20Tree(w *World, fn *ssa.Function) []*ssa.Function {
	seen := map[*ssa.Function]bool{}
	var order []*ssa.Function
	var rec func(f *ssa.Function)
	rec = func(f *ssa.Function) {
		if f == nil || seen[f] || f.Blocks == nil || !w.IsProductFn(f) {
			return
		}
		seen[f] = true
		order = append(order, f)
		for _, b := range f.Blocks {
			for _, in := range b.Instrs {
				switch x := in.(type) {
				case ssa.CallInstruction:
					if g := staticCallee(x); g != nil {
						rec(g)
					}
					for _, a := range x.Common().Args {
						if g, ok := unwrap(a).(*ssa.Function); ok {
							rec(g)
						}
					}
				case *ssa.MakeClosure:
					if g, ok := x.Fn.(*ssa.Function); ok {
						if m, isBound := c20BoundTarget(g); isBound {
							rec(m)
						} else {
							rec(g)
						}
					}
				}
			}
		}
		for _, a := range f.AnonFuncs {
			rec(a)
		}
	}
	rec(fn)
	return order
}

// ---- walk state -----------------------------------------------------------------------------------------------

type c20Walk struct {
	w     *World
	outer *ssa.Function       // the function that starts the walk
	call  ssa.CallInstruction // the WalkDir call
	cb    *ssa.Function       // the function whose body runs per entry
	mc    *ssa.MakeClosure    // the closure handed to WalkDir (nil: a plain function, no shared state)
	recv  *ssa.Parameter      // method form: the receiver of cb
	obj   ssa.Value           // method form: the object the method value is bound to, in outer
}

// c20ResolveWalk: the callback of a WalkDir call. Accepted: a function literal, a method value with pointer receiver,
// a plain function.
func c20ResolveWalk(w *World, outer *ssa.Function, ci ssa.CallInstruction) *c20Walk {
	if len(ci.Common().Args) < 2 {
		return nil
	}
	k := &c20Walk{w: w, outer: outer, call: ci}
	switch a := unwrap(ci.Common().Args[1]).(type) {
	case *ssa.MakeClosure:
		fn, _ := a.Fn.(*ssa.Function)
		if fn == nil {
			return nil
		}
		k.mc = a
		if m, ok := c20BoundTarget(fn); ok {
			if len(a.Bindings) != 1 || len(m.Params) == 0 {
				return nil
			}
			if _, isPtr := m.Params[0].Type().Underlying().(*types.Pointer); !isPtr {
				return nil
			}
			k.cb, k.recv, k.obj = m, m.Params[0], a.Bindings[0]
		} else if fn.Synthetic == "" {
			k.cb = fn
		}
	case *ssa.Function:
		k.cb = a
	}
	if k.cb == nil || k.cb.Blocks == nil {
		return nil
	}
	want := 3
	if k.recv != nil {
		want = 4
	}
	if len(k.cb.Params) != want {
		return nil
	}
	return k
}

func (k *c20Walk) pathParam() *ssa.Parameter  { return k.cb.Params[len(k.cb.Params)-3] }
func (k *c20Walk) entryParam() *ssa.Parameter { return k.cb.Params[len(k.cb.Params)-2] }

func (k *c20Walk) nCells() int {
	if k.recv != nil {
		if st, ok := k.recv.Type().Underlying().(*types.Pointer).Elem().Underlying().(*types.Struct); ok {
			return st.NumFields()
		}
		return 0
	}
	if k.mc != nil {
		return len(k.mc.Bindings)
	}
	return 0
}

// innerCell: addr (in the callback) is the address of a shared cell.
func (k *c20Walk) innerCell(addr ssa.Value) (int, bool) {
	if k.recv != nil {
		if fa, ok := addr.(*ssa.FieldAddr); ok && fa.X == ssa.Value(k.recv) {
			return fa.Field, true
		}
		return 0, false
	}
	if fv, ok := addr.(*ssa.FreeVar); ok && k.mc != nil {
		for i, f := range k.cb.FreeVars {
			if f == fv {
				return i, true
			}
		}
	}
	return 0, false
}

// outerCell: addr (in the function that starts the walk) is the address of a shared cell.
func (k *c20Walk) outerCell(addr ssa.Value) (int, bool) {
	if k.recv != nil {
		if fa, ok := addr.(*ssa.FieldAddr); ok && fa.X == k.obj {
			return fa.Field, true
		}
		return 0, false
	}
	if k.mc != nil {
		for i, b := range k.mc.Bindings {
			if b == addr {
				return i, true
			}
		}
	}
	return 0, false
}

// innerDesc / outerDesc: how a load of the cell is rendered in labels of the callback / of the outer function.
func (k *c20Walk) innerDesc(cell int) string {
	if k.recv != nil {
		return "param:" + k.recv.Name() + "." + fieldName(k.recv.Type(), cell)
	}
	return "free:" + k.cb.FreeVars[cell].Name()
}

func (k *c20Walk) outerDesc(cell int) string {
	if k.recv != nil {
		return desc(k.obj) + "." + fieldName(k.obj.Type(), cell)
	}
	return desc(k.mc.Bindings[cell])
}

func (k *c20Walk) cellIsBool(cell int) bool {
	var t types.Type
	if k.recv != nil {
		if f := fieldOf(k.recv.Type(), cell); f != nil {
			t = f.Type()
		}
	} else if pt, ok := k.cb.FreeVars[cell].Type().Underlying().(*types.Pointer); ok {
		t = pt.Elem()
	}
	if t == nil {
		return false
	}
	b, ok := t.Underlying().(*types.Basic)
	return ok && b.Kind() == types.Bool
}

func (k *c20Walk) cellOf(addr ssa.Value, inner bool) (int, bool) {
	if inner {
		return k.innerCell(addr)
	}
	return k.outerCell(addr)
}

func (k *c20Walk) loadOf(v ssa.Value, inner bool) (int, *ssa.UnOp, bool) {
	u, ok := v.(*ssa.UnOp)
	if !ok || u.Op != token.MUL {
		return 0, nil, false
	}
	c, ok := k.cellOf(u.X, inner)
	return c, u, ok
}

type c20CellStore struct {
	st   *ssa.Store
	cell int
}

func (k *c20Walk) stores(inner bool) []c20CellStore {
	fn := k.outer
	if inner {
		fn = k.cb
	}
	var out []c20CellStore
	for _, b := range fn.Blocks {
		for _, in := range b.Instrs {
			if st, ok := in.(*ssa.Store); ok {
				if c, ok := k.cellOf(st.Addr, inner); ok {
					out = append(out, c20CellStore{st, c})
				}
			}
		}
	}
	return out
}

func (k *c20Walk) loads(inner bool, cell int) []*ssa.UnOp {
	fn := k.outer
	if inner {
		fn = k.cb
	}
	var out []*ssa.UnOp
	for _, b := range fn.Blocks {
		for _, in := range b.Instrs {
			if v, ok := in.(ssa.Value); ok {
				if c, u, ok := k.loadOf(v, inner); ok && c == cell {
					out = append(out, u)
				}
			}
		}
	}
	return out
}

// confined: the cells are reachable only through the outer function's own loads and stores and through the callback
// handed to this one WalkDir call (nothing else holds an address of them). Then a cell changes only by a store of the
// outer function or while the walk runs, and inside the callback only by the callback's own stores.
func (k *c20Walk) confined() (bool, string) {
	if k.mc == nil {
		return true, ""
	}
	onlyLoadStore := func(addr ssa.Value) bool {
		refs := addr.Referrers()
		if refs == nil {
			return true
		}
		for _, r := range *refs {
			switch x := r.(type) {
			case *ssa.Store:
				if x.Addr != addr || x.Val == addr {
					return false
				}
			case *ssa.UnOp:
				if x.Op != token.MUL {
					return false
				}
			case *ssa.DebugRef:
			default:
				return false
			}
		}
		return true
	}
	// the closure value goes to the WalkDir call only
	var chase func(v ssa.Value) bool
	chase = func(v ssa.Value) bool {
		refs := v.Referrers()
		if refs == nil {
			return true
		}
		for _, r := range *refs {
			switch x := r.(type) {
			case *ssa.ChangeType:
				if !chase(x) {
					return false
				}
			case *ssa.DebugRef:
			case ssa.CallInstruction:
				if x != k.call {
					return false
				}
			default:
				return false
			}
		}
		return true
	}
	if !chase(k.mc) {
		return false, "the callback value is used elsewhere than in the WalkDir call"
	}
	if k.recv != nil {
		al, ok := k.obj.(*ssa.Alloc)
		if !ok {
			return false, "the object the method value is bound to is not a local object of " + fnName(k.outer)
		}
		for _, r := range *al.Referrers() {
			switch x := r.(type) {
			case *ssa.FieldAddr:
				if !onlyLoadStore(x) {
					return false, "the address of field " + fieldName(al.Type(), x.Field) + " of the walk state escapes"
				}
			case *ssa.Store:
				if x.Addr != ssa.Value(al) {
					return false, "the walk state object is stored somewhere"
				}
			case *ssa.MakeClosure:
				if x != k.mc {
					return false, "the walk state object is bound to another function value"
				}
			case *ssa.DebugRef:
			default:
				if onlyFormatted(r, 0) && c20FmtInert(k.w, al.Type()) {
					continue
				}
				return false, "the walk state object escapes from " + fnName(k.outer)
			}
		}
		if refs := k.recv.Referrers(); refs != nil {
			for _, r := range *refs {
				switch x := r.(type) {
				case *ssa.FieldAddr:
					if !onlyLoadStore(x) {
						return false, "the callback hands out the address of field " + fieldName(k.recv.Type(), x.Field)
					}
				case *ssa.DebugRef:
				default:
					// rendering the receiver into text (a debug line) is no use of the state, as long as the type has no
					// method the formatter would call
					if onlyFormatted(r, 0) && c20FmtInert(k.w, k.recv.Type()) {
						continue
					}
					return false, "the callback hands its receiver on"
				}
			}
		}
		return true, ""
	}
	for i, b := range k.mc.Bindings {
		al, ok := b.(*ssa.Alloc)
		if !ok {
			return false, "a captured variable is not a local of " + fnName(k.outer)
		}
		for _, r := range *al.Referrers() {
			switch x := r.(type) {
			case *ssa.Store:
				if x.Addr != ssa.Value(al) || x.Val == ssa.Value(al) {
					return false, "the address of a captured variable is stored"
				}
			case *ssa.UnOp:
			case *ssa.MakeClosure:
				if x != k.mc {
					return false, "a captured variable is shared with another function literal"
				}
			case *ssa.DebugRef:
			default:
				return false, "the address of a captured variable escapes"
			}
		}
		if i < len(k.cb.FreeVars) && !onlyLoadStore(k.cb.FreeVars[i]) {
			return false, "the callback hands out the address of a captured variable"
		}
	}
	return true, ""
}

// c20FmtInert: formatting a value of this (pointer) type runs no code of the module: the type has none of the methods the
// fmt package looks for.
func c20FmtInert(w *World, t types.Type) bool {
	ms := w.Prog.MethodSets.MethodSet(t)
	for i := 0; i < ms.Len(); i++ {
		switch ms.At(i).Obj().Name() {
		case "String", "Error", "Format", "GoString":
			return false
		}
	}
	return true
}

// c20Def: what decides the content of a cell at some point.
type c20Def struct {
	st    *ssa.Store // a store of the same function (whole: a store of the whole state object)
	whole bool
	walk  bool // whatever the walk left in the cell
	entry bool // the function entry (callback: an earlier invocation or the outer function; outer: the zero value)
}

// defsBefore: the definitions of the cell that reach the instruction `at` (backwards over the control flow graph;
// a path ends at the first store to the cell, at the WalkDir call, or at the allocation / function entry).
func (k *c20Walk) defsBefore(at ssa.Instruction, cell int, inner bool) []c20Def {
	var out []c20Def
	have := map[ssa.Instruction]bool{}
	add := func(in ssa.Instruction, d c20Def) {
		if in != nil {
			if have[in] {
				return
			}
			have[in] = true
		}
		out = append(out, d)
	}
	var cellAlloc ssa.Value
	if !inner {
		if k.recv != nil {
			cellAlloc = k.obj
		} else if k.mc != nil && cell < len(k.mc.Bindings) {
			cellAlloc = k.mc.Bindings[cell]
		}
	}
	seen := map[*ssa.BasicBlock]bool{}
	entrySeen := false
	var scan func(b *ssa.BasicBlock, from int)
	scan = func(b *ssa.BasicBlock, from int) {
		for i := from - 1; i >= 0; i-- {
			in := b.Instrs[i]
			if st, ok := in.(*ssa.Store); ok {
				if c, ok := k.cellOf(st.Addr, inner); ok && c == cell {
					add(st, c20Def{st: st})
					return
				}
				if !inner && k.recv != nil && st.Addr == k.obj {
					add(st, c20Def{st: st, whole: true})
					return
				}
			}
			if !inner && in == k.call.(ssa.Instruction) {
				add(in, c20Def{walk: true})
				return
			}
			if v, ok := in.(ssa.Value); ok && cellAlloc != nil && v == cellAlloc {
				add(in, c20Def{entry: true})
				return
			}
		}
		if len(b.Preds) == 0 {
			if !entrySeen {
				entrySeen = true
				out = append(out, c20Def{entry: true})
			}
			return
		}
		for _, p := range b.Preds {
			if !seen[p] {
				seen[p] = true
				scan(p, len(p.Instrs))
			}
		}
	}
	scan(at.Block(), instrIndex(at))
	return out
}

// defValue: the value a definition puts into the cell (zero: the zero value). A store of the whole state object
// `obj = T{f: v, …}` is resolved through the composite literal's temporary.
func (k *c20Walk) defValue(d c20Def, cell int) (val ssa.Value, zero, ok bool) {
	if d.st == nil {
		return nil, false, false
	}
	if !d.whole {
		return d.st.Val, false, true
	}
	u, isLoad := d.st.Val.(*ssa.UnOp)
	if !isLoad || u.Op != token.MUL {
		return nil, false, false
	}
	tmp, isAlloc := u.X.(*ssa.Alloc)
	if !isAlloc || tmp.Referrers() == nil {
		return nil, false, false
	}
	var found ssa.Value
	n := 0
	for _, r := range *tmp.Referrers() {
		switch x := r.(type) {
		case *ssa.FieldAddr:
			stores := 0
			for _, rr := range *x.Referrers() {
				st, isSt := rr.(*ssa.Store)
				if !isSt || st.Addr != ssa.Value(x) || st.Block() != u.Block() || instrIndex(st) > instrIndex(u) {
					return nil, false, false
				}
				stores++
				if x.Field == cell {
					found = st.Val
					n++
				}
			}
			if stores != 1 {
				return nil, false, false
			}
		case *ssa.UnOp:
			if x != u {
				return nil, false, false
			}
		case *ssa.DebugRef:
		default:
			return nil, false, false
		}
	}
	switch n {
	case 0:
		return nil, true, true
	case 1:
		return found, false, true
	}
	return nil, false, false
}

// value resolves a value read from a cell: (cell ≥ 0, nil) — the load sees exactly what the walk left in the cell
// (outer function only); (-1, v) — v itself, or the value of the only store that can reach this load; ok=false — a
// load of a cell whose content is not decided by one definition.
func (k *c20Walk) value(v ssa.Value, inner bool) (cell int, val ssa.Value, ok bool) {
	c, u, isLoad := k.loadOf(v, inner)
	if !isLoad {
		return -1, v, true
	}
	defs := k.defsBefore(u, c, inner)
	if len(defs) != 1 {
		return c, nil, false
	}
	if defs[0].walk {
		return c, nil, true
	}
	if x, zero, ok := k.defValue(defs[0], c); ok && !zero {
		return -1, x, true
	}
	return c, nil, false
}

// rootCell: the cell through which the callback sees the walk root: at the WalkDir call it holds the value of one store
// S of the outer function, the root argument of WalkDir is that same value (or a load of the cell that sees S), and the
// callback never stores to it. Inside the callback a load of this cell is therefore the walk root.
func (k *c20Walk) rootCell() int {
	if len(k.call.Common().Args) == 0 {
		return -1
	}
	rootArg := k.call.Common().Args[0]
	written := map[int]bool{}
	for _, s := range k.stores(true) {
		written[s.cell] = true
	}
	for cell := 0; cell < k.nCells(); cell++ {
		if written[cell] {
			continue
		}
		defs := k.defsBefore(k.call, cell, false)
		if len(defs) != 1 || defs[0].st == nil {
			continue
		}
		val, zero, ok := k.defValue(defs[0], cell)
		if !ok || zero {
			continue
		}
		same := val == rootArg
		if !same {
			if c, u, isLoad := k.loadOf(rootArg, false); isLoad && c == cell {
				d2 := k.defsBefore(u, cell, false)
				same = len(d2) == 1 && d2[0].st == defs[0].st
			}
		}
		if same {
			return cell
		}
	}
	return -1
}

// c20WalkSeesOuterParam: v (in the callback) is a load of a shared cell that the callback never assigns, that is not the
// walk root, and that holds at the WalkDir call a parameter of the function that started the walk.
func c20WalkSeesOuterParam(k *c20Walk, v ssa.Value) bool {
	cell, _, isLoad := k.loadOf(v, true)
	if !isLoad || cell == k.rootCell() {
		return false
	}
	for _, s := range k.stores(true) {
		if s.cell == cell {
			return false
		}
	}
	if ok, _ := k.confined(); !ok {
		return false
	}
	defs := k.defsBefore(k.call, cell, false)
	if len(defs) != 1 {
		return false
	}
	val, zero, ok := k.defValue(defs[0], cell)
	if !ok || zero {
		return false
	}
	par, isParam := val.(*ssa.Parameter)
	return isParam && par.Parent() == k.outer && val != k.call.Common().Args[0]
}

// seesOnlyWalk: every load of the cell in the outer function reads what the walk left there.
func (k *c20Walk) seesOnlyWalk(cell int) bool {
	ls := k.loads(false, cell)
	for _, u := range ls {
		d := k.defsBefore(u, cell, false)
		if len(d) != 1 || !d[0].walk {
			return false
		}
	}
	return len(ls) > 0
}

// ---- the file-name validator as a scan over bytes ---------------------------------------------------------------

// c20CertifyByteScan certifies a validator of the shape
//
//	if <name is "", "." or ".."> { return false }; for i := 0; i < len(name); i++ { if !ok(name[i]) { return false } }; return true
//
// Argument: (1) every true exit lies behind the exit edge `i >= len(name)` of a loop whose counter starts at 0 and
// whose only way back to the loop head adds exactly 1 to the counter after `ok(name[counter])` answered true — by
// induction every byte of the name passed ok; (2) ok is evaluated (abstract interpretation over the concrete byte) on
// '/', '\\' and NUL and answers false on every path — so no byte of an accepted name is a separator or NUL; (3) the
// names "", "." and ".." are excluded by explicit comparisons on every true exit (or, for the dot names, by ok('.')
// being false; for the empty name by a length test).
func c20CertifyByteScan(w *World, fn *ssa.Function) (bool, string) {
	if len(fn.Params) != 1 {
		return false, "not a one-argument predicate"
	}
	name := fn.Params[0]
	p := "param:" + name.Name()
	s := w.Summarize(fn, Mode{Kind: mBool, Want: true})
	if s == nil || !s.Complete || len(s.Exits) == 0 {
		return false, "no true exit"
	}
	// the loop
	var head *ssa.BasicBlock
	var ctr *ssa.Phi
	for _, b := range fn.Blocks {
		iff, ok := blockTerm(b).(*ssa.If)
		if !ok {
			continue
		}
		bo, ok := iff.Cond.(*ssa.BinOp)
		if !ok || bo.Op != token.LSS {
			continue
		}
		ph, ok := bo.X.(*ssa.Phi)
		if !ok || ph.Block() != b || desc(bo.Y) != "len("+p+")" {
			continue
		}
		if head != nil {
			return false, "more than one scanning loop"
		}
		head, ctr = b, ph
	}
	if head == nil {
		return false, "no loop `for i < len(name)` over the argument"
	}
	body := head.Succs[0]
	// counter: 0 from outside the loop, counter+1 from inside
	inLoop := loopBlocks(head)
	var back []*ssa.BasicBlock
	for i, e := range ctr.Edges {
		pred := head.Preds[i]
		if inLoop[pred.Index] {
			bo, ok := e.(*ssa.BinOp)
			if !ok || bo.Op != token.ADD || bo.X != ssa.Value(ctr) || desc(bo.Y) != "const:1" {
				return false, "the loop counter is not advanced by exactly one"
			}
			back = append(back, pred)
		} else if desc(e) != "const:0" {
			return false, "the loop counter does not start at 0"
		}
	}
	if len(back) == 0 {
		return false, "loop without back edge"
	}
	// the per-byte test: a branch in the loop on ok(name[counter]) (a module predicate or an inline comparison chain is
	// evaluated the same way: through the interpreter)
	fi := w.Info(fn)
	var test *ssa.If
	var testCall *ssa.Call
	for _, b := range fn.Blocks {
		if !inLoop[b.Index] || b == head {
			continue
		}
		iff, ok := blockTerm(b).(*ssa.If)
		if !ok {
			continue
		}
		cond := iff.Cond
		for {
			u, isNot := cond.(*ssa.UnOp)
			if !isNot || u.Op != token.NOT {
				break
			}
			cond = u.X
		}
		call, ok := cond.(*ssa.Call)
		if !ok || len(call.Call.Args) != 1 {
			continue
		}
		g := staticCallee(call)
		if g == nil || !w.IsProductFn(g) || g.Blocks == nil {
			continue
		}
		if !c20IsByteAt(call.Call.Args[0], name, ctr) {
			continue
		}
		test, testCall = iff, call
	}
	if test == nil {
		return false, "no per-byte predicate applied to name[counter] in the loop"
	}
	okLabel := condLabel(testCall, true)
	// every way back to the loop head passes the predicate's true edge
	cutTrue := fi.edgesMatching(func(l string, iff *ssa.If, _ bool) bool { return iff == test && l == okLabel })
	if len(cutTrue) != 1 {
		return false, "per-byte test not recognised"
	}
	// with the accepting edge of the per-byte test removed, the loop head cannot be reached again from the loop body:
	// the scan moves on to the next byte only after the predicate accepted the current one
	if fi.reachHit([]state{{body.Index, 0, -1}}, cutTrue, map[int]bool{head.Index: true}) {
		return false, "the loop continues with the next byte although the per-byte predicate did not accept the current one"
	}
	// true exits only through the loop's exit edge
	exitLabel := condLabel(blockTerm(head).(*ssa.If).Cond, false)
	for _, ex := range s.Exits {
		if !labelHas(ex.Checked, exitLabel) {
			return false, "a true result is possible without scanning the whole name (exit " + w.InstrPos(ex.Ret) + ")"
		}
		if k, isConst := ex.Ret.Results[0].(*ssa.Const); !isConst || k.Value == nil || !constant.BoolVal(k.Value) {
			return false, "a true exit returns a computed value (exit " + w.InstrPos(ex.Ret) + ")"
		}
	}
	// the predicate on the forbidden bytes
	G := staticCallee(testCall)
	for _, bad := range []int64{'/', '\\', 0} {
		ip := &Interp{Fn: G, IntTypes: map[string]bool{"*": true}}
		env := map[ssa.Value]AVal{G.Params[0]: {Kind: aInt, Int: bad}}
		outs := ip.Run(G.Blocks[0], nil, env, nil, nil)
		if ip.Overflow || len(outs) == 0 {
			return false, "per-byte predicate too large to evaluate"
		}
		for _, o := range outs {
			if o.Ret == nil || len(o.Ret.Results) != 1 {
				return false, "per-byte predicate does not return on some path"
			}
			r := ip.val(o.Ret.Results[0], o.Env)
			if r.Kind != aBool || r.B {
				return false, fmt.Sprintf("the per-byte predicate %s may accept %q", fnName(G), rune(bad))
			}
		}
	}
	// the dot names and the empty name
	dotOK := func() bool {
		ip := &Interp{Fn: G, IntTypes: map[string]bool{"*": true}}
		outs := ip.Run(G.Blocks[0], nil, map[ssa.Value]AVal{G.Params[0]: {Kind: aInt, Int: '.'}}, nil, nil)
		for _, o := range outs {
			if o.Ret == nil {
				return true
			}
			if r := ip.val(o.Ret.Results[0], o.Env); r.Kind != aBool || r.B {
				return true
			}
		}
		return len(outs) == 0
	}()
	for _, ex := range s.Exits {
		_, nonEmpty := hasLabel(ex.Checked, "NE(len("+p+"),const:0)")
		if !labelHas(ex.Checked, "NE("+p+",const:\"\")") && !nonEmpty {
			return false, "the empty name is accepted (no explicit test excludes it)"
		}
		if dotOK {
			for _, word := range []string{".", ".."} {
				if !labelHas(ex.Checked, fmt.Sprintf("NE(%s,const:%q)", p, word)) {
					return false, fmt.Sprintf("the name %q is accepted (its bytes pass the per-byte predicate and no explicit comparison excludes it)", word)
				}
			}
		}
	}
	return true, ""
}

// c20IsByteAt: v is name[ctr] (a byte of the string parameter at the loop counter).
func c20IsByteAt(v ssa.Value, name *ssa.Parameter, ctr *ssa.Phi) bool {
	switch x := v.(type) {
	case *ssa.Index:
		return x.X == ssa.Value(name) && x.Index == ssa.Value(ctr)
	case *ssa.Lookup:
		return x.X == ssa.Value(name) && x.Index == ssa.Value(ctr)
	case *ssa.Convert:
		return c20IsByteAt(x.X, name, ctr)
	case *ssa.ChangeType:
		return c20IsByteAt(x.X, name, ctr)
	}
	return false
}

// ---- small utilities -------------------------------------------------------------------------------------------

func c20SortedInts(m map[int]bool) []int {
	var out []int
	for k := range m {
		out = append(out, k)
	}
	sort.Ints(out)
	return out
}

func c20Join(parts ...string) string {
	var out []string
	for _, p := range parts {
		if p != "" {
			out = append(out, p)
		}
	}
	return strings.Join(out, "; ")
}
