package main

import (
	"fmt"
	"go/token"
	"go/types"
	"sort"

	"golang.org/x/tools/go/ssa"
)

// Option forwarding at the API boundary.
//
// An entry function that is handed the caller's options struct T and builds another options struct U for the component it
// delegates to (`notation.Verify`: VerifyOptions → VerifierVerifyOptions for Verifier.Verify / SkipVerify) is the only link
// between what the caller asked for and what the component checks. For every field that T and U have in common — same
// name, identical type: struct field names of exported types are API, not spelling — the U value handed on must carry the
// caller's value of that field. A field left at its zero value (the refactoring that spells the literal out again and
// forgets one line) silently switches the clause off: without UserMetadata the verifier checks no required pair, without
// ArtifactReference the statement is selected for another repository, without PluginConfig the plugin runs unconfigured.
// The existing tests of the components pass their options directly and cannot see it (round-4 seed C05-6 is the same class
// one layer down, in the verifier's constructors).
//
// Decided on SSA values: the argument is followed to the local it is loaded from (through the free variable of a closure
// to the enclosing function's variable), or to the result of a module helper that builds it from the options it is handed;
// a field counts as forwarded when a store `local.F = p.F` (p the parameter of type T, or a local copy of it that nothing
// else writes) dominates the use, or the whole struct is a copy of a U-typed field/value of p. Anything else that is
// stored into the field on the way (a computed value overriding the caller's) is reported with what is stored; a field
// never stored is reported as dropped. An argument whose construction cannot be followed is undecided.

// alsoRun: rules of this file appended to a property's rule set (run after it, same obligation list).
var alsoRun = map[string][]func(c *Ctx){
	"C01": {func(c *Ctx) { optionsForwarded(c, "api/options-forwarded", "") }},
}

type fwdUse struct {
	fn   *ssa.Function // function the use stands in (entry function or one of its closures)
	call ssa.CallInstruction
	arg  ssa.Value
	at   ssa.Instruction // the instruction in the entry function that must be dominated (the call, or the MakeClosure)
}

func structOf(t types.Type) (*types.Named, *types.Struct) {
	if a, ok := t.(*types.Alias); ok {
		t = types.Unalias(a)
	}
	n, ok := t.(*types.Named)
	if !ok {
		return nil, nil
	}
	s, ok := n.Underlying().(*types.Struct)
	if !ok {
		return nil, nil
	}
	return n, s
}

// flatFields: the fields of a struct with embedded structs flattened, name → type (outer names win, as in Go).
func flatFields(s *types.Struct, depth int) map[string]types.Type {
	out := map[string]types.Type{}
	for i := 0; i < s.NumFields(); i++ {
		f := s.Field(i)
		if f.Embedded() {
			continue
		}
		out[f.Name()] = f.Type()
	}
	if depth < 3 {
		for i := 0; i < s.NumFields(); i++ {
			f := s.Field(i)
			if !f.Embedded() {
				continue
			}
			if _, es := structOf(f.Type()); es != nil {
				for k, v := range flatFields(es, depth+1) {
					if _, dup := out[k]; !dup {
						out[k] = v
					}
				}
			}
		}
	}
	return out
}

// readsParamField: v is the caller's value p.<name> (possibly through embedded structs), p a struct-typed parameter or a
// local copy of it that is stored once.
func readsParamField(v ssa.Value, p *ssa.Parameter, name string) bool {
	fromP := func(x ssa.Value) bool {
		for i := 0; i < 4; i++ {
			switch y := x.(type) {
			case *ssa.Parameter:
				return y == p
			case *ssa.Field: // an embedded struct of p
				x = y.X
			case *ssa.FieldAddr:
				x = y.X
			case *ssa.UnOp:
				if y.Op != token.MUL {
					return false
				}
				x = y.X
			case *ssa.Alloc:
				st := singleStore(y)
				if st == nil {
					return false
				}
				x = st
			default:
				return false
			}
		}
		return false
	}
	switch y := v.(type) {
	case *ssa.Field:
		return fieldName(y.X.Type(), y.Field) == name && fromP(y.X)
	case *ssa.UnOp:
		if y.Op != token.MUL {
			return false
		}
		if fa, ok := y.X.(*ssa.FieldAddr); ok {
			return fieldName(fa.X.Type(), fa.Field) == name && fromP(fa.X)
		}
	}
	return false
}

func instrDominates(a, b ssa.Instruction) bool {
	if a.Block() == nil || b.Block() == nil || a.Parent() != b.Parent() {
		return false
	}
	if a.Block() == b.Block() {
		for _, in := range a.Block().Instrs {
			if in == a {
				return true
			}
			if in == b {
				return false
			}
		}
		return false
	}
	return a.Block().Dominates(b.Block())
}

func optionsForwarded(c *Ctx, prefix, onlyPkg string) {
	w := c.W
	rule := "API option forwarding: a function that is handed the caller's options struct and builds another options struct for the component it delegates to carries over, for every field the two structs have in common (same name, same type), the caller's value of that field — stored into the struct before it is used; a common field left at its zero value switches the corresponding check off for every caller of the API"
	n := 0
	var fns []*ssa.Function
	for _, fn := range w.Funcs {
		if fn.Parent() == nil && w.IsProductFn(fn) && fn.Blocks != nil {
			fns = append(fns, fn)
		}
	}
	sort.Slice(fns, func(i, j int) bool { return fns[i].String() < fns[j].String() })
	for _, F := range fns {
		for _, p := range F.Params {
			tn, ts := structOf(p.Type())
			if tn == nil || !tn.Obj().Exported() || tn.Obj().Pkg() == nil || !w.IsProductPkg(tn.Obj().Pkg().Path()) {
				continue
			}
			tFields := flatFields(ts, 0)
			// the uses: calls in F and its closures that pass a value of another exported options struct of the module
			var uses []fwdUse
			scan := func(g *ssa.Function, at ssa.Instruction) {
				for _, ci := range allCalls(g) {
					for _, a := range ci.Common().Args {
						un, _ := structOf(a.Type())
						if un == nil || un == tn || !un.Obj().Exported() || un.Obj().Pkg() == nil || !w.IsProductPkg(un.Obj().Pkg().Path()) {
							continue
						}
						u := fwdUse{fn: g, call: ci, arg: a, at: at}
						if at == nil {
							u.at = ci
						}
						uses = append(uses, u)
					}
				}
			}
			scan(F, nil)
			for _, b := range F.Blocks {
				for _, in := range b.Instrs {
					if mc, ok := in.(*ssa.MakeClosure); ok {
						if g, ok := mc.Fn.(*ssa.Function); ok && g.Blocks != nil {
							scan(g, mc)
						}
					}
				}
			}
			for _, u := range uses {
				un, us := structOf(u.arg.Type())
				common := []string{}
				for name, ut := range flatFields(us, 0) {
					if tt, ok := tFields[name]; ok && types.Identical(tt, ut) && token.IsExported(name) {
						common = append(common, name)
					}
				}
				if len(common) == 0 {
					continue
				}
				sort.Strings(common)
				// the variable the argument is loaded from
				var cell ssa.Value
				if ld, ok := u.arg.(*ssa.UnOp); ok && ld.Op == token.MUL {
					cell = ld.X
				}
				// a U-typed part of the caller's own options handed on as it is
				if readsAnyPart(u.arg, p) {
					continue
				}
				var home *ssa.Alloc // the variable in F
				switch x := cell.(type) {
				case *ssa.Alloc:
					if x.Parent() == F {
						home = x
					}
				case *ssa.FreeVar:
					if mc, ok := u.at.(*ssa.MakeClosure); ok {
						for i, fv := range u.fn.FreeVars {
							if fv == x && i < len(mc.Bindings) {
								home, _ = mc.Bindings[i].(*ssa.Alloc)
							}
						}
					}
				}
				for _, name := range common {
					key := fmt.Sprintf("%s/%s/%s.%s", prefix, fnName(F), un.Obj().Name(), name)
					n++
					c.Evals++
					c.SeenFn(F.String())
					if home == nil {
						c.Unk(key, rule, w.InstrPos(u.call), "the "+un.Obj().Name()+" value handed to "+calleeNameCI(u.call)+" is not a local variable of "+fnName(F)+" that is filled in there ("+desc(u.arg)+"): how it is built is not followed")
						continue
					}
					// stores into home.<name> in F
					forwarded, other := false, ""
					whole := false
					if refs := home.Referrers(); refs != nil {
						for _, r := range *refs {
							switch st := r.(type) {
							case *ssa.Store:
								if st.Addr == ssa.Value(home) {
									// the whole struct assigned: a copy of a U-typed part of p forwards every field
									if readsAnyPart(st.Val, p) && instrDominates(st, firstUseIn(F, u)) {
										whole = true
									}
									// … or the result of a module helper that is handed p and forwards the field on every return
									if call, ok := st.Val.(*ssa.Call); ok && instrDominates(st, firstUseIn(F, u)) && helperForwards(w, call, p, name) {
										whole = true
									}
								}
							case *ssa.FieldAddr:
								if fieldName(st.X.Type(), st.Field) != name || st.Referrers() == nil {
									continue
								}
								for _, r2 := range *st.Referrers() {
									s2, ok := r2.(*ssa.Store)
									if !ok || s2.Addr != ssa.Value(st) {
										continue
									}
									if readsParamField(s2.Val, p, name) && instrDominates(s2, firstUseIn(F, u)) {
										forwarded = true
									} else if other == "" {
										other = desc(s2.Val)
									}
								}
							}
						}
					}
					switch {
					case forwarded || whole:
						c.OK(key, rule, w.InstrPos(u.call))
					case other != "":
						c.Bad(key, rule, w.InstrPos(u.call), fmt.Sprintf("%s.%s handed to %s is set from %s, not from the caller's %s.%s", un.Obj().Name(), name, calleeNameCI(u.call), other, tn.Obj().Name(), name))
					default:
						c.Bad(key, rule, w.InstrPos(u.call), fmt.Sprintf("%s.%s is left at its zero value in the options handed to %s: the caller's %s.%s is dropped", un.Obj().Name(), name, calleeNameCI(u.call), tn.Obj().Name(), name))
					}
				}
			}
		}
	}
	c.Extra["option_forwarding_fields"] = n
	if n < 3 {
		c.Unk(prefix+"#count", "vacuity guard: the API has at least one function that rebuilds the caller's options for a component (three common fields on the reference tree: notation.Verify)", "-", fmt.Sprintf("%d fields found", n))
	}
}

// firstUseIn: the instruction of F that the stores must dominate for this use.
func firstUseIn(F *ssa.Function, u fwdUse) ssa.Instruction {
	if in, ok := u.at.(ssa.Instruction); ok && in.Parent() == F {
		return in
	}
	return u.call
}

// readsAnyPart: v is p itself or a (nested) field of p read as a whole.
func readsAnyPart(v ssa.Value, p *ssa.Parameter) bool {
	for i := 0; i < 5; i++ {
		switch y := v.(type) {
		case *ssa.Parameter:
			return y == p
		case *ssa.Field:
			v = y.X
		case *ssa.FieldAddr:
			v = y.X
		case *ssa.UnOp:
			if y.Op != token.MUL {
				return false
			}
			v = y.X
		case *ssa.Alloc:
			st := singleStore(y)
			if st == nil {
				return false
			}
			v = st
		default:
			return false
		}
	}
	return false
}

func calleeNameCI(ci ssa.CallInstruction) string {
	if call, ok := ci.(*ssa.Call); ok {
		return calleeName(call)
	}
	if f := ci.Common().StaticCallee(); f != nil {
		return fnName(f)
	}
	return "a call"
}

// helperForwards: call is `g(…, p, …)` of a module function whose every return hands back a struct local of g into whose
// field <name> the value of that field of the matching parameter was stored before (the options literal moved into a
// constructor helper).
func helperForwards(w *World, call *ssa.Call, p *ssa.Parameter, name string) bool {
	g := staticCallee(call)
	if g == nil || g.Blocks == nil || !w.IsProductFn(g) || len(call.Call.Args) != len(g.Params) {
		return false
	}
	pi := -1
	for i, a := range call.Call.Args {
		if readsAnyPart(a, p) && types.Identical(a.Type(), p.Type()) {
			pi = i
		}
	}
	if pi < 0 {
		return false
	}
	gp := g.Params[pi]
	rets := 0
	for _, b := range g.Blocks {
		r, ok := blockTerm(b).(*ssa.Return)
		if !ok {
			continue
		}
		rets++
		if len(r.Results) != 1 {
			return false
		}
		ld, ok := r.Results[0].(*ssa.UnOp)
		if !ok || ld.Op != token.MUL {
			return false
		}
		h, ok := ld.X.(*ssa.Alloc)
		if !ok || h.Referrers() == nil {
			return false
		}
		fwd := false
		for _, ref := range *h.Referrers() {
			fa, ok := ref.(*ssa.FieldAddr)
			if !ok || fieldName(fa.X.Type(), fa.Field) != name || fa.Referrers() == nil {
				continue
			}
			for _, r2 := range *fa.Referrers() {
				if s2, ok := r2.(*ssa.Store); ok && s2.Addr == ssa.Value(fa) {
					if readsParamField(s2.Val, gp, name) && instrDominates(s2, ld) {
						fwd = true
					} else {
						return false // something else is stored into the field on the way
					}
				}
			}
		}
		if !fwd {
			return false
		}
	}
	return rets > 0
}
